(* Timeout.v — executable model of scrapli's timeout decorator (scrapli/decorators.py: timeout_wrapper,
   _multiprocessing_timeout, _handle_timeout, _signal_raise_exception, _get_transport_logger_timeout,
   _get_timeout_message) and of a channel operation decorated with it running over a transport whose
   read() is decorated too (the nesting of the sync and async channel modules over the transport plugins).
   Definitions only; the proofs are in proofs/Timeout_Proofs.v.

   Time is an absolute clock in milliseconds ([now] of the process state).  The interval timer is kept
   as the absolute instant at which it fires ([deadline], 0 = disarmed): the passage of time then does
   not change it, only scrapli's own setitimer calls do.

   [rearm] selects the code as it is now (the signal mechanism remembers what setitimer returned and
   re-arms what is left of a timer that was pending: true) or as it was at the pinned commit
   (ITIMER_REAL is zeroed in the finally: false).

   asyncio: the counterpart of a pool worker is a task / awaited coroutine.  [tasks] of the process state
   counts the wrapped calls that a decorator started and that are still running although the decorated call
   is over.  [c_cancel] selects the code as it is (asyncio.wait_for: a decorated call that is cancelled -
   which is what the enclosing channel limit does to the decorated transport read - cancels the wrapped call
   and waits for it: true) or a decorator that runs the wrapped call as a task of its own and only stops
   waiting for it (false): then the transport read stays behind, still waiting for the device. *)
From Verif Require Import Bytes.

(* ---- mechanism selection: decorators.py, decorate() ---- *)
Inductive mech := MSignal | MThread | MAsync.

Definition select_mech (thread_classes : list bytes) (is_coro : bool) (cls : bytes)
           (windows main_thread : bool) : mech :=
  if is_coro then MAsync
  else if existsb (beq cls) thread_classes || windows || negb main_thread then MThread
  else MSignal.

(* ---- _get_timeout_message ---- *)
Fixpoint lookup (m : list (bytes * bytes)) (k : bytes) : option bytes :=
  match m with
  | [] => None
  | (k', v) :: r => if beq k' k then Some v else lookup r k
  end.
Definition timeout_message (m : list (bytes * bytes)) (dflt fname : bytes) : bytes :=
  match lookup m fname with Some v => v | None => dflt end.

(* ---- _get_transport_logger_timeout: an object with a .transport attribute is a channel ---- *)
Definition get_timeout (has_transport_attr : bool) (timeout_ops timeout_transport : N) : N :=
  if has_transport_attr then timeout_ops else timeout_transport.

(* ---- process state ---- *)
Inductive hnd := HDefault | HIgnore | HUser (id : N) | HScrapli (msg : bytes).

Record pstate := mkP {
  now : N;          (* clock, ms *)
  handler : hnd;    (* installed SIGALRM handler *)
  deadline : N;     (* absolute instant at which ITIMER_REAL fires; 0 = disarmed *)
  interval : N;     (* reload value of ITIMER_REAL *)
  workers : nat;    (* pool worker threads still running *)
  topen : bool;     (* transport open *)
  lock : bool;      (* channel lock held *)
  tasks : nat       (* asyncio: wrapped calls started by a decorator that are still running though the
                       decorated call that started them is over (the counterpart of a pool worker) *)
}.

Definition set_now (t : N) (s : pstate) : pstate :=
  mkP t (handler s) (deadline s) (interval s) (workers s) (topen s) (lock s) (tasks s).
Definition set_alarm (h : hnd) (d i : N) (s : pstate) : pstate :=
  mkP (now s) h d i (workers s) (topen s) (lock s) (tasks s).
Definition set_open (b : bool) (s : pstate) : pstate :=
  mkP (now s) (handler s) (deadline s) (interval s) (workers s) b (lock s) (tasks s).
Definition stuck (w : nat) (l : bool) (s : pstate) : pstate :=
  mkP (now s) (handler s) (deadline s) (interval s) (workers s + w) (topen s) (lock s || l) (tasks s).
Definition orphaned (n : nat) (s : pstate) : pstate :=
  mkP (now s) (handler s) (deadline s) (interval s) (workers s) (topen s) (lock s) (tasks s + n).

(* ---- what a wrapped call does on its own ---- *)
Inductive leaf :=
| Ret (d v : N)      (* runs for d ms, returns v; not affected by the transport being closed *)
| Exc (d e : N)      (* runs for d ms, raises exception number e (not a ScrapliTimeout) *)
| Stall              (* blocks for ever, whatever happens to the transport *)
| StallClosed.       (* blocks until the transport is closed, then raises ScrapliConnectionError *)

Inductive exc := ETimeout (msg : bytes) | ENotOpened | EConn | EOther (e : N).
Inductive outcome := Returned (v : N) | Raised (e : exc) | Hang.
Record result := mkR { out : outcome; rst : pstate }.

Definition is_stall (l : leaf) : bool :=
  match l with Stall | StallClosed => true | _ => false end.

Definition omin (a b : option N) : option N :=
  match a, b with
  | Some x, Some y => Some (N.min x y)
  | Some x, None => Some x
  | None, y => y
  end.

(* does t lie strictly before the optional instant? *)
Definition before (t : N) (o : option N) : bool :=
  match o with Some x => t <? x | None => true end.
Definition reached (o : option N) (t : N) : bool :=
  match o with Some x => x <=? t | None => false end.

(* a leaf started at [start] on an open transport; [ca] = the instant at which some other thread
   closes the transport (None: nobody does).  None = it never ends. *)
Definition leaf_fin (l : leaf) (start : N) (ca : option N) : option (N * outcome) :=
  match l with
  | Ret d v => Some (start + d, Returned v)
  | Exc d e => Some (start + d, Raised (EOther e))
  | Stall => None
  | StallClosed => match ca with
                   | Some c => Some (N.max c start, Raised EConn)
                   | None => None
                   end
  end.

(* _handle_timeout: close the transport unless Settings.NO_TERMINATE_ON_TIMEOUT *)
Definition close_unless (nt : bool) (s : pstate) : pstate := if nt then s else set_open false s.

(* ---- no timeout at all: the body run directly (what `if not timeout: return wrapped_func()` does) ---- *)
Fixpoint plain_seq (ls : list leaf) (s : pstate) (last : N) : result :=
  match ls with
  | [] => mkR (Returned last) s
  | l :: r =>
      if negb (topen s) then mkR (Raised ENotOpened) s else
      match leaf_fin l (now s) None with
      | None => mkR Hang s
      | Some (f, Returned v) => plain_seq r (set_now f s) v
      | Some (f, o) => mkR o (set_now f s)
      end
  end.

(* ======================== signal mechanism ======================== *)
Definition alarm (s : pstate) : option (N * bytes) :=
  match handler s with
  | HScrapli m => if deadline s =? 0 then None else Some (deadline s, m)
  | _ => None
  end.

(* a leaf run in the main thread under whatever scrapli alarm is installed *)
Definition sig_leaf (nt : bool) (l : leaf) (s : pstate) : result :=
  if negb (topen s) then mkR (Raised ENotOpened) s else
  let fin := leaf_fin l (now s) None in
  match alarm s with
  | Some (dl, m) =>
      let fire := N.max dl (now s) in
      let fired := mkR (Raised (ETimeout m))
                       (close_unless nt (set_alarm (handler s) 0 0 (set_now fire s))) in
      match fin with
      | Some (f, o) => if f <? fire then mkR o (set_now f s) else fired
      | None => fired
      end
  | None =>
      match fin with
      | Some (f, o) => mkR o (set_now f s)
      | None => mkR Hang s
      end
  end.

(* decorate(), signal branch: install handler + setitimer; finally: timer and handler back *)
Definition sig_wrap (rearm nt : bool) (T : N) (m : bytes) (body : pstate -> result) (s : pstate)
  : result :=
  if T =? 0 then body s else
  let r := body (set_alarm (HScrapli m) (now s + T) 0 s) in
  match out r with
  | Hang => r
  | o =>
      let s2 := rst r in
      if rearm then
        if deadline s =? 0 then mkR o (set_alarm (handler s) 0 (interval s) s2)
        else if deadline s <=? now s2 then
          (* the timer that was pending is overdue: re-armed to fire at once *)
          match handler s with
          | HScrapli m' =>
              mkR (Raised (ETimeout m')) (close_unless nt (set_alarm (handler s) 0 0 s2))
          | h => mkR o (set_alarm h (now s2 + 1) (interval s) s2)
          end
        else mkR o (set_alarm (handler s) (deadline s) (interval s) s2)
      else mkR o (set_alarm (handler s) 0 0 s2)
  end.

Fixpoint sig_seq (step : leaf -> pstate -> result) (ls : list leaf) (s : pstate) (last : N)
  : result :=
  match ls with
  | [] => mkR (Returned last) s
  | l :: r =>
      let x := step l s in
      match out x with
      | Returned v => sig_seq step r (rst x) v
      | _ => x
      end
  end.

Definition sig_op (rearm nt : bool) (To : N) (mo : bytes) (wrapped : bool) (Ti : N) (mi : bytes)
           (locked : bool) (ls : list leaf) (s : pstate) : result :=
  let step l s' := if wrapped then sig_wrap rearm nt Ti mi (sig_leaf nt l) s' else sig_leaf nt l s' in
  let r := sig_wrap rearm nt To mo (fun s' => sig_seq step ls s' 0) s in
  match out r with
  | Hang => mkR Hang (stuck 0 locked (rst r))
  | _ => r
  end.

(* ======================== thread mechanism ======================== *)
(* one decorated leaf call (_multiprocessing_timeout): the leaf runs in a pool worker, the caller
   waits T, handles the timeout, and the pool's __exit__ joins the worker.
   [oc]: instant at which an enclosing wrapper closes the transport (None: never).
   Result: instant at which the call ends in the caller's thread, outcome, transport closed by it. *)
Definition thr_leaf (nt : bool) (T : N) (m : bytes) (l : leaf) (start : N) (oc : option N)
  : option (N * outcome * bool) :=
  if T =? 0 then
    match leaf_fin l start oc with Some (f, o) => Some (f, o, false) | None => None end
  else
    let dl := start + T in
    let ca := if nt then None else omin (Some dl) oc in
    match leaf_fin l start ca with
    | Some (f, o) => if f <? dl then Some (f, o, false)
                     else Some (N.max dl f, Raised (ETimeout m), negb nt)
    | None => None
    end.

(* the body of the operation, running in the outer worker (or in the caller when To = 0) *)
Fixpoint thr_body (nt wrapped : bool) (Ti : N) (mi : bytes) (oc : option N)
         (ls : list leaf) (t last : N) : option (N * outcome * bool) :=
  match ls with
  | [] => Some (t, Returned last, false)
  | l :: r =>
      if reached oc t then Some (t, Raised ENotOpened, false) else
      match (if wrapped then thr_leaf nt Ti mi l t oc
             else match leaf_fin l t oc with Some (f, o) => Some (f, o, false) | None => None end) with
      | None => None
      | Some (f, Returned v, _) => thr_body nt wrapped Ti mi oc r f v
      | Some x => Some x
      end
  end.

Definition thr_op (nt : bool) (To : N) (mo : bytes) (wrapped : bool) (Ti : N) (mi : bytes)
           (locked : bool) (ls : list leaf) (s : pstate) : result :=
  let shut := if topen s then None else Some 0 in   (* a closed transport: every read raises at once *)
  if To =? 0 then
    match thr_body nt wrapped Ti mi shut ls (now s) 0 with
    | None => mkR Hang (stuck (if wrapped && negb (Ti =? 0) then 1 else 0) locked s)
    | Some (f, o, c) => mkR o (set_open (topen s && negb c) (set_now f s))
    end
  else
    let Do := now s + To in
    match thr_body nt wrapped Ti mi (if topen s then (if nt then None else Some Do) else shut)
                   ls (now s) 0 with
    | None => mkR Hang (stuck 1 locked s)
    | Some (f, o, c) =>
        if f <? Do then mkR o (set_open (topen s && negb c) (set_now f s))
        else mkR (Raised (ETimeout mo)) (set_open (topen s && nt) (set_now (N.max Do f) s))
    end.

(* ======================== asyncio mechanism ======================== *)
(* BCancelled: the operation's own limit fell due and its body was cancelled; [inner] = the cancellation hit
   the body inside a decorated transport read whose own limit was switched on (the decorator had started the
   wrapped read and was waiting for it) and the read does not end by the transport being closed *)
Inductive bres := BFin (t : N) (o : outcome) (closed : bool) | BCancelled (inner : bool) | BHang.

Definition inner_live (wrapped : bool) (Ti : N) (nt : bool) (l : leaf) : bool :=
  wrapped && negb (Ti =? 0)
  && match l with StallClosed => nt | _ => true end.   (* closing the transport ends such a read at once *)

(* [poll]: the authentication loops of the asyncio channel read with wait_for(self.read(), poll);
   a transport timeout that is not shorter than the poll interval never fires (0: no polling) *)
Definition inner_deadline (wrapped : bool) (Ti poll t : N) : option N :=
  if wrapped && negb (Ti =? 0) && ((poll =? 0) || (Ti <? poll)) then Some (t + Ti) else None.

Fixpoint asy_body (nt wrapped : bool) (Ti : N) (mi : bytes) (poll : N) (Do : option N)
         (ls : list leaf) (t last : N) (opn : bool) : bres :=
  match ls with
  | [] => BFin t (Returned last) false
  | l :: r =>
      if reached Do t then BCancelled false else
      if negb opn then BFin t (Raised ENotOpened) false else
      let Di := inner_deadline wrapped Ti poll t in
      let timed_out :=
        match Di, Do with
        | Some di, Some d => if di <? d then BFin di (Raised (ETimeout mi)) (negb nt)
                             else BCancelled (inner_live wrapped Ti nt l)
        | Some di, None => BFin di (Raised (ETimeout mi)) (negb nt)
        | None, Some _ => BCancelled (inner_live wrapped Ti nt l)
        | None, None => BHang
        end in
      match leaf_fin l t None with
      | Some (f, o) =>
          if before f (omin Di Do) then
            match o with
            | Returned v => asy_body nt wrapped Ti mi poll Do r f v opn
            | _ => BFin f o false
            end
          else timed_out
      | None => timed_out
      end
  end.

(* [cancel]: cancelling a decorated call cancels the wrapped call it is waiting for.  true = the code as it
   is (asyncio.wait_for: the awaited coroutine is cancelled and awaited before the cancellation goes on);
   false = a decorator that starts the wrapped call as a task of its own and merely stops waiting for it when
   it is cancelled itself: the wrapped transport read stays behind, still waiting for the device *)
Definition asy_op (cancel nt : bool) (To : N) (mo : bytes) (wrapped : bool) (Ti : N) (mi : bytes)
           (poll : N) (locked : bool) (ls : list leaf) (s : pstate) : result :=
  let Do := if To =? 0 then None else Some (now s + To) in
  match asy_body nt wrapped Ti mi poll Do ls (now s) 0 (topen s) with
  | BFin t o c => mkR o (set_open (topen s && negb c) (set_now t s))
  | BCancelled inner =>
      mkR (Raised (ETimeout mo))
          (orphaned (if cancel then 0 else if inner then 1 else 0)
             (close_unless nt (set_now (match Do with Some d => d | None => now s end) s)))
  | BHang => mkR Hang (stuck 0 locked s)
  end.

(* ======================== the decorated operation ======================== *)
Record opcfg := mkC {
  c_rearm : bool;      (* see the header *)
  c_nt : bool;         (* Settings.NO_TERMINATE_ON_TIMEOUT *)
  c_To : N;            (* timeout of the outer (channel) call: timeout_ops *)
  c_mo : bytes;        (* its timeout message *)
  c_wrapped : bool;    (* the transport's read() is decorated too *)
  c_Ti : N;            (* timeout_transport *)
  c_mi : bytes;        (* message of the inner call *)
  c_poll : N;          (* asyncio authentication loops: poll interval of wait_for(read()), else 0 *)
  c_locked : bool;     (* the operation takes the channel lock *)
  c_cancel : bool      (* asyncio: cancelling a decorated call cancels the wrapped call (see asy_op) *)
}.

Definition run_op (m : mech) (c : opcfg) (ls : list leaf) (s : pstate) : result :=
  match m with
  | MSignal => sig_op (c_rearm c) (c_nt c) (c_To c) (c_mo c) (c_wrapped c) (c_Ti c) (c_mi c)
                      (c_locked c) ls s
  | MThread => thr_op (c_nt c) (c_To c) (c_mo c) (c_wrapped c) (c_Ti c) (c_mi c) (c_locked c) ls s
  | MAsync => asy_op (c_cancel c) (c_nt c) (c_To c) (c_mo c) (c_wrapped c) (c_Ti c) (c_mi c) (c_poll c)
                     (c_locked c) ls s
  end.

(* one decorated call whose body is the leaf itself (a transport read, or any decorated function) *)
Definition run_wrapped (m : mech) (rearm nt : bool) (T : N) (msg : bytes) (l : leaf) (s : pstate)
  : result :=
  run_op m (mkC rearm nt T msg false 0 [] 0 false true) [l] s.

(* the mechanism of the inner call, given that of the outer one: a thread-mechanism operation runs its
   body (hence the transport read) in a pool worker, which is not the main thread *)
Definition inner_main_thread (outer : mech) (main_thread : bool) : bool :=
  match outer with MThread => false | _ => main_thread end.

(* ======================== specification side ======================== *)
(* the reads that the device answers before it goes silent: each returns after some time *)
Fixpoint all_ret (ls : list leaf) : bool :=
  match ls with [] => true | Ret _ _ :: r => all_ret r | _ => false end.
Fixpoint dur (ls : list leaf) : N :=
  match ls with [] => 0 | Ret d _ :: r => d + dur r | Exc d _ :: r => d + dur r | _ :: r => dur r end.
Fixpoint each_lt (T : N) (ls : list leaf) : bool :=
  match ls with [] => true | Ret d _ :: r => (d <? T) && each_lt T r | _ :: r => each_lt T r end.
Fixpoint last_val (ls : list leaf) (v0 : N) : N :=
  match ls with [] => v0 | Ret _ v :: r => last_val r v | _ :: r => last_val r v0 end.

(* does the transport timeout of the inner call apply at all? *)
Definition inner_eff (m : mech) (c : opcfg) : bool :=
  c_wrapped c && negb (c_Ti c =? 0)
  && match m with MAsync => (c_poll c =? 0) || (c_Ti c <? c_poll c) | _ => true end.

Definition user_handler (s : pstate) : bool :=
  match handler s with HScrapli _ => false | _ => true end.

(* "the previous timer is put back": untouched if it is still in the future (or there was none); a timer
   that fell due while the signal mechanism had borrowed SIGALRM is set to fire at once *)
Definition timer_back (m : mech) (s s' : pstate) : Prop :=
  interval s' = interval s /\
  (deadline s' = deadline s \/
   (m = MSignal /\ deadline s <> 0 /\ deadline s <= now s' /\ deadline s' = now s' + 1)).

(* process-wide state put back *)
Definition restored (m : mech) (s s' : pstate) : Prop :=
  handler s' = handler s /\ timer_back m s s' /\ workers s' = workers s /\ lock s' = lock s /\
  tasks s' = tasks s.

(* helpers for the obligations over the generated tables (props/C07.v) *)
Definition fst3 {A B C} (x : A * B * C) : A := fst (fst x).
Definition snd3 {A B C} (x : A * B * C) : B := snd (fst x).
Definition str_read : bytes := [114;101;97;100].   (* "read" *)

(* ======================== histories: several decorated calls on ONE connection object ======================== *)
(* One call of a history: a decorated transport read / channel method whose body is one read ([h_leaf]), with the
   limit that applies to it ([h_T]: timeout_transport resp. timeout_ops at the time of the call, 0 = none) and the
   CONTEXT it is issued in: the platform flag and whether the issuing thread is the main thread.  The class name of
   the transport belongs to the object and is the same for the whole history. *)
Record hcall := mkH {
  h_windows : bool;    (* decorators._IS_WINDOWS at the time of the call *)
  h_main : bool;       (* the call is issued from the main thread *)
  h_nt : bool;         (* Settings.NO_TERMINATE_ON_TIMEOUT at the time of the call *)
  h_T : N;             (* the limit of this call *)
  h_msg : bytes;       (* its timeout message *)
  h_leaf : leaf        (* what the device does with the one read of the call *)
}.

(* the mechanism of a call: select_mech of THAT call's context; nothing of the calls before it *)
Definition call_mech (tc : list bytes) (coro : bool) (cls : bytes) (c : hcall) : mech :=
  select_mech tc coro cls (h_windows c) (h_main c).

Definition run_call (m : mech) (c : hcall) (s : pstate) : result :=
  run_wrapped m true (h_nt c) (h_T c) (h_msg c) (h_leaf c) s.

(* the calls one after the other on the same object; the only thing handed from one call to the next is the
   process state the previous call left behind.  A connection that an earlier timeout closed is opened again
   before the next call.  Each entry: (mechanism used, result).  A call that never comes back ends the history. *)
Fixpoint run_hist (tc : list bytes) (coro : bool) (cls : bytes) (calls : list hcall) (s : pstate)
  : list (mech * result) :=
  match calls with
  | [] => []
  | c :: r =>
      let m := call_mech tc coro cls c in
      let x := run_call m c (set_open true s) in
      (m, x) :: match out x with Hang => [] | _ => run_hist tc coro cls r (rst x) end
  end.

(* NOT the code as it is - what the history theorems rule out: the mechanism worked out at the first call that
   has a limit and kept on the connection object for all later calls *)
Fixpoint run_hist_cached (tc : list bytes) (coro : bool) (cls : bytes) (cache : option mech)
         (calls : list hcall) (s : pstate) : list (mech * result) :=
  match calls with
  | [] => []
  | c :: r =>
      let m := match cache with Some m' => m' | None => call_mech tc coro cls c end in
      let cache' := if h_T c =? 0 then cache else Some m in
      let x := run_call m c (set_open true s) in
      (m, x) :: match out x with Hang => [] | _ => run_hist_cached tc coro cls cache' r (rst x) end
  end.

(* specification side: what a call of a history must do, from the call alone *)
Definition call_ok (m : mech) (c : hcall) : Prop :=
  match h_leaf c with
  | Ret d _ | Exc d _ => h_T c = 0 \/ d < h_T c              (* the device answers within the limit *)
  | l => 0 < h_T c /\ (m = MThread -> h_nt c = false /\ l = StallClosed)   (* silent device, a limit is set *)
  end.
Definition want_out (c : hcall) : outcome :=
  match h_leaf c with
  | Ret _ v => Returned v
  | Exc _ e => Raised (EOther e)
  | _ => Raised (ETimeout (h_msg c))
  end.
Definition want_dur (c : hcall) : N :=
  match h_leaf c with Ret d _ | Exc d _ => d | _ => h_T c end.
Definition want_open (c : hcall) : bool :=
  match h_leaf c with Ret _ _ | Exc _ _ => true | _ => h_nt c end.
(* (outcome, instant at which the call is over, transport open afterwards) of every call, from the calls and the
   starting instant alone *)
Fixpoint want_hist (calls : list hcall) (t : N) : list (outcome * N * bool) :=
  match calls with
  | [] => []
  | c :: r => (want_out c, t + want_dur c, want_open c) :: want_hist r (t + want_dur c)
  end.
Definition seen (x : mech * result) : outcome * N * bool :=
  (out (snd x), now (rst (snd x)), topen (rst (snd x))).
(* what no call of a history may change *)
Definition keeps (s s' : pstate) : Prop :=
  handler s' = handler s /\ interval s' = interval s /\ workers s' = workers s /\ lock s' = lock s /\
  tasks s' = tasks s.
