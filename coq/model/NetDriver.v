(* NetDriver.v — executable model of scrapli's network driver privilege logic
   (scrapli/driver/network/{base_driver,sync_driver,async_driver}.py and the five core platforms'
   _abort_config / register_configuration_session / on_open), over a line-RPC device.
   Definitions only; proofs are in proofs/NetDriver_Proofs.v.

   Levels, device modes and lines are interned as [nat]s by gen/gen_netdriver.py:
   a level id is the index of the level in the platform's universe [p_levels] (PRIVS in dict order,
   then the candidate configuration sessions); a device mode is the id of the level of the same
   name; a line is the id of a string (table commands < 100, user content >= 100).
   The driver's `privilege_levels` dict is [reg]: the ids of its keys, in dict order. *)
From Coq Require Import List Arith Bool.
Import ListNotations.

Record level := mkLevel {
  l_prev : option nat;   (* previous_priv ("" = None) *)
  l_esc : nat;           (* escalate command *)
  l_deesc : nat;         (* deescalate command *)
  l_cls : nat;           (* share class: equal iff pattern string and not_contains list are equal *)
  l_sess : bool          (* <marker> in pattern: the test of the NX-OS / EOS _abort_config (marker = "config\\-s", read from the source) *)
}.

(* the platform's _abort_config *)
Inductive abort_kind :=
| AbNone                                            (* NetworkDriver / IOS-XE: no-op *)
| AbSend (cmd target : nat)                         (* IOS-XR: send_input(cmd); belief := target *)
| AbSess (cmd target : nat)                         (* NX-OS / EOS: the same, if the believed level is a session *)
| AbCfgs (lines : list nat) (passes_level : bool) (target : nat).
      (* Junos: send_configs(lines [, privilege_level = believed level's name]); belief := target *)

Record platform := mkPlatform {
  p_levels : list level;             (* universe *)
  p_base : nat;                      (* the first p_base levels are PRIVS (registered at construction) *)
  p_default : nat;                   (* default_desired_privilege_level *)
  p_cfg : nat;                       (* the level named "configuration" *)
  p_abort : abort_kind;
  p_open : list nat;                 (* lines the on_open function sends after acquire_priv(default) *)
  p_dev : list (nat * nat * nat);    (* vendor device: (mode, line, new mode); any other line leaves the mode *)
  p_login : list nat;                (* modes the device can be in at login *)
  p_cands : list nat;                (* levels register_configuration_session can add *)
  p_regs : list (list nat);          (* the key orders `privilege_levels` can take *)
  p_reset_first : bool;              (* ast fact: in acquire_priv's loop the belief is reset to DUMMY BEFORE the
                                        _escalate / _deescalate call (true for the code as it is); false = after it *)
  p_reg_keeps : bool                 (* ast fact: register_configuration_session / _create_configuration_session /
                                        update_privilege_levels (and what it calls) never assign _current_priv_level
                                        (true for the code as it is); false = the belief is reset to DUMMY there *)
}.

Definition dummy_level := mkLevel None 0 0 0 false.
Definition lvl (P : platform) (i : nat) : level := nth i (p_levels P) dummy_level.

Fixpoint mem (x : nat) (l : list nat) : bool :=
  match l with [] => false | y :: r => (x =? y) || mem x r end.

Definition opt_eqb (a b : option nat) : bool :=
  match a, b with Some x, Some y => x =? y | None, None => true | _, _ => false end.

(* ---- the device: a line either is a transition of the vendor table in this mode, or is content ---- *)
Fixpoint dlookup (d : list (nat * nat * nat)) (m l : nat) : option nat :=
  match d with
  | [] => None
  | (m0, l0, m1) :: r => if (m0 =? m) && (l0 =? l) then Some m1 else dlookup r m l
  end.
Definition dstep (P : platform) (m l : nat) : nat :=
  match dlookup (p_dev P) m l with Some m' => m' | None => m end.

(* the proviso of the property: a user line never changes the device's mode *)
Definition neutral (P : platform) (l : nat) : bool :=
  forallb (fun t => match t with (m0, l0, m1) => negb (l0 =? l) || (m0 =? m1) end) (p_dev P).

(* ---- outcomes, log ---- *)
Inductive result := Ok | PrivErr | ValueErr | IndexErr | OutOfFuel | Interrupted.
Inductive kind := KNav | KAbort | KOpen | KUser.
Definition entry := (nat * nat * kind)%type.   (* (device mode at execution, line, who sent it) *)

(* ---- _determine_current_priv on the prompt of [m]: the registered levels of m's share class, dict order ---- *)
Definition matches (P : platform) (reg : list nat) (m : nat) : list nat :=
  filter (fun i => l_cls (lvl P i) =? l_cls (lvl P m)) reg.

Definition unamb (P : platform) (reg : list nat) (m : nat) : bool :=
  match matches P reg m with [x] => x =? m | _ => false end.

(* ---- _build_priv_graph / _build_priv_change_map ---- *)
Definition nbrs (P : platform) (reg : list nat) (a : nat) : list nat :=
  (match l_prev (lvl P a) with Some p => if mem p reg then [p] else [] | None => [] end)
  ++ filter (fun b => opt_eqb (l_prev (lvl P b)) (Some a)) reg.

Fixpoint change_map (P : platform) (reg : list nat) (fuel : nat) (start dest : nat) (acc : list nat) : list nat :=
  match fuel with
  | O => []
  | S f =>
      let acc' := acc ++ [start] in
      if start =? dest then acc'
      else (fix try (ns : list nat) : list nat :=
              match ns with
              | [] => []
              | n :: r => if mem n acc' then try r
                          else match change_map P reg f n dest acc' with [] => try r | p => p end
              end) (nbrs P reg start)
  end.

(* ---- _process_acquire_priv ---- *)
Inductive action := ANone | ADeesc (cur : nat) | AEsc (nxt : nat) | ANoMatch | ANoPath.

Definition current_of (belief : option nat) (dest : nat) (ms : list nat) : option nat :=
  match ms with
  | [] => None
  | first :: _ =>
      match belief with
      | Some b => if mem b ms then Some b else if mem dest ms then Some dest else Some first
      | None => if mem dest ms then Some dest else Some first
      end
  end.

Definition process_acquire (P : platform) (reg : list nat) (belief : option nat) (dest : nat) (ms : list nat)
  : action :=
  match current_of belief dest ms with
  | None => ANoMatch                                      (* ScrapliPrivilegeError from _determine_current_priv *)
  | Some cur =>
      if cur =? dest then ANone
      else match change_map P reg (S (length reg)) cur dest [] with
           | _ :: nxt :: _ => if opt_eqb (l_prev (lvl P nxt)) (Some cur) then AEsc nxt else ADeesc cur
           | _ => ANoPath                                 (* map_to_destination_priv[1]: IndexError *)
           end
  end.

(* ---- acquire_priv: (belief', mode', log, result) ---- *)
Fixpoint acquire_loop (P : platform) (reg : list nat) (fuel count : nat) (belief : option nat) (m dest : nat)
         (seg : list entry) : option nat * nat * list entry * result :=
  match fuel with
  | O => (belief, m, seg, OutOfFuel)
  | S f =>
      match process_acquire P reg belief dest (matches P reg m) with
      | ANoMatch => (belief, m, seg, PrivErr)
      | ANoPath => (None, m, seg, IndexErr)
      | ANone => (Some dest, m, seg, Ok)
      | ADeesc cur =>
          let c := l_deesc (lvl P cur) in
          if length reg * 2 <? S count then (None, dstep P m c, seg ++ [(m, c, KNav)], PrivErr)
          else acquire_loop P reg f (S count) None (dstep P m c) dest (seg ++ [(m, c, KNav)])
      | AEsc nxt =>
          let c := l_esc (lvl P nxt) in
          if length reg * 2 <? S count then (None, dstep P m c, seg ++ [(m, c, KNav)], PrivErr)
          else acquire_loop P reg f (S count) None (dstep P m c) dest (seg ++ [(m, c, KNav)])
      end
  end.

Definition acquire (P : platform) (reg : list nat) (belief : option nat) (m dest : nat)
  : option nat * nat * list entry * result :=
  if mem dest reg then acquire_loop P reg (length reg * 2 + 2) 0 belief m dest []
  else (belief, m, [], PrivErr).                          (* _validate_privilege_level_name *)

(* acquire unless already believed there *)
Definition ensure (P : platform) (reg : list nat) (belief : option nat) (m dest : nat)
  : option nat * nat * list entry * result :=
  if opt_eqb belief (Some dest) then (belief, m, [], Ok) else acquire P reg belief m dest.

(* ---- GenericDriver.send_commands: a user line = (line, its output contains a failed_when marker) ---- *)
Definition uline := (nat * bool)%type.

Fixpoint send_lines (P : platform) (k : kind) (stop : bool) (m : nat) (ls : list uline)
  : nat * list entry * bool :=
  match ls with
  | [] => (m, [], false)
  | (l, f) :: r =>
      if stop && f then (dstep P m l, [(m, l, k)], true)
      else match send_lines P k stop (dstep P m l) r with
           | (m', seg, fl) => (m', (m, l, k) :: seg, f || fl)
           end
  end.

(* send_configs without the abort step (generic-mode test done by the caller) *)
Definition send_configs_core (P : platform) (k : kind) (reg : list nat) (belief : option nat) (m : nat)
           (ls : list uline) (stop : bool) (priv : option nat)
  : option nat * nat * list entry * result * bool :=
  let go (resolved : nat) :=
      match ensure P reg belief m resolved with
      | (b1, m1, seg1, Ok) =>
          match send_lines P k stop m1 ls with
          | (m2, seg2, fl) => (b1, m2, seg1 ++ seg2, Ok, fl)
          end
      | (b1, m1, seg1, e) => (b1, m1, seg1, e, false)
      end in
  match priv with
  | Some p => if mem p reg then go p else (belief, m, [], PrivErr, false)
  | None => go (p_cfg P)
  end.

(* _abort_config, called with the state send_configs left *)
Definition abort_config (P : platform) (reg : list nat) (belief : option nat) (m : nat)
  : option nat * nat * list entry * result :=
  match p_abort P with
  | AbNone => (belief, m, [], Ok)
  | AbSend c t => (Some t, dstep P m c, [(m, c, KAbort)], Ok)
  | AbSess c t =>
      match belief with
      | Some b => if l_sess (lvl P b) then (Some t, dstep P m c, [(m, c, KAbort)], Ok) else (belief, m, [], Ok)
      | None => (belief, m, [], Ok)                       (* DUMMY's pattern is "" *)
      end
  | AbCfgs lines passes t =>
      let priv := if passes then Some (match belief with Some b => b | None => length (p_levels P) end)
                  else None in                            (* "DUMMY" is never a key *)
      match send_configs_core P KAbort reg belief m (map (fun l => (l, false)) lines) false priv with
      | (b1, m1, seg, Ok, _) => (Some t, m1, seg, Ok)
      | (b1, m1, seg, e, _) => (b1, m1, seg, e)
      end
  end.

(* ---- driver + device state, operations ---- *)
Record state := mkSt { belief : option nat; generic : bool; reg : list nat; mode : nat }.

Inductive op :=
| OOpen                                                        (* on_open *)
| OSendCommands (ls : list uline) (stop : bool)                (* send_command(s) *)
| OSendConfigs (ls : list uline) (stop : bool) (priv : option nat)   (* send_config(s); None = "" *)
| OAcquire (d : nat)                                           (* acquire_priv *)
| OInteractive (ls : list nat) (priv : option nat)             (* send_interactive; inputs of the events *)
| ORegister (k : nat)                                          (* register_configuration_session *)
| OSetGeneric (b : bool).                                      (* _generic_driver_mode = b *)

Definition run_op (P : platform) (s : state) (o : op) : state * list entry * result :=
  match o with
  | OOpen =>
      match acquire P (reg s) (belief s) (mode s) (p_default P) with
      | (b1, m1, seg1, Ok) =>
          match send_lines P KOpen false m1 (map (fun l => (l, false)) (p_open P)) with
          | (m2, seg2, _) => (mkSt b1 (generic s) (reg s) m2, seg1 ++ seg2, Ok)
          end
      | (b1, m1, seg1, e) => (mkSt b1 (generic s) (reg s) m1, seg1, e)
      end
  | OSendCommands ls stop =>
      let '(b1, m1, seg1, r1) :=
          if generic s then (belief s, mode s, [], Ok)
          else ensure P (reg s) (belief s) (mode s) (p_default P) in
      match r1 with
      | Ok => match send_lines P KUser stop m1 ls with
              | (m2, seg2, _) => (mkSt b1 (generic s) (reg s) m2, seg1 ++ seg2, Ok)
              end
      | e => (mkSt b1 (generic s) (reg s) m1, seg1, e)
      end
  | OSendConfigs ls stop priv =>
      if generic s then (s, [], PrivErr)
      else
        match send_configs_core P KUser (reg s) (belief s) (mode s) ls stop priv with
        | (b1, m1, seg1, Ok, fl) =>
            if stop && fl then
              match abort_config P (reg s) b1 m1 with
              | (b2, m2, seg2, r2) => (mkSt b2 (generic s) (reg s) m2, seg1 ++ seg2, r2)
              end
            else (mkSt b1 (generic s) (reg s) m1, seg1, Ok)
        | (b1, m1, seg1, e, _) => (mkSt b1 (generic s) (reg s) m1, seg1, e)
        end
  | OAcquire d =>
      match acquire P (reg s) (belief s) (mode s) d with
      | (b1, m1, seg1, r) => (mkSt b1 (generic s) (reg s) m1, seg1, r)
      end
  | OInteractive ls priv =>
      let '(b1, m1, seg1, r1) :=
          match priv with
          | None => if generic s then (belief s, mode s, [], Ok)
                    else ensure P (reg s) (belief s) (mode s) (p_default P)
          | Some p => if mem p (reg s) then ensure P (reg s) (belief s) (mode s) p
                      else (belief s, mode s, [], PrivErr)
          end in
      match r1 with
      | Ok => match send_lines P KUser false m1 (map (fun l => (l, false)) ls) with
              | (m2, seg2, _) => (mkSt b1 (generic s) (reg s) m2, seg1 ++ seg2, Ok)
              end
      | e => (mkSt b1 (generic s) (reg s) m1, seg1, e)
      end
  | ORegister k =>
      if mem k (reg s) then (s, [], ValueErr)
      else if mem k (p_cands P)
           then (mkSt (if p_reg_keeps P then belief s else None) (generic s) (reg s ++ [k]) (mode s), [], Ok)
      else (s, [], ValueErr)
  | OSetGeneric b =>
      (mkSt (if b then None else belief s) b (reg s) (mode s), [], Ok)
  end.

(* a history: every operation is run whatever the previous one returned (the caller may catch the error) *)
Fixpoint run_hist (P : platform) (s : state) (h : list op) : list (state * op * list entry * result * state) :=
  match h with
  | [] => []
  | o :: r => match run_op P s o with
              | (s', seg, res) => (s, o, seg, res, s') :: run_hist P s' r
              end
  end.

Definition init (P : platform) (m0 : nat) : state := mkSt None false (seq 0 (p_base P)) m0.

(* ================================================================================================
   Interrupted operations.  The caller may catch an exception raised in the middle of an operation
   (a transport error, a timeout that leaves the connection usable, asyncio cancellation) and go on
   using the connection.  An operation is a sequence of channel calls — prompt queries (get_prompt)
   and line sends (send_input) — and `_current_priv_level` is assigned only between channel calls,
   so an interrupted outcome is: which call was cut, and whether the device had executed its line.
   The driver's state is whatever it had assigned up to that call; the device has executed exactly
   the lines written before the cut (plus the cut one if [x]).
   ================================================================================================ *)
Inductive ipoint :=
| INav (bud : nat) (x : bool)     (* cut while acquiring the level: [bud] channel calls (queries and line sends) completed *)
| ILine (n : nat) (x : bool).     (* level acquired, [n] content lines completed, the next one cut *)

(* acquire_priv's loop with a budget of channel calls.  The belief while the escalate / deescalate line is
   in flight is DUMMY if the reset precedes the step (p_reset_first), the old belief otherwise. *)
Fixpoint acquire_loop_k (P : platform) (reg : list nat) (fuel count : nat) (belief : option nat) (m dest : nat)
         (seg : list entry) (bud : nat) (x : bool) : option nat * nat * list entry * result :=
  match fuel with
  | O => (belief, m, seg, OutOfFuel)
  | S f =>
      match bud with
      | O => (belief, m, seg, Interrupted)                 (* get_prompt cut: nothing assigned, nothing executed *)
      | S bud1 =>
          let step (c : nat) :=
              let bfl := if p_reset_first P then None else belief in
              match bud1 with
              | O => if x then (bfl, dstep P m c, seg ++ [(m, c, KNav)], Interrupted) else (bfl, m, seg, Interrupted)
              | S bud2 =>
                  if length reg * 2 <? S count then (None, dstep P m c, seg ++ [(m, c, KNav)], PrivErr)
                  else acquire_loop_k P reg f (S count) None (dstep P m c) dest (seg ++ [(m, c, KNav)]) bud2 x
              end in
          match process_acquire P reg belief dest (matches P reg m) with
          | ANoMatch => (belief, m, seg, PrivErr)
          | ANoPath => (None, m, seg, IndexErr)
          | ANone => (Some dest, m, seg, Ok)
          | ADeesc cur => step (l_deesc (lvl P cur))
          | AEsc nxt => step (l_esc (lvl P nxt))
          end
      end
  end.

Definition acquire_k (P : platform) (reg : list nat) (belief : option nat) (m dest bud : nat) (x : bool)
  : option nat * nat * list entry * result :=
  if mem dest reg then acquire_loop_k P reg (length reg * 2 + 2) 0 belief m dest [] bud x
  else (belief, m, [], PrivErr).

Definition ensure_k (P : platform) (reg : list nat) (belief : option nat) (m dest bud : nat) (x : bool)
  : option nat * nat * list entry * result :=
  if opt_eqb belief (Some dest) then (belief, m, [], Ok) else acquire_k P reg belief m dest bud x.

(* the send loop with [n] lines completed and the next one cut *)
Fixpoint send_lines_k (P : platform) (k : kind) (stop : bool) (m : nat) (ls : list uline) (n : nat) (x : bool)
  : nat * list entry * result :=
  match ls with
  | [] => (m, [], Ok)
  | (l, f) :: r =>
      match n with
      | O => if x then (dstep P m l, [(m, l, k)], Interrupted) else (m, [], Interrupted)
      | S n1 =>
          if stop && f then (dstep P m l, [(m, l, k)], Ok)
          else match send_lines_k P k stop (dstep P m l) r n1 x with
               | (m', seg, res) => (m', (m, l, k) :: seg, res)
               end
      end
  end.

(* how an operation begins, and the lines it then sends *)
Inductive nav_kind :=
| NavTo (force : bool) (d : nat)   (* acquire_priv(d) (force) / acquire d unless believed there *)
| NoNav                            (* generic-driver mode: the lines are sent wherever the device is *)
| NoIO.                            (* rejected before any I/O, or a local operation *)

Definition op_nav (P : platform) (s : state) (o : op) : nav_kind :=
  match o with
  | OOpen => NavTo true (p_default P)
  | OSendCommands _ _ => if generic s then NoNav else NavTo false (p_default P)
  | OSendConfigs _ _ priv =>
      if generic s then NoIO
      else match priv with
           | Some p => if mem p (reg s) then NavTo false p else NoIO
           | None => NavTo false (p_cfg P)
           end
  | OAcquire d => NavTo true d
  | OInteractive _ priv =>
      match priv with
      | None => if generic s then NoNav else NavTo false (p_default P)
      | Some p => if mem p (reg s) then NavTo false p else NoIO
      end
  | ORegister _ | OSetGeneric _ => NoIO
  end.

Definition op_lines (P : platform) (o : op) : kind * bool * list uline :=
  match o with
  | OOpen => (KOpen, false, map (fun l => (l, false)) (p_open P))
  | OSendCommands ls stop => (KUser, stop, ls)
  | OSendConfigs ls stop _ => (KUser, stop, ls)
  | OInteractive ls _ => (KUser, false, map (fun l => (l, false)) ls)
  | OAcquire _ | ORegister _ | OSetGeneric _ => (KUser, false, [])
  end.

(* [Some (state, log)]: the operation is cut at [pt]; [None]: the operation has no such point (it ends before).
   The platform _abort_config step (after a failed line with stop_on_failed) is not given interruption points. *)
Definition run_op_int (P : platform) (s : state) (o : op) (pt : ipoint) : option (state * list entry) :=
  match pt with
  | INav bud x =>
      match op_nav P s o with
      | NavTo force d =>
          match (if force then acquire_k P (reg s) (belief s) (mode s) d bud x
                 else ensure_k P (reg s) (belief s) (mode s) d bud x) with
          | (b1, m1, seg1, Interrupted) => Some (mkSt b1 (generic s) (reg s) m1, seg1)
          | _ => None
          end
      | _ => None
      end
  | ILine n x =>
      let '(k, stop, ls) := op_lines P o in
      let lines (b1 : option nat) (m1 : nat) (seg1 : list entry) :=
          match send_lines_k P k stop m1 ls n x with
          | (m2, seg2, Interrupted) => Some (mkSt b1 (generic s) (reg s) m2, seg1 ++ seg2)
          | _ => None
          end in
      match op_nav P s o with
      | NavTo force d =>
          match (if force then acquire P (reg s) (belief s) (mode s) d
                 else ensure P (reg s) (belief s) (mode s) d) with
          | (b1, m1, seg1, Ok) => lines b1 m1 seg1
          | _ => None
          end
      | NoNav => lines (belief s) (mode s) []
      | NoIO => None
      end
  end.

(* histories in which the caller catches the interruption and goes on *)
Definition iop := (op * option ipoint)%type.

Definition run_iop (P : platform) (s : state) (io : iop) : state * list entry * result :=
  match snd io with
  | None => run_op P s (fst io)
  | Some pt => match run_op_int P s (fst io) pt with
               | Some (s', seg) => (s', seg, Interrupted)
               | None => run_op P s (fst io)
               end
  end.

Fixpoint run_hist_i (P : platform) (s : state) (h : list iop) : list (state * op * list entry * result * state) :=
  match h with
  | [] => []
  | io :: r => match run_iop P s io with
               | (s', seg, res) => (s, fst io, seg, res, s') :: run_hist_i P s' r
               end
  end.
