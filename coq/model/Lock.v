(* Lock.v — model of scrapli's channel lock (scrapli/channel/sync_channel.py, async_channel.py:
   `channel_lock`, `_channel_lock()`, the six public operations and the helpers they call).
   Definitions only; proofs are in proofs/Lock_Proofs.v.

   Three layers.

   A. *Shapes.*  gen/gen_lock.py translates every public channel operation of Channel and
      AsyncChannel (helpers inlined down to `self.transport.<call>()`) into a [shape], and the
      `_channel_lock` context manager into a [cmsh].  [exec] gives a shape its paths: the sequence of
      lock / transport events of one call together with how it ends (normally, by an exception, by
      return ...).  Control flow is over-approximated (both branches of every `if`, any number of loop
      iterations, every transport call and every local computation may raise), which is sound for
      the safety statements proved about *all* paths.  [cm_eval] runs the generator-based context
      manager the way contextlib does: up to the yield on entry, after it on a normal exit, and —
      with the exception thrown in at the yield — through the enclosing with/finally on an
      exceptional exit.

   B. *Raw interleaving of paths.*  N callers, caller c executes the event list [ps c] (one path of
      its operation); a step performs the head event of one caller; [LAcq] needs the lock free.
      Nothing is assumed about the paths: a path with an I/O event outside its lock section is a
      legal input (and then interleaving is reachable — [Lock_Proofs.unguarded_interleaves]).

   C. *Reactive callers over a device.*  Caller c runs a reactive operation (what it writes next
      depends on what it has read), the wire is a state machine [D] whose reads may block, any
      holder may fail at any point (transport raises / timeout / cancellation: environment step
      [EFault]) and any waiter may give up ([EGiveUp]: cancelled while waiting for the lock).  This
      is where "each caller receives exactly its own output" and "a failed operation never blocks
      the next one" are stated.  [step_fn] is the executable step function the correspondence run
      replays observed traces with. *)
From Verif Require Import Bytes.
Open Scope nat_scope.

(* ------------------------------------------------------------------------------------------ *)
(* A. shapes                                                                                   *)
(* ------------------------------------------------------------------------------------------ *)
(* local events of one caller; the nat of LIo is the kind: 0 read, 1 write, 2 other transport call *)
Inductive lev := LAcq | LRel | LIo (k : nat).

Definition is_io (e : lev) : bool := match e with LIo _ => true | _ => false end.
Definition lev_eqb (a b : lev) : bool :=
  match a, b with
  | LAcq, LAcq => true | LRel, LRel => true | LIo x, LIo y => Nat.eqb x y | _, _ => false
  end.
Fixpoint levs_eqb (a b : list lev) : bool :=
  match a, b with
  | [], [] => true
  | x :: a', y :: b' => lev_eqb x y && levs_eqb a' b'
  | _, _ => false
  end.

(* how a statement ends *)
Inductive mode := MN (* normally *) | MX (* exception *) | MR (* return *) | MB (* break *) | MC (* continue *).

Inductive shape :=
| SIo (k : nat)               (* self.transport.read() / .write() / any other call on the transport *)
| SLocal                      (* local computation (regex, decode, logging ...): may raise *)
| SSkip
| SSeq (a b : shape)
| SAlt (a b : shape)          (* if / else: either *)
| SLoop (b : shape)           (* while / for: any number of iterations *)
| STry (b h : shape)          (* try: b except ...: h   (an uncaught class propagates) *)
| SFinally (b f : shape)      (* try: b finally: f *)
| SLock (b : shape)           (* with self._channel_lock(): b    /   async with *)
| SCall (b : shape)           (* inlined helper method: scope of `return` *)
| SRaise | SReturn | SBreak | SContinue.

(* the context manager, evaluated: events before the yield, after it on a normal exit, after it when
   the with-body raised *)
(* ... and when the acquisition itself was interrupted (cancelled while waiting for the lock) *)
Record cm := mkCm { cm_pre : list lev; cm_postn : list lev; cm_poste : list lev; cm_cancel : list lev }.

Definition fin_mode (body fin : mode) : mode := match fin with MN => body | _ => fin end.
Definition call_mode (m : mode) : mode := match m with MX => MX | _ => MN end.
Definition cm_post (m : cm) (md : mode) : list lev := match md with MX => cm_poste m | _ => cm_postn m end.
Definition acquires (m : cm) : bool := existsb (lev_eqb LAcq) (cm_pre m).

Inductive exec (m : cm) : shape -> list lev -> mode -> Prop :=
| ex_io_ok k : exec m (SIo k) [LIo k] MN
| ex_io_raise k : exec m (SIo k) [LIo k] MX
| ex_local_ok : exec m SLocal [] MN
| ex_local_raise : exec m SLocal [] MX
| ex_skip : exec m SSkip [] MN
| ex_seq_n a b t1 t2 md : exec m a t1 MN -> exec m b t2 md -> exec m (SSeq a b) (t1 ++ t2) md
| ex_seq_stop a b t1 md : exec m a t1 md -> md <> MN -> exec m (SSeq a b) t1 md
| ex_alt_l a b t md : exec m a t md -> exec m (SAlt a b) t md
| ex_alt_r a b t md : exec m b t md -> exec m (SAlt a b) t md
| ex_loop_exit b : exec m (SLoop b) [] MN
| ex_loop_iter b t1 t2 md1 md : exec m b t1 md1 -> (md1 = MN \/ md1 = MC) ->
                                exec m (SLoop b) t2 md -> exec m (SLoop b) (t1 ++ t2) md
| ex_loop_break b t1 : exec m b t1 MB -> exec m (SLoop b) t1 MN
| ex_loop_prop b t1 md : exec m b t1 md -> (md = MX \/ md = MR) -> exec m (SLoop b) t1 md
| ex_try_pass b h t md : exec m b t md -> exec m (STry b h) t md
| ex_try_catch b h t1 t2 md : exec m b t1 MX -> exec m h t2 md -> exec m (STry b h) (t1 ++ t2) md
| ex_finally b f t1 t2 md1 md2 : exec m b t1 md1 -> exec m f t2 md2 ->
                                 exec m (SFinally b f) (t1 ++ t2) (fin_mode md1 md2)
| ex_lock b t md : exec m b t md -> exec m (SLock b) (cm_pre m ++ t ++ cm_post m md) md
| ex_lock_cancel b : acquires m = true -> exec m (SLock b) (cm_cancel m) MX   (* cancelled while waiting for the lock *)
| ex_call b t md : exec m b t md -> exec m (SCall b) t (call_mode md)
| ex_raise : exec m SRaise [] MX
| ex_return : exec m SReturn [] MR
| ex_break : exec m SBreak [] MB
| ex_continue : exec m SContinue [] MC.

(* every transport call is inside exactly one lock section, no lock section inside another
   (threading.Lock / asyncio.Lock are not re-entrant) *)
Fixpoint guarded (inside : bool) (s : shape) : bool :=
  match s with
  | SIo _ => inside
  | SLock b => negb inside && guarded true b
  | SSeq a b | SAlt a b | STry a b | SFinally a b => guarded inside a && guarded inside b
  | SLoop b | SCall b => guarded inside b
  | _ => true
  end.

(* an upper bound of the number of lock sections on a path: 0, 1, or 2 = "more than one" *)
Fixpoint nsec (s : shape) : nat :=
  match s with
  | SLock _ => 1
  | SSeq a b | STry a b | SFinally a b => nsec a + nsec b
  | SAlt a b => Nat.max (nsec a) (nsec b)
  | SLoop b => match nsec b with 0 => 0 | _ => 2 end
  | SCall b => nsec b
  | _ => 0
  end.

(* does the shape touch the transport at all *)
Fixpoint has_io (s : shape) : bool :=
  match s with
  | SIo _ => true
  | SSeq a b | SAlt a b | STry a b | SFinally a b => has_io a || has_io b
  | SLoop b | SCall b | SLock b => has_io b
  | _ => false
  end.

Definition wf (s : shape) : bool := guarded false s && (nsec s <=? 1).

(* the local view the interleaving models assume of one operation: nothing at all, or one section
   acquire ; transport events ; release *)
Inductive blocks : nat -> list lev -> Prop :=
| blocks_nil : blocks 0 []
| blocks_cons ios t k : forallb is_io ios = true -> blocks k t -> blocks (S k) (LAcq :: ios ++ LRel :: t).

Definition one_block (t : list lev) : Prop :=
  t = [] \/ exists ios, forallb is_io ios = true /\ t = LAcq :: ios ++ [LRel].

Definition one_blockb (t : list lev) : bool :=
  match t with
  | [] => true
  | LAcq :: r => match rev r with
                 | LRel :: ios => forallb is_io ios
                 | _ => false
                 end
  | _ => false
  end.

(* shape with the lock statements erased (what the operation is when channel_lock is off) *)
Fixpoint erase (s : shape) : shape :=
  match s with
  | SLock b => erase b
  | SSeq a b => SSeq (erase a) (erase b)
  | SAlt a b => SAlt (erase a) (erase b)
  | STry a b => STry (erase a) (erase b)
  | SFinally a b => SFinally (erase a) (erase b)
  | SLoop b => SLoop (erase b)
  | SCall b => SCall (erase b)
  | x => x
  end.

(* ---- the context manager ---- *)
Inductive cmsh :=
| CYield
| CAcq                         (* self.channel_lock.acquire()   /  await ....acquire() *)
| CRel                         (* self.channel_lock.release() *)
| CLocal
| CSeq (l : list cmsh)
| CWith (b : cmsh)             (* with self.channel_lock: b   /   async with *)
| CIfLock (t e : cmsh)         (* if self.channel_lock: t else: e *)
| CTryFinally (b f : cmsh).

(* straight-line events of a piece without a yield *)
Fixpoint cflat (en : bool) (c : cmsh) : list lev :=
  match c with
  | CYield | CLocal => []
  | CAcq => [LAcq]
  | CRel => [LRel]
  | CSeq l => (fix go (l : list cmsh) : list lev := match l with [] => [] | x :: r => cflat en x ++ go r end) l
  | CWith b => LAcq :: cflat en b ++ [LRel]
  | CIfLock t e => if en then cflat en t else cflat en e
  | CTryFinally b f => cflat en b ++ cflat en f
  end.

(* (yields, before, after-normal, after-exception) *)
Record cmres := mkR { r_y : nat; r_pre : list lev; r_pn : list lev; r_pe : list lev }.

Fixpoint cm_run (en : bool) (c : cmsh) : cmres :=
  match c with
  | CYield => mkR 1 [] [] []
  | CAcq => mkR 0 [LAcq] [] []
  | CRel => mkR 0 [LRel] [] []
  | CLocal => mkR 0 [] [] []
  | CSeq l =>
    (fix go (l : list cmsh) : cmres :=
       match l with
       | [] => mkR 0 [] [] []
       | x :: r =>
         let a := cm_run en x in
         let b := go r in
         match r_y a with
         | 0 => mkR (r_y b) (r_pre a ++ r_pre b) (r_pn b) (r_pe b)
         | _ => (* the yield is in x: what follows runs only on a normal exit *)
           mkR (r_y a + r_y b) (r_pre a) (r_pn a ++ r_pre b ++ r_pn b) (r_pe a)
         end
       end) l
  | CWith b =>
    let a := cm_run en b in
    match r_y a with
    | 0 => mkR 0 (LAcq :: r_pre a ++ [LRel]) [] []
    | _ => mkR (r_y a) (LAcq :: r_pre a) (r_pn a ++ [LRel]) (r_pe a ++ [LRel])
    end
  | CIfLock t e => if en then cm_run en t else cm_run en e
  | CTryFinally b f =>
    let a := cm_run en b in
    let g := cflat en f in
    match r_y a with
    | 0 => mkR 0 (r_pre a ++ g) [] []
    | _ => mkR (r_y a) (r_pre a) (r_pn a ++ g) (r_pe a ++ g)
    end
  end.

(* what still runs when the acquisition itself raises (the waiting caller is cancelled): the finally
   blocks around it.  None: no acquisition in this piece. *)
Fixpoint cm_interrupt (en : bool) (c : cmsh) : option (list lev) :=
  match c with
  | CYield | CRel | CLocal => None
  | CAcq => Some []
  | CWith _ => Some []
  | CSeq l =>
    (fix go (l : list cmsh) : option (list lev) :=
       match l with
       | [] => None
       | x :: r => match cm_interrupt en x with
                   | Some e => Some e
                   | None => match go r with Some e => Some (cflat en x ++ e) | None => None end
                   end
       end) l
  | CIfLock t e => if en then cm_interrupt en t else cm_interrupt en e
  | CTryFinally b f => match cm_interrupt en b with Some e => Some (e ++ cflat en f) | None => None end
  end.

Definition cm_eval (en : bool) (c : cmsh) : cm :=
  let r := cm_run en c in
  mkCm (r_pre r) (r_pn r) (r_pe r) (match cm_interrupt en c with Some e => e | None => [] end).

Definition cm_on : cm := mkCm [LAcq] [LRel] [LRel] [].
Definition cm_off : cm := mkCm [] [] [] [].

Definition cm_eqb (a b : cm) : bool :=
  levs_eqb (cm_pre a) (cm_pre b) && levs_eqb (cm_postn a) (cm_postn b) && levs_eqb (cm_poste a) (cm_poste b) &&
  levs_eqb (cm_cancel a) (cm_cancel b).

(* the context manager yields exactly once, takes the lock before the body and gives it back on
   both exits when the lock exists; does nothing when it does not *)
Definition cm_good (c : cmsh) : bool :=
  Nat.eqb (r_y (cm_run true c)) 1 && Nat.eqb (r_y (cm_run false c)) 1 &&
  cm_eqb (cm_eval true c) cm_on && cm_eqb (cm_eval false c) cm_off.

(* the context manager as the code has it (both stacks) *)
Definition cm_scrapli : cmsh := CIfLock (CWith CYield) CYield.
(* a realistic wrong one: release not protected by finally *)
Definition cm_no_finally : cmsh := CIfLock (CSeq [CAcq; CYield; CRel]) CYield.
(* another: the acquisition inside the try — a caller cancelled while waiting releases a lock it does
   not hold (asyncio.Lock.release() then frees the holder's lock) *)
Definition cm_acquire_in_try : cmsh := CIfLock (CTryFinally (CSeq [CAcq; CYield]) CRel) CYield.

(* ------------------------------------------------------------------------------------------ *)
(* B. raw interleaving of N paths                                                              *)
(* ------------------------------------------------------------------------------------------ *)
(* tagged event: (caller, local event) *)
Definition tev := (nat * lev)%type.

Record rcfg := mkRc { r_lock : option nat; r_rest : list (list lev) }.

Fixpoint upd {A} (n : nat) (x : A) (l : list A) : list A :=
  match l, n with
  | [], _ => []
  | _ :: r, 0 => x :: r
  | y :: r, S k => y :: upd k x r
  end.

Inductive rstep : rcfg -> tev -> rcfg -> Prop :=
| rs_acq c rest p : nth_error (r_rest rest) c = Some (LAcq :: p) -> r_lock rest = None ->
                    rstep rest (c, LAcq) (mkRc (Some c) (upd c p (r_rest rest)))
| rs_rel c rest p : nth_error (r_rest rest) c = Some (LRel :: p) ->
                    rstep rest (c, LRel) (mkRc None (upd c p (r_rest rest)))
| rs_io c rest k p : nth_error (r_rest rest) c = Some (LIo k :: p) ->
                     rstep rest (c, LIo k) (mkRc (r_lock rest) (upd c p (r_rest rest))).

Inductive rrun : rcfg -> list tev -> rcfg -> Prop :=
| rr_nil c : rrun c [] c
| rr_snoc c0 tr c1 e c2 : rrun c0 tr c1 -> rstep c1 e c2 -> rrun c0 (tr ++ [e]) c2.

Definition rinit (ps : list (list lev)) : rcfg := mkRc None ps.
Definition rdone (c : rcfg) : Prop := Forall (fun p => p = []) (r_rest c).

(* executable step of the raw model *)
Definition rstep_fn (cf : rcfg) (e : tev) : option rcfg :=
  let (c, l) := e in
  match nth_error (r_rest cf) c with
  | Some (h :: p) =>
    if lev_eqb h l then
      match l with
      | LAcq => match r_lock cf with None => Some (mkRc (Some c) (upd c p (r_rest cf))) | Some _ => None end
      | LRel => Some (mkRc None (upd c p (r_rest cf)))
      | LIo _ => Some (mkRc (r_lock cf) (upd c p (r_rest cf)))
      end
    else None
  | _ => None
  end.

Fixpoint rreplay (cf : rcfg) (tr : list tev) : option rcfg :=
  match tr with
  | [] => Some cf
  | e :: r => match rstep_fn cf e with Some cf' => rreplay cf' r | None => None end
  end.

(* mutual exclusion as a scan of a tagged trace: owner tracking; None = violated.
   An I/O event of c needs the owner to be c; an acquire needs no owner; a release needs owner c. *)
Fixpoint tscan (owner : option nat) (tr : list tev) : option (option nat) :=
  match tr with
  | [] => Some owner
  | (c, LAcq) :: r => match owner with None => tscan (Some c) r | Some _ => None end
  | (c, LRel) :: r => match owner with Some o => if Nat.eqb o c then tscan None r else None | None => None end
  | (c, LIo _) :: r => match owner with Some o => if Nat.eqb o c then tscan owner r else None | None => None end
  end.

Definition tproj (c : nat) (tr : list tev) : list lev :=
  map snd (filter (fun e => Nat.eqb (fst e) c) tr).

Definition tag (c : nat) (p : list lev) : list tev := map (fun l => (c, l)) p.

(* callers in order of their first acquire *)
Fixpoint tacq_order (tr : list tev) : list nat :=
  match tr with
  | [] => []
  | (c, LAcq) :: r => c :: tacq_order r
  | _ :: r => tacq_order r
  end.

(* ------------------------------------------------------------------------------------------ *)
(* C. reactive callers over a device, with failures                                            *)
(* ------------------------------------------------------------------------------------------ *)
Inductive action (R : Type) := AWrite (b : bytes) | ARead | ADone (r : R).
Arguments AWrite {R} b.
Arguments ARead {R}.
Arguments ADone {R} r.

Inductive outcome (R : Type) := OOk (r : R) | OFailed | OGaveUp.
Arguments OOk {R} r.
Arguments OFailed {R}.
Arguments OGaveUp {R}.

Inductive status (St R : Type) := Waiting (s : St) | Holding (s : St) | Finished (o : outcome R).
Arguments Waiting {St R} s.
Arguments Holding {St R} s.
Arguments Finished {St R} o.

(* global events *)
Inductive ev :=
| EAcq (c : nat)
| EWr (c : nat) (b : bytes)
| ERd (c : nat) (b : bytes)
| ERel (c : nat)              (* the operation ended normally, lock released *)
| EFault (c : nat)            (* the holder's operation ended by an exception, lock released *)
| EGiveUp (c : nat).          (* a caller that never got the lock ended (cancelled / failed before) *)

Definition ev_caller (e : ev) : nat :=
  match e with EAcq c | EWr c _ | ERd c _ | ERel c | EFault c | EGiveUp c => c end.
Definition is_wire (e : ev) : bool := match e with EGiveUp _ => false | _ => true end.
Definition is_release_of (c : nat) (e : ev) : bool :=
  match e with ERel d | EFault d => Nat.eqb c d | _ => false end.
Definition wire (tr : list ev) : list ev := filter is_wire tr.
Definition to_lev (e : ev) : lev :=
  match e with
  | EAcq _ => LAcq | EWr _ _ => LIo 1 | ERd _ _ => LIo 0 | ERel _ | EFault _ | EGiveUp _ => LRel
  end.
Definition caller_view (c : nat) (tr : list ev) : list lev :=
  map to_lev (filter (fun e => is_wire e && Nat.eqb (ev_caller e) c) tr).

Inductive tmo_effect := TEnds | TContinues.
Definition tmo_effect_of (thread_pool no_terminate : bool) : tmo_effect :=
  if thread_pool && no_terminate then TContinues else TEnds.

Section Reactive.
  Variables D St R : Type.
  Variable next : St -> action R.
  Variable on_write : St -> St.
  Variable on_read : St -> bytes -> St.
  Variable dwrite : D -> bytes -> D.
  Variable dread : D -> option (bytes * D).     (* None: nothing to read — the read blocks *)

  Record config := mkCfg { lock : option nat; dev : D; sts : list (status St R) }.

  Definition init (d : D) (ss : list St) : config := mkCfg None d (map Waiting ss).

  Definition set_lock (en : bool) (v : option nat) (old : option nat) : option nat := if en then v else old.

  Inductive step (en : bool) : config -> ev -> config -> Prop :=
  | s_acq cf c s : nth_error (sts cf) c = Some (Waiting s) -> (en = true -> lock cf = None) ->
                   step en cf (EAcq c) (mkCfg (set_lock en (Some c) (lock cf)) (dev cf) (upd c (Holding s) (sts cf)))
  | s_wr cf c s b : nth_error (sts cf) c = Some (Holding s) -> next s = AWrite b ->
                    step en cf (EWr c b) (mkCfg (lock cf) (dwrite (dev cf) b) (upd c (Holding (on_write s)) (sts cf)))
  | s_rd cf c s b d' : nth_error (sts cf) c = Some (Holding s) -> next s = ARead -> dread (dev cf) = Some (b, d') ->
                       step en cf (ERd c b) (mkCfg (lock cf) d' (upd c (Holding (on_read s b)) (sts cf)))
  | s_done cf c s r : nth_error (sts cf) c = Some (Holding s) -> next s = ADone r ->
                      step en cf (ERel c) (mkCfg (set_lock en None (lock cf)) (dev cf) (upd c (Finished (OOk r)) (sts cf)))
  | s_fault cf c s : nth_error (sts cf) c = Some (Holding s) ->
                     step en cf (EFault c) (mkCfg (set_lock en None (lock cf)) (dev cf) (upd c (Finished OFailed) (sts cf)))
  | s_giveup cf c s : nth_error (sts cf) c = Some (Waiting s) ->
                      step en cf (EGiveUp c) (mkCfg (lock cf) (dev cf) (upd c (Finished OGaveUp) (sts cf))).

  Inductive run (en : bool) : config -> list ev -> config -> Prop :=
  | run_nil cf : run en cf [] cf
  | run_snoc c0 tr c1 e c2 : run en c0 tr c1 -> step en c1 e c2 -> run en c0 (tr ++ [e]) c2.

  Definition finishedb (s : status St R) : bool := match s with Finished _ => true | _ => false end.
  Definition holdingb (s : status St R) : bool := match s with Holding _ => true | _ => false end.
  Definition all_finished (cf : config) : Prop := forallb finishedb (sts cf) = true.

  (* one whole operation run alone from device state d: its events after the acquire, the device it
     leaves, its outcome.  A failure may strike at any point. *)
  Inductive op_run (c : nat) : D -> St -> list ev -> D -> outcome R -> Prop :=
  | or_done d s r : next s = ADone r -> op_run c d s [ERel c] d (OOk r)
  | or_fault d s : op_run c d s [EFault c] d OFailed
  | or_wr d s b tr d' o : next s = AWrite b -> op_run c (dwrite d b) (on_write s) tr d' o ->
                          op_run c d s (EWr c b :: tr) d' o
  | or_rd d s b d1 tr d' o : next s = ARead -> dread d = Some (b, d1) -> op_run c d1 (on_read s b) tr d' o ->
                             op_run c d s (ERd c b :: tr) d' o.

  (* an operation under way: events so far, current device and state *)
  Inductive op_part (c : nat) : D -> St -> list ev -> D -> St -> Prop :=
  | op_start d s : op_part c d s [] d s
  | op_wr d s tr d1 s1 b : op_part c d s tr d1 s1 -> next s1 = AWrite b ->
                           op_part c d s (tr ++ [EWr c b]) (dwrite d1 b) (on_write s1)
  | op_rd d s tr d1 s1 b d2 : op_part c d s tr d1 s1 -> next s1 = ARead -> dread d1 = Some (b, d2) ->
                              op_part c d s (tr ++ [ERd c b]) d2 (on_read s1 b).

  (* the sequential system: whole operations one after the other, in the given order; the trace is
     the concatenation of the blocks, each caller's outcome is that of its own whole run *)
  Inductive seq_run (ss : list St) : D -> list (nat * outcome R) -> list ev -> D -> Prop :=
  | sq_nil d : seq_run ss d [] [] d
  | sq_snoc d order w d1 c s blk d2 o :
      seq_run ss d order w d1 -> nth_error ss c = Some s -> op_run c d1 s blk d2 o ->
      seq_run ss d (order ++ [(c, o)]) (w ++ EAcq c :: blk) d2.

  (* mutual exclusion on global traces: scan with owner tracking; None = violated *)
  Fixpoint scan (owner : option nat) (tr : list ev) : option (option nat) :=
    match tr with
    | [] => Some owner
    | EAcq c :: r => match owner with None => scan (Some c) r | Some _ => None end
    | EWr c _ :: r | ERd c _ :: r =>
      match owner with Some o => if Nat.eqb o c then scan owner r else None | None => None end
    | ERel c :: r | EFault c :: r =>
      match owner with Some o => if Nat.eqb o c then scan None r else None | None => None end
    | EGiveUp _ :: r => scan owner r
    end.

  (* the same, as the property reads: between a caller's acquire and its release every wire event
     is that caller's *)
  Definition exclusive (tr : list ev) : Prop :=
    forall pre c mid post, tr = pre ++ EAcq c :: mid ++ post ->
      forallb (fun e => negb (is_release_of c e)) mid = true ->
      forall e, In e mid -> is_wire e = true -> ev_caller e = c.

  (* executable step function (used to replay observed traces) *)
  Definition bytes_eqb := beq.

  Definition step_fn (en : bool) (cf : config) (e : ev) : option config :=
    match e with
    | EAcq c =>
      match nth_error (sts cf) c with
      | Some (Waiting s) =>
        if en then match lock cf with
                   | None => Some (mkCfg (Some c) (dev cf) (upd c (Holding s) (sts cf)))
                   | Some _ => None
                   end
        else Some (mkCfg (lock cf) (dev cf) (upd c (Holding s) (sts cf)))
      | _ => None
      end
    | EWr c b =>
      match nth_error (sts cf) c with
      | Some (Holding s) =>
        match next s with
        | AWrite b' => if beq b b' then Some (mkCfg (lock cf) (dwrite (dev cf) b') (upd c (Holding (on_write s)) (sts cf))) else None
        | _ => None
        end
      | _ => None
      end
    | ERd c b =>
      match nth_error (sts cf) c with
      | Some (Holding s) =>
        match next s, dread (dev cf) with
        | ARead, Some (b', d') => if beq b b' then Some (mkCfg (lock cf) d' (upd c (Holding (on_read s b')) (sts cf))) else None
        | _, _ => None
        end
      | _ => None
      end
    | ERel c =>
      match nth_error (sts cf) c with
      | Some (Holding s) =>
        match next s with
        | ADone r => Some (mkCfg (set_lock en None (lock cf)) (dev cf) (upd c (Finished (OOk r)) (sts cf)))
        | _ => None
        end
      | _ => None
      end
    | EFault c =>
      match nth_error (sts cf) c with
      | Some (Holding s) => Some (mkCfg (set_lock en None (lock cf)) (dev cf) (upd c (Finished OFailed) (sts cf)))
      | _ => None
      end
    | EGiveUp c =>
      match nth_error (sts cf) c with
      | Some (Waiting s) => Some (mkCfg (lock cf) (dev cf) (upd c (Finished OGaveUp) (sts cf)))
      | _ => None
      end
    end.

  (* what the elapsing of the holder's operation timeout does to its operation.
     TEnds: the operation is interrupted — asyncio (wait_for cancels it), the signal mechanism (the
       handler raises inside it), the thread-pool mechanism when the transport is closed (its read then
       raises): this is the failure step.
     TContinues: the thread-pool mechanism with Settings.NO_TERMINATE_ON_TIMEOUT: nothing interrupts the
       worker; the configuration is what it was. *)
  Definition after_timeout (eff : tmo_effect) (cf : config) (h : nat) : config :=
    match eff with
    | TEnds => mkCfg None (dev cf) (upd h (Finished OFailed) (sts cf))
    | TContinues => cf
    end.

  (* "a timed-out operation never blocks the next one": the holder is stalled on a silent device, its
     timeout elapses, then any waiting caller can take the lock *)
  Definition timeout_unblocks (eff : tmo_effect) : Prop :=
    forall d ss tr cf h s c' s',
      run true (init d ss) tr cf -> lock cf = Some h -> nth_error (sts cf) h = Some (Holding s) ->
      next s = ARead -> dread (dev cf) = None ->
      nth_error (sts cf) c' = Some (Waiting s') ->
      exists cf'', step true (after_timeout eff cf h) (EAcq c') cf''.

  Fixpoint replay (en : bool) (cf : config) (tr : list ev) : option config :=
    match tr with
    | [] => Some cf
    | e :: r => match step_fn en cf e with Some cf' => replay en cf' r | None => None end
    end.
End Reactive.

Arguments mkCfg {D St R} lock dev sts.
Arguments lock {D St R} c.
Arguments dev {D St R} c.
Arguments sts {D St R} c.

(* ------------------------------------------------------------------------------------------ *)
(* the instance the correspondence run uses: an operation is its script (what it writes, what it *)
(* expects to read — taken from the operation's solo run on the real code); the wire hands out   *)
(* the read results in the order they were observed.                                              *)
(* ------------------------------------------------------------------------------------------ *)
Inductive item := IW (b : bytes) | IR (b : bytes).
Definition script := list item.

Definition sc_next (s : script) : action unit :=
  match s with [] => ADone tt | IW b :: _ => AWrite b | IR _ :: _ => ARead end.
Definition sc_on_write (s : script) : script := tl s.
Definition sc_on_read (s : script) (_ : bytes) : script := tl s.
Definition q_write (d : list bytes) (_ : bytes) : list bytes := d.
Definition q_read (d : list bytes) : option (bytes * list bytes) :=
  match d with [] => None | b :: r => Some (b, r) end.

Definition sc_replay (en : bool) :=
  replay (list bytes) script unit sc_next sc_on_write sc_on_read q_write q_read en.
Definition sc_init (reads : list bytes) (ss : list script) := init (list bytes) script unit reads ss.

Fixpoint reads_of (tr : list ev) : list bytes :=
  match tr with [] => [] | ERd _ b :: r => b :: reads_of r | _ :: r => reads_of r end.

Definition item_eqb (a b : item) : bool :=
  match a, b with IW x, IW y => beq x y | IR x, IR y => beq x y | _, _ => false end.

(* what caller c put on / took off the wire, as script items *)
Fixpoint items_of (c : nat) (tr : list ev) : script :=
  match tr with
  | [] => []
  | EWr d b :: r => if Nat.eqb c d then IW b :: items_of c r else items_of c r
  | ERd d b :: r => if Nat.eqb c d then IR b :: items_of c r else items_of c r
  | _ :: r => items_of c r
  end.

Fixpoint is_prefix (a b : script) : bool :=
  match a, b with
  | [], _ => true
  | x :: a', y :: b' => item_eqb x y && is_prefix a' b'
  | _ :: _, [] => false
  end.

Fixpoint script_eqb (a b : script) : bool :=
  match a, b with
  | [], [] => true
  | x :: a', y :: b' => item_eqb x y && script_eqb a' b'
  | _, _ => false
  end.

Definition faulted (c : nat) (tr : list ev) : bool :=
  existsb (fun e => match e with EFault d | EGiveUp d => Nat.eqb c d | _ => false end) tr.

Fixpoint acq_order (tr : list ev) : list nat :=
  match tr with [] => [] | EAcq c :: r => c :: acq_order r | _ :: r => acq_order r end.

(* the block of caller c in a trace: its wire events, in order *)
Definition block_of (c : nat) (tr : list ev) : list ev :=
  filter (fun e => is_wire e && Nat.eqb (ev_caller e) c) tr.

Definition ev_eqb (a b : ev) : bool :=
  match a, b with
  | EAcq x, EAcq y | ERel x, ERel y | EFault x, EFault y | EGiveUp x, EGiveUp y => Nat.eqb x y
  | EWr x b, EWr y b' | ERd x b, ERd y b' => Nat.eqb x y && beq b b'
  | _, _ => false
  end.
Fixpoint evs_eqb (a b : list ev) : bool :=
  match a, b with
  | [], [] => true
  | x :: a', y :: b' => ev_eqb x y && evs_eqb a' b'
  | _, _ => false
  end.

(* wire trace = concatenation of the callers' blocks in acquisition order *)
Definition serialb (tr : list ev) : bool :=
  evs_eqb (wire tr) (flat_map (fun c => block_of c tr) (acq_order tr)).

Definition scanb (tr : list ev) : bool :=
  match scan None tr with Some None => true | _ => false end.

(* the check of one observed run:
   en        channel_lock of the scenario
   scripts   per caller, its solo script
   tr        observed global trace (canonicalised)
   it must be a complete trace of the model (every caller finished, lock free), every caller's own
   events must be its solo script (a prefix of it if it failed) and, with the lock on, the trace must
   pass the exclusion scan and be serial *)
Definition check_run (en : bool) (scripts : list script) (tr : list ev) : bool :=
  match sc_replay en (sc_init (reads_of tr) scripts) tr with
  | None => false
  | Some cf =>
    forallb (finishedb script unit) (sts cf) &&
    match lock cf with None => true | Some _ => false end &&
    (if en then scanb tr && serialb tr &&
                (fix go (c : nat) (l : list script) : bool :=
                   match l with
                   | [] => true
                   | s :: r => (if faulted c tr then is_prefix (items_of c tr) s else script_eqb (items_of c tr) s) && go (S c) r
                   end) 0 scripts
     else true)
  end.

(* ------------------------------------------------------------------------------------------ *)
(* D. identity of the lock object across re-opens of the connection                            *)
(* ------------------------------------------------------------------------------------------ *)
(* The channel refers to ONE lock object at a time ([o_cur]: its identity).  A caller entering a lock
   section evaluates `self.channel_lock` once ([OArrive]: it is bound to the object current at that
   moment) and waits for / holds / releases THAT object, whatever the channel refers to later on.
   [OOpen] is `channel.open()` — the connection is (re-)opened, by anybody, at any time: with [recreate]
   it binds a fresh lock object, without it the object made by `__init__` stays.  A caller whose
   operation has ended (result or failure) may come again ([OAgain]: the retry after a re-open).
   [OOpen] also stands for every other step of the connection's life that runs outside the callers' lock
   sections — `Driver.commandeer()` (the connection takes over another connection's session, or is taken
   over), `close()` —: [recreate] is generated from the WHOLE package (does anything but the channel's
   `__init__` bind `channel_lock`), so with [recreate = false] such a step leaves the object alone as well.
   (A step that unbinds the lock — `channel_lock = None` — is not a state of this model: it is [recreate =
   true], outside the theorem's premise, and the harness' oracle judges it on the real code.) *)
Inductive ost := OIdle | OWait (g : nat) | OHold (g : nat) | OEnded.
Inductive oev := OArrive (c : nat) | OAcq (c : nat) | OIo (c : nat) | ORel (c : nat) | OAgain (c : nat) | OOpen.
Record ocfg := mkO { o_cur : nat; o_sts : list ost }.

Definition holds_obj (g : nat) (s : ost) : bool := match s with OHold h => Nat.eqb g h | _ => false end.
Definition is_hold (s : ost) : bool := match s with OHold _ => true | _ => false end.
Definition holders (cf : ocfg) : nat := length (filter is_hold (o_sts cf)).

Definition ostep_fn (recreate : bool) (cf : ocfg) (e : oev) : option ocfg :=
  match e with
  | OArrive c =>
    match nth_error (o_sts cf) c with
    | Some OIdle => Some (mkO (o_cur cf) (upd c (OWait (o_cur cf)) (o_sts cf)))
    | _ => None
    end
  | OAcq c =>
    match nth_error (o_sts cf) c with
    | Some (OWait g) => if existsb (holds_obj g) (o_sts cf) then None   (* that object is held: the caller waits *)
                        else Some (mkO (o_cur cf) (upd c (OHold g) (o_sts cf)))
    | _ => None
    end
  | OIo c => match nth_error (o_sts cf) c with Some (OHold _) => Some cf | _ => None end
  | ORel c =>
    match nth_error (o_sts cf) c with
    | Some (OHold _) => Some (mkO (o_cur cf) (upd c OEnded (o_sts cf)))
    | _ => None
    end
  | OAgain c =>
    match nth_error (o_sts cf) c with
    | Some OEnded => Some (mkO (o_cur cf) (upd c OIdle (o_sts cf)))
    | _ => None
    end
  | OOpen => Some (mkO (if recreate then S (o_cur cf) else o_cur cf) (o_sts cf))
  end.

Fixpoint oreplay (recreate : bool) (cf : ocfg) (tr : list oev) : option ocfg :=
  match tr with
  | [] => Some cf
  | e :: r => match ostep_fn recreate cf e with Some cf' => oreplay recreate cf' r | None => None end
  end.

Definition oinit (n : nat) : ocfg := mkO 0 (repeat OIdle n).

(* mutual exclusion across re-opens, the full statement: whatever open() does to the lock attribute *)
Definition reopen_exclusive_full : Prop :=
  forall recreate n tr cf, oreplay recreate (oinit n) tr = Some cf -> holders cf <= 1.
