(* PromptCacheObjs.v — several network driver objects alive in one process.
   functools.lru_cache on the METHOD _determine_current_priv is ONE cache for the whole class: its key is
   (self, prompt) when the decorated function takes self (generated fact keyed_by_self), its capacity is shared by
   all objects, and cache_clear() — called by update_privilege_levels of ANY object — empties it for all of them.
   The model re-uses the single-cache machine of PromptCache.v: the table is the list of the objects' tables, the
   key is the object number followed by the prompt (or the prompt alone when the key ignores self).
   Definitions only. *)
From Verif Require Import Bytes PromptCache.

Section Objs.
  Variables (T R : Type).
  Variable classify : T -> bytes -> option R.
  Variable keyed_by_self : bool.

  Inductive mop :=
  | MQuery (i : nat) (p : bytes)      (* object i classifies prompt p *)
  | MUpdate (i : nat) (t : T).        (* object i's table replaced, then ITS update_privilege_levels() *)

  Definition key (i : nat) (p : bytes) : bytes := if keyed_by_self then N.of_nat i :: p else p.

  Fixpoint set_nth (i : nat) (t : T) (l : list T) : list T :=
    match l, i with
    | [], _ => []
    | _ :: r, O => t :: r
    | x :: r, S j => x :: set_nth j t r
    end.

  (* the classifier of the shared cache: with the key ignoring self, the lookup cannot tell the objects apart — what is
     computed on a miss is still object i's own answer, which is why the miss path takes i separately (mstep below) *)
  Definition classify_key (tbls : list T) (k : bytes) : option R :=
    match k with
    | [] => None
    | i :: p => match nth_error tbls (N.to_nat i) with Some t => classify t p | None => None end
    end.

  Record mst := mkM { m_tbls : list T; m_cache : list (bytes * R) }.

  Definition mstep (cap : nat) (clears : bool) (s : mst) (o : mop) : mst * option (option R) :=
    match o with
    | MQuery i p =>
        match lookup (key i p) (m_cache s) with
        | Some v => (mkM (m_tbls s) ((key i p, v) :: remove (key i p) (m_cache s)), Some (Some v))
        | None =>
            match nth_error (m_tbls s) i with
            | Some t =>
                match classify t p with
                | Some v => (mkM (m_tbls s) (firstn cap ((key i p, v) :: m_cache s)), Some (Some v))
                | None => (s, Some None)
                end
            | None => (s, Some None)
            end
        end
    | MUpdate i t => (mkM (set_nth i t (m_tbls s)) (if clears then [] else m_cache s), None)
    end.

  Fixpoint mrun (cap : nat) (clears : bool) (s : mst) (ops : list mop) : mst * list (option (option R)) :=
    match ops with
    | [] => (s, [])
    | o :: r => let (s', out) := mstep cap clears s o in let (s'', outs) := mrun cap clears s' r in (s'', out :: outs)
    end.

  (* the specification: every object answers from its own table of the moment, no cache anywhere *)
  Fixpoint mspec (tbls : list T) (ops : list mop) : list (option (option R)) :=
    match ops with
    | [] => []
    | MQuery i p :: r =>
        Some (match nth_error tbls i with Some t => classify t p | None => None end) :: mspec tbls r
    | MUpdate i t :: r => None :: mspec (set_nth i t tbls) r
    end.
End Objs.

Arguments MQuery {T}. Arguments MUpdate {T}.
Arguments mkM {T R}. Arguments m_tbls {T R}. Arguments m_cache {T R}.
Arguments mstep {T R}. Arguments mrun {T R}. Arguments mspec {T R}. Arguments set_nth {T}.
