(* Heap.v — a small heap with object identities for the tables a scrapli connection works on:
   the module level PRIVS dict / FAILED_WHEN_CONTAINS list of a platform (or the privilege_levels
   dict / failed_when_contains list inside a community SCRAPLI_PLATFORM), and each connection's
   own privilege_levels / failed_when_contains.  An address is an index into the heap; allocation
   appends.  deepcopy / .copy() allocate; register_configuration_session and edits of privilege
   levels mutate in place, through the references the connection holds.  Definitions only. *)
From Verif Require Import Bytes.

Definition addr := nat.

(* the str / bool attributes of a PrivilegeLevel *)
Record privf := mkPF {
  pf_pattern : bytes; pf_name : bytes; pf_prev : bytes; pf_deesc : bytes; pf_esc : bytes;
  pf_eauth : bool; pf_eprompt : bytes
}.

Inductive obj :=
| OList (items : list bytes)            (* list of str *)
| OPriv (f : privf) (nc : addr)         (* PrivilegeLevel; not_contains is a reference to a list *)
| ODict (es : list (bytes * addr)).     (* dict: level name -> PrivilegeLevel *)

Definition heap := list obj.

Definition hget (h : heap) (a : addr) : option obj := nth_error h a.
Definition alloc (h : heap) (o : obj) : heap * addr := (h ++ [o], length h).
Fixpoint upd (a : addr) (o : obj) (h : heap) : heap :=
  match h, a with
  | [], _ => []
  | _ :: r, O => o :: r
  | x :: r, S a' => x :: upd a' o r
  end.

Record conn := mkConn { cn_privs : addr; cn_fwc : addr }.

Record state := mkSt {
  st_heap : heap;
  st_defs : list (addr * addr);     (* platform definitions: (PRIVS dict, FAILED_WHEN_CONTAINS list); never rebound *)
  st_conns : list conn
}.

(* ---- copying ------------------------------------------------------------------------------- *)
(* list(l) / l.copy() / deepcopy of a list of str *)
Definition copy_list (h : heap) (a : addr) : option (heap * addr) :=
  match hget h a with Some (OList l) => Some (alloc h (OList l)) | _ => None end.

Definition deepcopy_priv (h : heap) (pa : addr) : option (heap * addr) :=
  match hget h pa with
  | Some (OPriv f nc) =>
      match copy_list h nc with
      | Some (h1, nc') => Some (alloc h1 (OPriv f nc'))
      | None => None
      end
  | _ => None
  end.

Fixpoint deepcopy_entries (h : heap) (es : list (bytes * addr)) : option (heap * list (bytes * addr)) :=
  match es with
  | [] => Some (h, [])
  | (k, pa) :: r =>
      match deepcopy_priv h pa with
      | Some (h1, pa') =>
          match deepcopy_entries h1 r with
          | Some (h2, r') => Some (h2, (k, pa') :: r')
          | None => None
          end
      | None => None
      end
  end.

(* copy.deepcopy(PRIVS) — no object is shared inside a well-formed definition, so the memo of
   deepcopy plays no role *)
Definition deepcopy_dict (h : heap) (d : addr) : option (heap * addr) :=
  match hget h d with
  | Some (ODict es) =>
      match deepcopy_entries h es with
      | Some (h1, es') => Some (alloc h1 (ODict es'))
      | None => None
      end
  | _ => None
  end.

(* ---- operations ------------------------------------------------------------------------------ *)
Inductive op :=
| New (k : nat)                                     (* core driver __init__, no tables supplied:
                                                       deepcopy(PRIVS), FAILED_WHEN_CONTAINS.copy() *)
| NewCommunity (k : nat)                            (* factory: deepcopy(SCRAPLI_PLATFORM); NetworkDriver keeps
                                                       references into the copy; failed_when_contains or [] *)
| Register (i : nat) (name : bytes) (f : privf)     (* register_configuration_session *)
| SetPattern (i : nat) (level pat : bytes)          (* conn.privilege_levels[level].pattern = pat *)
| AppendNC (i : nat) (level s : bytes)              (* conn.privilege_levels[level].not_contains.append(s) *)
| AppendFWC (i : nat) (s : bytes).                  (* conn.failed_when_contains.append(s) *)

Definition target (o : op) : option nat :=
  match o with
  | New _ | NewCommunity _ => None
  | Register i _ _ | SetPattern i _ _ | AppendNC i _ _ | AppendFWC i _ => Some i
  end.

Fixpoint assoc (k : bytes) (es : list (bytes * addr)) : option addr :=
  match es with
  | [] => None
  | (k', a) :: r => if beq k' k then Some a else assoc k r
  end.

Inductive status := Done | Raises.

Definition set_heap (s : state) (h : heap) : state := mkSt h (st_defs s) (st_conns s).

Definition with_pattern (f : privf) (p : bytes) : privf :=
  mkPF p (pf_name f) (pf_prev f) (pf_deesc f) (pf_esc f) (pf_eauth f) (pf_eprompt f).

(* an operation that raises leaves the state as it was *)
Definition step (s : state) (o : op) : state * status :=
  let h := st_heap s in
  match o with
  | New k =>
      match nth_error (st_defs s) k with
      | Some (d, l) =>
          match deepcopy_dict h d with
          | Some (h1, d') =>
              match copy_list h1 l with
              | Some (h2, l') => (mkSt h2 (st_defs s) (st_conns s ++ [mkConn d' l']), Done)
              | None => (s, Raises)
              end
          | None => (s, Raises)
          end
      | None => (s, Raises)
      end
  | NewCommunity k =>
      match nth_error (st_defs s) k with
      | Some (d, l) =>
          match deepcopy_dict h d with
          | Some (h1, d') =>
              match copy_list h1 l with
              | Some (h2, l') =>
                  match hget h2 l' with
                  | Some (OList []) =>
                      let (h3, l'') := alloc h2 (OList []) in
                      (mkSt h3 (st_defs s) (st_conns s ++ [mkConn d' l'']), Done)
                  | _ => (mkSt h2 (st_defs s) (st_conns s ++ [mkConn d' l']), Done)
                  end
              | None => (s, Raises)
              end
          | None => (s, Raises)
          end
      | None => (s, Raises)
      end
  | Register i name f =>
      match nth_error (st_conns s) i with
      | Some c =>
          match hget h (cn_privs c) with
          | Some (ODict es) =>
              match assoc name es with
              | Some _ => (s, Raises)                           (* ScrapliValueError: already registered *)
              | None =>
                  let (h1, nc) := alloc h (OList []) in          (* not_contains or [] *)
                  let (h2, pa) := alloc h1 (OPriv f nc) in
                  (set_heap s (upd (cn_privs c) (ODict (es ++ [(name, pa)])) h2), Done)
              end
          | _ => (s, Raises)
          end
      | None => (s, Raises)
      end
  | SetPattern i level pat =>
      match nth_error (st_conns s) i with
      | Some c =>
          match hget h (cn_privs c) with
          | Some (ODict es) =>
              match assoc level es with
              | Some pa =>
                  match hget h pa with
                  | Some (OPriv f nc) => (set_heap s (upd pa (OPriv (with_pattern f pat) nc) h), Done)
                  | _ => (s, Raises)
                  end
              | None => (s, Raises)
              end
          | _ => (s, Raises)
          end
      | None => (s, Raises)
      end
  | AppendNC i level x =>
      match nth_error (st_conns s) i with
      | Some c =>
          match hget h (cn_privs c) with
          | Some (ODict es) =>
              match assoc level es with
              | Some pa =>
                  match hget h pa with
                  | Some (OPriv f nc) =>
                      match hget h nc with
                      | Some (OList l) => (set_heap s (upd nc (OList (l ++ [x])) h), Done)
                      | _ => (s, Raises)
                      end
                  | _ => (s, Raises)
                  end
              | None => (s, Raises)
              end
          | _ => (s, Raises)
          end
      | None => (s, Raises)
      end
  | AppendFWC i x =>
      match nth_error (st_conns s) i with
      | Some c =>
          match hget h (cn_fwc c) with
          | Some (OList l) => (set_heap s (upd (cn_fwc c) (OList (l ++ [x])) h), Done)
          | _ => (s, Raises)
          end
      | None => (s, Raises)
      end
  end.

Fixpoint run (s : state) (ops : list op) : state :=
  match ops with
  | [] => s
  | o :: r => run (fst (step s o)) r
  end.

(* ---- what is observable of a table: its value ---------------------------------------------- *)
Definition view_list (h : heap) (a : addr) : option (list bytes) :=
  match hget h a with Some (OList l) => Some l | _ => None end.

Definition view_priv (h : heap) (pa : addr) : option (privf * list bytes) :=
  match hget h pa with
  | Some (OPriv f nc) => match view_list h nc with Some l => Some (f, l) | None => None end
  | _ => None
  end.

Definition view_dict (h : heap) (d : addr) : option (list (bytes * option (privf * list bytes))) :=
  match hget h d with
  | Some (ODict es) => Some (map (fun e => (fst e, view_priv h (snd e))) es)
  | _ => None
  end.

Definition view_tables (h : heap) (r : addr * addr) :=
  (view_dict h (fst r), view_list h (snd r)).

Definition view_conn (s : state) (i : nat) :=
  match nth_error (st_conns s) i with
  | Some c => Some (view_tables (st_heap s) (cn_privs c, cn_fwc c))
  | None => None
  end.

Definition view_defs (s : state) := map (view_tables (st_heap s)) (st_defs s).

(* ---- what a connection ANSWERS: a function of the value of its own tables ---------------------- *)
Definition conn_view := (option (list (bytes * option (privf * list bytes))) * option (list bytes))%type.

Definition answer {Q R : Type} (f : conn_view -> Q -> R) (s : state) (i : nat) (q : Q) : option R :=
  match view_conn s i with Some v => Some (f v q) | None => None end.

(* _determine_current_priv read as such a function: the names of the levels none of whose
   not_contains fragments occurs in the prompt and whose pattern matches it (the regex matcher is a
   parameter); None = ScrapliPrivilegeError.  No cache, no state besides the connection's table. *)
Definition level_matches (m : bytes -> bytes -> bool) (prompt : bytes) (e : bytes * option (privf * list bytes)) : bool :=
  match snd e with
  | Some (f, nc) => negb (existsb (fun x => infixb x prompt) nc) && m (pf_pattern f) prompt
  | None => false
  end.

Definition level_name (e : bytes * option (privf * list bytes)) : bytes :=
  match snd e with Some (f, _) => pf_name f | None => [] end.

Definition classify (m : bytes -> bytes -> bool) (v : conn_view) (prompt : bytes) : option (list bytes) :=
  match fst v with
  | Some es => match map level_name (filter (level_matches m prompt) es) with [] => None | l => Some l end
  | None => None
  end.

(* ---- identity graph: the addresses a table reaches ------------------------------------------- *)
Definition links (o : obj) : list addr :=
  match o with OList _ => [] | OPriv _ nc => [nc] | ODict es => map snd es end.
Definition links_at (h : heap) (a : addr) : list addr :=
  match hget h a with Some o => links o | None => [] end.
Definition reach (h : heap) (r : addr) : list addr :=
  let l1 := links_at h r in r :: l1 ++ flat_map (links_at h) l1.
Definition reach_tables (h : heap) (r : addr * addr) : list addr := reach h (fst r) ++ [snd r].

(* ---- executable well-formedness of an initial state (decided on the generated definitions) --- *)
Fixpoint nodup_nat (l : list nat) : bool :=
  match l with [] => true | x :: r => negb (existsb (Nat.eqb x) r) && nodup_nat r end.

Definition init_ok (s : state) : bool :=
  let all := flat_map (reach_tables (st_heap s)) (st_defs s) in
  nodup_nat all && forallb (fun a => a <? length (st_heap s))%nat all
  && match st_conns s with [] => true | _ => false end
  && forallb (fun r => match view_tables (st_heap s) r with
                       | (Some es, Some _) => forallb (fun e => match snd e with Some _ => true | None => false end) es
                       | _ => false end) (st_defs s).

(* ---- building a heap from table values (used by the generated definitions) ------------------- *)
Definition tables := (list (bytes * (privf * list bytes)) * list bytes)%type.

Fixpoint alloc_entries (h : heap) (es : list (bytes * (privf * list bytes))) : heap * list (bytes * addr) :=
  match es with
  | [] => (h, [])
  | (k, (f, nc)) :: r =>
      let (h1, a1) := alloc h (OList nc) in
      let (h2, a2) := alloc h1 (OPriv f a1) in
      let (h3, r') := alloc_entries h2 r in
      (h3, (k, a2) :: r')
  end.

Definition alloc_tables (s : state) (t : tables) : state :=
  let (h1, es) := alloc_entries (st_heap s) (fst t) in
  let (h2, d) := alloc h1 (ODict es) in
  let (h3, l) := alloc h2 (OList (snd t)) in
  mkSt h3 (st_defs s ++ [(d, l)]) (st_conns s).

Definition init_state (defs : list tables) : state := fold_left alloc_tables defs (mkSt [] [] []).

(* comparison helpers for the correspondence *)
Definition privf_eqb (x y : privf) : bool :=
  beq (pf_pattern x) (pf_pattern y) && beq (pf_name x) (pf_name y) && beq (pf_prev x) (pf_prev y)
  && beq (pf_deesc x) (pf_deesc y) && beq (pf_esc x) (pf_esc y) && Bool.eqb (pf_eauth x) (pf_eauth y)
  && beq (pf_eprompt x) (pf_eprompt y).

Fixpoint entries_eqb (x : list (bytes * option (privf * list bytes))) (y : list (bytes * (privf * list bytes))) : bool :=
  match x, y with
  | [], [] => true
  | (k, Some (f, nc)) :: x', (k', (f', nc')) :: y' =>
      beq k k' && privf_eqb f f' && lbeq nc nc' && entries_eqb x' y'
  | _, _ => false
  end.

Definition tables_match (v : option (list (bytes * option (privf * list bytes))) * option (list bytes)) (t : tables) : bool :=
  match v with
  | (Some es, Some l) => entries_eqb es (fst t) && lbeq l (snd t)
  | _ => false
  end.
