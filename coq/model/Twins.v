(* Twins.v — model for C06 (sync and asyncio drivers behave identically).  Definitions only;
   proofs are in proofs/Twins_Proofs.v.

   Part 1: the structural twin check.  The translator gen/gen_twins.py emits, for every sync/async
   module pair, the public attribute tables of the paired classes and the RAW token streams of
   every paired function; the normaliser (drop async/await, rename the twin names) and the
   decision procedures live here, so the obligations of props/C06.v are decided by vm_compute
   over the regenerated tables.

   Part 2: the in-channel login loops (scrapli/channel/sync_channel.py and async_channel.py,
   channel_authenticate_telnet / channel_authenticate_ssh), one model for both stacks: the
   sync loop blocks in read(), the asyncio loop polls (wait_for(read, interval) -> b"" on expiry,
   then sleep 0.1).  What a loop iteration sees is an event; the asyncio stack sees the same
   events as the sync one with poll expiries inserted. *)
From Verif Require Import Bytes.

(* ------------------------------------------------------------------------------------------ *)
(* Part 1 — tables                                                                            *)
(* ------------------------------------------------------------------------------------------ *)

(* parameter kinds: 0 positional-only, 1 positional-or-keyword, 2 *args, 3 keyword-only, 4 **kw *)
Record param := mkParam { p_name : bytes; p_kind : N; p_default : option bytes }.
(* attribute kinds: 1 function, 2 property, 3 other class attribute *)
Record meth := mkMeth { m_name : bytes; m_kind : N; m_coro : bool; m_params : list param }.
Record twin_cls := mkCls { c_sync : bytes; c_async : bytes; c_smeths : list meth; c_ameths : list meth }.
Record twin_fn := mkFn {
  f_name : bytes; f_in_sync : bool; f_in_async : bool;
  f_stoks : list N; f_atoks : list N;   (* raw interned token streams *)
  f_hash : bytes                          (* translator's hash of the normalised token diff; [] = none *)
}.

Definition obeq (a b : option bytes) : bool :=
  match a, b with
  | None, None => true
  | Some x, Some y => beq x y
  | _, _ => false
  end.

Definition param_eqb (p q : param) : bool :=
  beq (p_name p) (p_name q) && (p_kind p =? p_kind q) && obeq (p_default p) (p_default q).

Fixpoint params_eqb (a b : list param) : bool :=
  match a, b with
  | [], [] => true
  | p :: a', q :: b' => param_eqb p q && params_eqb a' b'
  | _, _ => false
  end.

Fixpoint find_meth (n : bytes) (l : list meth) : option meth :=
  match l with
  | [] => None
  | m :: r => if beq (m_name m) n then Some m else find_meth n r
  end.

(* the public attribute [m] of one class exists on the other with the same kind and parameters *)
Definition meth_ok (others : list meth) (m : meth) : bool :=
  match find_meth (m_name m) others with
  | Some m' => (m_kind m =? m_kind m') && params_eqb (m_params m) (m_params m')
  | None => false
  end.

Definition cls_ok (c : twin_cls) : bool := forallb (meth_ok (c_ameths c)) (c_smeths c).
Definition cls_ok_rev (c : twin_cls) : bool := forallb (meth_ok (c_smeths c)) (c_ameths c).
Definition cls_sync_plain (c : twin_cls) : bool := forallb (fun m => negb (m_coro m)) (c_smeths c).
Definition sigs_ok (cs : list twin_cls) : bool :=
  forallb (fun c => cls_ok c && cls_ok_rev c && cls_sync_plain c) cs.

(* witness mode: (class, attribute) pairs that fail *)
Definition failing_meths (cs : list twin_cls) : list (bytes * bytes) :=
  flat_map (fun c =>
    map (fun m => (c_sync c, m_name m)) (filter (fun m => negb (meth_ok (c_ameths c) m)) (c_smeths c)) ++
    map (fun m => (c_async c, m_name m)) (filter (fun m => negb (meth_ok (c_smeths c) m)) (c_ameths c)) ++
    map (fun m => (c_sync c, m_name m)) (filter m_coro (c_smeths c))) cs.

(* ---- token streams ---- *)
Fixpoint rename1 (rn : list (N * N)) (t : N) : N :=
  match rn with
  | [] => t
  | (a, s) :: r => if a =? t then s else rename1 r t
  end.

Definition normalise (drop : list N) (rn : list (N * N)) (toks : list N) : list N :=
  map (rename1 rn) (filter (fun t => negb (mem t drop)) toks).

Definition fn_equal (drop : list N) (rn : list (N * N)) (f : twin_fn) : bool :=
  f_in_sync f && f_in_async f && beq (normalise drop rn (f_stoks f)) (normalise drop rn (f_atoks f)).

Fixpoint lookup_allowed (n : bytes) (al : list (bytes * bytes)) : option bytes :=
  match al with
  | [] => None
  | (k, h) :: r => if beq k n then Some h else lookup_allowed n r
  end.

Definition is_nil {A} (l : list A) : bool := match l with [] => true | _ => false end.

(* a paired function is fine when its normalised streams are equal (and the translator agrees:
   no diff hash), or when it is on the committed difference list WITH the hash of exactly the
   difference that was reviewed *)
Definition fn_ok (drop : list N) (rn : list (N * N)) (al : list (bytes * bytes)) (f : twin_fn) : bool :=
  if fn_equal drop rn f then is_nil (f_hash f)
  else match lookup_allowed (f_name f) al with
       | Some h => negb (is_nil h) && beq h (f_hash f)
       | None => false
       end.

Definition fns_ok drop rn al (fs : list twin_fn) : bool := forallb (fn_ok drop rn al) fs.

(* the committed list has no stale entry: every entry names a function that still differs *)
Definition allowed_exact drop rn (al : list (bytes * bytes)) (fs : list twin_fn) : bool :=
  forallb (fun e => existsb (fun f => beq (f_name f) (fst e) && negb (fn_equal drop rn f)) fs) al.

Definition failing_fns drop rn al (fs : list twin_fn) : list bytes :=
  map f_name (filter (fun f => negb (fn_ok drop rn al f)) fs).
Definition stale_allowed drop rn (al : list (bytes * bytes)) (fs : list twin_fn) : list bytes :=
  map fst (filter (fun e => negb (existsb (fun f => beq (f_name f) (fst e) && negb (fn_equal drop rn f)) fs)) al).
Definition count_equal drop rn (fs : list twin_fn) : nat := length (filter (fn_equal drop rn) fs).

(* ------------------------------------------------------------------------------------------ *)
(* Part 2 — the login loops                                                                   *)
(* ------------------------------------------------------------------------------------------ *)

(* what one loop iteration gets from `read`:
     LData b k  — read() returned b (possibly b"": e.g. a chunk of only "\r", or EOF on Telnet);
     LExpire k  — asyncio only: wait_for expired, buf = b"";
     LErr       — read() raised ScrapliConnectionError.
   k is the time input: whether the Telnet "kick" test
   (now - start) > return_interval * return_attempts holds at that iteration. *)
Inductive lev := LData (b : bytes) (k : bool) | LExpire (k : bool) | LErr.

Inductive lout :=
  | LDone                 (* prompt seen: authenticated *)
  | LAuthFailed (w : N)   (* ScrapliAuthenticationFailed: 1 first prompt seen > 2 times, 2 second
                             prompt seen > 2 times, 3 the ssh message handler found an error *)
  | LConnErr              (* ScrapliConnectionError propagated *)
  | LBlocks.              (* reads exhausted: the loop would wait for ever *)

Record lcfg := mkLcfg {
  l_m1 : bytes -> bool;       (* telnet: username/login pattern; ssh: password pattern *)
  l_m2 : bytes -> bool;       (* telnet: password pattern;       ssh: passphrase pattern *)
  l_prompt : bytes -> bool;   (* device prompt pattern *)
  l_pre : bytes -> bool;      (* sync ssh: _ssh_message_handler raises; otherwise fun _ => false *)
  l_a1 : bytes; l_a2 : bytes; l_ret : bytes;
  l_kicks : bool;             (* telnet: an empty read may send a return (time based) *)
  l_catch : bool              (* a ScrapliConnectionError from read is answered by a return *)
}.

Record lst := mkLst { abuf : bytes; c1 : nat; c2 : nat; wr : list bytes }.
Definition l_init : lst := mkLst [] 0 0 [].

Inductive lres := Cont (s : lst) | Fin (o : lout) (w : list bytes).

Definition wr_add (st : lst) (w : list bytes) : lst := mkLst (abuf st) (c1 st) (c2 st) (wr st ++ w).

(* the body of the while loop after `buf` is known *)
Definition lbody (cfg : lcfg) (st : lst) (b : bytes) (k : bool) : lres :=
  let st0 := if l_kicks cfg && is_nil b && k then wr_add st [l_ret cfg] else st in
  let ab := abuf st0 ++ lower b in
  if l_pre cfg ab then Fin (LAuthFailed 3) (wr st0) else
  (* first pattern *)
  let r1 :=
    if l_m1 cfg ab then
      if Nat.ltb 2 (S (c1 st0)) then Fin (LAuthFailed 1) (wr st0)
      else Cont (mkLst [] (S (c1 st0)) (c2 st0) (wr st0 ++ [l_a1 cfg; l_ret cfg]))
    else Cont (mkLst ab (c1 st0) (c2 st0) (wr st0)) in
  match r1 with
  | Fin o w => Fin o w
  | Cont s1 =>
      let r2 :=
        if l_m2 cfg (abuf s1) then
          if Nat.ltb 2 (S (c2 s1)) then Fin (LAuthFailed 2) (wr s1)
          else Cont (mkLst [] (c1 s1) (S (c2 s1)) (wr s1 ++ [l_a2 cfg; l_ret cfg]))
        else Cont s1 in
      match r2 with
      | Fin o w => Fin o w
      | Cont s2 => if l_prompt cfg (abuf s2) then Fin LDone (wr s2) else Cont s2
      end
  end.

Definition lstep (cfg : lcfg) (st : lst) (e : lev) : lres :=
  match e with
  | LData b k => lbody cfg st b k
  | LExpire k => lbody cfg st [] k
  | LErr => if l_catch cfg then Cont (wr_add st [l_ret cfg]) else Fin LConnErr (wr st)
  end.

Fixpoint lrun (cfg : lcfg) (st : lst) (evs : list lev) : lout * list bytes :=
  match evs with
  | [] => (LBlocks, wr st)
  | e :: r => match lstep cfg st e with
              | Cont st' => lrun cfg st' r
              | Fin o w => (o, w)
              end
  end.

(* an iteration that brings no bytes and triggers no kick *)
Definition quiet (cfg : lcfg) (e : lev) : bool :=
  match e with
  | LData [] k => negb (l_kicks cfg && k)
  | LData _ _ => false
  | LExpire k => negb (l_kicks cfg && k)
  | LErr => false
  end.
Definition destutter (cfg : lcfg) (evs : list lev) : list lev := filter (fun e => negb (quiet cfg e)) evs.

(* the sync stack never sees a poll expiry *)
Definition is_expire (e : lev) : bool := match e with LExpire _ => true | _ => false end.
Definition sync_view (evs : list lev) : list lev := filter (fun e => negb (is_expire e)) evs.

(* ---- concrete instances used by the correspondence run (literal patterns) ---- *)
Definition lit_cfg (p1 p2 pp : bytes) (a1 a2 ret : bytes) (kicks catch : bool) : lcfg :=
  mkLcfg (infixb p1) (infixb p2) (infixb pp) (fun _ => false) a1 a2 ret kicks catch.

Definition lout_code (o : lout) : N :=
  match o with LDone => 0 | LAuthFailed w => w | LConnErr => 4 | LBlocks => 5 end.
