(* Factory.v — executable model of scrapli/factory.py (Scrapli / AsyncScrapli.__new__,
   _build_provided_kwargs_dict, _get_community_platform_details, _get_driver_kwargs,
   _get_driver_class) and of what a driver constructor does with its keyword arguments
   (signature binding, defaults, the platform drivers' "is None" substitutions, BaseDriver /
   Driver / AsyncDriver validation, in the order of the code).  Definitions only.

   Python values are [val]; keyword arguments and dicts are insertion-ordered association lists
   with Python's update-in-place semantics.  Objects that matter by identity (callables, classes,
   user supplied dicts/lists, the platform tables) are [VRef token]; an object freshly allocated
   by the code is [VCopy token] (deepcopy / .copy() of the object [token]) or [VNew] (an empty
   container): the heap behind these is model/Heap.v. *)
From Verif Require Import Bytes.
From Coq Require Import String Ascii.

Definition b (s : string) : bytes := map N_of_ascii (list_ascii_of_string s).

Definition key := bytes.

Inductive val :=
| VNone
| VBool (x : bool)
| VInt (n : N)
| VFloat (repr : bytes)
| VStr (s : bytes)
| VRef (tok : N) (truthy callable : bool)
| VCopy (tok : N) (truthy : bool)
| VNew.

Definition kwargs := list (key * val).

Definition val_eqb (x y : val) : bool :=
  match x, y with
  | VNone, VNone => true
  | VBool p, VBool q => Bool.eqb p q
  | VInt n, VInt m => n =? m
  | VFloat r, VFloat s => beq r s
  | VStr r, VStr s => beq r s
  | VRef t a c, VRef t' a' c' => (t =? t') && Bool.eqb a a' && Bool.eqb c c'
  | VCopy t a, VCopy t' a' => (t =? t') && Bool.eqb a a'
  | VNew, VNew => true
  | _, _ => false
  end.

Definition is_none (v : val) : bool := match v with VNone => true | _ => false end.

(* bool(v) *)
Definition truthy (v : val) : bool :=
  match v with
  | VNone => false
  | VBool x => x
  | VInt n => negb (n =? 0)
  | VFloat r => negb (beq r (b "0.0"))
  | VStr s => match s with [] => false | _ => true end
  | VRef _ t _ => t
  | VCopy _ t => t
  | VNew => false
  end.

(* ---- dicts ---------------------------------------------------------------------------- *)
Fixpoint get (k : key) (d : kwargs) : option val :=
  match d with
  | [] => None
  | (k', v) :: r => if beq k' k then Some v else get k r
  end.

Fixpoint set (k : key) (v : val) (d : kwargs) : kwargs :=
  match d with
  | [] => [(k, v)]
  | (k', v') :: r => if beq k' k then (k', v) :: r else (k', v') :: set k v r
  end.

(* {**a, **b} *)
Definition merge (a bb : kwargs) : kwargs := fold_left (fun acc kv => set (fst kv) (snd kv) acc) bb a.

Definition remove (k : key) (d : kwargs) : kwargs := filter (fun kv => negb (beq (fst kv) k)) d.

Definition mem_key (k : key) (l : list key) : bool := existsb (beq k) l.

Definition keys (d : kwargs) : list key := map fst d.

Fixpoint kw_eqb (x y : kwargs) : bool :=
  match x, y with
  | [], [] => true
  | (k, v) :: x', (k', v') :: y' => beq k k' && val_eqb v v' && kw_eqb x' y'
  | _, _ => false
  end.

(* equality of dicts as Python compares them: same keys, same values, any order *)
Definition sub_dict (x y : kwargs) : bool :=
  forallb (fun kv => match get (fst kv) y with Some v => val_eqb (snd kv) v | None => false end) x.
Definition dict_eqb (x y : kwargs) : bool := sub_dict x y && sub_dict y x.

(* ---- exceptions / outcomes -------------------------------------------------------------- *)
Inductive exn :=
| TypeError | KeyError | AttributeError
| ScrapliValueError | ScrapliTypeError | ScrapliModuleNotFound | ScrapliException
| ScrapliTransportPluginError.

Definition scrapli_error (e : exn) : bool :=
  match e with
  | ScrapliValueError | ScrapliTypeError | ScrapliModuleNotFound | ScrapliException
  | ScrapliTransportPluginError => true
  | _ => false
  end.

Definition exn_code (e : exn) : N :=
  match e with
  | TypeError => 1 | KeyError => 2 | AttributeError => 3 | ScrapliValueError => 4
  | ScrapliTypeError => 5 | ScrapliModuleNotFound => 6 | ScrapliException => 7
  | ScrapliTransportPluginError => 8
  end.

(* ---- names -------------------------------------------------------------------------------- *)
Definition k_host := b "host".
Definition k_port := b "port".
Definition k_transport := b "transport".
Definition k_transport_options := b "transport_options".
Definition k_privilege_levels := b "privilege_levels".
Definition k_failed_when_contains := b "failed_when_contains".
Definition k_on_init := b "on_init".
Definition k_on_open := b "on_open".
Definition k_on_close := b "on_close".
Definition k_sync_on_open := b "sync_on_open".
Definition k_sync_on_close := b "sync_on_close".
Definition k_async_on_open := b "async_on_open".
Definition k_async_on_close := b "async_on_close".
Definition k_auth_strict_key := b "auth_strict_key".
Definition k_auth_bypass := b "auth_bypass".
Definition k_channel_log_mode := b "channel_log_mode".
Definition k_ssh_config_file := b "ssh_config_file".
Definition k_ssh_known_hosts_file := b "ssh_known_hosts_file".
Definition k_comms_return_char := b "comms_return_char".
Definition k_auth_telnet_login_pattern := b "auth_telnet_login_pattern".
Definition s_h := b "h".
Definition s_telnet := b "telnet".
Definition s_system := b "system".
Definition s_network := b "network".
Definition s_generic := b "generic".

(* ---- classes ------------------------------------------------------------------------------ *)
(* a driver class as far as construction goes: keyword signature (None = required parameter),
   whether it is an asyncio driver, and the substitutions its __init__ makes for arguments that
   are None (core platform drivers: privilege_levels -> deepcopy(PRIVS), on_open/on_close -> the
   platform callables, failed_when_contains -> FAILED_WHEN_CONTAINS.copy()) *)
Record cls := mkCls {
  c_id : N;
  c_async : bool;
  c_network : bool;                       (* NetworkDriver family: failed_when_contains or [] *)
  c_sig : list (key * option val);
  c_subst : kwargs
}.

Inductive outcome :=
| Built (c : N) (fields : kwargs)
| Raised (e : exn).

Definition lower_in (s : bytes) (l : list bytes) : bool := existsb (beq (lower s)) l.

Definition sig_names (sg : list (key * option val)) : list key := map fst sg.

(* bind keyword arguments to the signature: unknown keyword / missing required => TypeError *)
Fixpoint bind_sig (sg : list (key * option val)) (kw : kwargs) : option kwargs :=
  match sg with
  | [] => Some []
  | (n, d) :: r =>
      match (match get n kw with Some v => Some v | None => d end), bind_sig r kw with
      | Some v, Some rest => Some ((n, v) :: rest)
      | _, _ => None
      end
  end.

Definition bind (sg : list (key * option val)) (kw : kwargs) : option kwargs :=
  if forallb (fun kv => mem_key (fst kv) (sig_names sg)) kw then bind_sig sg kw else None.

Definition subst_none (sub : kwargs) (f : kwargs) : kwargs :=
  map (fun kv => match snd kv, get (fst kv) sub with
                 | VNone, Some v => (fst kv, v)
                 | _, _ => kv
                 end) f.

Definition getd (k : key) (d : kwargs) : val := match get k d with Some v => v | None => VNone end.

Definition is_int (v : val) : bool := match v with VInt _ | VBool _ => true | _ => false end.
Definition is_bool (v : val) : bool := match v with VBool _ => true | _ => false end.
Definition is_str_or_bool (v : val) : bool := match v with VBool _ | VStr _ => true | _ => false end.
Definition is_callable (v : val) : bool := match v with VRef _ _ c => c | _ => false end.
Definition str_of (v : val) : option bytes := match v with VStr s => Some s | _ => None end.

(* transport environment, regenerated from the source tree *)
Record tenv := mkTenv {
  core_transports : list bytes;
  asyncio_transports : list bytes;
  installed_transports : list bytes          (* transport plugins that import in this environment *)
}.

(* `transport in CORE_TRANSPORTS and transport (not) in ASYNCIO_TRANSPORTS`, for a str / None *)
Definition tr_in (v : val) (l : list bytes) : bool :=
  match v with VStr s => existsb (beq s) l | _ => false end.
Definition mixup (te : tenv) (async : bool) (tr : val) : bool :=
  tr_in tr (core_transports te) &&
  (if async then negb (tr_in tr (asyncio_transports te)) else tr_in tr (asyncio_transports te)).

(* BaseDriver.__init__ + Driver/AsyncDriver.__init__ + NetworkDriver.__init__ on the bound
   arguments, checks in source order.  Domain: transport is a str (anything else fails in
   `"telnet" in transport`, TypeError), channel_log_mode is a str. *)
Definition base_init (te : tenv) (c : cls) (f : kwargs) : outcome :=
  match str_of (getd k_transport f), str_of (getd k_channel_log_mode f) with
  | None, _ => Raised TypeError
  | _, None => Raised AttributeError
  | Some tr, Some clm =>
    let telnet := infixb s_telnet tr in
    let f1 := if is_none (getd k_port f) then set k_port (VInt (if telnet then 23 else 22)) f else f in
    if negb (lower_in clm [b "write"; b "append"]) then Raised ScrapliValueError else
    let f2 := set k_channel_log_mode (VStr (if beq (lower clm) (b "write") then b "w" else b "a")) f1 in
    let f3 := if truthy (getd k_transport_options f2) then f2 else set k_transport_options VNew f2 in
    if negb (truthy (getd k_host f3)) then Raised ScrapliValueError else
    if negb (is_int (getd k_port f3)) then Raised ScrapliTypeError else
    if negb (is_bool (getd k_auth_strict_key f3)) then Raised ScrapliTypeError else
    if negb (is_bool (getd k_auth_bypass f3)) then Raised ScrapliTypeError else
    if negb telnet && negb (is_str_or_bool (getd k_ssh_config_file f3)) then Raised ScrapliTypeError else
    if negb telnet && negb (is_str_or_bool (getd k_ssh_known_hosts_file f3)) then Raised ScrapliTypeError else
    if negb (is_none (getd k_on_init f3)) && negb (is_callable (getd k_on_init f3)) then Raised ScrapliTypeError else
    if negb (is_none (getd k_on_open f3)) && negb (is_callable (getd k_on_open f3)) then Raised ScrapliTypeError else
    if negb (is_none (getd k_on_close f3)) && negb (is_callable (getd k_on_close f3)) then Raised ScrapliTypeError else
    if negb (existsb (beq tr) (installed_transports te)) then Raised ScrapliTransportPluginError else
    if mixup te (c_async c) (VStr tr) then Raised ScrapliValueError else
    let f4 := if c_network c && negb (truthy (getd k_failed_when_contains f3))
              then set k_failed_when_contains VNew f3 else f3 in
    Built (c_id c) f4
  end.

Definition construct (te : tenv) (c : cls) (kw : kwargs) : outcome :=
  match bind (c_sig c) kw with
  | None => Raised TypeError
  | Some f => base_init te c (subst_none (c_subst c) f)
  end.

(* ---- the factory ---------------------------------------------------------------------------- *)
(* _build_provided_kwargs_dict: [params] = keys of _provided_args in source order; the user's
   keyword arguments [kw] (without platform / variant) are bound to the factory signature: a named
   parameter that is absent is None; what is not a named parameter lands in **kwargs *)
Definition provided_args (params : list key) (kw : kwargs) : kwargs :=
  map (fun p => (p, getd p kw)) params.

Definition extras (params : list key) (kw : kwargs) : kwargs :=
  filter (fun kv => negb (mem_key (fst kv) params)) kw.

Definition build_provided (params : list key) (kw : kwargs) : kwargs :=
  merge (filter (fun kv => negb (is_none (snd kv))) (provided_args params kw)) (extras params kw).

(* community platform definition (scrapli_community.<x>.SCRAPLI_PLATFORM) *)
Inductive dtype :=
| DStr (s : bytes)
| DPair (sync async : N).                (* {"sync": cls, "async": cls} *)

Record community := mkCom {
  cm_driver_type : dtype;
  cm_defaults : kwargs;
  cm_variants : list (bytes * (option dtype * kwargs))   (* variant -> (its driver_type, kwargs) *)
}.

(* importing scrapli_community.<name with _ replaced by .> :
   None = ModuleNotFoundError, Some None = no / empty SCRAPLI_PLATFORM *)
Definition community_table := list (bytes * option community).

Definition dotted (s : bytes) : bytes := map (fun c => if c =? 95 then 46 else c) s.

Fixpoint lookup {A} (k : bytes) (l : list (bytes * A)) : option A :=
  match l with
  | [] => None
  | (k', v) :: r => if beq k' k then Some v else lookup k r
  end.

(* deepcopy of a value held in SCRAPLI_PLATFORM: callables and classes are atomic; the copy of an
   empty container is just a new empty container *)
Definition deepcopy_val (v : val) : val :=
  match v with
  | VRef t tr false => if tr then VCopy t true else VNew
  | _ => v
  end.
Definition deepcopy_kw (d : kwargs) : kwargs := map (fun kv => (fst kv, deepcopy_val (snd kv))) d.

Inductive res (A : Type) := Ok (a : A) | Err (e : exn).
Arguments Ok {A} a. Arguments Err {A} e.

(* dict.pop(k) -> KeyError when absent *)
Definition pop (k : key) (d : kwargs) : res (val * kwargs) :=
  match get k d with Some v => Ok (v, remove k d) | None => Err KeyError end.

(* _get_driver_kwargs *)
Definition driver_kwargs (cm : community) (variant : val) (async : bool) : res kwargs :=
  let base :=
    if truthy variant then
      match variant with
      | VStr vn => match lookup vn (cm_variants cm) with
                   | Some (_, vk) => Ok (merge (cm_defaults cm) vk)
                   | None => Err KeyError
                   end
      | _ => Err KeyError
      end
    else Ok (cm_defaults cm) in
  match base with
  | Err e => Err e
  | Ok d =>
    let '(drop1, drop2, keep1, keep2) :=
      if async then (k_sync_on_open, k_sync_on_close, k_async_on_open, k_async_on_close)
      else (k_async_on_open, k_async_on_close, k_sync_on_open, k_sync_on_close) in
    match pop drop1 d with Err e => Err e | Ok (_, d1) =>
    match pop drop2 d1 with Err e => Err e | Ok (_, d2) =>
    match pop keep1 d2 with Err e => Err e | Ok (v1, d3) =>
    let d4 := set k_on_open v1 d3 in
    match pop keep2 d4 with Err e => Err e | Ok (v2, d5) =>
    Ok (set k_on_close v2 d5)
    end end end end
  end.

(* _get_driver_class: class id; DRIVER_MAP = network -> [net], generic -> [gen] *)
Definition pick (async : bool) (d : dtype) : res N :=
  match d with
  | DPair s a => Ok (if async then a else s)
  | DStr _ => Err TypeError                (* "network"["sync"] *)
  end.

Definition driver_class (net gen : N) (cm : community) (variant : val) (async : bool) : res N :=
  let top :=
    match cm_driver_type cm with
    | DStr s => if beq s s_network then Ok net else if beq s s_generic then Ok gen
                else pick async (cm_driver_type cm)
    | d => pick async d
    end in
  if truthy variant then
    match variant with
    | VStr vn => match lookup vn (cm_variants cm) with
                 | Some (Some d, _) => pick async d
                 | Some (None, _) => top
                 | None => Err KeyError
                 end
    | _ => Err KeyError
    end
  else top.

Record fenv := mkFenv {
  f_te : tenv;
  f_params : list key;                       (* _provided_args keys *)
  f_required : list key;                     (* factory parameters without default (host) *)
  f_core : bool -> list (bytes * N);         (* CORE_PLATFORM_MAP of Scrapli / AsyncScrapli *)
  f_net : bool -> N; f_gen : bool -> N;      (* DRIVER_MAP *)
  f_classes : list cls;
  f_community : community_table
}.

Definition find_cls (e : fenv) (id : N) : option cls := find (fun c => c_id c =? id) (f_classes e).

Inductive call := Call (c : N) (kw : kwargs) | CallErr (e : exn).

(* everything Scrapli.__new__ / AsyncScrapli.__new__ does up to the call of final_driver with final_kwargs.
   [platform]: Some name, or None for a non-str platform argument. *)
Definition factory_call (e : fenv) (async : bool) (platform : option bytes) (variant : val) (kw : kwargs) : call :=
  if negb (forallb (fun r => match get r kw with Some _ => true | None => false end) (f_required e))
  then CallErr TypeError else
  if mixup (f_te e) async (getd k_transport kw) then CallErr ScrapliValueError else
  match platform with
  | None => CallErr ScrapliTypeError
  | Some p =>
    let provided := build_provided (f_params e) kw in
    match lookup p (f_core e async) with
    | Some c => Call c provided
    | None =>
      match lookup (dotted p) (f_community e) with
      | None => CallErr ScrapliModuleNotFound
      | Some None => CallErr ScrapliException
      | Some (Some cm0) =>
        let cm := mkCom (cm_driver_type cm0) (deepcopy_kw (cm_defaults cm0))
                        (map (fun x => (fst x, (fst (snd x), deepcopy_kw (snd (snd x))))) (cm_variants cm0)) in
        match driver_class (f_net e async) (f_gen e async) cm variant async with
        | Err x => CallErr x
        | Ok c =>
          match driver_kwargs cm variant async with
          | Err x => CallErr x
          | Ok add => Call c (match add with [] => provided | _ => merge add provided end)
          end
        end
      end
    end
  end.

Definition factory (e : fenv) (async : bool) (platform : option bytes) (variant : val) (kw : kwargs) : outcome :=
  match factory_call e async platform variant kw with
  | CallErr x => Raised x
  | Call c fk =>
    match find_cls e c with
    | Some cl => construct (f_te e) cl fk
    | None => Raised AttributeError          (* not reachable for a well-formed environment *)
    end
  end.

(* ---- comparison helpers for the correspondence ---------------------------------------------- *)
Definition call_eqb (x y : call) : bool :=
  match x, y with
  | Call c k, Call c' k' => (c =? c') && dict_eqb k k'
  | CallErr a, CallErr a' => exn_code a =? exn_code a'
  | _, _ => false
  end.

(* observed fields may be a subset of the model's (only what the harness can read back) *)
Definition outcome_matches (model observed : outcome) : bool :=
  match model, observed with
  | Built c f, Built c' f' => (c =? c') && sub_dict f' f
  | Raised a, Raised a' => exn_code a =? exn_code a'
  | _, _ => false
  end.

(* ---- executable checks over the generated signatures (decided in props/C18.v) ------------------ *)
Fixpoint nodup_keysb (l : list key) : bool :=
  match l with [] => true | x :: r => negb (mem_key x r) && nodup_keysb r end.
Definition same_keys (x y : list key) : bool :=
  forallb (fun k => mem_key k y) x && forallb (fun k => mem_key k x) y.
Definition k_platform := b "platform".
Definition k_variant := b "variant".
(* a factory signature: platform and host required, every forwarded key and variant default to None *)
Definition new_sig_ok (params : list key) (sg : list (key * option val)) : bool :=
  same_keys (map fst sg) (k_platform :: k_variant :: params)
  && forallb (fun kv => match snd kv with
                        | None => beq (fst kv) k_platform || beq (fst kv) k_host
                        | Some d => is_none d
                        end) sg.
Definition class_accepts (params : list key) (c : cls) : bool :=
  forallb (fun k => mem_key k (sig_names (c_sig c))) params.
(* a core driver replaces absent privilege_levels / failed_when_contains by copies, on_open / on_close by callables *)
Definition subst_is_copy (c : cls) : bool :=
  match get k_privilege_levels (c_subst c), get k_failed_when_contains (c_subst c),
        get k_on_open (c_subst c), get k_on_close (c_subst c) with
  | Some (VCopy _ _), Some (VCopy _ _), Some (VRef _ _ true), Some (VRef _ _ true) => true
  | _, _, _, _ => false
  end.
Definition core_classes_ok (e : fenv) : bool :=
  forallb (fun async =>
    forallb (fun pc => match find_cls e (snd pc) with
                       | Some c => class_accepts (f_params e) c && subst_is_copy c && Bool.eqb (c_async c) async && c_network c
                       | None => false
                       end) (f_core e async)) [false; true].
Definition is_built (o : outcome) : bool := match o with Built _ _ => true | Raised _ => false end.
Definition raises (x : exn) (o : outcome) : bool := match o with Raised y => exn_code x =? exn_code y | _ => false end.
