(* PrivGraph.v — executable model of scrapli's privilege navigation
   (scrapli/driver/network/base_driver.py: _build_priv_graph, _build_priv_change_map,
    _process_acquire_priv; scrapli/driver/network/{sync,async}_driver.py: acquire_priv, _escalate,
    _deescalate).  Definitions only; proofs are in proofs/PrivGraph_Proofs.v.

   Privilege levels are numbered by their position in the `privilege_levels` dict (insertion order):
   a table is a list of [plevel]; `previous_priv` is an index ([None] = "").  The iteration order of
   the `_priv_graph` sets (Python iterates a `set` of str: hash order) is a PARAMETER of the model
   ([nbrs]); the theorems hold for every order.  The device is a parameter too ([D], [dline]):
   any line-oriented device; [sim] below is the concrete one used by the correspondence runs and by
   the by-computation lemmas (a copy of harness/simdevice.py's behaviour, driven by the table). *)
From Verif Require Import Bytes.
Local Open Scope nat_scope.

Definition memn (x : nat) (l : list nat) : bool := existsb (Nat.eqb x) l.

Definition oeqb (a b : option nat) : bool :=
  match a, b with
  | Some x, Some y => x =? y
  | None, None => true
  | _, _ => false
  end.

(* ------------------------------------------------------------------------------------------ *)
(* _build_priv_change_map: depth-first search that never revisits a node of the map built so far *)
(* the `for privilege_name in self._priv_graph[starting_priv_name]` loop; [rec] is the recursive call *)
Fixpoint try_ (rec : nat -> list nat) (pm' : list nat) (ns : list nat) : list nat :=
  match ns with
  | [] => []
  | n :: r =>
      if memn n pm' then try_ rec pm' r
      else match rec n with
           | [] => try_ rec pm' r
           | res => res
           end
  end.

Section Search.
  Variable nbrs : nat -> list nat.

  (* [pm] = priv_change_map passed in; result = the complete map, [] when nothing was found
     (python: `return []`).  [fuel] bounds the recursion depth (python: unbounded recursion, which
     is finite because the map is duplicate free). *)
  Fixpoint dfs (fuel : nat) (pm : list nat) (cur dst : nat) : list nat :=
    match fuel with
    | O => []
    | S f =>
        let pm' := pm ++ [cur] in
        if cur =? dst then pm'
        else try_ (fun n => dfs f pm' n dst) pm' (nbrs cur)
    end.
End Search.

(* ------------------------------------------------------------------------------------------ *)
(* the driver loop over an arbitrary device *)
Inductive line := LRet | LDeesc (m : nat) | LEsc (x : nat) | LSec.
(* what the device printed last: the prompt of its mode / a password prompt / nothing at all *)
Inductive reply := RPrompt | RPassword | RSilent.
Inductive action := NoAction | DoDeesc (cur : nat) | DoEsc (x : nat) | NoClass | NoMap.
(* [Crash] = a non-scrapli exception (IndexError on map[1] when the search found nothing);
   [Timeout] = ScrapliTimeout (with the scripted transport: the read that would block for ever);
   [AuthFailed] = ScrapliAuthenticationFailed (the timeout of the interactive escalation, mapped) *)
Inductive outcome := Reached | PrivilegeError | AuthFailed | Timeout | Crash | OutOfFuel.

Definition outcome_eqb (a b : outcome) : bool :=
  match a, b with
  | Reached, Reached | PrivilegeError, PrivilegeError | AuthFailed, AuthFailed
  | Timeout, Timeout | Crash, Crash | OutOfFuel, OutOfFuel => true
  | _, _ => false
  end.

Section Driver.
  Variable N : nat.                      (* len(self.privilege_levels) *)
  Variable factor : nat.                 (* the 2 of `len(self.privilege_levels) * 2` *)
  Variable stop : bool.                  (* send_inputs_interact ends the interaction when an
                                            interaction_complete_patterns entry (and not the event's
                                            own expected prompt) is what matched; false = every
                                            event is always sent (the pinned commit) *)
  Variable parent : nat -> option nat.   (* previous_priv *)
  Variable auth : nat -> bool.           (* escalate_auth *)
  Variable nbrs : nat -> list nat.       (* _priv_graph[level], in iteration order *)
  Variable matches : nat -> list nat.    (* _determine_current_priv(prompt printed in that mode) *)
  Variable D : Type.
  Variable dmode : D -> nat.
  Variable dline : D -> line -> D * reply.

  (* the three-way choice at the top of _process_acquire_priv *)
  Definition pick (belief : option nat) (dst : nat) (ms : list nat) : option nat :=
    match ms with
    | [] => None
    | h :: _ =>
        match belief with
        | Some b => if memn b ms then Some b else if memn dst ms then Some dst else Some h
        | None => if memn dst ms then Some dst else Some h
        end
    end.

  Definition change_map (cur dst : nat) : list nat := dfs nbrs (2 * N) [] cur dst.

  (* _process_acquire_priv: action and the new value of _current_priv_level (None = DUMMY) *)
  Definition process (belief : option nat) (dst : nat) (ms : list nat) : action * option nat :=
    match pick belief dst ms with
    | None => (NoClass, belief)
    | Some cur =>
        if cur =? dst then (NoAction, Some dst)
        else match change_map cur dst with
             | _ :: x1 :: _ =>
                 (if oeqb (parent x1) (Some cur) then DoEsc x1 else DoDeesc cur, None)
             | _ => (NoMap, None)
             end
    end.

  (* a prompt is accepted by the interactive escalation to [x] when it matches the pattern of [x]
     or of its previous level (the interaction_complete_patterns) *)
  Definition okp (x : nat) (d : D) : bool :=
    memn x (matches (dmode d))
    || match parent x with Some p => memn p (matches (dmode d)) | None => false end.

  (* result of one transition attempt: the device afterwards and, if the call raised, how *)
  Definition deescalate (cur : nat) (d : D) : D * option outcome :=
    let (d', r) := dline d (LDeesc cur) in
    (d', match r with RPrompt => None | _ => Some Timeout end).

  Definition escalate (x : nat) (d : D) : D * option outcome :=
    if auth x then
      (* send_interactive: (escalate, escalate_prompt) then (auth_secondary hidden, pattern);
         ScrapliTimeout is re-raised as ScrapliAuthenticationFailed *)
      let (d1, r1) := dline d (LEsc x) in
      let ok1 := match r1 with RPassword => true | RPrompt => okp x d1 | RSilent => false end in
      if ok1 then
        if stop && match r1 with RPrompt => true | _ => false end then (d1, None)
        else
          let (d2, r2) := dline d1 LSec in
          (d2, match r2 with RPrompt => if okp x d2 then None else Some AuthFailed
                           | _ => Some AuthFailed end)
      else (d1, Some AuthFailed)
    else
      let (d', r) := dline d (LEsc x) in
      (d', match r with RPrompt => None | _ => Some Timeout end).

  (* acquire_priv: (outcome, _current_priv_level, device, transitions attempted, oldest first);
     privilege_change_count = length of that list *)
  Fixpoint loop (fuel : nat) (tr : list line) (belief : option nat) (dst : nat) (d : D)
    : outcome * option nat * D * list line :=
    match fuel with
    | O => (OutOfFuel, belief, d, tr)
    | S f =>
        let (d1, r) := dline d LRet in      (* channel.get_prompt() *)
        match r with
        | RPrompt =>
            match process belief dst (matches (dmode d1)) with
            | (NoClass, b) => (PrivilegeError, b, d1, tr)
            | (NoMap, b) => (Crash, b, d1, tr)
            | (NoAction, b) => (Reached, b, d1, tr)
            | (DoDeesc cur, b) =>
                match deescalate cur d1 with
                | (d2, Some e) => (e, b, d2, tr ++ [LDeesc cur])
                | (d2, None) =>
                    let tr' := tr ++ [LDeesc cur] in
                    if factor * N <? length tr' then (PrivilegeError, b, d2, tr')
                    else loop f tr' b dst d2
                end
            | (DoEsc x, b) =>
                match escalate x d1 with
                | (d2, Some e) => (e, b, d2, tr ++ [LEsc x])
                | (d2, None) =>
                    let tr' := tr ++ [LEsc x] in
                    if factor * N <? length tr' then (PrivilegeError, b, d2, tr')
                    else loop f tr' b dst d2
                end
            end
        | _ => (Timeout, belief, d1, tr)
        end
    end.

  Definition acquire (belief : option nat) (dst : nat) (d : D) : outcome * option nat * D * list line :=
    if dst <? N then loop (factor * N + 2) [] belief dst d   (* _validate_privilege_level_name *)
    else (PrivilegeError, belief, d, []).
End Driver.

(* ------------------------------------------------------------------------------------------ *)
(* a HISTORY of acquire_priv calls on one connection.  Each call comes with the behaviour the device
   shows during that call ([dline] may differ from call to call: a transition ignored for a while and
   granted later, a secret that is rejected and then corrected) and its target.  What one call leaves
   to the next is the remembered level and the device — nothing else: privilege_change_count is a
   local of acquire_priv, every call starts with an empty list of attempts. *)
Section Calls.
  Variable N : nat.
  Variable factor : nat.
  Variable stop : bool.
  Variable parent : nat -> option nat.
  Variable auth : nat -> bool.
  Variable nbrs : nat -> list nat.
  Variable matches : nat -> list nat.
  Variable D : Type.
  Variable dmode : D -> nat.

  Definition call := ((D -> line -> D * reply) * nat)%type.

  Fixpoint acquire_calls (cs : list call) (belief : option nat) (d : D)
    : list (outcome * option nat * D * list line) :=
    match cs with
    | [] => []
    | (dl, dst) :: r =>
        let '(o, b, d', tr) := acquire N factor stop parent auth nbrs matches D dmode dl belief dst d in
        (o, b, d', tr) :: acquire_calls r b d'
    end.

  (* remembered level and device after a history *)
  Fixpoint calls_state (cs : list call) (belief : option nat) (d : D) : option nat * D :=
    match cs with
    | [] => (belief, d)
    | (dl, dst) :: r =>
        let '(_, b, d', _) := acquire N factor stop parent auth nbrs matches D dmode dl belief dst d in
        calls_state r b d'
    end.
End Calls.

(* ------------------------------------------------------------------------------------------ *)
(* concrete tables *)
Record plevel := mkP { p_prev : option nat; p_esc : bytes; p_deesc : bytes; p_auth : bool }.
Definition table := list plevel.
Definition dummy_level : plevel := mkP None [] [] false.

Definition lvl (t : table) (n : nat) : plevel := nth n t dummy_level.
Definition parent_of (t : table) (n : nat) : option nat :=
  if n <? length t then p_prev (lvl t n) else None.
Definition auth_of (t : table) (n : nat) : bool := p_auth (lvl t n).
Definition children_of (t : table) (m : nat) : list nat :=
  filter (fun c => oeqb (parent_of t c) (Some m)) (seq 0 (length t)).

(* _build_priv_graph (as a set): previous level, then the levels naming this one as previous *)
Definition graph_of (t : table) (a : nat) : list nat :=
  (match parent_of t a with Some p => [p] | None => [] end) ++ children_of t a.

(* an explicit iteration order (what python's set iteration produced), as data *)
Definition order_nbrs (order : list (list nat)) (a : nat) : list nat := nth a order [].

Fixpoint insert_sorted (x : nat) (l : list nat) : list nat :=
  match l with
  | [] => [x]
  | y :: r => if x <=? y then x :: l else y :: insert_sorted x r
  end.
Definition sort_nat (l : list nat) : list nat := fold_right insert_sorted [] l.
Fixpoint nat_list_eqb (a b : list nat) : bool :=
  match a, b with
  | [], [] => true
  | x :: a', y :: b' => (x =? y) && nat_list_eqb a' b'
  | _, _ => false
  end.
(* the order table lists, for every level, exactly the neighbours of _build_priv_graph *)
Definition order_ok (t : table) (order : list (list nat)) : bool :=
  (length order =? length t)
  && forallb (fun a => nat_list_eqb (sort_nat (order_nbrs order a)) (sort_nat (graph_of t a)))
             (seq 0 (length t)).

(* ------------------------------------------------------------------------------------------ *)
(* the simulated CLI device, driven by the table (harness/simdevice.py SimDevice) *)
Record sim := mkS {
  s_mode : nat;
  s_dialog : option (nat * nat);     (* password dialogue: (target mode, attempt number) *)
  s_log : list (nat * bytes);        (* (mode, line) executed, oldest first *)
  s_hidden : list bytes;             (* lines typed into password dialogues *)
  s_mute : bool                      (* the device has stopped talking *)
}.

Record simcfg := mkC {
  c_tab : table;
  c_stuck : list (nat * nat);        (* transitions (from, to) the device refuses or ignores *)
  c_mute : list (nat * nat);         (* transitions after which the device says nothing more *)
  c_secret : option bytes;           (* enable secret; None: no password asked *)
  c_sec : bytes                      (* the driver's auth_secondary *)
}.

Definition pair_mem (p : nat * nat) (l : list (nat * nat)) : bool :=
  existsb (fun q => (fst p =? fst q) && (snd p =? snd q)) l.

Definition blank (b : bytes) : bool := forallb is_ws b.

Definition line_bytes (c : simcfg) (l : line) : bytes :=
  match l with
  | LRet => []
  | LDeesc m => p_deesc (lvl (c_tab c) m)
  | LEsc x => p_esc (lvl (c_tab c) x)
  | LSec => c_sec c
  end.

(* which transition a line triggers in mode [m]: the mode's own deescalate command, else the
   escalate command of one of its children *)
Definition transition (t : table) (m : nat) (b : bytes) : option (nat * bool) :=
  let esc := match find (fun c => beq b (p_esc (lvl t c))) (children_of t m) with
             | Some c => Some (c, auth_of t c)      (* escalation: password dialogue if the level asks *)
             | None => None
             end in
  match parent_of t m with
  | Some p => if beq b (p_deesc (lvl t m)) then Some (p, false) else esc
  | None => esc
  end.

(* [tries]: how many passwords the dialogue takes before the device gives up and prints its prompt
   again (IOS: 3 — "% Bad secrets"; EOS drops back to the prompt after the first bad one: 1) *)
Definition sim_bytes_n (tries : nat) (c : simcfg) (s : sim) (b : bytes) : sim * reply :=
  if s_mute s then (s, RSilent) else
  match s_dialog s with
  | Some (tgt, n) =>
      let hid := s_hidden s ++ [b] in
      if match c_secret c with Some sec => beq b sec | None => false end
      then (mkS tgt None (s_log s) hid false, RPrompt)
      else if tries <=? n then (mkS (s_mode s) None (s_log s) hid false, RPrompt)
      else (mkS (s_mode s) (Some (tgt, S n)) (s_log s) hid false, RPassword)
  | None =>
      if blank b then (s, RPrompt)
      else
        let lg := s_log s ++ [(s_mode s, b)] in
        match transition (c_tab c) (s_mode s) b with
        | Some (tgt, asks) =>
            if pair_mem (s_mode s, tgt) (c_mute c) then (mkS (s_mode s) None lg (s_hidden s) true, RSilent)
            else if pair_mem (s_mode s, tgt) (c_stuck c) then (mkS (s_mode s) None lg (s_hidden s) false, RPrompt)
            else if asks && match c_secret c with Some _ => true | None => false end
            then (mkS (s_mode s) (Some (tgt, 1)) lg (s_hidden s) false, RPassword)
            else (mkS tgt None lg (s_hidden s) false, RPrompt)
        | None => (mkS (s_mode s) None lg (s_hidden s) false, RPrompt)
        end
  end.

Definition sim_bytes : simcfg -> sim -> bytes -> sim * reply := sim_bytes_n 3.

Definition sim_line (c : simcfg) (s : sim) (l : line) : sim * reply := sim_bytes c s (line_bytes c l).
Definition sim_line_n (tries : nat) (c : simcfg) (s : sim) (l : line) : sim * reply :=
  sim_bytes_n tries c s (line_bytes c l).

Definition sim_start (m : nat) : sim := mkS m None [] [] false.

(* acquire_priv(dst) of a driver whose table is [c_tab c], graph order [order], prompt
   classification [cls] (cls[m] = levels matching the prompt of mode m), against the simulated
   device started in mode [src] with the driver believing [belief] *)
Definition run_acquire (factor : nat) (stop : bool) (c : simcfg) (order cls : list (list nat))
  (belief : option nat) (src dst : nat) : outcome * option nat * sim * list line :=
  acquire (length (c_tab c)) factor stop (parent_of (c_tab c)) (auth_of (c_tab c)) (order_nbrs order)
          (fun m => nth m cls []) sim s_mode (sim_line c) belief dst (sim_start src).

(* a history of calls against the simulated device: per call the transitions the device refuses
   during that call, the device's secret, the driver's auth_secondary at that moment and the target;
   [tries] = passwords the dialogue takes; the device (mode, pending dialogue, log) lives on *)
Definition call_cfg := (list (nat * nat) * option bytes * bytes * nat)%type.

Definition call_of (tries : nat) (t : table) (c : call_cfg) : call sim :=
  let '(stuck, secret, sec, dst) := c in (sim_line_n tries (mkC t stuck [] secret sec), dst).

(* ... continued from the remembered level [belief] and the device [s] an earlier part left *)
Definition run_calls_from (factor : nat) (stop : bool) (tries : nat) (t : table) (order cls : list (list nat))
  (cs : list call_cfg) (belief : option nat) (s : sim) : list (outcome * option nat * sim * list line) :=
  acquire_calls (length t) factor stop (parent_of t) (auth_of t) (order_nbrs order)
                (fun m => nth m cls []) sim s_mode (map (call_of tries t) cs) belief s.

Definition run_calls (factor : nat) (stop : bool) (tries : nat) (t : table) (order cls : list (list nat))
  (cs : list call_cfg) (belief : option nat) (src : nat) : list (outcome * option nat * sim * list line) :=
  run_calls_from factor stop tries t order cls cs belief (sim_start src).

(* ------------------------------------------------------------------------------------------ *)
(* the specification side: the route through the tree, computed without any search *)
Section Route.
  Variable parent : nat -> option nat.
  Variable depth : nat -> nat.

  Fixpoint up (k : nat) (x : nat) : option nat :=
    match k with
    | O => Some x
    | S k' => match parent x with Some p => up k' p | None => None end
    end.

  (* a is dst or an ancestor of dst *)
  Definition ancb (a dst : nat) : bool :=
    (depth a <=? depth dst) && oeqb (up (depth dst - depth a) dst) (Some a).

  (* transitions from cur to dst: up while cur is not an ancestor of dst, then down along the
     ancestors of dst *)
  Fixpoint route (fuel : nat) (cur dst : nat) : list line :=
    match fuel with
    | O => []
    | S f =>
        if cur =? dst then []
        else if ancb cur dst then
          match up (depth dst - depth cur - 1) dst with
          | Some c => LEsc c :: route f c dst
          | None => []
          end
        else match parent cur with
             | Some p => LDeesc cur :: route f p dst
             | None => []
             end
    end.
End Route.

(* depth of a level of a concrete table: length of its chain of previous levels (fuel = table size) *)
Fixpoint chain_len (t : table) (fuel : nat) (n : nat) : nat :=
  match fuel with
  | O => O
  | S f => match parent_of t n with Some p => S (chain_len t f p) | None => O end
  end.
Definition depth_of (t : table) (n : nat) : nat := chain_len t (length t) n.

(* the `previous_priv` pointers form a tree: one root, every chain ends there, depths consistent *)
Definition is_tree (t : table) (root : nat) : bool :=
  (root <? length t)
  && forallb (fun n =>
       match parent_of t n with
       | Some p => (p <? length t) && (depth_of t n =? S (depth_of t p))
       | None => true
       end
       && oeqb (up (parent_of t) (depth_of t n) n) (Some root)
       && (depth_of t n <? length t)) (seq 0 (length t)).

Definition route_of (t : table) (src dst : nat) : list line :=
  route (parent_of t) (depth_of t) (2 * length t) src dst.

(* the device log a compliant device must show for a route: (mode where typed, command) *)
Fixpoint route_log (t : table) (cur : nat) (r : list line) : list (nat * bytes) :=
  match r with
  | [] => []
  | LDeesc m :: r' =>
      (cur, p_deesc (lvl t m)) :: route_log t (match parent_of t m with Some p => p | None => cur end) r'
  | LEsc x :: r' => (cur, p_esc (lvl t x)) :: route_log t x r'
  | _ :: r' => route_log t cur r'
  end.

Fixpoint log_eqb (a b : list (nat * bytes)) : bool :=
  match a, b with
  | [], [] => true
  | (m, x) :: a', (n, y) :: b' => (m =? n) && beq x y && log_eqb a' b'
  | _, _ => false
  end.

(* ------------------------------------------------------------------------------------------ *)
(* decision procedures evaluated over the generated tables (props/C04.v) *)

Fixpoint distinct_bytes (l : list bytes) : bool :=
  match l with
  | [] => true
  | x :: r => negb (existsb (beq x) r) && distinct_bytes r
  end.

(* in every mode the commands the driver may type there (its deescalate, the escalates of its
   children) are non-blank and pairwise different *)
Definition cmds_ok (t : table) : bool :=
  forallb (fun m =>
    let cs := (match parent_of t m with Some _ => [p_deesc (lvl t m)] | None => [] end)
              ++ map (fun c => p_esc (lvl t c)) (children_of t m) in
    forallb (fun b => negb (blank b)) cs && distinct_bytes cs) (seq 0 (length t)).

(* directed transitions of the tree *)
Definition edges_of (t : table) : list (nat * nat) :=
  flat_map (fun c => match parent_of t c with Some p => [(c, p); (p, c)] | None => [] end)
           (seq 0 (length t)).

Fixpoint pairs_of {A} (l : list A) : list (list A) :=
  match l with
  | [] => []
  | x :: r => map (fun y => [x; y]) r ++ pairs_of r
  end.

(* walk the route from [cur]; stop in front of the first hop the device will not let through:
   a stuck transition, or an authenticated escalation when [pw_ok] is false.
   Result: (mode reached, Some outcome if stopped) *)
Fixpoint walk (t : table) (stuck : list (nat * nat)) (pw_ok : bool) (cur : nat) (r : list line)
  : nat * option outcome :=
  match r with
  | [] => (cur, None)
  | LDeesc m :: r' =>
      match parent_of t m with
      | Some p => if pair_mem (cur, p) stuck then (cur, Some PrivilegeError) else walk t stuck pw_ok p r'
      | None => (cur, Some Crash)
      end
  | LEsc x :: r' =>
      if pair_mem (cur, x) stuck then (cur, Some PrivilegeError)
      else if auth_of t x && negb pw_ok then (cur, Some AuthFailed)
      else walk t stuck pw_ok x r'
  | _ :: r' => walk t stuck pw_ok cur r'
  end.

Fixpoint lines_eqb (a b : list line) : bool :=
  match a, b with
  | [], [] => true
  | LDeesc m :: a', LDeesc n :: b' => (m =? n) && lines_eqb a' b'
  | LEsc m :: a', LEsc n :: b' => (m =? n) && lines_eqb a' b'
  | LRet :: a', LRet :: b' => lines_eqb a' b'
  | LSec :: a', LSec :: b' => lines_eqb a' b'
  | _, _ => false
  end.

(* one scenario: what the property demands of acquire_priv(dst) from src *)
(* the region of the known finding "shared prompt": the device will not leave [src] and the prompt
   of [src] is also matched by the pattern of [dst] — the driver then takes the unchanged prompt
   for the target's *)
Definition shared_region (t : table) (cls : list (list nat)) (stuck : list (nat * nat)) (src dst : nat) : bool :=
  negb (src =? dst) && memn dst (nth src cls [])
  && match parent_of t src with Some p => pair_mem (src, p) stuck | None => false end.

Definition nav_ok (excl : bool) (factor : nat) (stop : bool) (t : table) (order cls : list (list nat))
  (stuck : list (nat * nat)) (secret : option bytes) (sec : bytes) (src dst : nat) : bool :=
  if excl && shared_region t cls stuck src dst then true else
  let '(o, b, s, tr) := run_acquire factor stop (mkC t stuck [] secret sec) order cls (Some src) src dst in
  let r := route_of t src dst in
  let pw_ok := match secret with Some x => beq x sec | None => true end in
  let exact := stop || blank sec || match secret with Some _ => true | None => false end in
  match walk t stuck pw_ok src r with
  | (m, None) =>
      outcome_eqb o Reached && oeqb b (Some dst) && (m =? dst) && (s_mode s =? dst) && lines_eqb tr r
      && log_eqb (if exact then s_log s else filter (fun e => negb (beq (snd e) sec)) (s_log s))
                 (route_log t src r)
  | (m, Some e) =>
      outcome_eqb o e && (s_mode s =? m) && (length tr <=? factor * length t + 1)
      && negb (outcome_eqb o Reached)
  end.

Definition pw_variants : list (option bytes * bytes) :=
  let S := [83;51;99]%N in
  [(Some S, S); (None, S); (None, []); (Some S, [119]%N); (Some S, [])].

Definition all_ok (excl : bool) (factor : nat) (stop : bool) (p : table * list (list nat) * list (list nat) * nat) : bool :=
  let '(t, cls, order, root) := p in
  let lv := seq 0 (length t) in
  let es := edges_of t in
  is_tree t root && cmds_ok t && order_ok t order
  && forallb (fun stuck =>
       forallb (fun pw =>
         forallb (fun src => forallb (fun dst => nav_ok excl factor stop t order cls stuck (fst pw) (snd pw) src dst) lv) lv)
         pw_variants)
       ([] :: map (fun e => [e]) es ++ pairs_of es).

(* ------------------------------------------------------------------------------------------ *)
(* a stale memory: the driver remembers [bel] (any level, or DUMMY) while the device sits in [src]
   (the user's own lines moved it).  From every level whose prompt is matched by that level only,
   acquire_priv must do exactly what it does when it remembers the right level *)
Definition res_eqb (a b : outcome * option nat * sim * list line) : bool :=
  let '(o1, b1, s1, t1) := a in
  let '(o2, b2, s2, t2) := b in
  outcome_eqb o1 o2 && oeqb b1 b2 && (s_mode s1 =? s_mode s2) && log_eqb (s_log s1) (s_log s2)
  && lbeq (s_hidden s1) (s_hidden s2) && lines_eqb t1 t2.

Definition stale_ok (factor : nat) (stop : bool) (p : table * list (list nat) * list (list nat) * nat) : bool :=
  let '(t, cls, order, root) := p in
  let lv := seq 0 (length t) in
  forallb (fun pw =>
    forallb (fun src =>
      negb (nat_list_eqb (nth src cls []) [src])
      || forallb (fun dst =>
           forallb (fun bel =>
             res_eqb (run_acquire factor stop (mkC t [] [] (fst pw) (snd pw)) order cls bel src dst)
                     (run_acquire factor stop (mkC t [] [] (fst pw) (snd pw)) order cls (Some src) src dst))
             (None :: map Some lv)) lv) lv) pw_variants.

(* ------------------------------------------------------------------------------------------ *)
(* a failed call does not spoil the next one: call 1 = acquire_priv(dst) from [src] against a device
   refusing [stuck] / with password situation [pw] (any outcome); call 2 = acquire_priv(dst2), every
   dst2, with the device cooperating and the right secret, continued from what call 1 left (by
   definition of acquire_calls the second element of the two-call history).  Whenever call 1 FAILS (a
   first call that succeeds is all_ok's case) and leaves the
   device at the prompt of a level matched by that level only (no password dialogue pending), call 2
   must end in [dst2] by exactly the route from where the device is, the device log extended by exactly
   the route's lines *)
Definition after_failure_ok (factor : nat) (stop : bool) (tries : nat) (t : table) (order cls : list (list nat))
  (stuck : list (nat * nat)) (pw : option bytes * bytes) (src dst : nat) : bool :=
  let good := match fst pw with Some x => x | None => snd pw end in
  let exact := stop || blank good || match fst pw with Some _ => true | None => false end in
  let vis := fun s : sim => if exact then s_log s else filter (fun e => negb (beq (snd e) good)) (s_log s) in
  match run_calls factor stop tries t order cls [(stuck, fst pw, snd pw, dst)] (Some src) src with
  | [(o1, b1, s1, tr1)] =>
      (length tr1 <=? factor * length t + 1) && negb (outcome_eqb o1 OutOfFuel) && negb (outcome_eqb o1 Crash)
      && (if outcome_eqb o1 Reached
             || match s_dialog s1 with Some _ => true | None => false end
             || negb (nat_list_eqb (nth (s_mode s1) cls []) [s_mode s1])
          then true     (* [if]: evaluated lazily by vm_compute *)
          else forallb (fun dst2 =>
               match run_calls_from factor stop tries t order cls [([], fst pw, good, dst2)] b1 s1 with
               | [(o2, b2, s2, tr2)] =>
                   let r := route_of t (s_mode s1) dst2 in
                   outcome_eqb o2 Reached && oeqb b2 (Some dst2) && (s_mode s2 =? dst2) && lines_eqb tr2 r
                   && log_eqb (vis s2) (vis s1 ++ route_log t (s_mode s1) r)
               | _ => false
               end) (seq 0 (length t)))
  | _ => false
  end.

(* (attempts the password dialogue gives, password situation): the number of attempts only matters
   when a password is rejected *)
Definition history_variants : list (nat * (option bytes * bytes)) :=
  map (fun pw => (3, pw)) pw_variants
  ++ map (fun pw => (1, pw)) (filter (fun pw => match fst pw with Some x => negb (beq x (snd pw)) | None => false end) pw_variants).

Definition history_ok (factor : nat) (stop : bool) (p : table * list (list nat) * list (list nat) * nat) : bool :=
  let '(t, cls, order, root) := p in
  let lv := seq 0 (length t) in
  let run := fun stuck (v : nat * (option bytes * bytes)) =>
    forallb (fun src => forallb (fun dst =>
      after_failure_ok factor stop (fst v) t order cls stuck (snd v) src dst) lv) lv in
  (* nothing refused: every password situation; one refused transition: password right / not asked *)
  forallb (run []) history_variants
  && forallb (fun e => forallb (run [e]) (firstn 2 history_variants)) (edges_of t).
