(* ConnLoss.v — executable model of how a lost connection surfaces in scrapli (C08).
   Definitions only; the proofs are in proofs/ConnLoss_Proofs.v.

   Layers (each written from the code it names):
   * exception flow through try/except/suppress tables ([dispatch], [chain]); the tables themselves and the
     subclass relation are DATA generated from the current source tree (Gen_ConnLoss.v, a [cfg]);
   * per transport (telnet, asynctelnet, system, paramiko, asyncssh: scrapli/transport/plugins/*/transport.py,
     transport/base/base_socket.py) read / write / isalive / close / open over an environment of low-level
     events: what recv/send/close/the liveness probe of the library does, call by call;
   * the channel operations (channel/sync_channel.py, async_channel.py): write, read-until loops, the Telnet
     and SSH in-channel login loops (the only place where a ScrapliConnectionError is swallowed), composed
     with the timeout backstop of decorators.py (its mechanics are C07's; here: a computation that blocks or
     spins is turned into ScrapliTimeout + transport.close() when a timeout is armed, else it hangs).

   Library model (hand-written reading of the OS / libraries; confronted with real sockets, a real pty child and
   real paramiko/asyncssh sessions by the harness): an empty read is sticky ([leof]); a connection-loss
   exception is sticky ([lerr], [werr]) and makes the library's liveness probe answer dead; a timeout is
   neither. *)
From Verif Require Import Bytes.

(* ---- exception classes (the universe the generated subclass relation ranges over) ---- *)
Inductive cls :=
| EException | EOSError | EConnectionError | EConnReset | EBrokenPipe | EConnRefused | EConnAborted
| ETimeout            (* TimeoutError = socket.timeout = asyncio.TimeoutError on this interpreter *)
| EGaiError | EEOFError | EIncompleteRead | EAttributeError
| EPtyProcessError
| ESSHException | EAuthException | EChannelException
| EAsyncsshError | EDisconnectError | EConnectionLost | EPermissionDenied | EHostKeyNotVerifiable
| EKeyExchangeFailed | EChannelOpenError
| SException | SConnectionError | SNotOpened | SAuthFailed | STimeout.

Scheme Equality for cls.

Inductive action := ARaise (c : cls) | ASwallow | AReraise | AFalse.
Definition clause := (list cls * action)%type.
Definition table := list clause.

Inductive transport := Telnet | ATelnet | System | Paramiko | Asyncssh.
Definition all_transports := [Telnet; ATelnet; System; Paramiko; Asyncssh].
Definition is_async (tr : transport) : bool :=
  match tr with ATelnet | Asyncssh => true | _ => false end.
Definition is_telnet (tr : transport) : bool :=
  match tr with Telnet | ATelnet => true | _ => false end.

(* ---- configuration: everything that is read off the source ---- *)
Record tcfg := mkTcfg {
  tc_read_guard : bool;            (* read() starts with the not-opened guard *)
  tc_write_guard : bool;
  tc_read_tbls : list table;       (* try/except around the low-level read, innermost first *)
  tc_write_tbls : list table;
  tc_close_tbls : list table;      (* around the low-level close *)
  tc_alive_tbls : list table;      (* around the library liveness probe in isalive() *)
  tc_err_sets_eof : bool;          (* telnets: the handler of the read try sets _eof *)
  tc_eof_raises : bool;            (* an empty read surfaces as ScrapliConnectionError *)
  tc_alive_eof : bool;             (* isalive() honours the EOF indication *)
  tc_read_decorated : bool;        (* read() carries @timeout_wrapper *)
  tc_open_tbls : list (list table) (* per library step of open(), innermost first *)
}.

Record cfg := mkCfg {
  issub : cls -> cls -> bool;
  tcf : transport -> tcfg;
  sock_alive_tbls : list table;      (* base_socket.Socket.isalive: around sock.send(b"") *)
  sock_shutdown_tbls : list table;   (* base_socket.Socket.close: around sock.shutdown *)
  login_tbls : bool -> list table;   (* channel_authenticate_telnet: around self.read(); argument: asyncio *)
  login_async_sleeps : bool          (* every path of the asyncio login loop awaits asyncio.sleep *)
}.

(* ---- exception flow ---- *)
Definition catches (c : cfg) (e : cls) (cl : clause) : bool := existsb (issub c e) (fst cl).

Fixpoint dispatch (c : cfg) (t : table) (e : cls) : option action :=
  match t with
  | [] => None
  | cl :: r => if catches c e cl then Some (snd cl) else dispatch c r e
  end.

Inductive flow := FRaised (x : cls) | FSwallowed | FFalse.

Fixpoint chain (c : cfg) (ts : list table) (e : cls) : flow :=
  match ts with
  | [] => FRaised e
  | t :: r =>
      match dispatch c t e with
      | Some (ARaise x) => chain c r x
      | Some ASwallow => FSwallowed
      | Some AFalse => FFalse
      | Some AReraise | None => chain c r e
      end
  end.

Definition scrapli (c : cfg) (x : cls) : bool := issub c x SException.
Definition is_timeout (x : cls) : bool := cls_beq x ETimeout.

(* ---- low-level events ---- *)
Inductive rev := RData (b : bytes) | REmpty | RRaise (x : cls) | RBlock.
Inductive wev := WOk | WRaise (x : cls).
Inductive pev := PTrue | PFalse | PRaise (x : cls).
Inductive cev := COk | CRaise (x : cls).

(* everything but the reads (which the loops recurse over): exhausted lists mean
   send succeeds / probe says alive / close succeeds *)
Record env := mkEnv { sends : list wev; probes : list pev; closes : list cev }.

Record tst := mkT {
  attached : bool;     (* the low-level object(s) are attached (socket / session / stdin+stdout not None) *)
  teof : bool;         (* telnets: the transport's own _eof *)
  leof : bool;         (* library: an empty read happened (at_eof(), eof_received, pty EOF flag) *)
  lerr : option cls;   (* library: the read side keeps raising this *)
  werr : option cls;   (* library: the write side keeps raising this *)
  pdead : bool         (* library: a liveness probe found the connection dead (it stays dead) *)
}.

Definition st_open : tst := mkT true false false None None false.
Definition st_never : tst := mkT false false false None None false.

Definition is_some {A} (o : option A) : bool := match o with Some _ => true | None => false end.
Definition dead (st : tst) : bool := is_some (lerr st) || is_some (werr st) || pdead st.
Definition rlost (st : tst) : bool := leof st || is_some (lerr st).
Definition wlost (st : tst) : bool := is_some (werr st) || pdead st.
Definition lost (st : tst) : bool := rlost st || wlost st.

Definition detach (st : tst) : tst := mkT false (teof st) (leof st) (lerr st) (werr st) (pdead st).
Definition set_teof (b : bool) (st : tst) : tst := mkT (attached st) b (leof st) (lerr st) (werr st) (pdead st).
Definition set_pdead (st : tst) : tst := mkT (attached st) (teof st) (leof st) (lerr st) (werr st) true.

Definition pop_probe (e : env) : pev * env :=
  match probes e with [] => (PTrue, e) | p :: r => (p, mkEnv (sends e) r (closes e)) end.
Definition pop_send (e : env) : wev * env :=
  match sends e with [] => (WOk, e) | w :: r => (w, mkEnv r (probes e) (closes e)) end.
Definition pop_close (e : env) : cev * env :=
  match closes e with [] => (COk, e) | x :: r => (x, mkEnv (sends e) (probes e) r) end.

(* result of a probe: answer, or an exception that escapes *)
Inductive ares := ABool (b : bool) | AExc (x : cls).

Definition probe_result (c : cfg) (ts : list table) (p : pev) (st : tst) : ares * tst :=
  match p with
  | PTrue => (ABool true, st)
  | PFalse => (ABool false, set_pdead st)
  | PRaise x => match chain c ts x with
                | FFalse | FSwallowed => (ABool false, set_pdead st)
                | FRaised y => (AExc y, set_pdead st)
                end
  end.

(* sock.send(b"") inside base_socket.Socket.isalive; a dead connection raises EPIPE *)
Definition sock_probe (c : cfg) (st : tst) (e : env) : ares * tst * env :=
  let '(p, e') := if dead st then (PRaise EBrokenPipe, e) else pop_probe e in
  let '(r, st') := probe_result c (sock_alive_tbls c) p st in (r, st', e').

(* the liveness probe of the other libraries (waitpid / Transport.is_alive / _transport.is_closing) *)
Definition lib_probe (c : cfg) (tr : transport) (st : tst) (e : env) : ares * tst * env :=
  let '(p, e') := if dead st then (PFalse, e) else pop_probe e in
  let '(r, st') := probe_result c (tc_alive_tbls (tcf c tr)) p st in (r, st', e').

(* ---- read ---- *)
Inductive xres := XBytes (b : bytes) | XExc (x : cls) | XBlock.
Inductive pre := PreStop (r : xres) (st : tst) (e : env) | PreGo (st : tst) (e : env).

(* what the transport makes of one low-level read event *)
Definition t_read_ev (c : cfg) (tr : transport) (st : tst) (v : rev) : xres * tst :=
  let tc := tcf c tr in
  match v with
  | RData b => (XBytes b, if is_telnet tr then set_teof false st else st)
  | RBlock =>
      match tr with
      | Paramiko =>   (* Channel.settimeout(timeout_transport) elapses: socket.timeout *)
          match chain c (tc_read_tbls tc) ETimeout with
          | FRaised y => (XExc y, st) | _ => (XBytes [], st)
          end
      | _ => (XBlock, st)
      end
  | REmpty =>
      let st1 := mkT (attached st) (if is_telnet tr then true else teof st) true (lerr st) (werr st) (pdead st) in
      match tr with
      | System =>     (* ptyprocess.read: EOFError, EOF flag *)
          match chain c (tc_read_tbls tc) EEOFError with
          | FRaised y => (XExc y, st1) | _ => (XBytes [], st1)
          end
      | Asyncssh => (XBytes [], st1)       (* handed to the channel as is; the next read() sees at_eof() *)
      | _ => if tc_eof_raises tc then (XExc SConnectionError, st1) else (XBytes [], st1)
      end
  | RRaise x =>
      let sticky := negb (is_timeout x) in
      let eofx := match tr with System => cls_beq x EEOFError | _ => false end in
      let st1 := mkT (attached st) (teof st) (leof st || eofx)
                     (if sticky && negb eofx then Some x else lerr st) (werr st) (pdead st) in
      match dispatch c (match tc_read_tbls tc with t :: _ => t | [] => [] end) x with
      | Some _ =>
          let st2 := if is_telnet tr && tc_err_sets_eof tc then set_teof true st1 else st1 in
          match chain c (tc_read_tbls tc) x with
          | FRaised y => (XExc y, st2) | _ => (XBytes [], st2)
          end
      | None =>
          match chain c (tc_read_tbls tc) x with
          | FRaised y => (XExc y, st1) | _ => (XBytes [], st1)
          end
      end
  end.

(* ... and, sync telnet, of the truth value of the Socket object that _handle_control_chars() tests once
   _read() has come back (a liveness probe again; the bytes just received stay in the cooked buffer of a
   connection that the probe has declared dead) *)
Definition t_read_step (c : cfg) (tr : transport) (st : tst) (e : env) (v : rev) : xres * tst * env :=
  let '(r, st1) := t_read_ev c tr st v in
  match tr, v with
  | Telnet, RData _ | Telnet, REmpty =>
      match sock_probe c st1 e with
      | (ABool true, st2, e2) => (r, st2, e2)
      | (ABool false, st2, e2) => (XExc SNotOpened, st2, e2)
      | (AExc x, st2, e2) => (XExc x, st2, e2)
      end
  | _, _ => (r, st1, e)
  end.

(* what read() does before it reaches the low-level read: guards, the Socket truth value (a liveness probe)
   of the sync telnet transport, the transport's own EOF state, the library's sticky state *)
Definition t_read_pre (c : cfg) (tr : transport) (st : tst) (e : env) : pre :=
  let tc := tcf c tr in
  if negb (attached st) then
    PreStop (XExc (if tc_read_guard tc then SNotOpened else EAttributeError)) st e
  else
    let '(ok, st0, e1) := match tr with
                          | Telnet => sock_probe c st e
                          | _ => (ABool true, st, e)
                          end in
    match ok with
    | AExc x => PreStop (XExc x) st0 e1
    | ABool false => PreStop (XExc SNotOpened) st0 e1
    | ABool true =>
        if is_telnet tr && teof st0 then
          PreStop (if tc_eof_raises tc then XExc SConnectionError else XBytes []) st0 e1
        else if (match tr with Asyncssh => leof st0 | _ => false end) then
          PreStop (if tc_eof_raises tc then XExc SConnectionError else XBytes []) st0 e1
        else if leof st0 then
          let '(r, st', e2) := t_read_step c tr st0 e1 REmpty in PreStop r st' e2
        else match lerr st0 with
             | Some x => let '(r, st', e2) := t_read_step c tr st0 e1 (RRaise x) in PreStop r st' e2
             | None => PreGo st0 e1
             end
    end.

(* one read() call *)
Definition t_read (c : cfg) (tr : transport) (st : tst) (e : env) (rs : list rev)
  : xres * tst * env * list rev :=
  match t_read_pre c tr st e with
  | PreStop r st1 e1 => (r, st1, e1, rs)
  | PreGo st1 e1 =>
      match rs with
      | [] => let '(r, st2, e2) := t_read_step c tr st1 e1 RBlock in (r, st2, e2, [])
      | v :: rs' => let '(r, st2, e2) := t_read_step c tr st1 e1 v in (r, st2, e2, rs')
      end
  end.

(* ---- write ---- *)
Definition t_write (c : cfg) (tr : transport) (st : tst) (e : env) : option cls * tst * env :=
  let tc := tcf c tr in
  if negb (attached st) then
    (Some (if tc_write_guard tc then SNotOpened else EAttributeError), st, e)
  else
    let '(w, e1) := match werr st with Some x => (WRaise x, e) | None => pop_send e end in
    match w with
    | WOk => (None, st, e1)
    | WRaise x =>
        let st1 := if is_timeout x then st
                   else mkT (attached st) (teof st) (leof st) (lerr st) (Some x) (pdead st) in
        match chain c (tc_write_tbls tc) x with
        | FRaised y => (Some y, st1, e1)
        | _ => (None, st1, e1)
        end
    end.

(* ---- isalive ---- *)
Definition t_isalive (c : cfg) (tr : transport) (st : tst) (e : env) : ares * tst * env :=
  let tc := tcf c tr in
  if negb (attached st) then (ABool false, st, e) else
  match tr with
  | Telnet =>
      match sock_probe c st e with
      | (ABool true, st1, e1) =>
          match sock_probe c st1 e1 with
          | (ABool true, st2, e2) => (ABool (negb (tc_alive_eof tc && teof st2)), st2, e2)
          | r => r
          end
      | r => r
      end
  | ATelnet => (ABool (negb (tc_alive_eof tc && teof st) && negb (leof st)), st, e)
  | System =>
      match lib_probe c tr st e with
      | (ABool b, st1, e1) => (ABool (b && negb (leof st1)), st1, e1)
      | r => r
      end
  | Paramiko =>
      if tc_alive_eof tc && (leof st || is_some (werr st)) then (ABool false, st, e)
      else lib_probe c tr st e
  | Asyncssh =>
      if tc_alive_eof tc && leof st then (ABool false, st, e) else lib_probe c tr st e
  end.

(* ---- close ---- *)
(* base_socket.Socket.close(): if self.isalive(): shutdown (suppressed), close *)
Definition sock_close (c : cfg) (shut_ev : bool) (st : tst) (e : env) : option cls * tst * env :=
  match sock_probe c st e with
  | (AExc x, st1, e1) => (Some x, st1, e1)
  | (ABool false, st1, e1) => (None, st1, e1)
  | (ABool true, st1, e1) =>
      let '(v, e2) := if shut_ev then pop_close e1 else (COk, e1) in
      match v with
      | COk => (None, st1, e2)
      | CRaise x => match chain c (sock_shutdown_tbls c) x with
                    | FRaised y => (Some y, st1, e2) | _ => (None, st1, e2)
                    end
      end
  end.

Definition lib_close (c : cfg) (tr : transport) (e : env) : option cls * env :=
  let '(v, e1) := pop_close e in
  match v with
  | COk => (None, e1)
  | CRaise x => match chain c (tc_close_tbls (tcf c tr)) x with
                | FRaised y => (Some y, e1) | _ => (None, e1)
                end
  end.

(* `if self.socket: self.socket.close()` of the telnet and paramiko transports.  [shut_ev]: the outcome of
   sock.shutdown is an event of the scenario (telnet); for paramiko, whose close events describe
   Channel.close(), the shutdown is taken to succeed *)
Definition close_socket (c : cfg) (shut_ev : bool) (st : tst) (e : env) : option cls * tst * env :=
  match sock_probe c st e with            (* `if self.socket:` *)
  | (AExc x, st1, e1) => (Some x, st1, e1)
  | (ABool false, st1, e1) => (None, detach st1, e1)
  | (ABool true, st1, e1) =>
      match sock_close c shut_ev st1 e1 with
      | (Some x, st2, e2) => (Some x, st2, e2)
      | (None, st2, e2) => (None, detach st2, e2)
      end
  end.

Definition t_close (c : cfg) (tr : transport) (st : tst) (e : env) : option cls * tst * env :=
  if negb (attached st) then (None, st, e) else
  match tr with
  | Telnet => close_socket c true st e
  | ATelnet => (None, detach st, e)
  | System | Asyncssh =>
      match lib_close c tr e with
      | (Some x, e1) => (Some x, st, e1)
      | (None, e1) => (None, detach st, e1)
      end
  | Paramiko =>
      match lib_close c tr e with
      | (Some x, e1) => (Some x, st, e1)
      | (None, e1) => close_socket c false st e1
      end
  end.

(* ---- open(): the library steps of each transport's open(), the first failing one decides ---- *)
(* step kinds that need more than a table: paramiko's auth_password (a swallowed failure leaves the session
   unauthenticated -> ScrapliAuthenticationFailed), getaddrinfo (a swallowed gaierror leaves no address
   family -> ScrapliConnectionNotOpened) *)
Inductive stepk := KPlain | KAuth | KGetaddr.
Definition open_kinds (tr : transport) : list stepk :=
  match tr with
  | Telnet => [KGetaddr; KPlain]                                  (* getaddrinfo, connect *)
  | ATelnet => [KPlain]                                           (* asyncio.open_connection *)
  | System => [KPlain]                                            (* PtyProcess.spawn *)
  | Paramiko => [KGetaddr; KPlain; KPlain; KAuth; KPlain; KPlain; KPlain]
        (* getaddrinfo, connect, start_client, auth_password, open_session, get_pty, invoke_shell *)
  | Asyncssh => [KPlain; KPlain]                                  (* connect, open_session *)
  end.

Fixpoint open_steps (c : cfg) (ks : list stepk) (tbls : list (list table)) (evs : list cev) : option cls :=
  match ks with
  | [] => None
  | k :: ks' =>
      let ts := match tbls with t :: _ => t | [] => [] end in
      let tbls' := match tbls with _ :: r => r | [] => [] end in
      let v := match evs with v :: _ => v | [] => COk end in
      let evs' := match evs with _ :: r => r | [] => [] end in
      match v with
      | COk => open_steps c ks' tbls' evs'
      | CRaise x =>
          match chain c ts x with
          | FRaised y => Some y
          | _ => match k with
                 | KAuth => Some SAuthFailed
                 | KGetaddr => Some SNotOpened
                 | KPlain => open_steps c ks' tbls' evs'
                 end
          end
      end
  end.

Definition t_open (c : cfg) (tr : transport) (evs : list cev) : option cls :=
  open_steps c (open_kinds tr) (tc_open_tbls (tcf c tr)) evs.

(* ================================ channel operations ================================ *)
Inductive outcome := ODone | OBool (b : bool) | ORaised (x : cls) | OHang.

(* how an instruction ends *)
Inductive lres :=
| LNext (st : tst) (e : env) (rs : list rev)                 (* completed, go on with the next instruction *)
| LStop (o : outcome) (st : tst) (e : env) (rs : list rev)   (* the operation ends here *)
| LBlock (st : tst) (e : env) (rs : list rev)                (* a low-level read never returns *)
| LSpin (st : tst) (e : env) (rs : list rev)                 (* the login loop retries for ever (with its sleep) *)
| LEmpty (st : tst) (e : env) (rs : list rev).               (* reads return b"" at once, for ever *)

(* read-until loops (_read_until_input / _read_until_prompt / _read_until_explicit_prompt / get_prompt):
   buf += read() until the matcher accepts; no except clause *)
Fixpoint read_until (c : cfg) (tr : transport) (m : bytes -> bool) (buf : bytes)
         (st : tst) (e : env) (rs : list rev) : lres :=
  match t_read_pre c tr st e with
  | PreStop (XBytes b) st1 e1 => if m (buf ++ b) then LNext st1 e1 rs else LEmpty st1 e1 rs
  | PreStop (XExc x) st1 e1 => LStop (ORaised x) st1 e1 rs
  | PreStop XBlock st1 e1 => LBlock st1 e1 rs
  | PreGo st1 e1 =>
      match rs with
      | [] => match t_read_step c tr st1 e1 RBlock with
              | (XExc x, st2, e2) => LStop (ORaised x) st2 e2 []
              | (_, st2, e2) => LBlock st2 e2 []
              end
      | v :: rs' =>
          match t_read_step c tr st1 e1 v with
          | (XBytes b, st2, e2) =>
              if m (buf ++ b) then LNext st2 e2 rs' else read_until c tr m (buf ++ b) st2 e2 rs'
          | (XExc x, st2, e2) => LStop (ORaised x) st2 e2 rs'
          | (XBlock, st2, e2) => LBlock st2 e2 rs'
          end
      end
  end.

Definition do_write (c : cfg) (tr : transport) (st : tst) (e : env) (rs : list rev) : lres :=
  match t_write c tr st e with
  | (Some x, st1, e1) => LStop (ORaised x) st1 e1 rs
  | (None, st1, e1) => LNext st1 e1 rs
  end.

(* n writes in a row (write(user) + send_return()) *)
Fixpoint do_writes (c : cfg) (tr : transport) (n : nat) (st : tst) (e : env) (rs : list rev) : lres :=
  match n with
  | O => LNext st e rs
  | S k => match do_write c tr st e rs with
           | LNext st1 e1 _ => do_writes c tr k st1 e1 rs
           | r => r
           end
  end.

(* a prompt of the login dialogue was seen: the third time is a failed authentication, else answer it
   (write(value) + send_return()) *)
Definition answer (c : cfg) (tr : transport) (seen : bool) (cnt : nat) (st : tst) (e : env) (rs : list rev)
  : lres :=
  if seen then
    if Nat.ltb 1 cnt then LStop (ORaised SAuthFailed) st e rs else do_writes c tr 2 st e rs
  else LNext st e rs.

(* does the login loop's except clause swallow x (and send a return, and go back to the top)? *)
Definition swallows (c : cfg) (tr : transport) (x : cls) : bool :=
  match chain c (login_tbls c (is_async tr)) x with FSwallowed => true | _ => false end.

(* the login loop on a connection whose read() raises at once, for ever: handler write, read again, ...
   nothing but the write events (and, sync telnet, the liveness probes) can still change the course *)
Fixpoint dead_probes (c : cfg) (tr : transport) (st : tst) (ws : list wev) (ps : list pev) (cs : list cev)
         (rs : list rev) : lres :=
  match t_read_pre c tr st (mkEnv ws ps cs) with
  | PreStop (XExc x) st1 e1 =>
      if swallows c tr x then
        match tr, ps with
        | Telnet, _ :: ps' => dead_probes c tr st1 ws ps' cs rs
        | _, _ => LSpin st1 e1 rs
        end
      else LStop (ORaised x) st1 e1 rs
  | PreStop _ st1 e1 => LEmpty st1 e1 rs
  | PreGo st1 e1 => LEmpty st1 e1 rs
  end.

Fixpoint dead_loop (c : cfg) (tr : transport) (st : tst) (ws : list wev) (ps : list pev) (cs : list cev)
         (rs : list rev) : lres :=
  match ws with
  | [] => (* no write event left: the handler write succeeds unless the write side is already broken *)
      match t_write c tr st (mkEnv [] ps cs) with
      | (Some y, st1, e1) => LStop (ORaised y) st1 e1 rs
      | (None, st1, e1) => dead_probes c tr st1 [] (probes e1) (closes e1) rs
      end
  | _ :: ws' =>
      match t_write c tr st (mkEnv ws ps cs) with
      | (Some y, st1, e1) => LStop (ORaised y) st1 e1 rs
      | (None, st1, e1) =>
          match t_read_pre c tr st1 (mkEnv ws' (probes e1) cs) with
          | PreStop (XExc x) st2 e2 =>
              if swallows c tr x then dead_loop c tr st2 ws' (probes e2) cs rs
              else LStop (ORaised x) st2 e2 rs
          | PreStop _ st2 e2 => LEmpty st2 e2 rs
          | PreGo st2 e2 => LEmpty st2 e2 rs
          end
      end
  end.

(* channel_authenticate_telnet.  du / dp / dr: the username, password and prompt patterns on the
   (lower-cased) accumulated buffer; uc / pc: how often the two prompts were answered *)
Fixpoint login_t (c : cfg) (tr : transport) (du dp dr : bytes -> bool) (ab : bytes) (uc pc : nat)
         (st : tst) (e : env) (rs : list rev) : lres :=
  match t_read_pre c tr st e with
  | PreStop (XExc x) st1 e1 =>
      if swallows c tr x then dead_loop c tr st1 (sends e1) (probes e1) (closes e1) rs
      else LStop (ORaised x) st1 e1 rs
  | PreStop (XBytes _) st1 e1 => LEmpty st1 e1 rs
  | PreStop XBlock st1 e1 => LBlock st1 e1 rs
  | PreGo st1 e1 =>
      match rs with
      | [] => match t_read_step c tr st1 e1 RBlock with
              | (XExc x, st2, e2) => LStop (ORaised x) st2 e2 []
              | (_, st2, e2) => LBlock st2 e2 []
              end
      | v :: rs' =>
          match t_read_step c tr st1 e1 v with
          | (XBlock, st2, e2) => LBlock st2 e2 rs'
          | (XExc x, st2, e2) =>
              if swallows c tr x then
                match do_write c tr st2 e2 rs' with
                | LNext st3 e3 _ => login_t c tr du dp dr ab uc pc st3 e3 rs'
                | r => r
                end
              else LStop (ORaised x) st2 e2 rs'
          | (XBytes b, st2, e1) =>
              let ab1 := ab ++ lower b in
              (* username prompt *)
              match answer c tr (du ab1) uc st2 e1 rs' with
              | LNext st3 e3 _ =>
                  let ab2 := if du ab1 then [] else ab1 in
                  let uc' := if du ab1 then S uc else uc in
                  match answer c tr (dp ab2) pc st3 e3 rs' with
                  | LNext st4 e4 _ =>
                      let ab3 := if dp ab2 then [] else ab2 in
                      let pc' := if dp ab2 then S pc else pc in
                      if dr ab3 then LNext st4 e4 rs'
                      else login_t c tr du dp dr ab3 uc' pc' st4 e4 rs'
                  | r => r
                  end
              | r => r
              end
          end
      end
  end.

(* channel_authenticate_ssh (system transport).  dm: _ssh_message_handler finds a fatal message;
   dp / dph / dr: password, passphrase and prompt patterns *)
Fixpoint login_s (c : cfg) (tr : transport) (dm dp dph dr : bytes -> bool) (ab : bytes) (pc phc : nat)
         (st : tst) (e : env) (rs : list rev) : lres :=
  match t_read_pre c tr st e with
  | PreStop (XExc x) st1 e1 => LStop (ORaised x) st1 e1 rs
  | PreStop (XBytes _) st1 e1 => LEmpty st1 e1 rs
  | PreStop XBlock st1 e1 => LBlock st1 e1 rs
  | PreGo st1 e1 =>
      match rs with
      | [] => match t_read_step c tr st1 e1 RBlock with
              | (XExc x, st2, e2) => LStop (ORaised x) st2 e2 []
              | (_, st2, e2) => LBlock st2 e2 []
              end
      | v :: rs' =>
          match t_read_step c tr st1 e1 v with
          | (XBlock, st2, e2) => LBlock st2 e2 rs'
          | (XExc x, st2, e2) => LStop (ORaised x) st2 e2 rs'
          | (XBytes b, st2, e1) =>
              let ab1 := ab ++ lower b in
              if dm ab1 then LStop (ORaised SAuthFailed) st2 e1 rs' else
              match answer c tr (dp ab1) pc st2 e1 rs' with
              | LNext st3 e3 _ =>
                  let ab2 := if dp ab1 then [] else ab1 in
                  let pc' := if dp ab1 then S pc else pc in
                  match answer c tr (dph ab2) phc st3 e3 rs' with
                  | LNext st4 e4 _ =>
                      let ab3 := if dph ab2 then [] else ab2 in
                      let phc' := if dph ab2 then S phc else phc in
                      if dr ab3 then LNext st4 e4 rs'
                      else login_s c tr dm dp dph dr ab3 pc' phc' st4 e4 rs'
                  | r => r
                  end
              | r => r
              end
          end
      end
  end.

Inductive instr :=
| IWrite
| IRead (m : bytes -> bool)
| ILoginT (du dp dr : bytes -> bool)
| ILoginS (dm dp dph dr : bytes -> bool).

Definition is_login (i : instr) : bool :=
  match i with ILoginT _ _ _ | ILoginS _ _ _ _ => true | _ => false end.

Definition run_instr (c : cfg) (tr : transport) (i : instr) (st : tst) (e : env) (rs : list rev) : lres :=
  match i with
  | IWrite => do_write c tr st e rs
  | IRead m => read_until c tr m [] st e rs
  | ILoginT du dp dr => login_t c tr du dp dr [] 0 0 st e rs
  | ILoginS dm dp dph dr => login_s c tr dm dp dph dr [] 0 0 st e rs
  end.

(* decorators._handle_timeout: transport.close(), then ScrapliTimeout (whatever close raises wins) *)
Definition fire (c : cfg) (tr : transport) (st : tst) (e : env) (rs : list rev) : lres :=
  match t_close c tr st e with
  | (Some x, st1, e1) => LStop (ORaised x) st1 e1 rs
  | (None, st1, e1) => LStop (ORaised STimeout) st1 e1 rs
  end.

(* the timeout backstop.  To: timeout_ops, Ti: timeout_transport (0 = none).
   - blocked read: the transport's own decorated read() or the operation's decorator fires;
   - login retry loop: only the operation's decorator; under asyncio it can only fire where the loop awaits
     (its sleeps);
   - empty reads for ever: sync, the operation's decorator pre-empts; asyncio, a loop that never awaits can
     not be cancelled -- only the login loop (which sleeps every round) can *)
Definition resolve (c : cfg) (tr : transport) (To Ti : N) (login : bool) (r : lres) : lres :=
  match r with
  | LBlock st e rs =>
      if (tc_read_decorated (tcf c tr) && negb (Ti =? 0)) || negb (To =? 0) then fire c tr st e rs
      else LStop OHang st e rs
  | LSpin st e rs =>
      if negb (To =? 0) && (negb (is_async tr) || login_async_sleeps c) then fire c tr st e rs
      else LStop OHang st e rs
  | LEmpty st e rs =>
      if negb (To =? 0) && (negb (is_async tr) || (login && login_async_sleeps c)) then fire c tr st e rs
      else LStop OHang st e rs
  | r => r
  end.

(* one decorated channel operation: its instructions in order *)
Fixpoint run_prog (c : cfg) (tr : transport) (To Ti : N) (p : list instr)
         (st : tst) (e : env) (rs : list rev) : outcome * tst * env * list rev :=
  match p with
  | [] => (ODone, st, e, rs)
  | i :: p' =>
      match resolve c tr To Ti (is_login i) (run_instr c tr i st e rs) with
      | LNext st1 e1 rs1 => run_prog c tr To Ti p' st1 e1 rs1
      | LStop o st1 e1 rs1 => (o, st1, e1, rs1)
      | LBlock st1 e1 rs1 | LSpin st1 e1 rs1 | LEmpty st1 e1 rs1 => (OHang, st1, e1, rs1)
      end
  end.

(* what a caller does with a connection: channel operations, isalive(), close(), bare transport calls *)
Inductive op :=
| OpChan (p : list instr)
| OpAlive
| OpClose
| OpRead          (* transport.read() *)
| OpWrite.        (* transport.write() *)

Definition instr_reads (i : instr) : bool := match i with IWrite => false | _ => true end.
Definition op_chan (o : op) : bool := match o with OpChan _ => true | _ => false end.
Definition op_reads (o : op) : bool :=
  match o with OpChan p => existsb instr_reads p | _ => false end.
Definition op_io (o : op) : bool :=
  match o with OpChan (_ :: _) | OpWrite => true | _ => false end.

(* no read() of this connection can return data any more *)
Definition doomedb (tr : transport) (st : tst) : bool :=
  negb (attached st) || rlost st || (is_telnet tr && teof st)
  || match tr with Telnet => dead st | _ => false end.

(* the losses isalive() must notice: on the read side always; on the write side wherever the library reports
   them (an asyncio StreamWriter never raises from write(): the asynctelnet transport learns nothing there) *)
Definition alost (tr : transport) (st : tst) : bool :=
  rlost st || match tr with ATelnet => false | _ => wlost st end.

Record obs := mkObs {
  o_out : outcome;             (* how the operation ended *)
  o_chan : bool; o_reads : bool; o_io : bool;      (* what kind of operation it was *)
  o_attached_before : bool; o_lost_before : bool; o_doomed_before : bool;
  o_lost_after : bool; o_alost_after : bool;
  o_alive_after : ares         (* isalive() right after it *)
}.

Definition run_op (c : cfg) (tr : transport) (To Ti : N) (o : op) (st : tst) (e : env) (rs : list rev)
  : outcome * tst * env * list rev :=
  match o with
  | OpChan p => run_prog c tr To Ti p st e rs
  | OpAlive => match t_isalive c tr st e with
               | (ABool b, st1, e1) => (OBool b, st1, e1, rs)
               | (AExc x, st1, e1) => (ORaised x, st1, e1, rs)
               end
  | OpClose => match t_close c tr st e with
               | (Some x, st1, e1) => (ORaised x, st1, e1, rs)
               | (None, st1, e1) => (ODone, st1, e1, rs)
               end
  | OpRead =>
      match t_read c tr st e rs with
      | (XBytes _, st1, e1, rs1) => (ODone, st1, e1, rs1)
      | (XExc x, st1, e1, rs1) => (ORaised x, st1, e1, rs1)
      | (XBlock, st1, e1, rs1) =>
          if tc_read_decorated (tcf c tr) && negb (Ti =? 0) then
            match fire c tr st1 e1 rs1 with
            | LStop o' st2 e2 rs2 => (o', st2, e2, rs2)
            | _ => (OHang, st1, e1, rs1)
            end
          else (OHang, st1, e1, rs1)
      end
  | OpWrite => match t_write c tr st e with
               | (Some x, st1, e1) => (ORaised x, st1, e1, rs)
               | (None, st1, e1) => (ODone, st1, e1, rs)
               end
  end.

(* a history: operations one after the other on the same connection (an exception ends one operation, not
   the history).  After each one the harness asks isalive(): that consumes probe events too. *)
Fixpoint run_ops (c : cfg) (tr : transport) (To Ti : N) (os : list op) (st : tst) (e : env) (rs : list rev)
  : list obs :=
  match os with
  | [] => []
  | o :: os' =>
      let '(out, st1, e1, rs1) := run_op c tr To Ti o st e rs in
      let '(al, st2, e2) := t_isalive c tr st1 e1 in
      mkObs out (op_chan o) (op_reads o) (op_io o) (attached st) (lost st) (doomedb tr st)
            (lost st1) (alost tr st1) al
        :: run_ops c tr To Ti os' st2 e2 rs1
  end.

(* ================================ specification side ================================ *)
Inductive call := KRecv | KSend | KClose | KProbe | KSockProbe | KSockShutdown.

Definition os_family : list cls :=
  [EOSError; EConnectionError; EConnReset; EBrokenPipe; EConnRefused; EConnAborted; ETimeout].

(* what the library under each transport is documented / seen to raise from each low-level call *)
Definition may_raise (tr : transport) (k : call) : list cls :=
  match k with
  | KSockProbe | KSockShutdown => os_family
  | KRecv =>
      match tr with
      | Telnet => EEOFError :: os_family
      | ATelnet => EEOFError :: EIncompleteRead :: os_family
      | System => EEOFError :: os_family
      | Paramiko => EException :: EEOFError :: ESSHException :: os_family
      | Asyncssh => EDisconnectError :: EConnectionLost :: os_family
      end
  | KSend => os_family
  | KClose =>
      match tr with
      | Telnet | ATelnet => []
      | System => [EPtyProcessError]
      | Paramiko => EEOFError :: ESSHException :: os_family
      | Asyncssh => [EBrokenPipe]
      end
  | KProbe =>
      match tr with
      | System => [EPtyProcessError]
      | Asyncssh => [EAttributeError]
      | _ => []
      end
  end.

(* the library steps of open() *)
Definition open_may_raise (tr : transport) : list (list cls) :=
  match tr with
  | Telnet => [[EGaiError]; EGaiError :: os_family]
  | ATelnet => [EGaiError :: os_family]
  | System => [[]]
  | Paramiko => [[EGaiError]; EGaiError :: os_family;
                 EException :: EEOFError :: ESSHException :: os_family;
                 EAuthException :: ESSHException :: EEOFError :: os_family;
                 ESSHException :: EChannelException :: EEOFError :: os_family;
                 ESSHException :: EChannelException :: EEOFError :: os_family;
                 ESSHException :: EChannelException :: EEOFError :: os_family]
  | Asyncssh => [EGaiError :: EDisconnectError :: EConnectionLost :: EPermissionDenied
                   :: EHostKeyNotVerifiable :: EKeyExchangeFailed :: os_family;
                 EChannelOpenError :: EDisconnectError :: EConnectionLost :: os_family]
  end.

Definition mem_cls (x : cls) (l : list cls) : bool := existsb (cls_beq x) l.

Definition rev_ok (tr : transport) (v : rev) : bool :=
  match v with RRaise x => mem_cls x (may_raise tr KRecv) | _ => true end.
Definition wev_ok (tr : transport) (v : wev) : bool :=
  match v with WRaise x => mem_cls x (may_raise tr KSend) | _ => true end.
Definition pev_ok (tr : transport) (v : pev) : bool :=
  match v with
  | PRaise x => mem_cls x (match tr with Telnet => may_raise tr KSockProbe | _ => may_raise tr KProbe end)
  | _ => true
  end.
Definition cev_ok (tr : transport) (v : cev) : bool :=
  match v with
  | CRaise x => mem_cls x (match tr with Telnet => may_raise tr KSockShutdown | _ => may_raise tr KClose end)
  | _ => true
  end.

Definition env_ok (tr : transport) (e : env) : bool :=
  forallb (wev_ok tr) (sends e) && forallb (pev_ok tr) (probes e) && forallb (cev_ok tr) (closes e).
Definition rs_ok (tr : transport) (rs : list rev) : bool := forallb (rev_ok tr) rs.
Definition st_ok (tr : transport) (st : tst) : bool :=
  match lerr st with Some x => mem_cls x (may_raise tr KRecv) | None => true end &&
  match werr st with Some x => mem_cls x (may_raise tr KSend) | None => true end.

(* ---- the checkable well-formedness of a configuration (computed on the generated one) ---- *)
Definition flow_good (c : cfg) (f : flow) : bool :=
  match f with FRaised y => scrapli c y | FSwallowed | FFalse => true end.
Definition flow_raised_scrapli (c : cfg) (f : flow) : bool :=
  match f with FRaised y => scrapli c y | _ => false end.

Definition tr_ok (c : cfg) (tr : transport) : bool :=
  let tc := tcf c tr in
  tc_read_guard tc && tc_write_guard tc && tc_eof_raises tc && tc_alive_eof tc
  && (negb (is_telnet tr) || tc_err_sets_eof tc)
  (* every exception of the low-level read ends as a scrapli exception, and its innermost handler runs *)
  && forallb (fun x => flow_raised_scrapli c (chain c (tc_read_tbls tc) x)
                       && is_some (dispatch c (match tc_read_tbls tc with t :: _ => t | [] => [] end) x))
             (may_raise tr KRecv)
  && flow_raised_scrapli c (chain c (tc_read_tbls tc) ETimeout)
  && forallb (fun x => flow_raised_scrapli c (chain c (tc_write_tbls tc) x)) (may_raise tr KSend)
  && forallb (fun x => flow_good c (chain c (tc_close_tbls tc) x)) (may_raise tr KClose)
  && forallb (fun x => flow_good c (chain c (tc_alive_tbls tc) x)) (may_raise tr KProbe)
  (* open(): every documented failure of every library step ends as a scrapli exception (or is dealt with) *)
  && (length (tc_open_tbls tc) =? length (open_kinds tr))%nat
  && forallb (fun p => forallb (fun x => flow_good c (chain c (fst p) x)) (snd p))
             (combine (tc_open_tbls tc) (open_may_raise tr)).

Definition scrapli_classes : list cls := [SException; SConnectionError; SNotOpened; SAuthFailed; STimeout].
Definition raw_classes : list cls :=
  [EException; EOSError; EConnectionError; EConnReset; EBrokenPipe; EConnRefused; EConnAborted; ETimeout;
   EGaiError; EEOFError; EIncompleteRead; EAttributeError; EPtyProcessError; ESSHException; EAuthException;
   EChannelException; EAsyncsshError; EDisconnectError; EConnectionLost; EPermissionDenied;
   EHostKeyNotVerifiable; EKeyExchangeFailed; EChannelOpenError].

Definition cfg_ok (c : cfg) : bool :=
  forallb (tr_ok c) all_transports
  && forallb (scrapli c) scrapli_classes
  && forallb (fun x => negb (scrapli c x)) raw_classes
  && forallb (fun x => flow_good c (chain c (sock_alive_tbls c) x)) os_family
  && forallb (fun x => flow_good c (chain c (sock_shutdown_tbls c) x)) os_family
  (* the login loop swallows nothing but what a scrapli exception is, and re-raises / maps to scrapli *)
  && forallb (fun a => forallb (fun x => flow_good c (chain c (login_tbls c a) x)) scrapli_classes) [false; true]
  && login_async_sleeps c.

(* matchers never accept the empty buffer (no prompt pattern does) *)
Definition instr_ok (i : instr) : bool :=
  match i with
  | IWrite => true
  | IRead m => negb (m [])
  | ILoginT du dp dr => negb (du []) && negb (dp []) && negb (dr [])
  | ILoginS dm dp dph dr => negb (dm []) && negb (dp []) && negb (dph []) && negb (dr [])
  end.
(* a bare transport.read() is not an operation of the property: with no transport timeout it blocks on a silent
   peer (it is part of the model for the correspondence run only) *)
Definition op_ok (o : op) : bool :=
  match o with OpChan p => forallb instr_ok p | OpRead => false | _ => true end.

Definition good (c : cfg) (o : outcome) : bool :=
  match o with ODone | OBool _ => true | ORaised x => scrapli c x | OHang => false end.

(* matchers used by the correspondence cases (the loops above take any function) *)
Definition m_contains (lit : bytes) (buf : bytes) : bool := infixb lit buf.
(* _process_read_buf (below the search depth): the part after the first newline if there is one *)
Definition m_search_buf (buf : bytes) : bytes :=
  let '(before, _, after) := partition_byte 10 buf in
  match after with [] => before | _ => after end.
Definition m_prompt (lit : bytes) (buf : bytes) : bool := infixb lit (m_search_buf buf).
Definition m_input (inp : bytes) (buf : bytes) : bool :=
  infixb (squash_ws (lower inp)) (squash_ws (remove_byte 8 (lower buf))).
(* `(.*lit)\s?$` with re.M, on the streams the harness generates: lit, optional blank, at the end of a line *)
Definition ends_line (lit : bytes) (buf : bytes) : bool :=
  existsb (fun l => let l' := l in
                    let n := length lit in
                    beq (lastn n l') lit || (beq (lastn n (removelast l')) lit && beq (lastn 1 l') [32]))
          (match splitlines buf with [] => [[]] | ls => ls end).

(* ---- canonical codes for the correspondence run ---- *)
Definition cls_ix (x : cls) : N :=
  match x with
  | EException => 1 | EOSError => 2 | EConnectionError => 3 | EConnReset => 4 | EBrokenPipe => 5
  | EConnRefused => 6 | EConnAborted => 7 | ETimeout => 8 | EGaiError => 9 | EEOFError => 10
  | EIncompleteRead => 11 | EAttributeError => 12 | EPtyProcessError => 13 | ESSHException => 14
  | EAuthException => 15 | EChannelException => 16 | EAsyncsshError => 17 | EDisconnectError => 18
  | EConnectionLost => 19 | EPermissionDenied => 20 | EHostKeyNotVerifiable => 21 | EKeyExchangeFailed => 22
  | EChannelOpenError => 23 | SException => 30 | SConnectionError => 31 | SNotOpened => 32
  | SAuthFailed => 33 | STimeout => 34
  end.
Definition out_code (o : outcome) : N * N :=
  match o with
  | ODone => (0, 0) | OBool b => (1, if b then 1 else 0) | ORaised x => (2, cls_ix x) | OHang => (3, 0)
  end.
Definition alive_code (a : ares) : N * N :=
  match a with ABool b => (1, if b then 1 else 0) | AExc x => (2, cls_ix x) end.
Definition obs_codes (l : list obs) : list (N * N * (N * N)) :=
  map (fun o => (out_code (o_out o), alive_code (o_alive_after o))) l.
Fixpoint codes_eqb (a b : list (N * N * (N * N))) : bool :=
  match a, b with
  | [], [] => true
  | (x1, x2, (x3, x4)) :: a', (y1, y2, (y3, y4)) :: b' =>
      (x1 =? y1) && (x2 =? y2) && (x3 =? y3) && (x4 =? y4) && codes_eqb a' b'
  | _, _ => false
  end.
