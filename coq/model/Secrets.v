(* Secrets.v — C12: what scrapli's channel / login / privilege-escalation code makes observable
   (log records, exception messages, channel log, repr/str, bytes typed at the device), as it is
   after the repair of finding C12-enable-no-password.  Executable definitions only; proofs are in
   proofs/Secrets_Proofs.v.

   Part 1: the decision procedure over the generated sink table (Gen_Sinks.v, gen/gen_sinks.py).
   Part 2: the model of scrapli/channel/{base,sync,async}_channel.py (write, read, the read loops,
           channel_authenticate_telnet, channel_authenticate_ssh, get_prompt, send_input,
           send_inputs_interact), scrapli/driver/network/*_driver.py (_escalate) and
           scrapli/driver/base/base_driver.py (__repr__, __str__), extended with the stream of
           observables they emit.  A datum is an opaque atom: [Sec k] is (a piece of) a secret,
           [Pub n] anything else (commands, patterns, device text, host names).  A message is the
           list of the data atoms interpolated into it — literal text of the source carries no atom. *)
From Coq Require Import String.
From Verif Require Import Bytes.

(* ------------------------------------------------------------------------------------------- *)
(* Part 1 — static sink table                                                                    *)
(* ------------------------------------------------------------------------------------------- *)
(* SLog: a logging call / warning; SRaise: a raise; SRepr: the return of a __repr__ / __str__; SStore: an in-place
   store (x[k] = v, x.update / setdefault / append ...) into a container that may be one a __repr__ / __str__ of the
   package formats as a whole — BaseDriver.__repr__ prints the user's own transport_options dict by reference, so what
   is stored into it later, anywhere, is what repr(driver) shows from then on *)
Inductive skind := SLog | SRaise | SRepr | SStore.

Record sink := mkSink {
  s_kind : skind; s_file : string; s_line : nat; s_func : string; s_anchored : bool;
  (* identifiers whose value can reach the message, closed under local assignments and call edges,
     each with the boolean identifiers that must be FALSE for the flow to happen *)
  s_flows : list (string * list string)
}.

(* the identifiers that carry a secret: the three credentials and the input of an interact event
   (element 0 of an event tuple; the whole event / event list contains it) *)
Definition secret_idents : list string :=
  ["auth_password"; "auth_private_key_passphrase"; "auth_secondary";
   "interact_event[0]"; "interact_events[0]"; "interact_event"; "interact_events"]%string.

Definition redaction_guards : list string := ["redacted"; "hidden_input"]%string.

Definition str_in (s : string) (l : list string) : bool := existsb (String.eqb s) l.

Definition flow_ok (f : string * list string) : bool :=
  negb (str_in (fst f) secret_idents) || existsb (fun g => str_in g redaction_guards) (snd f).

Definition sink_ok (s : sink) : bool := forallb flow_ok (s_flows s).
Definition sinks_ok (l : list sink) : bool := forallb sink_ok l.
(* witness mode: the sinks a secret reaches unguarded *)
Definition bad_sinks (l : list sink) : list sink := filter (fun s => negb (sink_ok s)) l.
(* the sinks a secret-carrying identifier reaches at all (guarded or not) *)
Definition reaches_secret (s : sink) : bool := existsb (fun f => str_in (fst f) secret_idents) (s_flows s).
Definition secret_sinks (l : list sink) : list sink := filter reaches_secret l.
(* known finding C12-response-hidden-input: Response.channel_input of a send_interactive is the join of ALL event
   inputs, hidden ones included (GenericDriver._pre_send_interactive); the two sinks of the unchanged tree that show
   that attribute are the finding's region: repr(Response) and the `no template` warning of textfsm_parse_output *)
Definition known_region (s : sink) : bool :=
  (String.eqb (s_file s) "scrapli/response.py" && String.eqb (s_func s) "Response.__repr__") ||
  (String.eqb (s_file s) "scrapli/helper.py" && String.eqb (s_func s) "_textfsm_get_template").
Definition outside (region : sink -> bool) (l : list sink) : list sink := filter (fun s => negb (region s)) l.
Definition func_in (f : string) (l : list sink) : bool := existsb (fun s => String.eqb (s_func s) f) l.
Definition count_kind (k : skind) (l : list sink) : nat :=
  length (filter (fun s => match s_kind s, k with SLog, SLog | SRaise, SRaise | SRepr, SRepr | SStore, SStore => true | _, _ => false end) l).

(* ------------------------------------------------------------------------------------------- *)
(* Part 2 — observables of the channel / login / escalation code                                 *)
(* ------------------------------------------------------------------------------------------- *)
Inductive atom := Pub (n : N) | Sec (k : N).
Definition msg := list atom.

Definition is_pub (a : atom) : bool := match a with Pub _ => true | Sec _ => false end.
Definition pub (m : msg) : bool := forallb is_pub m.

(* exception classes *)
Definition E_AUTH : N := 1.     (* ScrapliAuthenticationFailed *)
Definition E_TIMEOUT : N := 2.  (* ScrapliTimeout *)
Definition E_CONN : N := 3.     (* ScrapliConnectionError *)

Inductive obs :=
| OLog (m : msg)                  (* a `write: ` / `read: ` record of the channel (the data shown in it) *)
| OInfo (m : msg)                 (* any other record on the 'scrapli' logger tree, at any level *)
| OChan (m : msg)                 (* bytes written to the channel log *)
| OExc (cls : N) (m : msg)        (* an exception raised by scrapli, with the data in its message *)
| ORepr (m : msg)                 (* repr() / str() of a driver *)
| OWrite (m : msg) (asked : bool) (* bytes typed at the device; asked: they answer the prompt that was just matched *)
.

(* what the code does at a read loop iteration depends on which patterns match the buffer: the answers
   are part of the history (arbitrary), one record per transport read *)
Record flags := mkF {
  f_kick : bool;      (* telnet login: empty read and the return interval has elapsed *)
  f_user : bool;      (* auth_telnet_login_pattern matches *)
  f_pass : bool;      (* auth_password_pattern matches *)
  f_phrase : bool;    (* auth_passphrase_pattern matches *)
  f_prompt : bool;    (* comms_prompt_pattern matches *)
  f_denied : bool;    (* _ssh_message_handler finds an error text in the login buffer *)
  f_input : bool;     (* _read_until_input: the input has been read back *)
  f_expect : bool;    (* interact: the event's expected response matches *)
  f_complete : bool   (* interact: one of interaction_complete_patterns matches *)
}.
Definition f0 : flags := mkF false false false false false false false false false.

Inductive rev :=
| RData (d : msg) (f : flags)   (* transport.read() returned a chunk *)
| RConnErr                      (* transport.read() raised ScrapliConnectionError (EOF, disconnect) *)
| RTimeout                      (* timeout_ops expired while this read was blocking *)
| RBlock.                       (* nothing more comes: the read blocks forever *)

Inductive stop := SOk | SRaised | SBlocks.

(* BaseChannel.write + transport.write *)
Definition w (ci : msg) (redacted asked : bool) : list obs :=
  [OLog (if redacted then [] else ci); OWrite ci asked].
(* send_return: the return character is literal text *)
Definition send_ret : list obs := w [] false false.
(* Channel.read: debug record + channel log *)
Definition rd (d : msg) : list obs := [OLog d; OChan d].
(* decorators._handle_timeout: critical record (literal) + ScrapliTimeout(literal) *)
Definition timed_out : list obs := [OInfo []; OExc E_TIMEOUT []].
Definition auth_failed_literal : list obs := [OInfo []; OExc E_AUTH []].

(* the read loops _read_until_input / _read_until_prompt / _read_until_explicit_prompt / get_prompt *)
Fixpoint read_until (sel : flags -> bool) (h : list rev) : list obs * stop * flags * list rev :=
  match h with
  | [] => ([], SBlocks, f0, [])
  | RData d f :: h' =>
      if sel f then (rd d, SOk, f, h')
      else let '(t, s, f', h'') := read_until sel h' in (rd d ++ t, s, f', h'')
  | RConnErr :: h' => ([OExc E_CONN []], SRaised, f0, h')
  | RTimeout :: h' => (timed_out, SRaised, f0, h')
  | RBlock :: h' => ([], SBlocks, f0, h')
  end.

Definition m_get_prompt (h : list rev) : list obs * stop * list rev :=
  let '(t, s, _, h') := read_until f_prompt h in (send_ret ++ t, s, h').

(* send_input: info record with the input, write, read the echo back (unless eager_input / empty input),
   return, read to the prompt *)
Definition m_send_input (ci : msg) (skip_echo : bool) (h : list rev) : list obs * stop * list rev :=
  let t0 := OInfo ci :: w ci false false in
  let '(t1, s1, _, h1) := if skip_echo then ([], SOk, f0, h) else read_until f_input h in
  match s1 with
  | SOk => let '(t2, s2, _, h2) := read_until f_prompt h1 in (t0 ++ t1 ++ send_ret ++ t2, s2, h2)
  | _ => (t0 ++ t1, s1, h1)
  end.

(* one interact event: (input, expected response, hidden) *)
Record ievent := mkEv { e_in : msg; e_resp : msg; e_hidden : bool;
                        e_in_ne : bool (* input is a non-empty string *);
                        e_resp_ne : bool (* response is a non-empty string *) }.

(* send_inputs_interact.  [fixd]: the interaction ends when what matched is one of
   interaction_complete_patterns and not the event's expected response (the repaired code);
   fixd = false is the code before the repair.  [complete]: interaction_complete_patterns given (non-empty).
   [asked]: the previous event's expected response was seen, i.e. the device asks for this input. *)
Fixpoint m_interact (fixd complete asked : bool) (evs : list ievent) (h : list rev)
  : list obs * stop * list rev :=
  match evs with
  | [] => ([], SOk, h)
  | e :: evs' =>
      let t0 := OInfo ((if e_hidden e then [] else e_in e) ++ e_resp e) :: w (e_in e) (e_hidden e) asked in
      let '(t1, s1, _, h1) :=
        if e_resp_ne e && negb (e_hidden e) && e_in_ne e then read_until f_input h else ([], SOk, f0, h) in
      match s1 with
      | SOk =>
          let '(t2, s2, f, h2) := read_until (fun f => f_expect f || (complete && f_complete f)) h1 in
          match s2 with
          | SOk =>
              if fixd && complete && negb (f_expect f)
              then (t0 ++ t1 ++ send_ret ++ t2, SOk, h2)
              else let '(t3, s3, h3) := m_interact fixd complete (f_expect f) evs' h2 in
                   (t0 ++ t1 ++ send_ret ++ t2 ++ t3, s3, h3)
          | _ => (t0 ++ t1 ++ send_ret ++ t2, s2, h2)
          end
      | _ => (t0 ++ t1, s1, h1)
      end
  end.

Definition ends_in_timeout (t : list obs) : bool :=
  match last t (OLog []) with OExc c _ => c =? E_TIMEOUT | _ => false end.

(* NetworkDriver._escalate with escalate_auth: the enable command, then auth_secondary as a hidden event;
   ScrapliTimeout is re-raised as ScrapliAuthenticationFailed naming the two privilege levels *)
Definition m_escalate (fixd : bool) (esc_cmd esc_prompt sec2 pat prev name : msg) (sec2_ne : bool)
                      (h : list rev) : list obs * stop * list rev :=
  let evs := [mkEv esc_cmd esc_prompt false true true; mkEv sec2 pat true sec2_ne true] in
  let '(t, s, h') := m_interact fixd true false evs h in
  match s with
  | SRaised => if ends_in_timeout t then (t ++ [OExc E_AUTH (prev ++ name)], SRaised, h') else (t, s, h')
  | _ => (t, s, h')
  end.

(* channel_authenticate_telnet (both twins) *)
Fixpoint m_login_telnet (user pw : msg) (uc pc : nat) (h : list rev) : list obs * stop * list rev :=
  match h with
  | [] => ([], SBlocks, [])
  | RConnErr :: h' => let '(t, s, h2) := m_login_telnet user pw uc pc h' in (send_ret ++ t, s, h2)
  | RTimeout :: h' => (timed_out, SRaised, h')
  | RBlock :: h' => ([], SBlocks, h')
  | RData d f :: h' =>
      let t0 := rd d ++ (if f_kick f then send_ret else []) in
      if f_user f && (2 <=? uc)%nat then (t0 ++ auth_failed_literal, SRaised, h') else
      let t1 := if f_user f then w user false true ++ send_ret else [] in
      let uc' := if f_user f then S uc else uc in
      if f_pass f && (2 <=? pc)%nat then (t0 ++ t1 ++ auth_failed_literal, SRaised, h') else
      let t2 := if f_pass f then w pw true true ++ send_ret else [] in
      let pc' := if f_pass f then S pc else pc in
      if f_prompt f then (t0 ++ t1 ++ t2, SOk, h')
      else let '(t, s, h2) := m_login_telnet user pw uc' pc' h' in (t0 ++ t1 ++ t2 ++ t, s, h2)
  end.

(* channel_authenticate_ssh.  [handler]: the sync twin runs _ssh_message_handler on the login buffer first;
   its message is built from the buffer (the `permission denied` branch copies all of it). *)
Fixpoint m_login_ssh (handler : bool) (pw ph : msg) (abuf : msg) (pc phc : nat) (h : list rev)
  : list obs * stop * list rev :=
  match h with
  | [] => ([], SBlocks, [])
  | RConnErr :: h' => ([OExc E_CONN []], SRaised, h')
  | RTimeout :: h' => (timed_out, SRaised, h')
  | RBlock :: h' => ([], SBlocks, h')
  | RData d f :: h' =>
      let ab := abuf ++ d in
      let t0 := rd d in
      if handler && f_denied f then (t0 ++ [OInfo ab; OExc E_AUTH ab], SRaised, h') else
      if f_pass f && (2 <=? pc)%nat then (t0 ++ auth_failed_literal, SRaised, h') else
      let t1 := if f_pass f then w pw true true ++ send_ret else [] in
      let pc' := if f_pass f then S pc else pc in
      let ab1 := if f_pass f then [] else ab in
      if f_phrase f && (2 <=? phc)%nat then (t0 ++ t1 ++ auth_failed_literal, SRaised, h') else
      let t2 := if f_phrase f then w ph true true ++ send_ret else [] in
      let phc' := if f_phrase f then S phc else phc in
      let ab2 := if f_phrase f then [] else ab1 in
      if f_prompt f then (t0 ++ t1 ++ t2, SOk, h')
      else let '(t, s, h2) := m_login_ssh handler pw ph ab2 pc' phc' h' in (t0 ++ t1 ++ t2 ++ t, s, h2)
  end.

(* BaseDriver.__repr__ / __str__: the password and the passphrase are replaced by a literal *)
Record conf := mkConf { c_host : msg; c_user : msg; c_key : msg; c_rest : msg; c_pw : msg; c_ph : msg; c_sec2 : msg }.
Definition m_repr (c : conf) : list obs := [ORepr (c_host c ++ c_user c ++ c_key c ++ c_rest c)].
Definition m_str (c : conf) : list obs := [ORepr (c_host c)].

(* scrapli/response.py — the Response / MultiResponse object handed to the user.  [r_input] is channel_input: the
   command, or for send_interactive the join of ALL event inputs, hidden ones included (a MultiResponse: all of its
   elements' inputs).  __repr__ prints host, channel_input and failed_when_contains; __str__ the class name and the
   success flag (literal text); raise_for_status raises ScrapliCommandFailure with an empty message when failed. *)
Record resp := mkResp { r_host : msg; r_input : msg; r_fwc : msg; r_failed : bool }.
Definition E_CMDFAIL : N := 4.  (* ScrapliCommandFailure *)
Definition m_resp_repr (r : resp) : list obs := [ORepr (r_host r ++ r_input r ++ r_fwc r)].
Definition m_resp_str (r : resp) : list obs := [ORepr []].
Definition m_resp_raise (r : resp) : list obs * stop :=
  if r_failed r then ([OExc E_CMDFAIL []], SRaised) else ([], SOk).

(* `driver.X = v` on an EXISTING driver (credential rotation, another password after a refused login).  The credential
   attributes (auth_password, auth_private_key_passphrase, auth_secondary) are plain attribute stores: nothing becomes
   observable; the setters of the public tunables (comms_..., timeout_...) log the new value at DEBUG. *)
Definition m_assign (cred : bool) (v : msg) : list obs := if cred then [] else [OInfo v].

(* scrapli/factory.py — `Scrapli(platform=..., **kwargs)` / `AsyncScrapli(...)`: the factory picks the driver class and
   says so in ONE record (INFO, logger scrapli.factory): for a core platform the class only; for a scrapli_community
   platform the class and the PLATFORM's own arguments [plat] (defaults merged with the variant's: privilege levels,
   on_open / on_close, failed_when_contains, ...).  Nothing of the configuration [c] the user handed to the factory
   (host, user name, the three credentials, everything else) enters that record; the merge of the platform's arguments
   with the user's happens after it.  A platform that cannot be loaded (scrapli_community / the platform module missing,
   no SCRAPLI_PLATFORM) is an exception whose message names the platform only: outside the model (oracle-only). *)
Definition m_construct (community : bool) (plat : msg) (c : conf) : list obs :=
  [OInfo (if community then plat else [])].

Inductive op :=
| OpLoginTelnet (user pw : msg)
| OpLoginSsh (handler : bool) (pw ph : msg)
| OpGetPrompt
| OpSendInput (ci : msg) (skip_echo : bool)
| OpInteract (complete : bool) (evs : list ievent)
| OpEscalate (esc_cmd esc_prompt sec2 pat prev name : msg) (sec2_ne : bool)
| OpRepr (c : conf)
| OpStr (c : conf)
| OpRespRepr (r : resp)
| OpRespStr (r : resp)
| OpRespRaise (r : resp)
| OpAssign (cred : bool) (v : msg)
| OpConstruct (community : bool) (plat : msg) (c : conf).

Definition run_op (fixd : bool) (o : op) (h : list rev) : list obs * stop * list rev :=
  match o with
  | OpLoginTelnet user pw => m_login_telnet user pw 0 0 h
  | OpLoginSsh handler pw ph => m_login_ssh handler pw ph [] 0 0 h
  | OpGetPrompt => m_get_prompt h
  | OpSendInput ci sk => m_send_input ci sk h
  | OpInteract complete evs => m_interact fixd complete false evs h
  | OpEscalate a b s2 c d e ne => m_escalate fixd a b s2 c d e ne h
  | OpRepr c => (m_repr c, SOk, h)
  | OpStr c => (m_str c, SOk, h)
  | OpRespRepr r => (m_resp_repr r, SOk, h)
  | OpRespStr r => (m_resp_str r, SOk, h)
  | OpRespRaise r => let '(t, s) := m_resp_raise r in (t, s, h)
  | OpAssign cred v => (m_assign cred v, SOk, h)
  | OpConstruct community plat c => (m_construct community plat c, SOk, h)
  end.

(* a session: operations in order over one history; the first failure ends it *)
Fixpoint run_ops (fixd : bool) (ops : list op) (h : list rev) : list obs * stop :=
  match ops with
  | [] => ([], SOk)
  | o :: r =>
      let '(t, s, h') := run_op fixd o h in
      match s with
      | SOk => let '(t', s') := run_ops fixd r h' in (t ++ t', s')
      | _ => (t, s)
      end
  end.

(* ---- the property's vocabulary ---- *)
(* secrets do not occur in the non-secret inputs *)
Definition ev_wf (e : ievent) : bool := pub (e_resp e) && (e_hidden e || pub (e_in e)).
Definition conf_pub (c : conf) : bool := pub (c_host c) && pub (c_user c) && pub (c_key c) && pub (c_rest c).
Definition op_wf (o : op) : bool :=
  match o with
  | OpLoginTelnet user _ => pub user
  | OpLoginSsh _ _ _ => true
  | OpGetPrompt => true
  | OpSendInput ci _ => pub ci
  | OpInteract _ evs => forallb ev_wf evs
  | OpEscalate a b _ c d e _ => pub a && pub b && pub c && pub d && pub e
  | OpRepr c | OpStr c => conf_pub c
  (* repr of a response: its channel_input holds no secret, i.e. it is not the response of an interaction with a hidden
     input (that region is the known finding C12-response-repr-hidden-input, see [resp_repr_refuted]);
     str() and raise_for_status(): no condition at all *)
  | OpRespRepr r => pub (r_host r) && pub (r_input r) && pub (r_fwc r)
  | OpRespStr _ | OpRespRaise _ => true
  (* a credential may be any secret; what is assigned to a public tunable holds no secret *)
  | OpAssign cred v => cred || pub v
  (* what a (community) platform definition supplies holds no secret; the user's configuration may hold any *)
  | OpConstruct _ plat _ => pub plat
  end.
(* the first input of an interaction is typed at the command prompt: it is not the hidden one *)
Definition op_wf_first (o : op) : bool :=
  match o with
  | OpInteract _ (e :: _) => pub (e_in e)
  | _ => true
  end.
(* the device does not print secrets *)
Definition rev_pub (e : rev) : bool := match e with RData d _ => pub d | _ => true end.
Definition hist_pub (h : list rev) : bool := forallb rev_pub h.

(* an observable is free of secrets; what is typed at the device is not an observable of this kind *)
Definition obs_ok (o : obs) : bool :=
  match o with
  | OLog m | OInfo m | OChan m | OExc _ m | ORepr m => pub m
  | OWrite _ _ => true
  end.
(* a secret is only typed in answer to the prompt that asks for it *)
Definition write_ok (o : obs) : bool :=
  match o with OWrite m false => pub m | _ => true end.

(* the device is causal: a secret atom it prints is the echo of something typed when it was not asked for *)
Definition atoms_of_hist (h : list rev) : msg :=
  flat_map (fun e => match e with RData d _ => d | _ => [] end) h.
Definition unasked_atoms (t : list obs) : msg :=
  flat_map (fun o => match o with OWrite m false => m | _ => [] end) t.

(* ---- canonical form used by the correspondence check (messages compared as sets of atoms) ---- *)
Definition akey (a : atom) : N := match a with Pub n => 2 * n | Sec k => 2 * k + 1 end.
Fixpoint ins (a : atom) (l : msg) : msg :=
  match l with
  | [] => [a]
  | b :: r => if akey a <? akey b then a :: l else if akey a =? akey b then l else b :: ins a r
  end.
Definition canon (m : msg) : msg := fold_right ins [] m.
Definition aeqb (a b : atom) : bool := akey a =? akey b.
Fixpoint meqb (a b : msg) : bool :=
  match a, b with [], [] => true | x :: a', y :: b' => aeqb x y && meqb a' b' | _, _ => false end.
Definition oeqb (a b : obs) : bool :=
  match a, b with
  | OLog m, OLog n | OInfo m, OInfo n | OChan m, OChan n | ORepr m, ORepr n => meqb (canon m) (canon n)
  | OExc c m, OExc d n => (c =? d) && meqb (canon m) (canon n)
  | OWrite m _, OWrite n _ => meqb (canon m) (canon n)
  | _, _ => false
  end.
Fixpoint teqb (a b : list obs) : bool :=
  match a, b with [], [] => true | x :: a', y :: b' => oeqb x y && teqb a' b' | _, _ => false end.
(* the correspondence compares the I/O part of a trace exactly (write / read records, channel log, transport
   writes, exceptions, repr) and the other records through the set of atoms they carry *)
Definition is_info (o : obs) : bool := match o with OInfo _ => true | _ => false end.
Definition io_part (t : list obs) : list obs := filter (fun o => negb (is_info o)) t.
Definition info_atoms (t : list obs) : msg := canon (flat_map (fun o => match o with OInfo m => m | _ => [] end) t).
Definition stop_code (s : stop) : N := match s with SOk => 0 | SRaised => 1 | SBlocks => 2 end.
