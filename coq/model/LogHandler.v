(* LogHandler.v — executable model of the two file handlers scrapli.logging.enable_basic_logging
   installs: logging.FileHandler (buffer_log=False) and ScrapliFileHandler (emit / emit_buffered /
   close), with the pieces of the logging module they go through: LogRecord.getMessage (lazy
   %-formatting), repr of bytes / str, StreamHandler.emit (format, write, handleError).
   Definitions only; proofs are in proofs/LogHandler_Proofs.v.

   [lazyfix]  true: the code as it is now (emit looks at record.getMessage(), emit_buffered clears
              the args of the buffered record); false: the pinned commit (prefix test and slicing on
              record.msg, i.e. on the *template* of a lazily formatted record; args kept).
   [closefix] true: close() writes the pending coalesced read record; false: the pinned commit.

   Domain notes (the correspondence generator stays inside): conversions %r %s %% only (every
   other conversion character is modelled as raising, which is exact for the numeric ones applied
   to bytes/str arguments); repr of a str is exact for code points < 256; the file is the text
   handed to the stream (its encoding is not modelled); no emits after close. *)
From Verif Require Import Bytes LogFormat.

(* ---- repr / str.encode ---- *)
Definition hexdigit (d : N) : N := if d <? 10 then 48 + d else 87 + d.
Definition esc_x (c : N) : str := [92; 120; hexdigit (c / 16); hexdigit (c mod 16)].   (* \xhh *)
Definition esc_u (c : N) : str :=                                                      (* \uhhhh *)
  [92; 117; hexdigit (c / 4096); hexdigit ((c / 256) mod 16); hexdigit ((c / 16) mod 16); hexdigit (c mod 16)].

Definition quote_for (s : list N) : N := if mem 39 s && negb (mem 34 s) then 34 else 39.

Definition esc_common (q c : N) : option str :=
  if (c =? q) || (c =? 92) then Some [92; c]
  else if c =? 9 then Some [92; 116]
  else if c =? 10 then Some [92; 110]
  else if c =? 13 then Some [92; 114]
  else None.

Definition repr_byte (q c : N) : str :=
  match esc_common q c with
  | Some e => e
  | None => if (c <? 32) || (127 <=? c) then esc_x c else [c]
  end.
(* repr(b) of a bytes object *)
Definition repr_bytes (b : bytes) : str :=
  let q := quote_for b in 98 :: q :: flat_map (repr_byte q) b ++ [q].

(* str.isprintable of one code point: exact below 256, approximated by true above *)
Definition printable (c : N) : bool :=
  negb ((c <? 32) || ((127 <=? c) && (c <=? 160)) || (c =? 173)).
Definition repr_char (q c : N) : str :=
  match esc_common q c with
  | Some e => e
  | None => if printable c then [c] else if c <? 256 then esc_x c else esc_u c
  end.
Definition repr_str (s : str) : str :=
  let q := quote_for s in q :: flat_map (repr_char q) s ++ [q].

(* one code point in UTF-8 ; None: surrogate / out of range (UnicodeEncodeError) *)
Definition utf8_cp (c : N) : option bytes :=
  if c <? 128 then Some [c]
  else if c <? 2048 then Some [192 + c / 64; 128 + c mod 64]
  else if c <? 65536 then
    if (55296 <=? c) && (c <=? 57343) then None
    else Some [224 + c / 4096; 128 + (c / 64) mod 64; 128 + c mod 64]
  else if c <? 1114112 then
    Some [240 + c / 262144; 128 + (c / 4096) mod 64; 128 + (c / 64) mod 64; 128 + c mod 64]
  else None.
Fixpoint utf8 (s : str) : option bytes :=
  match s with
  | [] => Some []
  | c :: r => match utf8_cp c, utf8 r with
              | Some a, Some b => Some (a ++ b)
              | _, _ => None
              end
  end.

(* ---- records and lazy formatting ---- *)
Inductive arg := ABytes (b : bytes) | AStr (s : str).

Definition conv_r (a : arg) : str := match a with ABytes b => repr_bytes b | AStr s => repr_str s end.
Definition conv_s (a : arg) : str := match a with ABytes b => repr_bytes b | AStr s => s end.

(* msg % args for a non-empty tuple args ; None = TypeError / ValueError *)
Fixpoint pyformat (m : str) (args : list arg) : option str :=
  match m with
  | [] => match args with [] => Some [] | _ => None end     (* not all arguments converted *)
  | c :: rest =>
      if c =? 37 then
        match rest with
        | [] => None                                          (* incomplete format *)
        | d :: rest' =>
            if d =? 37 then option_map (cons 37) (pyformat rest' args)
            else if (d =? 114) || (d =? 115) then
              match args with
              | [] => None                                    (* not enough arguments *)
              | a :: args' =>
                  option_map (app (if d =? 114 then conv_r a else conv_s a)) (pyformat rest' args')
              end
            else None                                         (* other conversions: see header *)
        end
      else option_map (cons c) (pyformat rest args)
  end.

Record record := mkR { r_msg : str; r_args : list arg; r_meta : meta }.

(* LogRecord.getMessage: formatting only happens when args is non-empty *)
Definition get_message (r : record) : option str :=
  match r_args r with [] => Some (r_msg r) | a => pyformat (r_msg r) a end.

(* ---- the handlers ---- *)
Definition read_prefix : str := [114; 101; 97; 100; 58; 32].          (* "read: " *)
Definition read_prefix_len : nat := 6.
Definition read_out : str := [114; 101; 97; 100; 32; 58; 32].         (* "read : " *)

Record hconf := mkHC { portfix : bool; lazyfix : bool; closefix : bool; fc : fconf }.

Record hstate := mkH {
  pending : option record;   (* _record_buf *)
  payload : bytes;           (* _record_msg_buf *)
  next_id : N;               (* ScrapliFormatter.message_id *)
  file : str;                (* text written to the stream so far *)
  errors : nat;              (* Handler.handleError calls ("--- Logging error ---" on stderr) *)
  escaped : nat              (* exceptions that left emit() into the logging call *)
}.

Definition h_init (existing : str) (append : bool) : hstate :=
  mkH None [] 1 (if append then existing else []) 0 0.

Definition with_error (st : hstate) : hstate :=
  mkH (pending st) (payload st) (next_id st) (file st) (S (errors st)) (escaped st).
Definition with_escape (st : hstate) : hstate :=
  mkH (pending st) (payload st) (next_id st) (file st) (errors st) (S (escaped st)).

(* logging.StreamHandler.emit: msg = self.format(record); stream.write(msg + "\n") — any exception
   goes to handleError; the formatter's message id only moves when formatMessage completes *)
Definition write_record (c : hconf) (r : record) (st : hstate) : hstate :=
  match get_message r with
  | None => with_error st
  | Some m =>
      match format_record (portfix c) (fc c) (next_id st) (r_meta r) m with
      | None => with_error st
      | Some line =>
          mkH (pending st) (payload st) (next_id st + 1) (file st ++ line ++ [10]) (errors st) (escaped st)
      end
  end.

(* the plain logging.FileHandler *)
Definition plain_emit (c : hconf) (st : hstate) (r : record) : hstate := write_record c r st.

(* ScrapliFileHandler.emit_buffered (only ever called with a pending record) *)
Definition emit_buffered (c : hconf) (st : hstate) : hstate :=
  match pending st with
  | None => st
  | Some r =>
      let r' := mkR (read_out ++ repr_bytes (payload st)) (if lazyfix c then [] else r_args r) (r_meta r) in
      let st' := write_record c r' st in
      mkH None [] (next_id st') (file st') (errors st') (escaped st')
  end.

Definition flush_pending (c : hconf) (st : hstate) : hstate :=
  match pending st with None => st | Some _ => emit_buffered c st end.

(* ScrapliFileHandler.emit *)
Definition buffered_emit (c : hconf) (st : hstate) (r : record) : hstate :=
  if lazyfix c then
    match get_message r with
    | None => with_error st                                   (* handleError *)
    | Some m =>
        if prefixb read_prefix m then
          match utf8 (skipn read_prefix_len m) with
          | None => with_escape st                            (* UnicodeEncodeError leaves emit *)
          | Some p =>
              match pending st with
              | None => mkH (Some r) p (next_id st) (file st) (errors st) (escaped st)
              | Some _ => mkH (pending st) (payload st ++ p) (next_id st) (file st) (errors st) (escaped st)
              end
          end
        else write_record c r (flush_pending c st)
    end
  else
    if prefixb read_prefix (r_msg r) then
      match pending st with
      | None =>
          match utf8 (skipn read_prefix_len (r_msg r)) with
          | None => with_escape (mkH (Some r) (payload st) (next_id st) (file st) (errors st) (escaped st))
          | Some p => mkH (Some r) p (next_id st) (file st) (errors st) (escaped st)
          end
      | Some _ =>
          match utf8 (skipn read_prefix_len (r_msg r)) with
          | None => with_escape st
          | Some p => mkH (pending st) (payload st ++ p) (next_id st) (file st) (errors st) (escaped st)
          end
      end
    else write_record c r (flush_pending c st).

(* close() *)
Definition buffered_close (c : hconf) (st : hstate) : hstate :=
  if closefix c then flush_pending c st else st.

Definition run_plain (c : hconf) (existing : str) (append : bool) (recs : list record) : hstate :=
  fold_left (plain_emit c) recs (h_init existing append).
Definition run_buffered (c : hconf) (existing : str) (append : bool) (recs : list record) : hstate :=
  buffered_close c (fold_left (buffered_emit c) recs (h_init existing append)).
Definition run_handler (buffered : bool) := if buffered then run_buffered else run_plain.

Definition fixed (c : fconf) : hconf := mkHC true true true c.
Definition pinned (c : fconf) : hconf := mkHC false false false c.

(* ---- specification side: what a faithful log file is ---- *)
(* the message of a record and, for a read message, the payload bytes it contributes *)
Definition read_payload (r : record) : option bytes :=
  match get_message r with
  | Some m => if prefixb read_prefix m then utf8 (skipn read_prefix_len m) else None
  | None => None
  end.
Definition is_read (r : record) : bool :=
  match get_message r with Some m => prefixb read_prefix m | None => false end.
(* a record the handler can log: its message formats, and a read payload encodes *)
Definition loggable (r : record) : bool :=
  match get_message r with
  | Some m => if prefixb read_prefix m then
                match utf8 (skipn read_prefix_len m) with Some _ => true | None => false end
              else true
  | None => false
  end.
Definition malformed (r : record) : bool := match get_message r with None => true | Some _ => false end.
Definition unencodable (r : record) : bool := is_read r && negb (loggable r).

(* the session cut into consecutive groups: maximal runs of read records, every other record alone *)
Fixpoint groups (recs : list record) : list (list record) :=
  match recs with
  | [] => []
  | r :: rest =>
      if is_read r then
        match groups rest with
        | (r2 :: g) :: tl => if is_read r2 then (r :: r2 :: g) :: tl else [r] :: (r2 :: g) :: tl
        | other => [r] :: other
        end
      else [r] :: groups rest
  end.

Definition opt_bytes (o : option bytes) : bytes := match o with Some b => b | None => [] end.
Definition opt_str (o : option str) : str := match o with Some b => b | None => [] end.

(* the message a group is logged with *)
Definition group_message (g : list record) : str :=
  match g with
  | [] => []
  | r :: _ =>
      if is_read r then read_out ++ repr_bytes (flat_map (fun x => opt_bytes (read_payload x)) g)
      else opt_str (get_message r)
  end.
Definition group_meta (g : list record) : meta :=
  match g with r :: _ => r_meta r | [] => mkM [] [] (mkX None None None) [] [] 0 end.

(* the lines of the file: one per group, numbered from [id], carrying the first record's fields *)
Fixpoint render_groups (c : fconf) (id : N) (gs : list (list record)) : str :=
  match gs with
  | [] => []
  | g :: tl =>
      opt_str (format_record true c id (group_meta g) (group_message g)) ++ 10 :: render_groups c (id + 1) tl
  end.

(* plain handler: one line per record *)
Definition singletons (recs : list record) : list (list record) := map (fun r => [r]) recs.
Fixpoint render_plain (c : fconf) (id : N) (recs : list record) : str :=
  match recs with
  | [] => []
  | r :: tl =>
      opt_str (format_record true c id (r_meta r) (opt_str (get_message r))) ++ 10 :: render_plain c (id + 1) tl
  end.

(* ---- enable_basic_logging: the `mode` argument ----
   `if mode.lower() not in ("write", "append"): raise ScrapliException` ;
   `file_mode = "a" if mode.lower() == "append" else "w"` — the spelling is lower-cased BOTH for the validation and for
   the choice of the file mode (str.lower on the code points: no character outside A-Z lower-cases to a letter of
   "write" / "append", so lower_byte decides the same strings).  Nothing is stripped.
   None: ScrapliException before any handler is built or any file opened. *)
Definition mode_write : str := [119; 114; 105; 116; 101].
Definition mode_append : str := [97; 112; 112; 101; 110; 100].
Definition mode_of (m : str) : option bool :=
  let l := lower m in
  if beq l mode_write then Some false else if beq l mode_append then Some true else None.

(* the variant that validates the lower-cased spelling but chooses the file mode from the RAW string (anything but
   exactly "append" opens with "w") — used only to show that the theorem notices it *)
Definition mode_of_raw (m : str) : option bool :=
  let l := lower m in
  if beq l mode_write || beq l mode_append then Some (beq m mode_append) else None.

Definition run_basic (buffered : bool) (c : hconf) (existing : str) (mode : str) (recs : list record) : option hstate :=
  match mode_of mode with
  | None => None
  | Some a => Some (run_handler buffered c existing a recs)
  end.
