(* ChanLog.v — executable model of the channel-log side of Channel.read / AsyncChannel.read
   (scrapli/channel/sync_channel.py, async_channel.py) and of BaseChannel.open's choice of sink
   (scrapli/channel/base_channel.py).  Definitions only; proofs in proofs/ChanLog_Proofs.v.

   [strip] is the ANSI stripper (re.sub of ANSI_ESCAPE_PATTERN): external, a parameter.
   [log_first] true: the code as it is (channel log written before ANSI stripping);
   false: a variant writing what read() returns (used only to show the theorem notices it). *)
From Verif Require Import Bytes.

Definition CR : N := 13.
Definition ESC : N := 27.

(* if b"\x1b" in buf.lower() *)
Definition has_esc (buf : bytes) : bool := mem ESC (lower buf).

(* one read(): (bytes returned to the caller, sink afterwards) ; [sink] = None: no channel log *)
Definition chan_read (strip : bytes -> bytes) (log_first : bool) (sink : option bytes) (raw : bytes)
  : bytes * option bytes :=
  let buf := remove_byte CR raw in
  let out := if has_esc buf then strip buf else buf in
  (out, match sink with
        | None => None
        | Some s => Some (s ++ (if log_first then buf else out))
        end).

Fixpoint chan_session (strip : bytes -> bytes) (log_first : bool) (sink : option bytes)
  (chunks : list bytes) : list bytes * option bytes :=
  match chunks with
  | [] => ([], sink)
  | c :: rest =>
      let (o, s') := chan_read strip log_first sink c in
      let (os, s'') := chan_session strip log_first s' rest in
      (o :: os, s'')
  end.

(* BaseChannel.open: what the sink holds before the first read.
   SNone: channel_log falsy; SFile: a path or True, opened "wb" / "ab"; SBytesIO: the caller's
   object, positioned at its end *)
Inductive sink_kind := SNone | SFile (append : bool) | SBytesIO.
Definition open_sink (k : sink_kind) (existing : bytes) : option bytes :=
  match k with
  | SNone => None
  | SFile a => Some (if a then existing else [])
  | SBytesIO => Some existing
  end.

Definition chan_log (strip : bytes -> bytes) (k : sink_kind) (existing : bytes) (chunks : list bytes)
  : option bytes :=
  snd (chan_session strip true (open_sink k existing) chunks).
