(* ChanLog.v — executable model of the channel-log side of Channel.read / AsyncChannel.read
   (scrapli/channel/sync_channel.py, async_channel.py) and of BaseChannel.open's choice of sink
   (scrapli/channel/base_channel.py).  Definitions only; proofs in proofs/ChanLog_Proofs.v.

   [strip] is the ANSI stripper (re.sub of ANSI_ESCAPE_PATTERN): external, a parameter.
   [log_first] true: the code as it is (channel log written before ANSI stripping);
   false: a variant writing what read() returns (used only to show the theorem notices it). *)
From Verif Require Import Bytes.

Definition CR : N := 13.
Definition ESC : N := 27.

(* if b"\x1b" in buf.lower() *)
Definition has_esc (buf : bytes) : bool := mem ESC (lower buf).

(* one read(): (bytes returned to the caller, sink afterwards) ; [sink] = None: no channel log *)
Definition chan_read (strip : bytes -> bytes) (log_first : bool) (sink : option bytes) (raw : bytes)
  : bytes * option bytes :=
  let buf := remove_byte CR raw in
  let out := if has_esc buf then strip buf else buf in
  (out, match sink with
        | None => None
        | Some s => Some (s ++ (if log_first then buf else out))
        end).

Fixpoint chan_session (strip : bytes -> bytes) (log_first : bool) (sink : option bytes)
  (chunks : list bytes) : list bytes * option bytes :=
  match chunks with
  | [] => ([], sink)
  | c :: rest =>
      let (o, s') := chan_read strip log_first sink c in
      let (os, s'') := chan_session strip log_first s' rest in
      (o :: os, s'')
  end.

(* BaseChannel.open: what the sink holds before the first read.
   SNone: channel_log falsy; SFile: a path or True, opened "wb" / "ab"; SBytesIO: the caller's
   object, positioned at its end *)
Inductive sink_kind := SNone | SFile (append : bool) | SBytesIO.
Definition open_sink (k : sink_kind) (existing : bytes) : option bytes :=
  match k with
  | SNone => None
  | SFile a => Some (if a then existing else [])
  | SBytesIO => Some existing
  end.

Definition chan_log (strip : bytes -> bytes) (k : sink_kind) (existing : bytes) (chunks : list bytes)
  : option bytes :=
  snd (chan_session strip true (open_sink k existing) chunks).

(* ---- the whole session, as Driver.open / AsyncDriver.open run it ----
   The channel log exists only from BaseChannel.open() on: a read() before it finds channel_log None
   and writes nothing.  A session is the sequence of its channel-level events; [sink] = None: not
   opened yet (or channel log off). *)
Inductive sess_ev := EvOpen | EvRead (c : bytes).

Fixpoint sess_log (strip : bytes -> bytes) (k : sink_kind) (existing : bytes) (sink : option bytes)
  (evs : list sess_ev) : option bytes :=
  match evs with
  | [] => sink
  | EvOpen :: rest => sess_log strip k existing (open_sink k existing) rest
  | EvRead c :: rest => sess_log strip k existing (snd (chan_read strip true sink c)) rest
  end.

Definition sess_reads (evs : list sess_ev) : list bytes :=
  flat_map (fun e => match e with EvRead c => [c] | EvOpen => [] end) evs.

(* the statements of Driver.open / AsyncDriver.open as gen_log.py codes them:
   1 _pre_open_closing_log, 2 transport.open(), 3 channel.open(), 4 in-channel ssh login,
   5 in-channel telnet login, 6 on_open, 7 _post_open_closing_log, 0 anything else.
   [open_before_reads]: channel.open() is there and nothing that may read the channel (a login, on_open,
   an unknown statement) comes before it. *)
Fixpoint open_before_reads (steps : list nat) : bool :=
  match steps with
  | [] => false
  | s :: rest =>
      if Nat.eqb s 3 then true
      else (Nat.eqb s 1 || Nat.eqb s 2) && open_before_reads rest
  end.
