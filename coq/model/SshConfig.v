(* SshConfig.v — executable model of scrapli/ssh_config.py  SSHConfig  after parsing:
   the dict of Host entries keyed by their Host line, "*" completion, _merge_hosts,
   _lookup_fuzzy_match, lookup — mirroring the Python line by line — and the specification
   [spec_lookup] the property is stated against.  Definitions only; proofs in
   proofs/SshConfig_Proofs.v.  The regex-over-whole-file splitting of _parse is NOT modelled
   (confronted by correspondence on generated files: harness/c16.py).

   Strings are byte lists (the supported grammar is ASCII).  A Host pattern becomes, after
   re.escape + the two replacements, a regex whose only non-literal atoms are ( .* ) and (.) ;
   it is represented here by its token list.  re.I on ASCII = comparison of lower-cased bytes;
   '.' does not match "\n". *)
From Verif Require Import Bytes.

(* ------------------------------------------------------------------------------------------ *)
(* patterns                                                                                   *)
(* ------------------------------------------------------------------------------------------ *)
Inductive gtok := Lit (c : N) | Star | Qm.

Definition STAR_C := 42.   (* '*' *)
Definition QM_C := 63.     (* '?' *)
Definition NL_C := 10.

(* re.escape(pat).replace("\*", "( .* )").replace("\?", "(.)") : one token per pattern char *)
Definition tok_of (c : N) : gtok :=
  if c =? STAR_C then Star else if c =? QM_C then Qm else Lit c.
Definition compile (p : bytes) : list gtok := map tok_of p.

Definition ci_eq (a b : N) : bool := lower_byte a =? lower_byte b.
Definition dotc (c : N) : bool := negb (c =? NL_C).

(* first match, in CPython's backtracking order, of the pattern against a prefix of [s];
   result: total length captured by the groups ( sum(end-start for regs[1:]) ) *)
Fixpoint m_here (p : list gtok) : bytes -> option nat :=
  match p with
  | [] => fun _ => Some O
  | Lit c :: p' => fun s =>
      match s with
      | x :: s' => if ci_eq c x then m_here p' s' else None
      | [] => None
      end
  | Qm :: p' => fun s =>
      match s with
      | x :: s' => if dotc x then match m_here p' s' with Some k => Some (S k) | None => None end
                   else None
      | [] => None
      end
  | Star :: p' =>
      fix star (s : bytes) : option nat :=
        match s with
        | x :: s' =>
            if dotc x
            then match star s' with Some k => Some (S k) | None => m_here p' s end
            else m_here p' s
        | [] => m_here p' []
        end
  end.

(* re.search: leftmost start position (0 .. len s) *)
Fixpoint search (p : list gtok) (s : bytes) : option nat :=
  match m_here p s with
  | Some k => Some k
  | None => match s with [] => None | _ :: s' => search p s' end
  end.

(* ------------------------------------------------------------------------------------------ *)
(* Host objects and the dict                                                                  *)
(* ------------------------------------------------------------------------------------------ *)
Record host := mkHost {
  h_hostname : option bytes;
  h_port : option N;
  h_user : bytes;                 (* "" = unset *)
  h_idonly : option bytes;
  h_idfile : option bytes
}.
Definition default_host : host := mkHost None None [] None None.

(* python truthiness of the attribute values *)
Definition t_ob (o : option bytes) : bool := match o with Some (_ :: _) => true | _ => false end.
Definition t_on (o : option N) : bool := match o with Some n => negb (n =? 0) | None => false end.
Definition t_b (b : bytes) : bool := match b with [] => false | _ => true end.

(* for attr in HOST_ATTRS: if not getattr(h, attr): setattr(h, attr, getattr(src, attr)) *)
Definition fill (h src : host) : host :=
  mkHost (if t_ob (h_hostname h) then h_hostname h else h_hostname src)
         (if t_on (h_port h) then h_port h else h_port src)
         (if t_b (h_user h) then h_user h else h_user src)
         (if t_ob (h_idonly h) then h_idonly h else h_idonly src)
         (if t_ob (h_idfile h) then h_idfile h else h_idfile src).

Definition dict := list (bytes * host).   (* insertion ordered, keys unique *)

Fixpoint get (k : bytes) (d : dict) : option host :=
  match d with
  | [] => None
  | (k', v) :: r => if beq k k' then Some v else get k r
  end.

(* d[k] = v : in place when present, appended otherwise *)
Fixpoint dset (k : bytes) (v : host) (d : dict) : dict :=
  match d with
  | [] => [(k, v)]
  | (k', v') :: r => if beq k k' then (k', v) :: r else (k', v') :: dset k v r
  end.

Definition keys (d : dict) : list bytes := map fst d.

Fixpoint memk (k : bytes) (l : list bytes) : bool :=
  match l with [] => false | x :: r => beq k x || memk k r end.

(* dict.pop(k) on the key list (first and only occurrence) *)
Fixpoint remk (k : bytes) (l : list bytes) : list bytes :=
  match l with [] => [] | x :: r => if beq k x then r else x :: remk k r end.

(* str.split() *)
Fixpoint split_ws_aux (cur : bytes) (s : bytes) : list bytes :=
  match s with
  | [] => match cur with [] => [] | _ => [rev cur] end
  | c :: r =>
      if is_ws c
      then match cur with [] => split_ws_aux [] r | _ => rev cur :: split_ws_aux [] r end
      else split_ws_aux (c :: cur) r
  end.
Definition split_ws (s : bytes) : list bytes := split_ws_aux [] s.

Definition star_key : bytes := [STAR_C].

(* the entries as _parse discovered them (later duplicates of a Host line overwrite the value,
   the position stays), then the "*" completion of __init__ *)
Definition dictify (es : list (bytes * host)) : dict :=
  fold_left (fun d e => dset (fst e) (snd e) d) es [].
Definition ensure_star (d : dict) : dict :=
  if memk star_key (keys d) then d else d ++ [(star_key, default_host)].

(* ------------------------------------------------------------------------------------------ *)
(* _lookup_fuzzy_match                                                                        *)
(* ------------------------------------------------------------------------------------------ *)
Definition pat_cands (k : bytes) (t : bytes) : list (nat * bytes) :=
  flat_map (fun p => match search (compile p) t with Some n => [(n, k)] | None => [] end)
           (split_ws k).
(* possible_matches: (chars captured, host_entry) in dict order, patterns in line order *)
Definition cands (ks : list bytes) (t : bytes) : list (nat * bytes) :=
  flat_map (fun k => pat_cands k t) ks.

(* "if chars_replaced < best_match_chars_replaced: current_match = match" — first minimal wins *)
Fixpoint best (cur : nat * bytes) (l : list (nat * bytes)) : nat * bytes :=
  match l with
  | [] => cur
  | c :: r => if Nat.ltb (fst c) (fst cur) then best c r else best cur r
  end.

Definition fuzzy (ks : list bytes) (t : bytes) : bytes :=
  match cands ks t with
  | [] => star_key
  | c :: r => snd (best c r)
  end.

(* ------------------------------------------------------------------------------------------ *)
(* _merge_hosts                                                                               *)
(* ------------------------------------------------------------------------------------------ *)
Inductive outcome (A : Type) := Ok (a : A) | KeyErr | OutOfFuel.
Arguments Ok {A} a. Arguments KeyErr {A}. Arguments OutOfFuel {A}.

(* the `while True` loop for one host line [k]; [cur] = keys of _current_hosts.
   `hosts = hosts or self.hosts`: an emptied _current_hosts falls back to all keys. *)
Fixpoint merge_loop (fuel : nat) (d : dict) (k : bytes) (cur : list bytes) : outcome dict :=
  match fuel with
  | O => OutOfFuel
  | S f =>
      let fm := fuzzy (match cur with [] => keys d | _ => cur end) k in
      match get k d, get fm d with
      | Some h, Some src =>
          let d' := dset k (fill h src) d in
          if memk fm cur then merge_loop f d' k (remk fm cur) else Ok d'
      | _, _ => KeyErr
      end
  end.

Fixpoint merge_keys (ks : list bytes) (d : dict) : outcome dict :=
  match ks with
  | [] => Ok d
  | k :: r =>
      match merge_loop (S (S (length d))) d k (keys d) with
      | Ok d' => merge_keys r d'
      | KeyErr => KeyErr
      | OutOfFuel => OutOfFuel
      end
  end.

Definition merge (d : dict) : outcome dict := merge_keys (keys d) d.

(* SSHConfig(file).hosts, from the entries _parse discovered *)
Definition build (es : list (bytes * host)) : outcome dict := merge (ensure_star (dictify es)).

(* ------------------------------------------------------------------------------------------ *)
(* lookup                                                                                     *)
(* ------------------------------------------------------------------------------------------ *)
Fixpoint find_listed (name : bytes) (d : dict) : option (bytes * host) :=
  match d with
  | [] => None
  | (k, h) :: r => if memk name (split_ws k) then Some (k, h) else find_listed name r
  end.

(* result: the Host object = (its .hosts line, its option values) *)
Definition lookup (d : dict) (name : bytes) : outcome (bytes * host) :=
  match get name d with
  | Some h => Ok (name, h)
  | None =>
      match find_listed name d with
      | Some kh => Ok kh
      | None =>
          let fm := fuzzy (keys d) name in
          match get fm d with Some h => Ok (fm, h) | None => KeyErr end
      end
  end.

Definition run (es : list (bytes * host)) (name : bytes) : outcome (bytes * host) :=
  match build es with
  | Ok d => lookup d name
  | KeyErr => KeyErr
  | OutOfFuel => OutOfFuel
  end.

(* ------------------------------------------------------------------------------------------ *)
(* specification (hand-written, trusted): whole-name glob matching, per looked-up name        *)
(* ------------------------------------------------------------------------------------------ *)
(* p matches the WHOLE of s *)
Fixpoint gmatch (p : list gtok) : bytes -> bool :=
  match p with
  | [] => fun s => match s with [] => true | _ => false end
  | Lit c :: p' => fun s => match s with x :: s' => ci_eq c x && gmatch p' s' | [] => false end
  | Qm :: p' => fun s => match s with x :: s' => dotc x && gmatch p' s' | [] => false end
  | Star :: p' =>
      fix star (s : bytes) : bool :=
        gmatch p' s || match s with x :: s' => dotc x && star s' | [] => false end
  end.

Definition nlits (p : list gtok) : nat :=
  length (filter (fun t => match t with Lit _ => true | _ => false end) p).

(* closeness of a whole-name match: number of name characters covered by wildcards *)
Definition anch_score (p : list gtok) (s : bytes) : option nat :=
  if gmatch p s then Some (length s - nlits p)%nat else None.

Definition spec_pat_cands (k : bytes) (t : bytes) : list (nat * bytes) :=
  flat_map (fun p => match anch_score (compile p) t with Some n => [(n, k)] | None => [] end)
           (split_ws k).
Definition spec_cands (ks : list bytes) (t : bytes) : list (nat * bytes) :=
  flat_map (fun k => spec_pat_cands k t) ks.

(* the entry that names the host exactly (as its whole Host line or as one of the listed names) *)
Definition spec_exact (d : dict) (name : bytes) : option bytes :=
  match get name d with
  | Some _ => Some name
  | None => match find_listed name d with Some (k, _) => Some k | None => None end
  end.

(* keys of the matching entries from the closest to the least specific (selection sort on the
   candidate list: repeatedly the first minimal one), each key once *)
Fixpoint spec_order (fuel : nat) (cs : list (nat * bytes)) : list bytes :=
  match fuel with
  | O => []
  | S f =>
      match cs with
      | [] => []
      | c :: r =>
          let k := snd (best c r) in
          k :: spec_order f (filter (fun x => negb (beq (snd x) k)) cs)
      end
  end.

Definition spec_chain (d : dict) (name : bytes) : list bytes :=
  let cs := spec_cands (keys d) name in
  let ord := spec_order (length cs) cs in
  match spec_exact d name with
  | Some k => k :: filter (fun x => negb (beq x k)) ord
  | None => ord
  end.

Fixpoint fill_chain (d : dict) (h : host) (ks : list bytes) : host :=
  match ks with
  | [] => h
  | k :: r => match get k d with Some src => fill_chain d (fill h src) r | None => fill_chain d h r end
  end.

(* the parsed entries (with "*" completed, never merged): values of the chosen entry, unset
   options from the less specific entries matching the NAME, in order of closeness *)
Definition spec_lookup (es : list (bytes * host)) (name : bytes) : option (bytes * host) :=
  let d := ensure_star (dictify es) in
  match spec_chain d name with
  | [] => None
  | k :: r => match get k d with Some h => Some (k, fill_chain d h r) | None => None end
  end.

(* ------------------------------------------------------------------------------------------ *)
(* comparison helpers for the correspondence run                                              *)
(* ------------------------------------------------------------------------------------------ *)
Definition ob_eqb (a b : option bytes) : bool :=
  match a, b with Some x, Some y => beq x y | None, None => true | _, _ => false end.
Definition on_eqb (a b : option N) : bool :=
  match a, b with Some x, Some y => x =? y | None, None => true | _, _ => false end.
Definition host_eqb (a b : host) : bool :=
  ob_eqb (h_hostname a) (h_hostname b) && on_eqb (h_port a) (h_port b) && beq (h_user a) (h_user b)
  && ob_eqb (h_idonly a) (h_idonly b) && ob_eqb (h_idfile a) (h_idfile b).
Definition kh_eqb (a b : bytes * host) : bool := beq (fst a) (fst b) && host_eqb (snd a) (snd b).
Fixpoint dict_eqb (a b : dict) : bool :=
  match a, b with
  | [], [] => true
  | x :: a', y :: b' => kh_eqb x y && dict_eqb a' b'
  | _, _ => false
  end.

(* ------------------------------------------------------------------------------------------ *)
(* ssh_config_factory: the process-wide cache SSHConfig._config_files (path -> the LIVE parsed  *)
(* object) as state, and its consumers: a direct lookup through the factory, and the           *)
(* construction of a driver (BaseDriver._update_ssh_args_from_ssh_config), which looks its     *)
(* host up and combines the entry with the values the user gave explicitly.  lookup returns    *)
(* the Host object that sits INSIDE the cached dict (no copy), so a consumer that assigns an   *)
(* attribute of it changes the cached parse; [writes] says whether a consumer does (generated  *)
(* fact; the writer modelled for [writes = true] blanks the options given explicitly).         *)
(* The files do not change during a history: [file] maps a path to the entries _parse finds.   *)
(* ------------------------------------------------------------------------------------------ *)
Record explicit := mkEx {
  x_port : option N;       (* port=...            (None: not given) *)
  x_user : bytes;          (* auth_username=...   ("" : not given)  *)
  x_key : bytes            (* auth_private_key=... ("" : not given)  *)
}.
Definition DEFAULT_PORT := 22.

(* what the driver ends up with: (port, auth_username, auth_private_key) *)
Definition apply_cfg (h : host) (x : explicit) : N * bytes * bytes :=
  (match x_port x with
   | Some p => p
   | None => if t_on (h_port h) then match h_port h with Some p => p | None => DEFAULT_PORT end else DEFAULT_PORT
   end,
   if t_b (x_user x) then x_user x else h_user h,
   if t_b (x_key x) then x_key x
   else if t_ob (h_idfile h) then match h_idfile h with Some f => f | None => [] end else []).

(* a consumer that writes to the looked-up object: the explicitly given options are blanked *)
Definition blank (h : host) (x : explicit) : host :=
  mkHost (h_hostname h)
         (match x_port x with Some _ => None | None => h_port h end)
         (if t_b (x_user x) then [] else h_user h)
         (h_idonly h)
         (if t_b (x_key x) then None else h_idfile h).

Inductive sop :=
| SLookup (path name : bytes)                  (* ssh_config_factory(path).lookup(name) *)
| SDriver (path name : bytes) (x : explicit)   (* BaseDriver(host=name, ssh_config_file=path, ...) *)
| SDump (path : bytes).                        (* ssh_config_factory(path).hosts, every entry *)

Inductive sout :=
| OHost (r : bytes * host)
| ODriver (r : N * bytes * bytes)
| ODict (d : dict)
| ORaise.

Section ConfigCache.
  Variable file : bytes -> list (bytes * host).
  Variable writes : bool.

  Definition cache := list (bytes * dict).

  Fixpoint cget (p : bytes) (c : cache) : option dict :=
    match c with
    | [] => None
    | (p', d) :: r => if beq p p' then Some d else cget p r
    end.

  Fixpoint cset (p : bytes) (d : dict) (c : cache) : cache :=
    match c with
    | [] => [(p, d)]
    | (p', d') :: r => if beq p p' then (p', d) :: r else (p', d') :: cset p d r
    end.

  (* ssh_config_factory: the cached object if the path is known, else parse + remember *)
  Definition factory (c : cache) (p : bytes) : option (cache * dict) :=
    match cget p c with
    | Some d => Some (c, d)
    | None => match build (file p) with Ok d => Some (cset p d c, d) | _ => None end
    end.

  Definition sstep (c : cache) (o : sop) : cache * sout :=
    match o with
    | SLookup p n =>
        match factory c p with
        | Some (c', d) => (c', match lookup d n with Ok r => OHost r | _ => ORaise end)
        | None => (c, ORaise)
        end
    | SDriver p n x =>
        match factory c p with
        | Some (c', d) =>
            match lookup d n with
            | Ok (k, h) => (if writes then cset p (dset k (blank h x) d) c' else c', ODriver (apply_cfg h x))
            | _ => (c', ORaise)
            end
        | None => (c, ORaise)
        end
    | SDump p =>
        match factory c p with
        | Some (c', d) => (c', ODict d)
        | None => (c, ORaise)
        end
    end.

  Fixpoint srun (c : cache) (ops : list sop) : cache * list sout :=
    match ops with
    | [] => (c, [])
    | o :: r => let (c', out) := sstep c o in let (c'', outs) := srun c' r in (c'', out :: outs)
    end.

  (* the specification: no cache, every operation reads the file *)
  Definition sspec_one (o : sop) : sout :=
    match o with
    | SLookup p n => match run (file p) n with Ok r => OHost r | _ => ORaise end
    | SDriver p n x => match run (file p) n with Ok (k, h) => ODriver (apply_cfg h x) | _ => ORaise end
    | SDump p => match build (file p) with Ok d => ODict d | _ => ORaise end
    end.
  Definition sspec (ops : list sop) : list sout := map sspec_one ops.
End ConfigCache.

Definition N3_eqb (a b : N * bytes * bytes) : bool :=
  let '(p, u, k) := a in let '(p', u', k') := b in (p =? p') && beq u u' && beq k k'.
Definition sout_eqb (a b : sout) : bool :=
  match a, b with
  | OHost r, OHost r' => kh_eqb r r'
  | ODriver r, ODriver r' => N3_eqb r r'
  | ODict d, ODict d' => dict_eqb d d'
  | ORaise, ORaise => true
  | _, _ => false
  end.
Fixpoint souts_eqb (a b : list sout) : bool :=
  match a, b with
  | [], [] => true
  | x :: a', y :: b' => sout_eqb x y && souts_eqb a' b'
  | _, _ => false
  end.
