(* Response.v — executable model of scrapli/response.py: the failed flag of Response and of
   MultiResponse, and the normalisation of the failed_when_contains argument.
   Definitions only; proofs are in proofs/Response_Proofs.v.

   Strings are their UTF-8 encodings (bytes = list N): `m in s` on two Python strs holds exactly
   when the encoding of m is a contiguous sub-sequence of the encoding of s (UTF-8 is
   self-synchronising); the correspondence run confronts this with the real str operations. *)
From Verif Require Import Bytes.

(* the failed_when_contains argument of a call: None | one string | a list of strings *)
Inductive fwc := FNone | FStr (s : bytes) | FList (l : list bytes).

(* Response.__init__:  a str becomes [str]; None and [] both mean "no markers" *)
Definition markers_of (f : fwc) : list bytes :=
  match f with FNone => [] | FStr s => [s] | FList l => l end.

Record response := mkR {
  r_input : bytes;          (* channel_input *)
  r_result : bytes;         (* result ("" until record_response) *)
  r_markers : list bytes;   (* failed_when_contains after normalisation *)
  r_failed : bool
}.

(* Response(host, channel_input, failed_when_contains=f): failed starts True *)
Definition new_response (input : bytes) (f : fwc) : response := mkR input [] (markers_of f) true.

(* record_response:
     if not self.failed_when_contains: failed = False
     elif all(err not in self.result for err in self.failed_when_contains): failed = False
   (otherwise the flag keeps its value) *)
Definition record_response (r : response) (result : bytes) : response :=
  let failed :=
    match r_markers r with
    | [] => false
    | ms => if forallb (fun m => negb (infixb m result)) ms then false else r_failed r
    end in
  mkR (r_input r) result (r_markers r) failed.

(* MultiResponse.failed:  any(response.failed for response in self.data) *)
Definition multi_failed (rs : list response) : bool := existsb r_failed rs.

(* specification side: "the output contains one of the markers" *)
Definition contains_any (ms : list bytes) (s : bytes) : bool := existsb (fun m => infixb m s) ms.

(* NetworkDriver.send_command(s) / _pre_send_configs: None selects the driver's default list;
   a str is wrapped by _pre_send_configs (and by Response.__init__ otherwise) *)
Definition net_fwc (dflt : list bytes) (f : fwc) : fwc :=
  match f with FNone => FList dflt | FStr s => FList [s] | FList l => FList l end.
