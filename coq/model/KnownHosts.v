(* KnownHosts.v — executable model of scrapli/ssh_config.py  SSHKnownHosts  after the regex has
   selected the "host keytype key" lines: the dict built by _parse (comma lists split, later
   lines overwrite) and lookup (exact id, then the hashed ids in dict order).
   HMAC-SHA1 and base64 decoding are outside the model: Section variables (the correspondence run
   instantiates them with finite tables computed by CPython's hmac / base64 for the case).
   Definitions only; proofs in proofs/KnownHosts_Proofs.v. *)
From Verif Require Import Bytes.

Definition COMMA_C := 44.
Definition BAR_C := 124.
Definition HASH_PREFIX : bytes := [124; 49; 124].     (* "|1|" *)

(* str.split(sep) for a one-character separator: always at least one element, empties kept *)
Fixpoint split_on_aux (c : N) (cur : bytes) (s : bytes) : list bytes :=
  match s with
  | [] => [rev cur]
  | x :: r => if x =? c then rev cur :: split_on_aux c [] r else split_on_aux c (x :: cur) r
  end.
Definition split_on (c : N) (s : bytes) : list bytes := split_on_aux c [] s.

Record kval := mkK { k_type : bytes; k_key : bytes }.
Definition kdict := list (bytes * kval).

Fixpoint kget (k : bytes) (d : kdict) : option kval :=
  match d with [] => None | (k', v) :: r => if beq k k' then Some v else kget k r end.
Fixpoint kset (k : bytes) (v : kval) (d : kdict) : kdict :=
  match d with
  | [] => [(k, v)]
  | (k', v') :: r => if beq k k' then (k', v) :: r else (k', v') :: kset k v r
  end.

(* one selected line = (host field, value); every comma separated id gets its own entry *)
Definition kadd_line (d : kdict) (l : bytes * kval) : kdict :=
  fold_left (fun d id => kset id (snd l) d) (split_on COMMA_C (fst l)) d.
Definition kparse (lines : list (bytes * kval)) : kdict := fold_left kadd_line lines [].

(* ValueError of the 4-way unpack (0) / binascii.Error of b64decode (1) *)
Inductive kout := KFound (v : kval) | KNone | KRaise (code : N).

Section Lookup.
  Variable hmac : bytes -> bytes -> bytes.        (* salt, host name -> digest *)
  Variable b64dec : bytes -> option bytes.        (* None = binascii.Error *)

  Inductive hid := NotHashed | BadHid (code : N) | Hid (salt digest : bytes).

  (* host_id.startswith("|1|") ; _, _, salt, hash = host_id.split("|") ; b64decode both *)
  Definition parse_hid (id : bytes) : hid :=
    if prefixb HASH_PREFIX id then
      match split_on BAR_C id with
      | [_; _; s; h] =>
          match b64dec s with
          | None => BadHid 1
          | Some rs => match b64dec h with None => BadHid 1 | Some rh => Hid rs rh end
          end
      | _ => BadHid 0
      end
    else NotHashed.

  Fixpoint kscan (host : bytes) (d : kdict) : kout :=
    match d with
    | [] => KNone
    | (id, v) :: r =>
        match parse_hid id with
        | NotHashed => kscan host r
        | BadHid c => KRaise c
        | Hid rs rh => if beq (hmac rs host) rh then KFound v else kscan host r
        end
    end.

  Definition klookup (d : kdict) (host : bytes) : kout :=
    match kget host d with
    | Some v => KFound v
    | None => kscan host d
    end.
End Lookup.

(* ---- table instances for the correspondence run ---- *)
Fixpoint assoc2 (a b : bytes) (t : list (bytes * bytes * bytes)) : bytes :=
  match t with
  | [] => []
  | (x, y, v) :: r => if beq a x && beq b y then v else assoc2 a b r
  end.
Fixpoint assoc1 (a : bytes) (t : list (bytes * option bytes)) : option bytes :=
  match t with
  | [] => None
  | (x, v) :: r => if beq a x then v else assoc1 a r
  end.
Fixpoint has1 (a : bytes) (t : list (bytes * option bytes)) : bool :=
  match t with [] => false | (x, _) :: r => beq a x || has1 a r end.

Definition kval_eqb (a b : kval) : bool := beq (k_type a) (k_type b) && beq (k_key a) (k_key b).
Definition kout_eqb (a b : kout) : bool :=
  match a, b with
  | KFound x, KFound y => kval_eqb x y
  | KNone, KNone => true
  | KRaise x, KRaise y => x =? y
  | _, _ => false
  end.
