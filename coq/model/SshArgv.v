(* SshArgv.v — (1) model of SystemTransport._build_open_cmd
   (scrapli/transport/plugins/system/transport.py) and (2) a model of how OpenSSH's ssh(1) reads its
   command line (ssh.c main(): BSD getopt without permutation over the option string below, the
   first non-option is the destination, options are scanned again after it, what follows the next
   non-option is the remote command; "--" ends the options).  Definitions only. *)
From Coq Require Import String Ascii Decimal.
From Verif Require Import Bytes Resolve.

(* ---- str(int) for non-negative ints ---- *)
Fixpoint uint_str (u : Decimal.uint) : str :=
  match u with
  | Nil => []
  | D0 r => 48 :: uint_str r | D1 r => 49 :: uint_str r | D2 r => 50 :: uint_str r
  | D3 r => 51 :: uint_str r | D4 r => 52 :: uint_str r | D5 r => 53 :: uint_str r
  | D6 r => 54 :: uint_str r | D7 r => 55 :: uint_str r | D8 r => 56 :: uint_str r
  | D9 r => 57 :: uint_str r
  end.
Definition dec (n : N) : str := uint_str (N.to_uint n).

(* ---- _build_open_cmd ---- *)
Definition O_ := lit "-o".
Definition build_open_cmd (b : base_targs) (tsock ttrans : N) (p : plugin_targs) (extra : list str)
  : list str :=
  [lit "ssh"; b_host b]
  ++ [lit "-p"; dec (b_port b)]
  ++ [O_; lit "ConnectTimeout=" ++ dec tsock]
  ++ [O_; lit "ServerAliveInterval=" ++ dec ttrans]
  ++ (if nonempty_s (p_key p) then [lit "-i"; p_key p] else [])
  ++ (if nonempty_s (p_user p) then [lit "-l"; p_user p] else [])
  ++ (if negb (p_strict p)
      then [O_; lit "StrictHostKeyChecking=no"; O_; lit "UserKnownHostsFile=/dev/null"]
      else [O_; lit "StrictHostKeyChecking=yes"]
           ++ (if beq (p_kh p) MAGIC_KH then []
               else if nonempty_s (p_kh p) then [O_; lit "UserKnownHostsFile=" ++ p_kh p]
               else []))
  ++ (if negb (nonempty_s (p_cfg p)) then [lit "-F"; lit "/dev/null"]
      else if beq (p_cfg p) MAGIC_CFG then []
      else [lit "-F"; p_cfg p])
  ++ extra.

(* ---- ssh(1) command line ---- *)
Definition optstring : str :=
  lit "1246ab:c:e:fgi:kl:m:no:p:qstvxAB:CD:E:F:GI:J:KL:MNO:PQ:R:S:TVw:W:XYy".
Definition COLON : N := 58.

Inductive optkind := Flag | WithArg | NotOpt.
Fixpoint optkind_in (c : N) (os : str) : optkind :=
  match os with
  | [] => NotOpt
  | x :: r => if x =? c
              then match r with y :: _ => if y =? COLON then WithArg else Flag | [] => Flag end
              else optkind_in c r
  end.
Definition optkind_of (c : N) : optkind :=
  if (c =? COLON) || (c =? DASH) then NotOpt else optkind_in c optstring.

(* what ssh has collected; -p and -l: the first one wins (ssh.c: `if (options.port == -1)`,
   `if (options.user == NULL)`), -F: the last one wins, -i and -o accumulate in order *)
Record ssh_opts := mkO {
  s_port : option str; s_user : option str; s_ids : list str; s_cfgfile : option str;
  s_o : list str; s_flags : list N; s_other : list (N * str)
}.
Definition no_opts : ssh_opts := mkO None None [] None [] [] [].

Definition add_flag (c : N) (o : ssh_opts) : ssh_opts :=
  mkO (s_port o) (s_user o) (s_ids o) (s_cfgfile o) (s_o o) (s_flags o ++ [c]) (s_other o).
Definition add_opt (c : N) (v : str) (o : ssh_opts) : ssh_opts :=
  if c =? 112 (* p *) then
    mkO (match s_port o with None => Some v | x => x end) (s_user o) (s_ids o) (s_cfgfile o) (s_o o) (s_flags o) (s_other o)
  else if c =? 108 (* l *) then
    mkO (s_port o) (match s_user o with None => Some v | x => x end) (s_ids o) (s_cfgfile o) (s_o o) (s_flags o) (s_other o)
  else if c =? 105 (* i *) then
    mkO (s_port o) (s_user o) (s_ids o ++ [v]) (s_cfgfile o) (s_o o) (s_flags o) (s_other o)
  else if c =? 70 (* F *) then
    mkO (s_port o) (s_user o) (s_ids o) (Some v) (s_o o) (s_flags o) (s_other o)
  else if c =? 111 (* o *) then
    mkO (s_port o) (s_user o) (s_ids o) (s_cfgfile o) (s_o o ++ [v]) (s_flags o) (s_other o)
  else
    mkO (s_port o) (s_user o) (s_ids o) (s_cfgfile o) (s_o o) (s_flags o) (s_other o ++ [(c, v)]).

(* one argv element "-xyz" after its leading '-' *)
Inductive cl_res := ClDone (o : ssh_opts) | ClNeedArg (c : N) (o : ssh_opts) | ClErr.
Fixpoint scan_cluster (cl : str) (o : ssh_opts) : cl_res :=
  match cl with
  | [] => ClDone o
  | c :: r =>
      match optkind_of c with
      | NotOpt => ClErr
      | Flag => scan_cluster r (add_flag c o)
      | WithArg => match r with
                   | [] => ClNeedArg c o
                   | _ => ClDone (add_opt c r o)
                   end
      end
  end.

(* the getopt loop: stops at the first non-option ("" and "-" are non-options) or after "--" *)
Inductive go_res := GoOk (o : ssh_opts) (rest : list str) (terminated : bool) | GoErr.
Fixpoint getopt_loop (av : list str) (o : ssh_opts) : go_res :=
  match av with
  | [] => GoOk o [] false
  | a :: rest =>
      match a with
      | c0 :: c :: cl =>
          if negb (c0 =? DASH) then GoOk o av false
          else if (c =? DASH) && negb (nonempty_s cl) then GoOk o rest true      (* "--" *)
          else
            match scan_cluster (c :: cl) o with
            | ClErr => GoErr
            | ClDone o' => getopt_loop rest o'
            | ClNeedArg k o' =>
                match rest with
                | [] => GoErr
                | v :: rest' => getopt_loop rest' (add_opt k v o')
                end
            end
      | _ => GoOk o av false        (* "" , "-" and every other single character *)
      end
  end.

Inductive parsed :=
| Parsed (dest : str) (o : ssh_opts) (command : list str)
| Usage.     (* unknown option / missing option argument / no destination *)

(* ssh.c main(): `again:` loop *)
Definition ssh_parse (argv : list str) : parsed :=
  match argv with
  | [] => Usage
  | _ :: av =>
      match getopt_loop av no_opts with
      | GoErr => Usage
      | GoOk o rest term =>
          match rest with
          | [] => Usage
          | h :: rest2 =>
              match rest2 with
              | [] => Parsed h o []
              | _ =>
                  if term then Parsed h o rest2
                  else match getopt_loop rest2 o with
                       | GoErr => Usage
                       | GoOk o2 cmd _ => Parsed h o2 cmd
                       end
              end
          end
      end
  end.

(* value of the first `-o key=value` for [key] (ssh keeps the first value obtained for an option;
   keys are case-insensitive) *)
Definition EQ : N := 61.
Fixpoint o_get (key : str) (os : list str) : option str :=
  match os with
  | [] => None
  | x :: r =>
      let '(k, found, v) := partition_byte EQ x in
      if found && beq (lower k) (lower key) then Some v else o_get key r
  end.

(* what build_open_cmd is meant to say, as ssh reads it *)
Definition expected_opts (b : base_targs) (tsock ttrans : N) (p : plugin_targs) : ssh_opts :=
  mkO (Some (dec (b_port b)))
      (if nonempty_s (p_user p) then Some (p_user p) else None)
      (if nonempty_s (p_key p) then [p_key p] else [])
      (if negb (nonempty_s (p_cfg p)) then Some (lit "/dev/null")
       else if beq (p_cfg p) MAGIC_CFG then None else Some (p_cfg p))
      ([lit "ConnectTimeout=" ++ dec tsock; lit "ServerAliveInterval=" ++ dec ttrans]
       ++ (if negb (p_strict p)
           then [lit "StrictHostKeyChecking=no"; lit "UserKnownHostsFile=/dev/null"]
           else [lit "StrictHostKeyChecking=yes"]
                ++ (if beq (p_kh p) MAGIC_KH then []
                    else if nonempty_s (p_kh p) then [lit "UserKnownHostsFile=" ++ p_kh p] else [])))
      [] [].
