(* TimeoutRestore.v — executable model of scrapli's per-call timeout bookkeeping:
     scrapli/decorators.py            timeout_modifier          (set, try: body finally: restore)
     scrapli/channel/{sync,async}_channel.py  _read_until_prompt_or_time
                                      (timeout_transport := int(read_duration) around the read loop)
     scrapli/driver/generic/{sync,async}_driver.py  send_command(s), send_and_read,
                                      send_interactive, read_callback (+ its recursion)
     scrapli/driver/network/{sync,async}_driver.py   acquire privilege first, then the generic call
     scrapli/driver/base/base_driver.py  the timeout_ops / timeout_transport property setters
   Definitions only; proofs are in proofs/TimeoutRestore_Proofs.v.

   Timeout values are integers in MILLISECONDS (Z): 2.5 s = 2500, -1.0 = -1000; [int(x)] is
   truncation toward zero of the seconds = [Z.quot x 1000 * 1000].

   [fin c] selects the code as it is now (the two transport-timeout swaps restore in a [finally]:
   true) or as it was at the pinned commit (restore after the loop / on match / on ScrapliTimeout
   only: false).  [has_set c] says whether the transport has [_set_timeout] (paramiko, ssh2): the
   driver's timeout_transport setter then also pushes the value into the library session ([sess]),
   and raises ScrapliConnectionNotOpened — after having assigned the attribute — when that
   transport is closed.

   Control flow that depends on the device and the clock (which read ends a loop, which read
   raises) is an INPUT of the model: the fault history of the call.  An exception, and a read that
   never returns ([Blocks]), are constructors of [outcome], never defaults. *)
From Coq Require Export ZArith List Bool.
Export ListNotations.
Open Scope Z_scope.

Inductive exc :=
| ETimeout      (* ScrapliTimeout *)
| EConn         (* ScrapliConnectionError: connection lost *)
| ENotOpened    (* ScrapliConnectionNotOpened: transport closed *)
| EPriv         (* ScrapliPrivilegeError *)
| ECallback     (* an exception raised by the user's callback *)
| EType         (* ScrapliTypeError from a property setter / from an argument check (commands not a list, ...) *)
| EInterrupt    (* KeyboardInterrupt / asyncio.CancelledError: a BaseException *)
| EOther.       (* any other exception *)

Inductive outcome := Ok | FailedCommand | Raised (e : exc) | Blocks.

Inductive phase := PhIo | PhTimed | PhAcq | PhCb.

(* what an observer of conn.timeout_ops / conn.timeout_transport / session timeout sees at an
   I/O event (or at the start of a callback) *)
Definition obs := (phase * (Z * Z * Z))%type.

Record st := mkst {
  ops : Z;          (* _base_channel_args.timeout_ops *)
  tr : Z;           (* _base_transport_args.timeout_transport *)
  sess : Z;         (* timeout held by the library session (transports with _set_timeout) *)
  log : list obs    (* observations, newest first *)
}.

Definition core (s : st) : Z * Z * Z := (ops s, tr s, sess s).

Record cfg := mkcfg { fin : bool; has_set : bool }.

Definition tick (p : phase) (s : st) : st :=
  mkst (ops s) (tr s) (sess s) ((p, core s) :: log s).

Fixpoint ticks (p : phase) (n : nat) (s : st) : st :=
  match n with O => s | S k => ticks p k (tick p s) end.

Definition set_ops (v : Z) (s : st) : st := mkst v (tr s) (sess s) (log s).

(* _transport_args.timeout_transport = v   (the channel writes the dataclass field directly) *)
Definition set_tr_direct (v : Z) (s : st) : st := mkst (ops s) v (sess s) (log s).

(* driver.timeout_transport = v   (property setter, base_driver.py) *)
Definition set_tr_driver (c : cfg) (closed : bool) (v : Z) (s : st) : st * option exc :=
  let s1 := mkst (ops s) v (sess s) (log s) in
  if has_set c then
    if closed then (s1, Some ENotOpened) else (mkst (ops s) v v (log s), None)
  else (s1, None).

(* int(read_duration) *)
Definition trunc_s (ms : Z) : Z := Z.quot ms 1000 * 1000.

(* ---- timeout_modifier ------------------------------------------------------------------- *)
Inductive ov :=
| OvNone              (* timeout_ops not given (None) *)
| OvVal (v : Z)       (* a number *)
| OvBad.              (* not an int/float: the setter raises ScrapliTypeError before assigning *)

Definition with_override (o : ov) (body : st -> st * outcome) (s : st) : st * outcome :=
  match o with
  | OvNone => body s
  | OvBad => (s, Raised EType)
  | OvVal v =>
      if v =? ops s then body s
      else let base := ops s in
           let (s1, r) := body (set_ops v s) in   (* try *)
           (set_ops base s1, r)                   (* finally *)
  end.

(* ---- bodies that do not touch the timeouts: _send_command, send_interactive --------------- *)
Inductive bres :=
| BOk | BFailed           (* Response, failed False / True *)
| BExc (e : exc)          (* the channel operation raised after some I/O *)
| BPre (e : exc)          (* raised before any I/O (argument check, first write refused) *)
| BBlocks.

Definition body_plain (r : bres) (s : st) : st * outcome :=
  match r with
  | BOk => (tick PhIo s, Ok)
  | BFailed => (tick PhIo s, FailedCommand)
  | BExc e => (tick PhIo s, Raised e)
  | BPre e => (s, Raised e)
  | BBlocks => (tick PhIo s, Blocks)
  end.

(* send_commands: one decorated _send_command per command; an exception propagates, a failed
   command stops the run when stop_on_failed *)
Fixpoint send_commands_loop (o : ov) (stop : bool) (rs : list bres) (failed : bool) (s : st)
  : st * outcome :=
  match rs with
  | [] => (s, if failed then FailedCommand else Ok)
  | r :: rest =>
      let (s1, out) := with_override o (body_plain r) s in
      match out with
      | Ok => send_commands_loop o stop rest failed s1
      | FailedCommand => if stop then (s1, FailedCommand) else send_commands_loop o stop rest true s1
      | _ => (s1, out)
      end
  end.

(* ---- _read_until_prompt_or_time ----------------------------------------------------------- *)
Inductive rdev := RData | RTimeout.      (* a read returned data / raised ScrapliTimeout (suppressed) *)
Inductive rend :=
| EndDone                 (* the last read of the list satisfied a break condition *)
| EndExc (e : exc)        (* one more read, which raised e (not suppressed) *)
| EndBlocks.              (* one more read, which never returns *)

Fixpoint timed_loop (evs : list rdev) (e : rend) (s : st) : st * outcome :=
  match evs with
  | [] => match e with
          | EndDone => (s, Ok)
          | EndExc x => (tick PhTimed s, Raised x)
          | EndBlocks => (tick PhTimed s, Blocks)
          end
  | _ :: r => timed_loop r e (tick PhTimed s)
  end.

Definition read_until_prompt_or_time (c : cfg) (rd : Z) (evs : list rdev) (e : rend) (s : st)
  : st * outcome :=
  let prev := tr s in
  let s1 := set_tr_direct (trunc_s rd) s in
  let (s2, r) := timed_loop evs e s1 in
  match r with
  | Ok => (set_tr_direct prev s2, Ok)
  | _ => (if fin c then set_tr_direct prev s2 else s2, r)
  end.

(* what happened before the part of an operation that is of interest *)
Inductive pre :=
| PNone                   (* nothing (no I/O) *)
| PIoOk                   (* some I/O, no exception *)
| PIo (e : exc)           (* some I/O, then e *)
| PNoIo (e : exc).        (* e before any I/O *)

(* ---- read_callback ------------------------------------------------------------------------ *)
Inductive stage_end :=
| SMatch (cb : st -> st * option exc) (complete : bool) (next_timeout : Z)
| SExc (e : exc)          (* a read (or the check / the sleep between reads) raised e *)
| SBlocks.

Record stage := mkstage {
  st_closed : bool;       (* the transport was closed when this stage started *)
  st_closed_end : bool;   (* ... when the stage put the transport timeout back *)
  st_reads : nat;         (* reads that returned before the stage ended *)
  st_end : stage_end
}.

(* the part of one read_callback activation that runs with the temporary transport timeout:
   returns the state and either the exception that leaves the activation or the way it goes on *)
Inductive stage_res := GoMatch (cb : st -> st * option exc) (complete : bool) (next_timeout : Z)
                     | GoRaise (e : exc) | GoBlocks.

Definition stage_reads (c : cfg) (rt : Z) (g : stage) (s : st) : st * stage_res :=
  let orig := tr s in
  let closed := st_closed g in
  let restore (s' : st) (r : stage_res) : st * stage_res :=
      let (s'', e2) := set_tr_driver c (st_closed_end g) orig s' in
      match e2 with Some x => (s'', GoRaise x) | None => (s'', r) end in
  let (s1, e1) := set_tr_driver c closed (if rt >=? 0 then rt else tr s) s in
  match e1 with
  | Some x => if fin c then restore s1 (GoRaise x) else (s1, GoRaise x)
  | None =>
      let s2 := ticks PhIo (st_reads g) s1 in
      match st_end g with
      | SMatch cb complete nt => restore s2 (GoMatch cb complete nt)
      | SExc e =>
          let s3 := tick PhIo s2 in
          if fin c then restore s3 (GoRaise e)
          else match e with
               | ETimeout => restore s3 (GoRaise ETimeout)
               | _ => (s3, GoRaise e)
               end
      | SBlocks =>
          let s3 := tick PhIo s2 in
          if fin c then restore s3 GoBlocks else (s3, GoBlocks)
      end
  end.

(* the recursion of read_callback: one list element per activation; running out of stages after
   a callback that was not [complete] means the next read never returns *)
Fixpoint read_callback_stages (c : cfg) (rt : Z) (gs : list stage) (s : st) : st * outcome :=
  match gs with
  | [] => let (s1, r) := stage_reads c rt (mkstage false false 0 SBlocks) s in
          (s1, match r with GoRaise e => Raised e | _ => Blocks end)
  | g :: rest =>
      let (s1, r) := stage_reads c rt g s in
      match r with
      | GoRaise e => (s1, Raised e)
      | GoBlocks => (s1, Blocks)
      | GoMatch cb complete nt =>
          let (s2, ce) := cb (tick PhCb s1) in
          match ce with
          | Some e => (s2, Raised e)
          | None => if complete then (s2, Ok) else read_callback_stages c nt rest s2
          end
      end
  end.

(* ---- the operations that accept a per-call timeout ------------------------------------------ *)
Inductive op :=
| OSendCommand (o : ov) (r : bres)
| OSendCommands (o : ov) (stop : bool) (rs : list bres)      (* also send_commands_from_file *)
| OSendInteractive (o : ov) (r : bres)
| OSendAndRead (o : ov) (rd : Z) (p : pre) (evs : list rdev) (e : rend) (failed : bool)
| OReadCallback (init : pre) (rt : Z) (gs : list stage)
| ONet (acq : pre) (x : op).   (* NetworkDriver: acquire the privilege level first; send_config(s) too.
                                  Also what ANY public method does before it reaches a decorated call: an
                                  argument check that raises ([PNoIo e]: commands not a list, file not there)
                                  ends the call before an override is applied.  An empty batch is
                                  [OSendCommands o stop []]: no decorated call at all, the state is untouched. *)

Fixpoint run_op (c : cfg) (x : op) (s : st) : st * outcome :=
  match x with
  | OSendCommand o r => with_override o (body_plain r) s
  | OSendCommands o stop rs => send_commands_loop o stop rs false s
  | OSendInteractive o r => with_override o (body_plain r) s
  | OSendAndRead o rd p evs e failed =>
      with_override o (fun s0 =>
        match p with
        | PIo x => (tick PhIo s0, Raised x)
        | PNoIo x => (s0, Raised x)
        | _ =>
            let (s1, r) := read_until_prompt_or_time c rd evs e (tick PhIo s0) in
            match r with
            | Ok => (s1, if failed then FailedCommand else Ok)
            | _ => (s1, r)
            end
        end) s
  | OReadCallback init rt gs =>
      match init with
      | PIo x => (tick PhIo s, Raised x)
      | PNoIo x => (s, Raised x)
      | PIoOk => read_callback_stages c rt gs (tick PhIo s)
      | PNone => read_callback_stages c rt gs s
      end
  | ONet acq x =>
      match acq with
      | PIo e => (tick PhAcq s, Raised e)
      | PNoIo e => (s, Raised e)
      | PIoOk => run_op c x (tick PhAcq s)
      | PNone => run_op c x s
      end
  end.

(* a sequence of calls on one connection; the caller catches whatever a call raises and goes on *)
Fixpoint run_ops (c : cfg) (l : list op) (s : st) : st * list outcome :=
  match l with
  | [] => (s, [])
  | x :: r => let (s1, o) := run_op c x s in
              let (s2, os) := run_ops c r s1 in (s2, o :: os)
  end.

(* a callback that runs driver operations (each of them may carry its own override) and then
   possibly raises; its end is an observation point *)
Definition cb_of_ops (c : cfg) (l : list op) (raise : option exc) : st -> st * option exc :=
  fun s => (tick PhCb (fst (run_ops c l s)), raise).

(* ---- comparison helpers for the correspondence run ---------------------------------------- *)
Definition phase_eqb (a b : phase) : bool :=
  match a, b with
  | PhIo, PhIo | PhTimed, PhTimed | PhAcq, PhAcq | PhCb, PhCb => true
  | _, _ => false
  end.

Definition obs_eqb (a b : obs) : bool :=
  let '(p, (x, y, z)) := a in let '(q, (x', y', z')) := b in
  phase_eqb p q && (x =? x') && (y =? y') && (z =? z').

(* drop consecutive repetitions *)
Fixpoint dedup (l : list obs) : list obs :=
  match l with
  | [] => []
  | a :: r => match r with
              | [] => [a]
              | b :: _ => if obs_eqb a b then dedup r else a :: dedup r
              end
  end.

Fixpoint obs_list_eqb (a b : list obs) : bool :=
  match a, b with
  | [], [] => true
  | x :: a', y :: b' => obs_eqb x y && obs_list_eqb a' b'
  | _, _ => false
  end.

Definition exc_eqb (a b : exc) : bool :=
  match a, b with
  | ETimeout, ETimeout | EConn, EConn | ENotOpened, ENotOpened | EPriv, EPriv
  | ECallback, ECallback | EType, EType | EInterrupt, EInterrupt | EOther, EOther => true
  | _, _ => false
  end.

Definition outcome_eqb (a b : outcome) : bool :=
  match a, b with
  | Ok, Ok | FailedCommand, FailedCommand | Blocks, Blocks => true
  | Raised x, Raised y => exc_eqb x y
  | _, _ => false
  end.

(* one correspondence case: configuration, state before, the call with its fault history, and
   what was observed on the real driver: state after, outcome, de-duplicated observations
   (oldest first) *)
Definition check_case (k : cfg * (Z * Z * Z) * op * (Z * Z * Z) * outcome * list obs) : bool :=
  let '(c, (o0, t0, s0), x, (o1, t1, s1), out, seen) := k in
  let (s', r) := run_op c x (mkst o0 t0 s0 []) in
  (ops s' =? o1) && (tr s' =? t1) && (sess s' =? s1) && outcome_eqb r out
  && obs_list_eqb (dedup (rev (log s'))) seen.

(* ---- the thread based timeout of the sync stack: decorators._multiprocessing_timeout -------------
   For SystemTransport / TelnetTransport, on windows and off the main thread the sync timeout_wrapper
   runs the channel operation in the WORKER thread of a one-thread pool and the CALLER waits
   timeout_ops for it.  When the time is up the caller closes the transport and raises ScrapliTimeout
   from inside the pool's context.  [joins]: leaving that context waits for the worker
   (`with ThreadPoolExecutor(...)`, i.e. shutdown(wait=True)) — a fact of the source, read from it on
   every run (Gen_Timeouts.gen_pool_joins).  Where the worker is when the time is up ([wpos]) and
   what its blocked read does once the transport is closed ([wake]) are inputs.

   The result says when the call ENDS: [p_state] is the connection at that moment (for [Blocks]: the
   state in which the call hangs), [p_late] what a thread that is still running the call's body does
   to the connection AFTER the call has ended (None: there is no such thread / it writes nothing). *)
Inductive wake :=
| WakeLater               (* the blocked read comes back (raising) some time after close() *)
| WakeNever.              (* close() does not interrupt it *)

Inductive wpos :=
| WPlain                            (* blocked in a read outside the timed loop: nothing swapped by the worker *)
| WTimed (rd : Z) (reads : nat).    (* in _read_until_prompt_or_time: [reads] reads returned, the next one blocks *)

Record pres := mkpres { p_state : st; p_out : outcome; p_late : option (st -> st) }.

Definition pool_call (c : cfg) (joins : bool) (o : ov) (w : wpos) (k : wake) (s : st) : pres :=
  match o with
  | OvBad => mkpres s (Raised EType) None
  | _ =>
      let base := ops s in
      let s0 := match o with OvVal v => set_ops v s | _ => s end in   (* timeout_modifier, calling thread: try *)
      let s1 := tick PhIo s0 in                                       (* worker: write, read the echo *)
      let prev := tr s1 in
      let s2 := match w with
                | WPlain => s1
                | WTimed rd n => tick PhTimed (ticks PhTimed n (set_tr_direct (trunc_s rd) s1))
                end in
      (* the worker's way out of the timed loop once its read has come back: the loop's finally *)
      let unwind (x : st) : st :=
          match w with WPlain => x | WTimed _ _ => if fin c then set_tr_direct prev x else x end in
      if joins then
        match k with
        | WakeNever => mkpres s2 Blocks None                  (* the pool's exit waits for ever *)
        | WakeLater => mkpres (set_ops base (unwind s2)) (Raised ETimeout) None
        end
      else
        (* ScrapliTimeout reaches the caller (timeout_modifier: finally) while the worker is where it was;
           the worker unwinds when its read comes back or is let go *)
        mkpres (set_ops base s2) (Raised ETimeout)
               (match w with
                | WPlain => None
                | WTimed _ _ => if fin c then Some (set_tr_direct prev) else None
                end)
  end.

(* the caller goes on after the call: assigns both timeouts through the driver's setters (open transport) *)
Definition user_sets (c : cfg) (rc : option (Z * Z)) (s : st) : st :=
  match rc with
  | None => s
  | Some (o, t) => fst (set_tr_driver c false t (set_ops o s))
  end.

Definition settled (c : cfg) (rc : option (Z * Z)) (r : pres) : st :=
  let s1 := user_sets c rc (p_state r) in
  match p_late r with Some f => f s1 | None => s1 end.

Definition triple_eqb (a b : Z * Z * Z) : bool :=
  let '(x, y, z) := a in let '(x', y', z') := b in (x =? x') && (y =? y') && (z =? z').

(* one case of the correspondence run on the thread mechanism: configuration, [joins] as read from the
   source, state before, the call (override, where the worker was, how its read wakes), and what was
   observed: the state when the call ended (or in which it hung), outcome, observations up to there, the
   user's assignments after the end (if any) and the state once no thread was left in the call's body *)
Definition check_pool_case
  (k : cfg * bool * (Z * Z * Z) * ov * wpos * wake * (Z * Z * Z) * outcome * list obs * option (Z * Z) * (Z * Z * Z)) : bool :=
  let '(c, joins, (o0, t0, s0), o, w, wk, e, out, seen, rc, fin_state) := k in
  let r := pool_call c joins o w wk (mkst o0 t0 s0 []) in
  triple_eqb (core (p_state r)) e && outcome_eqb (p_out r) out
  && obs_list_eqb (dedup (rev (log (p_state r)))) seen
  && match p_out r with
     | Blocks => true
     | _ => triple_eqb (core (settled c rc r)) fin_state
     end.
