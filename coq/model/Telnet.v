(* Telnet.v — executable model of scrapli's two Telnet transports
   (scrapli/transport/plugins/telnet/transport.py, .../asynctelnet/transport.py).
   Definitions only; proofs are in proofs/Telnet_Proofs.v.

   [persist] selects the code as it is now (control_buf kept on the transport between calls of
   _handle_control_chars: true) or as it was at the pinned commit (control_buf local: false).
   [counting] selects the sync transport (counter incremented per answered command, negotiation
   handling switched off per recv once counter >= limit) or the asyncio one (counter never moves). *)
From Verif Require Import Bytes.

Definition IAC := 255. Definition DONT := 254. Definition DO := 253.
Definition WONT := 252. Definition WILL := 251. Definition SGA := 3. Definition NUL := 0.

Definition is_verb (c : N) : bool := (c =? DO) || (c =? DONT) || (c =? WILL) || (c =? WONT).

Record tstate := mkT {
  raw : bytes; cooked : bytes; cbuf : bytes; counter : nat; eof : bool;
  sent : list bytes  (* replies written to the socket, oldest first *)
}.

Definition t_init : tstate := mkT [] [] [] 0 false [].

Definition reply (cmd c : N) : option bytes :=
  if (cmd =? DO) && (c =? SGA) then Some [IAC; WILL; c]
  else if (cmd =? DO) || (cmd =? DONT) then Some [IAC; WONT; c]
  else if cmd =? WILL then Some [IAC; DO; c]
  else if cmd =? WONT then Some [IAC; DONT; c]
  else None.

(* _handle_control_chars_response: one byte [c] against the command being assembled [cb];
   returns the new control buffer and the state (cooked / sent / counter updated). *)
Definition resp (counting : bool) (cb : bytes) (c : N) (st : tstate) : bytes * tstate :=
  match cb with
  | [] => if negb (c =? IAC)
          then ([], mkT (raw st) (cooked st ++ [c]) (cbuf st) (counter st) (eof st) (sent st))
          else ([c], st)
  | [_] => if is_verb c then (cb ++ [c], st) else (cb, st)
  | [_; cmd] =>
      let snt := match reply cmd c with Some r => sent st ++ [r] | None => sent st end in
      ([], mkT (raw st) (cooked st) (cbuf st)
               (if counting then S (counter st) else counter st) (eof st) snt)
  | _ => (cb, st)
  end.

Fixpoint resp_all (counting : bool) (cb : bytes) (s : bytes) (st : tstate) : bytes * tstate :=
  match s with
  | [] => (cb, st)
  | c :: r => let (cb', st') := resp counting cb c st in resp_all counting cb' r st'
  end.

(* _handle_control_chars *)
Definition handle (persist counting : bool) (st : tstate) : tstate :=
  let start_fresh := negb persist || match cbuf st with [] => true | _ => false end in
  if start_fresh then
    match find_byte IAC (raw st) with
    | None => mkT [] (raw st) (cbuf st) (counter st) (eof st) (sent st)
    | Some i =>
        let st1 := mkT [] (firstn i (raw st)) (cbuf st) (counter st) (eof st) (sent st) in
        let (cb, st2) := resp_all counting (if persist then cbuf st else []) (skipn i (raw st)) st1 in
        mkT (raw st2) (cooked st2) (if persist then cb else cbuf st2) (counter st2) (eof st2) (sent st2)
    end
  else
    let st1 := mkT [] (cooked st) (cbuf st) (counter st) (eof st) (sent st) in
    let (cb, st2) := resp_all counting (cbuf st) (raw st) st1 in
    mkT (raw st2) (cooked st2) cb (counter st2) (eof st2) (sent st2).

(* one iteration of the while loop of read(): _read() (one recv result) then, below the limit,
   _handle_control_chars() *)
Definition feed (persist counting : bool) (limit : nat) (st : tstate) (chunk : bytes) : tstate :=
  let below := Nat.ltb (counter st) limit in
  let e := match chunk with [] => true | _ => false end in
  if below
  then handle persist counting (mkT (raw st ++ chunk) (cooked st) (cbuf st) (counter st) e (sent st))
  else mkT (raw st) (cooked st ++ chunk) (cbuf st) (counter st) e (sent st).

Inductive rd := Got (b : bytes) | Starved.

(* read(): loop while nothing is cooked and not at EOF; [chunks] are the results the socket's
   recv() will produce, an exhausted list means the socket would block (Starved). *)
Fixpoint read (persist counting : bool) (limit : nat) (st : tstate) (chunks : list bytes)
  : rd * tstate * list bytes :=
  match cooked st, eof st with
  | [], false =>
      match chunks with
      | [] => (Starved, st, [])
      | c :: rest => read persist counting limit (feed persist counting limit st c) rest
      end
  | _, _ =>
      (Got (remove_byte NUL (cooked st)),
       mkT (raw st) [] (cbuf st) (counter st) (eof st) (sent st), chunks)
  end.

(* a session: call read() until the socket starves; [fuel] bounds the number of read() calls.
   Result: the byte strings returned by the successive read() calls and the final state. *)
Fixpoint session (persist counting : bool) (limit : nat) (fuel : nat) (st : tstate)
  (chunks : list bytes) : list bytes * tstate :=
  match fuel with
  | O => ([], st)
  | S f =>
      match read persist counting limit st chunks with
      | (Starved, st', _) => ([], st')
      | (Got b, st', rest) =>
          if eof st' then ([b], st')   (* after EOF every further read returns b"" at once *)
          else let (bs, st'') := session persist counting limit f st' rest in (b :: bs, st'')
      end
  end.

(* what the correspondence check compares: all bytes delivered, all bytes replied *)
Definition run (persist counting : bool) (limit : nat) (chunks : list bytes) : bytes * bytes :=
  let (outs, st) := session persist counting limit (S (length chunks)) t_init chunks in
  (concat outs, concat (sent st)).

(* ---- the specification side: streams as token lists ---- *)
Inductive tok := Data (d : bytes) | Cmd (verb opt : N).

Definition tok_bytes (t : tok) : bytes :=
  match t with Data d => d | Cmd v o => [IAC; v; o] end.
Definition stream (ts : list tok) : bytes := flat_map tok_bytes ts.
Definition tok_data (t : tok) : bytes := match t with Data d => d | Cmd _ _ => [] end.
Definition tok_reply (t : tok) : bytes :=
  match t with Data _ => [] | Cmd v o => match reply v o with Some r => r | None => [] end end.
Definition spec_data (ts : list tok) : bytes := remove_byte NUL (flat_map tok_data ts).
Definition spec_replies (ts : list tok) : bytes := flat_map tok_reply ts.
Definition ncmds (ts : list tok) : nat :=
  length (filter (fun t => match t with Cmd _ _ => true | _ => false end) ts).
Definition tok_ok (t : tok) : bool :=
  match t with
  | Data d => forallb (fun c => negb (c =? IAC)) d
  | Cmd v _ => is_verb v
  end.
Definition toks_ok (ts : list tok) : bool := forallb tok_ok ts.

(* ---- several sessions on one transport object ----
   open(): a (re)opened connection is a new Telnet session.  [reopen] is what open() does to the
   fields, whatever the previous session left in them and however it ended (close(), a connection
   the peer reset + close(), a reset without close()): buffers and the eof flag are cleared; with
   [fresh_neg] (the code as it is now) so are the pending control sequence and the count of answered
   commands.  [fresh_neg = false] is an open() that keeps the negotiation state of the previous
   session (refuted in the proofs).  [sent] is per connection, so it starts empty. *)
Definition reopen (fresh_neg : bool) (st : tstate) : tstate :=
  mkT [] [] (if fresh_neg then [] else cbuf st)
      (if fresh_neg then 0%nat else counter st) false [].

(* a history: one transport object, one chunk list (recv results) per session; per session the
   bytes delivered by its read() calls and the bytes written to ITS connection *)
Fixpoint run_sessions (persist fresh_neg counting : bool) (limit : nat) (st : tstate)
  (ss : list (list bytes)) : list (bytes * bytes) :=
  match ss with
  | [] => []
  | chunks :: r =>
      let (outs, st') := session persist counting limit (S (length chunks))
                                 (reopen fresh_neg st) chunks in
      (concat outs, concat (sent st')) :: run_sessions persist fresh_neg counting limit st' r
  end.

(* what the specification says about one session (chunk list [chunks] carrying token list [ts]) *)
Definition session_ok (counting : bool) (limit : nat) (ts : list tok) (chunks : list bytes) : Prop :=
  toks_ok ts = true /\ (counting = true -> (ncmds ts <= limit)%nat) /\
  Forall (fun c => c <> []) chunks /\ concat chunks = stream ts.
