(* ResponseRaw.v — executable model of the decoding step of Response.record_response
   (scrapli/response.py): the channel hands over BYTES; they are read as UTF-8 where they are
   well-formed UTF-8 and as ISO-8859-1 (one byte = one character) otherwise, and the failure
   markers are looked for in the text so obtained.
   Strings are their UTF-8 encodings (model/Response.v), so the ISO-8859-1 reading of a byte
   string is the UTF-8 encoding of the characters U+0000..U+00FF its bytes name.
   Definitions only; proofs are in proofs/ResponseRaw_Proofs.v. *)
From Verif Require Import Bytes Response.

Definition between (lo hi c : N) : bool := (lo <=? c) && (c <=? hi).

(* Python's strict UTF-8 decoder (bytes.decode()) accepts exactly the well-formed sequences of the
   Unicode standard (table 3-7): no lone continuation bytes, no truncated sequences, no overlong
   forms (C0 C1, E0 80..9F, F0 80..8F), no surrogates (ED A0..BF), nothing above U+10FFFF
   (F4 90.., F5..FF). *)
Fixpoint utf8_valid (s : bytes) : bool :=
  match s with
  | [] => true
  | c :: t =>
    if c <? 128 then utf8_valid t
    else if between 194 223 c then
      match t with
      | c1 :: t1 => between 128 191 c1 && utf8_valid t1
      | _ => false
      end
    else if between 224 239 c then
      match t with
      | c1 :: c2 :: t2 =>
        (if c =? 224 then between 160 191 c1 else if c =? 237 then between 128 159 c1 else between 128 191 c1)
        && between 128 191 c2 && utf8_valid t2
      | _ => false
      end
    else if between 240 244 c then
      match t with
      | c1 :: c2 :: c3 :: t3 =>
        (if c =? 240 then between 144 191 c1 else if c =? 244 then between 128 143 c1 else between 128 191 c1)
        && between 128 191 c2 && between 128 191 c3 && utf8_valid t3
      | _ => false
      end
    else false
  end.

(* one ISO-8859-1 byte as the UTF-8 encoding of the character it names *)
Definition latin1_char (c : N) : bytes :=
  if c <? 128 then [c] else [192 + c / 64; 128 + c mod 64].

(* bytes.decode("ISO-8859-1"), as the UTF-8 encoding of the resulting str *)
Definition latin1_text (s : bytes) : bytes := flat_map latin1_char s.

(*  try: result.decode()   except UnicodeDecodeError: result.decode(encoding="ISO-8859-1")  *)
Definition decode_output (raw : bytes) : bytes :=
  if utf8_valid raw then raw else latin1_text raw.

(* record_response on the bytes the channel returned *)
Definition record_raw (r : response) (raw : bytes) : response :=
  record_response r (decode_output raw).

Definition is_ascii (m : bytes) : bool := forallb (fun c => c <? 128) m.
Definition flag_of_raw (f : fwc) (raw : bytes) : bool := r_failed (record_raw (new_response [120] f) raw).
