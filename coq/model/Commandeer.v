(* Commandeer.v — executable model of the channel logs of a COMMANDEERED connection
   (scrapli/driver/base/sync_driver.py Driver.commandeer, async_driver.py AsyncDriver.commandeer).
   Definitions only; proofs in proofs/Commandeer_Proofs.v.

   Two driver objects on one wire: A opened the connection, B commandeers it.  The channel_log of a channel
   object is a REFERENCE to an open sink (or None); the sinks live in a store indexed by destination.
   A read through an object appends the bytes read, CRs removed, to the sink its channel refers to
   (ChanLog.chan_read, log written before ANSI stripping).
   [CTakeover]: commandeer as it is — B's reference becomes A's when A has an open log; B's own configured
   channel_log is not opened (B.channel.open() is never called), B keeps no log when A has none.
   [CReopen d append]: the variant in which the commandeering object opens its OWN configured destination d
   instead (a second open of d: truncated unless append) — used only to show that the theorem notices it. *)
From Verif Require Import Bytes ChanLog.

Inductive who := WA | WB.
Inductive cmd_ev :=
  | CRead (w : who) (c : bytes)
  | CTakeover
  | CReopen (d : nat) (append : bool).

Definition store := nat -> bytes.
Definition upd (s : store) (d : nat) (v : bytes) : store := fun x => if Nat.eqb x d then v else s x.

Record cstate := mkC { ref_a : option nat; ref_b : option nat; cont : store }.

Definition ref_of (w : who) (st : cstate) : option nat :=
  match w with WA => ref_a st | WB => ref_b st end.

Definition cmd_step (st : cstate) (e : cmd_ev) : cstate :=
  match e with
  | CRead w c =>
      match ref_of w st with
      | None => st
      | Some d => mkC (ref_a st) (ref_b st) (upd (cont st) d (cont st d ++ remove_byte CR c))
      end
  | CTakeover =>
      mkC (ref_a st) (match ref_a st with Some d => Some d | None => ref_b st end) (cont st)
  | CReopen d app =>
      mkC (ref_a st) (Some d) (upd (cont st) d (if app then cont st d else []))
  end.

Definition cmd_run (st : cstate) (evs : list cmd_ev) : cstate := fold_left cmd_step evs st.

Definition reads_via (w : who) (chunks : list bytes) : list cmd_ev := map (CRead w) chunks.
Definition reads_of (post : list (who * bytes)) : list cmd_ev := map (fun p => CRead (fst p) (snd p)) post.

(* the state after A.open(): A's channel refers to destination d (or has no log), B's channel was never opened *)
Definition after_open (a : option nat) (s : store) : cstate := mkC a None s.

(* a commandeered session: reads through A, the commandeering, reads through either object *)
Definition cmd_session (cmd : cmd_ev) (pre : list bytes) (post : list (who * bytes)) : list cmd_ev :=
  reads_via WA pre ++ cmd :: reads_of post.
