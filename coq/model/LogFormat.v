(* LogFormat.v — executable model of scrapli.logging.ScrapliFormatter (scrapli/logging.py):
   the "{"-style format line, the target column (uid / host:port, truncation), the caller-info
   truncation, the header row emitted with the first message, the running message id.
   Definitions only; proofs are in proofs/LogFormat_Proofs.v.

   A str is the list of its code points.  What is NOT modelled: exc_info / stack_info text appended
   by logging.Formatter.format (scrapli never logs with exc_info), the time stamp (asctime is an
   input field of the record: the harness masks it), non-str values of host / port / uid.

   [portfix] selects the code as it is now (a record with a host but no port gets port "") or as
   it was at the pinned commit (formatMessage raises AttributeError: None). *)
From Verif Require Import Bytes.

Definition str := list N.

(* ---- small python str / format primitives ---- *)
Fixpoint dec_aux (fuel : nat) (n : N) (acc : str) : str :=
  match fuel with
  | O => acc
  | S f => let acc' := (48 + n mod 10) :: acc in
           if n / 10 =? 0 then acc' else dec_aux f (n / 10) acc'
  end.
(* str(n) for a non-negative int *)
Definition dec (n : N) : str := dec_aux (S (N.to_nat (N.log2 n))) n [].

(* "{x:<w}" / str.ljust(w): pad with blanks on the right, never truncate *)
Definition ljust (w : nat) (s : str) : str := s ++ repeat 32 (w - length s).

Definition dots : str := [46; 46; 46].
(* s[:keep] if len(s) <= bound else s[:cut] + "..."   (three separate literals in the source) *)
Definition trunc (bound keep cut : nat) (s : str) : str :=
  if (length s <=? bound)%nat then firstn keep s else firstn cut s ++ dots.

(* ---- the target column ---- *)
Record extras := mkX { x_host : option str; x_port : option str; x_uid : option str }.

Definition colon : N := 58.

(* _host_port : "" without a host attribute (the port is then overwritten by ""), "host:port"
   otherwise; a host without a port: AttributeError at the pinned commit *)
Definition host_port (portfix : bool) (x : extras) : option str :=
  match x_host x with
  | None => Some []
  | Some h =>
      match x_port x with
      | Some p => Some (h ++ colon :: p)
      | None => if portfix then Some (h ++ [colon]) else None
      end
  end.

Definition uid_part (x : extras) : str :=
  match x_uid x with None => [] | Some u => u ++ [colon] end.

Definition target_bound := 25%nat. Definition target_keep := 25%nat. Definition target_cut := 22%nat.
Definition caller_bound := 20%nat. Definition caller_keep := 20%nat. Definition caller_cut := 17%nat.

Definition target (portfix : bool) (x : extras) : option str :=
  match host_port portfix x with
  | None => None
  | Some hp => Some (trunc target_bound target_keep target_cut (uid_part x ++ hp))
  end.

(* ---- the format line ---- *)
Inductive field := FId | FTime | FLevel | FTarget | FModule | FFunc | FLineno | FMessage.
(* a replacement field "{name:<w}" / "{name: <w}" (w = 0: "{name}") or literal text *)
Inductive piece := Lit (s : str) | Fld (f : field) (w : nat).

Definition sep : str := [32; 124; 32].   (* " | " *)

Definition fmt_plain : list piece :=
  [Fld FId 5; Lit sep; Fld FTime 0; Lit sep; Fld FLevel 8; Lit sep; Fld FTarget 25; Lit sep;
   Fld FMessage 0].
Definition fmt_caller : list piece :=
  [Fld FId 5; Lit sep; Fld FTime 0; Lit sep; Fld FLevel 8; Lit sep; Fld FTarget 25; Lit sep;
   Fld FModule 20; Lit sep; Fld FFunc 20; Lit sep; Fld FLineno 5; Lit sep; Fld FMessage 0].

Record fields := mkF {
  f_id : str; f_time : str; f_level : str; f_target : str;
  f_module : str; f_func : str; f_lineno : str; f_message : str }.

Definition get_field (f : field) (v : fields) : str :=
  match f with
  | FId => f_id v | FTime => f_time v | FLevel => f_level v | FTarget => f_target v
  | FModule => f_module v | FFunc => f_func v | FLineno => f_lineno v | FMessage => f_message v
  end.

Fixpoint render (ps : list piece) (v : fields) : str :=
  match ps with
  | [] => []
  | Lit s :: r => s ++ render r v
  | Fld f w :: r => ljust w (get_field f v) ++ render r v
  end.

(* the header record of ScrapliFormatter.__init__ as formatMessage completes it *)
Definition h_id : str := [73; 68].                                   (* "ID" *)
Definition h_time : str := ljust 23 [84; 73; 77; 69; 83; 84; 65; 77; 80].   (* "TIMESTAMP".ljust(23) *)
Definition h_level : str := [76; 69; 86; 69; 76].                    (* "LEVEL" *)
Definition h_target : str :=                                         (* "(UID:)HOST:PORT" *)
  [40; 85; 73; 68; 58; 41; 72; 79; 83; 84; 58; 80; 79; 82; 84].
Definition h_module : str := [77; 79; 68; 85; 76; 69].               (* "MODULE" *)
Definition h_func : str := [70; 85; 78; 67; 78; 65; 77; 69].         (* "FUNCNAME" *)
Definition h_lineno : str := [76; 73; 78; 69].                       (* "LINE" *)
Definition h_message : str := [77; 69; 83; 83; 65; 71; 69].          (* "MESSAGE" *)

Definition header_fields (tlen : nat) : fields :=
  mkF h_id h_time h_level (ljust tlen h_target) h_module h_func h_lineno h_message.

(* what a LogRecord carries besides msg / args *)
Record meta := mkM {
  m_time : str; m_level : str; m_x : extras; m_module : str; m_func : str; m_lineno : N }.

Record fconf := mkFC { caller_info : bool; log_header : bool }.

Definition the_fmt (c : fconf) : list piece := if caller_info c then fmt_caller else fmt_plain.

(* the line for a record whose target column is [t] *)
Definition format_with (c : fconf) (id : N) (m : meta) (t : str) (message : str) : str :=
  let ct s := if caller_info c then trunc caller_bound caller_keep caller_cut s else s in
  let v := mkF (dec id) (m_time m) (m_level m) t (ct (m_module m)) (ct (m_func m))
               (dec (m_lineno m)) message in
  let line := render (the_fmt c) v in
  if (id =? 1) && log_header c
  then render (the_fmt c) (header_fields (length t)) ++ 10 :: line
  else line.

(* ScrapliFormatter.formatMessage with message_id = id ; None = raises (AttributeError) *)
Definition format_record (portfix : bool) (c : fconf) (id : N) (m : meta) (message : str)
  : option str :=
  match target portfix (m_x m) with
  | None => None
  | Some t => Some (format_with c id m t message)
  end.

(* extras as scrapli.logging.get_instance_logger builds them *)
Definition instance_extras (host : str) (port : N) (uid : str) : extras :=
  let hp := match host with [] => false | _ => negb (port =? 0) end in
  mkX (if hp then Some host else None) (if hp then Some (dec port) else None)
      (match uid with [] => None | _ => Some uid end).
