(* Regex_Proofs.v — soundness of the emptiness certificate check:
   closed_cert CL atoms W tr = true  ->  no state of W accepts ANY byte string. *)
From Verif Require Import Bytes Regex RegexDeriv RegexDecide.
From Coq Require Import Lia FMapPositive.

Lemma cset_eqb_eq a : forall b, cset_eqb a b = true -> a = b.
Proof.
  induction a as [|[l1 h1] a IH]; intros [|[l2 h2] b] H; cbn in H; try discriminate; [reflexivity|].
  apply andb_prop in H as [H H3]. apply andb_prop in H as [H1 H2].
  apply N.eqb_eq in H1, H2. subst. f_equal. apply IH; exact H3.
Qed.

Lemma onat_eqb_eq a b : onat_eqb a b = true -> a = b.
Proof.
  destruct a, b; cbn; intros H; try discriminate; [|reflexivity].
  apply Nat.eqb_eq in H. subst; reflexivity.
Qed.

Lemma re_eqb_eq a : forall b, re_eqb a b = true -> a = b.
Proof.
  induction a as [| | | |s|a1 IH1 a2 IH2|a1 IH1 a2 IH2|a1 IH1 m1 x1 g1]; intros b H;
    destruct b; cbn in H; try discriminate; try reflexivity.
  - apply cset_eqb_eq in H. subst; reflexivity.
  - apply andb_prop in H as [H1 H2]. f_equal; auto.
  - apply andb_prop in H as [H1 H2]. f_equal; auto.
  - apply andb_prop in H as [H H4]. apply andb_prop in H as [H H3]. apply andb_prop in H as [H1 H2].
    apply Nat.eqb_eq in H1. apply onat_eqb_eq in H2. apply Bool.eqb_prop in H3.
    subst. f_equal. auto.
Qed.

Lemma top_eqb_eq a : forall b, top_eqb a b = true -> a = b.
Proof.
  induction a as [r|a1 IH1 a2 IH2|a1 IH1 a2 IH2|a1 IH1]; intros b H; destruct b; cbn in H;
    try discriminate.
  - apply re_eqb_eq in H. subst; reflexivity.
  - apply andb_prop in H as [H1 H2]. f_equal; auto.
  - apply andb_prop in H as [H1 H2]. f_equal; auto.
  - f_equal; auto.
Qed.

Lemma state_eqb_eq a b : state_eqb a b = true -> a = b.
Proof.
  destruct a as [p t], b as [p' t']. unfold state_eqb; cbn. intros H.
  apply andb_prop in H as [H1 H2]. apply Bool.eqb_prop in H1. apply top_eqb_eq in H2. subst. reflexivity.
Qed.

(* the derivative depends on the character only through class membership and "is it a newline" *)
Definition same_on (cl : list cset) (c1 c2 : N) : Prop :=
  forall s, In s cl -> cmem c1 s = cmem c2 s.

Lemma same_on_app_l cl1 cl2 c1 c2 : same_on (cl1 ++ cl2) c1 c2 -> same_on cl1 c1 c2.
Proof. intros H s Hs. apply H. apply in_or_app. left; exact Hs. Qed.
Lemma same_on_app_r cl1 cl2 c1 c2 : same_on (cl1 ++ cl2) c1 c2 -> same_on cl2 c1 c2.
Proof. intros H s Hs. apply H. apply in_or_app. right; exact Hs. Qed.

Lemma d_indist pnl c1 c2 r :
  (c1 =? 10) = (c2 =? 10) -> same_on (re_classes r) c1 c2 -> d pnl c1 r = d pnl c2 r.
Proof.
  intros Hk. assert (Hkind : kind c1 = kind c2) by (unfold kind; rewrite Hk; reflexivity).
  induction r as [| | | |s|a IHa b IHb|a IHa b IHb|a IHa mn mx g]; intros Hs; cbn [d re_classes] in *;
    try reflexivity.
  - rewrite (Hs s) by (left; reflexivity). reflexivity.
  - rewrite IHa by (eapply same_on_app_l; exact Hs).
    rewrite IHb by (eapply same_on_app_r; exact Hs).
    rewrite Hkind. reflexivity.
  - rewrite IHa by (eapply same_on_app_l; exact Hs).
    rewrite IHb by (eapply same_on_app_r; exact Hs). reflexivity.
  - rewrite IHa by exact Hs. reflexivity.
Qed.

Lemma td_and pnl c a b : td pnl c (TAnd a b) = mkTAnd (td pnl c a) (td pnl c b).
Proof. cbn [td]. unfold mkTAnd. destruct (is_dead (td pnl c a)); reflexivity. Qed.

Lemma td_indist pnl c1 c2 t :
  (c1 =? 10) = (c2 =? 10) -> same_on (top_classes t) c1 c2 -> td pnl c1 t = td pnl c2 t.
Proof.
  intros Hk. induction t as [r|a IHa b IHb|a IHa b IHb|a IHa]; intros Hs; rewrite ?td_and; cbn [td top_classes] in *.
  - f_equal. apply d_indist; assumption.
  - rewrite IHa by (eapply same_on_app_l; exact Hs).
    rewrite IHb by (eapply same_on_app_r; exact Hs). reflexivity.
  - rewrite IHa by (eapply same_on_app_l; exact Hs).
    rewrite IHb by (eapply same_on_app_r; exact Hs). reflexivity.
  - rewrite IHa by exact Hs. reflexivity.
Qed.

Lemma indist_spec CL c1 c2 :
  indist CL c1 c2 = true -> (c1 =? 10) = (c2 =? 10) /\ same_on CL c1 c2.
Proof.
  unfold indist. intros H. apply andb_prop in H as [H1 H2]. apply Bool.eqb_prop in H1.
  split; [exact H1|]. intros s Hs. rewrite forallb_forall in H2.
  apply Bool.eqb_prop. apply H2. exact Hs.
Qed.

Lemma classes_in_spec CL t : classes_in CL t = true -> forall s, In s (top_classes t) -> In s CL.
Proof.
  unfold classes_in. rewrite forallb_forall. intros H s Hs. specialize (H s Hs).
  apply existsb_exists in H as [s' [Hin He]]. apply cset_eqb_eq in He. subst. exact Hin.
Qed.

Lemma upto_spec n c : (N.to_nat c < n)%nat -> In c (upto n).
Proof.
  induction n as [|k IH]; intros H; [lia|]. cbn. apply in_or_app.
  destruct (Nat.eq_dec (N.to_nat c) k) as [E|E].
  - right. left. subst k. apply N2Nat.id.
  - left. apply IH. lia.
Qed.

Lemma all256_spec c : is_byte c = true -> In c all256.
Proof.
  unfold is_byte. intros H. apply N.ltb_lt in H. apply upto_spec. lia.
Qed.

Lemma mem_In c s : mem c s = true -> In c s.
Proof.
  unfold mem. intros H. apply existsb_exists in H as [x [Hin He]].
  apply N.eqb_eq in He. subst. exact Hin.
Qed.

Lemma in_combine_ex {A B} (l : list A) : forall (l' : list B) x,
  length l = length l' -> In x l -> exists y, In (x, y) (combine l l').
Proof.
  induction l as [|a l IH]; intros l' x Hlen Hin; [contradiction|].
  destruct l' as [|b l']; [discriminate|]. cbn in Hlen. inversion Hlen as [Hlen'].
  destruct Hin as [E|Hin].
  - subst. exists b. left; reflexivity.
  - destruct (IH l' x Hlen' Hin) as [y Hy]. exists y. right; exact Hy.
Qed.

Lemma build_map_find l : forall i j m0 q,
  PositiveMap.find i (build_map l j m0) = Some q -> In q l \/ PositiveMap.find i m0 = Some q.
Proof.
  induction l as [|x l IH]; intros i j m0 q H; cbn in H.
  - right; exact H.
  - destruct (IH _ _ _ _ H) as [Hin|Hf].
    + left. right. exact Hin.
    + destruct (Pos.eq_dec i j) as [E|E].
      * subst. rewrite PositiveMap.gss in Hf. inversion Hf. left. left. reflexivity.
      * rewrite PositiveMap.gso in Hf by exact E. right. exact Hf.
Qed.

Lemma wfind_In W i q :
  wfind (build_map W 1%positive (PositiveMap.empty state)) i = Some q -> In q W.
Proof.
  unfold wfind. intros H. destruct (build_map_find _ _ _ _ _ H) as [Hin|Hf]; [exact Hin|].
  rewrite PositiveMap.gempty in Hf. discriminate.
Qed.

(* ---- the derivative depends on the byte only through its front signature ---- *)
Lemma d_front pnl c1 c2 r :
  (c1 =? 10) = (c2 =? 10) -> same_on (front pnl (kind c1) r) c1 c2 -> d pnl c1 r = d pnl c2 r.
Proof.
  intros Hk. assert (Hkind : kind c1 = kind c2) by (unfold kind; rewrite Hk; reflexivity).
  induction r as [| | | |s|a IHa b IHb|a IHa b IHb|a IHa mn mx g]; intros Hs; cbn [d front] in *;
    try reflexivity.
  - rewrite (Hs s) by (left; reflexivity). reflexivity.
  - rewrite IHa by (eapply same_on_app_l; exact Hs). rewrite <- Hkind.
    destruct (nul pnl (kind c1) a); [|reflexivity].
    rewrite IHb by (eapply same_on_app_r; exact Hs). reflexivity.
  - rewrite IHa by (eapply same_on_app_l; exact Hs).
    rewrite IHb by (eapply same_on_app_r; exact Hs). reflexivity.
  - destruct mx as [[|k]|]; [reflexivity| |]; rewrite IHa by exact Hs; reflexivity.
Qed.

Lemma td_front pnl c1 c2 t :
  (c1 =? 10) = (c2 =? 10) -> same_on (tfront pnl (kind c1) t) c1 c2 -> td pnl c1 t = td pnl c2 t.
Proof.
  intros Hk. induction t as [r|a IHa b IHb|a IHa b IHb|a IHa]; intros Hs; rewrite ?td_and; cbn [td tfront] in *.
  - f_equal. apply d_front; assumption.
  - rewrite IHa by (eapply same_on_app_l; exact Hs).
    rewrite IHb by (eapply same_on_app_r; exact Hs). reflexivity.
  - rewrite IHa by (eapply same_on_app_l; exact Hs).
    rewrite IHb by (eapply same_on_app_r; exact Hs). reflexivity.
  - rewrite IHa by exact Hs. reflexivity.
Qed.

Lemma lbool_eqb_eq a : forall b, lbool_eqb a b = true -> a = b.
Proof.
  induction a as [|x a IH]; intros [|y b] H; cbn in H; try discriminate; [reflexivity|].
  apply andb_prop in H as [H1 H2]. apply Bool.eqb_prop in H1. subst. f_equal. auto.
Qed.

Lemma map_cmem_same fr c1 c2 : map (cmem c1) fr = map (cmem c2) fr -> same_on fr c1 c2.
Proof.
  induction fr as [|s fr IH]; intros H x Hx; [contradiction|]. cbn in H. inversion H as [[H1 H2]].
  destruct Hx as [E|Hx]; [subst; exact H1|]. apply IH; assumption.
Qed.

Lemma csig_step q c1 c2 :
  csig (qfront q c1) c1 = csig (qfront q c2) c2 -> step q c1 = step q c2.
Proof.
  unfold csig. intros H. inversion H as [[Hk Hm]].
  assert (Hkind : kind c1 = kind c2) by (unfold kind; rewrite Hk; reflexivity).
  unfold step. rewrite Hk. f_equal. apply td_front; [exact Hk|].
  unfold qfront in Hm. rewrite <- Hkind in Hm. apply map_cmem_same. exact Hm.
Qed.

Lemma assoc_sig_In sg memo j : assoc_sig sg memo = Some j -> In (sg, j) memo.
Proof.
  induction memo as [|[s i] memo IH]; cbn; [discriminate|].
  destruct (lbool_eqb s sg) eqn:E.
  - intros H. inversion H. subst. apply lbool_eqb_eq in E. subst. left. reflexivity.
  - intros H. right. apply IH. exact H.
Qed.

(* every atom of a checked row has its (representative's) successor in the map *)
Lemma row_chk_sound m q : forall atoms succ memo,
  (forall sg j, In (sg, j) memo -> exists c0, csig (qfront q c0) c0 = sg /\ wfind m j = Some (step q c0)) ->
  row_chk m q atoms succ memo = true ->
  forall a, In a atoms -> exists i, wfind m i = Some (step q (fst a)).
Proof.
  induction atoms as [|a0 atoms IH]; intros succ memo Hmemo H a Ha; [contradiction|].
  destruct succ as [|i succ]; [discriminate|]. cbn [row_chk] in H.
  destruct (assoc_sig (csig (qfront q (fst a0)) (fst a0)) memo) as [j|] eqn:Ea.
  - apply andb_prop in H as [Hij H]. apply Pos.eqb_eq in Hij. subst j.
    destruct Ha as [E|Ha].
    + subst a0. apply assoc_sig_In in Ea. destruct (Hmemo _ _ Ea) as [c0 [Hsig Hf]].
      exists i. rewrite Hf. f_equal. apply csig_step. exact Hsig.
    + exact (IH succ memo Hmemo H a Ha).
  - destruct (wfind m i) as [q'|] eqn:Ef; [|discriminate].
    apply andb_prop in H as [He H]. apply state_eqb_eq in He.
    destruct Ha as [E|Ha].
    + subst a0. exists i. rewrite Ef, He. reflexivity.
    + refine (IH succ _ _ H a Ha). intros sg j [E|Hin].
      * inversion E. subst. exists (fst a0). split; [reflexivity|]. exact Ef.
      * exact (Hmemo sg j Hin).
Qed.

(* ---- derivatives introduce no new character class ---- *)
Lemma mkCat_classes a : forall b, incl (re_classes (mkCat a b)) (re_classes a ++ re_classes b).
Proof.
  induction a as [| | | |s|a1 IH1 a2 IH2|a1 IH1 a2 IH2|a1 IH1 mn mx g]; intros b;
    destruct b; cbn [mkCat re_classes]; try (intros x Hx; (contradiction || exact Hx || (apply in_or_app; (left; exact Hx) || (right; exact Hx))));
    try (rewrite ?app_nil_r; apply incl_refl).
  all: try (intros x Hx; rewrite <- app_assoc; apply in_app_or in Hx as [Hx|Hx];
            [apply in_or_app; left; exact Hx|apply in_or_app; right; apply (IH2 _ x Hx)]).
Qed.

Lemma alts_classes r : incl (flat_map re_classes (alts r)) (re_classes r).
Proof.
  induction r as [| | | |s|a IHa b IHb|a IHa b IHb|a IHa mn mx g]; cbn [alts flat_map re_classes]; rewrite ?app_nil_r;
    try apply incl_refl; try (intros x []).
  rewrite flat_map_app. intros x Hx. apply in_app_or in Hx as [Hx|Hx]; apply in_or_app; [left; apply IHa|right; apply IHb]; exact Hx.
Qed.

Lemma ins_classes x l : incl (flat_map re_classes (ins x l)) (re_classes x ++ flat_map re_classes l).
Proof.
  induction l as [|y l IH]; cbn [ins flat_map]; [apply incl_refl|].
  destruct (re_cmp2 x y); cbn [flat_map].
  - intros z Hz. apply in_or_app. right. exact Hz.
  - apply incl_refl.
  - intros z Hz. apply in_app_or in Hz as [Hz|Hz].
    + apply in_or_app. right. apply in_or_app. left. exact Hz.
    + apply IH in Hz. apply in_app_or in Hz as [Hz|Hz]; apply in_or_app; [left; exact Hz|right; apply in_or_app; right; exact Hz].
Qed.

Lemma build_classes l : incl (re_classes (build l)) (flat_map re_classes l).
Proof.
  induction l as [|x l IH]; cbn [build flat_map]; [intros z []|].
  destruct l as [|y l']; [cbn [flat_map]; rewrite app_nil_r; apply incl_refl|].
  cbn [re_classes]. intros z Hz. apply in_app_or in Hz as [Hz|Hz]; apply in_or_app; [left; exact Hz|right; apply IH; exact Hz].
Qed.

Lemma fold_ins_classes l : incl (flat_map re_classes (fold_right ins [] l)) (flat_map re_classes l).
Proof.
  induction l as [|x l IH]; cbn [fold_right flat_map]; [apply incl_refl|].
  intros z Hz. apply ins_classes in Hz. apply in_app_or in Hz as [Hz|Hz]; apply in_or_app; [left; exact Hz|right; apply IH; exact Hz].
Qed.

Lemma mkAlt_classes a b : incl (re_classes (mkAlt a b)) (re_classes a ++ re_classes b).
Proof.
  unfold mkAlt. intros z Hz. apply build_classes in Hz. apply fold_ins_classes in Hz.
  rewrite flat_map_app in Hz. apply in_app_or in Hz as [Hz|Hz]; apply in_or_app; [left|right]; apply alts_classes; exact Hz.
Qed.

Lemma mkRep_classes a mn mx : incl (re_classes (mkRep a mn mx)) (re_classes a).
Proof. unfold mkRep. destruct mx as [[|k]|]; cbn [re_classes]; try apply incl_refl. intros z []. Qed.

Lemma d_classes pnl c r : incl (re_classes (d pnl c r)) (re_classes r).
Proof.
  induction r as [| | | |s|a IHa b IHb|a IHa b IHb|a IHa mn mx g]; cbn [d re_classes]; try (intros z []).
  - destruct (cmem c s); intros z [].
  - assert (H1 : incl (re_classes (mkCat (d pnl c a) b)) (re_classes a ++ re_classes b)).
    { intros z Hz. apply mkCat_classes in Hz. apply in_app_or in Hz as [Hz|Hz]; apply in_or_app; [left; apply IHa; exact Hz|right; exact Hz]. }
    destruct (nul pnl (kind c) a); [|exact H1].
    intros z Hz. apply mkAlt_classes in Hz. apply in_app_or in Hz as [Hz|Hz]; [apply H1; exact Hz|apply in_or_app; right; apply IHb; exact Hz].
  - intros z Hz. apply mkAlt_classes in Hz. apply in_app_or in Hz as [Hz|Hz]; apply in_or_app; [left; apply IHa|right; apply IHb]; exact Hz.
  - destruct mx as [[|k]|]; try (intros z []);
      intros z Hz; apply mkCat_classes in Hz; apply in_app_or in Hz as [Hz|Hz];
      try (apply IHa; exact Hz); apply mkRep_classes in Hz; exact Hz.
Qed.

Lemma td_classes pnl c t : incl (top_classes (td pnl c t)) (top_classes t).
Proof.
  induction t as [r|a IHa b IHb|a IHa b IHb|a IHa]; rewrite ?td_and; cbn [td top_classes].
  - apply d_classes.
  - unfold mkTAnd. destruct (is_dead (td pnl c a)); [intros z []|]. destruct (is_dead (td pnl c b)); [intros z []|].
    cbn [top_classes]. intros z Hz. apply in_app_or in Hz as [Hz|Hz]; apply in_or_app; [left; apply IHa|right; apply IHb]; exact Hz.
  - unfold mkTOr. destruct (is_dead (td pnl c a)).
    + intros z Hz. apply in_or_app. right. apply IHb. exact Hz.
    + destruct (is_dead (td pnl c b)).
      * intros z Hz. apply in_or_app. left. apply IHa. exact Hz.
      * cbn [top_classes]. intros z Hz. apply in_app_or in Hz as [Hz|Hz]; apply in_or_app; [left; apply IHa|right; apply IHb]; exact Hz.
  - exact IHa.
Qed.

Section Sound.
  Variables (CL : list cset) (atoms : list atom) (W : list state) (tr : list (list positive)).
  Hypothesis Hcert : closed_cert CL atoms W tr = true.

  Lemma cert_parts :
    atoms_ok CL atoms = true /\ length W = length tr /\
    forall q succ, In (q, succ) (combine W tr) ->
      row_ok CL atoms (build_map W 1%positive (PositiveMap.empty state)) q succ = true.
  Proof.
    unfold closed_cert in Hcert. cbv zeta in Hcert. apply andb_prop in Hcert as [H H3]. apply andb_prop in H as [H1 H2].
    split; [exact H1|]. split; [apply Nat.eqb_eq; exact H2|].
    intros q succ Hin. rewrite forallb_forall in H3. apply (H3 (q, succ)). exact Hin.
  Qed.

  Lemma in_W_row q : In q W -> exists succ, In (q, succ) (combine W tr).
  Proof.
    destruct cert_parts as (_ & Hlen & _). intros Hin. apply in_combine_ex; assumption.
  Qed.

  (* closure under every byte *)
  Lemma step_in_W q c : In q W -> incl (top_classes (snd q)) CL -> is_byte c = true ->
    In (step q c) W /\ accepting q = false /\ incl (top_classes (snd (step q c))) CL.
  Proof.
    intros Hq Hcls Hc. destruct cert_parts as (Hat & _ & Hrows).
    destruct (in_W_row q Hq) as [succ Hrow]. specialize (Hrows q succ Hrow).
    unfold row_ok in Hrows. apply andb_prop in Hrows as [Hacc Hsucc].
    split; [|split; [apply Bool.negb_true_iff; exact Hacc|]];
      [|unfold step; cbn [snd]; intros z Hz; apply Hcls; eapply td_classes; exact Hz].
    (* find the atom of c *)
    unfold atoms_ok in Hat. apply andb_prop in Hat as [Hind Hcov].
    rewrite forallb_forall in Hcov. specialize (Hcov c (all256_spec c Hc)).
    apply existsb_exists in Hcov as [a [Ha Hm]]. apply mem_In in Hm.
    rewrite forallb_forall in Hind. specialize (Hind a Ha). rewrite forallb_forall in Hind.
    specialize (Hind c Hm). apply indist_spec in Hind as [Hk Hsame].
    (* the successor recorded for that atom *)
    destruct (row_chk_sound _ q atoms succ [] (fun sg j (F : In (sg, j) []) => match F with end) Hsucc a Ha) as [i En].
    apply wfind_In in En.
    (* step q c = step q (rep a) *)
    assert (Es : step q c = step q (fst a)).
    { unfold step. rewrite <- Hk. f_equal. symmetry. apply td_indist; [exact Hk|].
      intros s Hs. apply Hsame. apply Hcls. exact Hs. }
    rewrite Es. exact En.
  Qed.

  Theorem closed_sound : forall s q, In q W -> incl (top_classes (snd q)) CL ->
    all_bytes s = true -> trun (fst q) (snd q) s = false.
  Proof.
    induction s as [|c s IH]; intros q Hq Hcls Hs.
    - cbn. destruct (step_in_W q 0 Hq Hcls eq_refl) as (_ & Hacc & _). exact Hacc.
    - cbn in Hs. apply andb_prop in Hs as [Hc Hs]. cbn [trun].
      destruct (step_in_W q c Hq Hcls Hc) as (Hin & _ & Hcls').
      exact (IH (step q c) Hin Hcls' Hs).
  Qed.
End Sound.

Theorem decide_empty_sound CL atoms fuel t0 :
  decide_empty CL atoms fuel t0 = true ->
  forall s, all_bytes s = true -> accepts t0 s = false.
Proof.
  unfold decide_empty. destruct (explore fuel atoms t0) as [W tr| |]; try discriminate.
  intros H s Hs. apply andb_prop in H as [H H0]. apply andb_prop in H as [Hc Hcl].
  destruct W as [|q0 W']; [discriminate|]. apply state_eqb_eq in H0.
  assert (Hcls : incl (top_classes (snd q0)) CL).
  { rewrite H0. cbn [snd]. intros z Hz. eapply classes_in_spec; [exact Hcl|exact Hz]. }
  pose proof (closed_sound CL atoms (q0 :: W') tr Hc s q0 (or_introl eq_refl) Hcls Hs) as Hr.
  rewrite H0 in Hr. exact Hr.
Qed.
