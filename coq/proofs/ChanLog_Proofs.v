(* ChanLog_Proofs.v — theorems about model/ChanLog.v (the channel log written by read()). *)
From Verif Require Import Bytes ChanLog.
From Coq Require Import Lia.

Lemma remove_byte_app : forall c a b, remove_byte c (a ++ b) = remove_byte c a ++ remove_byte c b.
Proof. intros. unfold remove_byte. apply filter_app. Qed.

Lemma remove_byte_concat : forall c l, remove_byte c (concat l) = concat (map (remove_byte c) l).
Proof.
  induction l as [|x l IH]; [reflexivity|]. cbn [concat map]. rewrite remove_byte_app, IH. reflexivity.
Qed.

Lemma remove_byte_absent : forall c s, ~ In c (remove_byte c s).
Proof.
  intros c s H. unfold remove_byte in H. apply filter_In in H. destruct H as [_ H].
  rewrite N.eqb_refl in H. discriminate.
Qed.

(* bytes other than c survive, in order: removing is the identity on a string without c *)
Lemma remove_byte_id : forall c s, ~ In c s -> remove_byte c s = s.
Proof.
  induction s as [|x s IH]; intro H; [reflexivity|]. cbn. destruct (x =? c) eqn:E.
  - apply N.eqb_eq in E. subst. exfalso. apply H. left. reflexivity.
  - cbn. f_equal. apply IH. intro Hin. apply H. right. exact Hin.
Qed.

Lemma chan_session_cons : forall strip lf sink c rest,
  chan_session strip lf sink (c :: rest) =
  let (o, s') := chan_read strip lf sink c in
  let (os, s'') := chan_session strip lf s' rest in (o :: os, s'').
Proof. reflexivity. Qed.

Lemma chan_session_sink : forall strip chunks s,
  snd (chan_session strip true (Some s) chunks) = Some (s ++ concat (map (remove_byte CR) chunks)).
Proof.
  induction chunks as [|c rest IH]; intro s.
  - cbn. rewrite app_nil_r. reflexivity.
  - rewrite chan_session_cons. unfold chan_read.
    match goal with |- context [let (_, _) := ?t in _] => destruct t as [os s''] eqn:E end.
    cbn [snd].
    assert (IH' : s'' = Some ((s ++ remove_byte CR c) ++ concat (map (remove_byte CR) rest))).
    { transitivity (snd (os, s'')); [reflexivity|]. rewrite <- E. apply IH. }
    rewrite IH'. cbn [map concat]. rewrite app_assoc. reflexivity.
Qed.

Lemma chan_session_nosink : forall strip lf chunks, snd (chan_session strip lf None chunks) = None.
Proof.
  induction chunks as [|c rest IH]; [reflexivity|]. rewrite chan_session_cons. unfold chan_read.
  match goal with |- context [let (_, _) := ?t in _] => destruct t as [os s''] eqn:E end.
  cbn [snd]. transitivity (snd (os, s'')); [reflexivity|]. rewrite <- E. apply IH.
Qed.

(* channel_log_exact: for EVERY sequence of transport reads, whatever the ANSI stripper does, the sink
   holds what it held when the channel was opened followed by exactly the bytes read, carriage
   returns removed, in order, once — read by read and as a whole *)
Theorem channel_log_exact : forall strip k existing chunks,
  chan_log strip k existing chunks =
  match open_sink k existing with
  | None => None
  | Some s0 => Some (s0 ++ remove_byte CR (concat chunks))
  end.
Proof.
  intros. unfold chan_log. destruct (open_sink k existing) as [s0|].
  - rewrite chan_session_sink, remove_byte_concat. reflexivity.
  - apply chan_session_nosink.
Qed.

Theorem channel_log_per_read : forall strip k existing chunks s0,
  open_sink k existing = Some s0 ->
  chan_log strip k existing chunks = Some (s0 ++ concat (map (remove_byte CR) chunks)).
Proof. intros. unfold chan_log. rewrite H. apply chan_session_sink. Qed.

(* what is appended contains no CR and is the identity on CR-free traffic *)
Theorem channel_log_no_cr : forall chunks, ~ In CR (remove_byte CR (concat chunks)).
Proof. intros. apply remove_byte_absent. Qed.
Theorem channel_log_identity_without_cr : forall chunks,
  ~ In CR (concat chunks) -> remove_byte CR (concat chunks) = concat chunks.
Proof. intros. apply remove_byte_id. exact H. Qed.

(* the log does not depend on how the traffic was cut into reads *)
Theorem channel_log_seg_independent : forall strip k existing c1 c2,
  concat c1 = concat c2 -> chan_log strip k existing c1 = chan_log strip k existing c2.
Proof. intros. rewrite !channel_log_exact, H. reflexivity. Qed.

(* a fresh write-mode file / an empty BytesIO hold the traffic and nothing else *)
Corollary channel_log_fresh : forall strip existing chunks,
  chan_log strip (SFile false) existing chunks = Some (remove_byte CR (concat chunks)).
Proof. intros. rewrite channel_log_exact. reflexivity. Qed.

Example channel_log_example :
  chan_log (fun b => remove_byte ESC b) (SFile true) [111] [[97; 13; 10]; [27; 91; 109]; []; [13; 98]]
  = Some [111; 97; 10; 27; 91; 109; 98].
Proof. vm_compute. reflexivity. Qed.

(* writing the log after ANSI stripping (what read() returns) would break the statement *)
Theorem log_after_strip_refuted :
  exists strip chunks,
    snd (chan_session strip false (Some []) chunks) <> Some (remove_byte CR (concat chunks)).
Proof.
  exists (fun b => remove_byte ESC b), [[27; 91; 109; 97]]. vm_compute. discriminate.
Qed.

(* ---- the whole session (Driver.open / AsyncDriver.open) ---- *)
Lemma sess_log_reads : forall strip k existing chunks sink,
  sess_log strip k existing sink (map EvRead chunks) = snd (chan_session strip true sink chunks).
Proof.
  induction chunks as [|c rest IH]; intro sink; [reflexivity|].
  cbn [map sess_log]. rewrite IH, chan_session_cons.
  destruct (chan_read strip true sink c) as [o s'] eqn:E. cbn [snd].
  destruct (chan_session strip true s' rest) as [os s''] eqn:E2. reflexivity.
Qed.

Lemma sess_log_app : forall strip k existing a b sink,
  sess_log strip k existing sink (a ++ b) = sess_log strip k existing (sess_log strip k existing sink a) b.
Proof.
  induction a as [|e a IH]; intros b sink; [reflexivity|].
  destruct e; cbn [app sess_log]; apply IH.
Qed.

(* channel.open() before the first read: the sink holds every byte of the session, login included *)
Theorem whole_session_exact : forall strip k existing sink0 chunks,
  sess_log strip k existing sink0 (EvOpen :: map EvRead chunks) =
  match open_sink k existing with
  | None => None
  | Some s0 => Some (s0 ++ remove_byte CR (concat chunks))
  end.
Proof.
  intros. cbn [sess_log]. rewrite sess_log_reads. apply channel_log_exact.
Qed.

(* ... and reads before channel.open() never reach it: the log is that of the later reads alone *)
Theorem late_open_loses : forall strip k existing pre post,
  sess_log strip k existing None (map EvRead pre ++ EvOpen :: map EvRead post) = chan_log strip k existing post.
Proof.
  intros. rewrite sess_log_app. cbn [sess_log]. rewrite sess_log_reads. reflexivity.
Qed.

Theorem late_open_refuted :
  exists pre post,
    sess_log (fun b => b) SBytesIO [] None (map EvRead pre ++ EvOpen :: map EvRead post)
    <> Some (remove_byte CR (concat (pre ++ post))).
Proof. exists [[85; 115; 101; 114; 58; 32]], [[35]]. vm_compute. discriminate. Qed.

Example whole_session_example :
  sess_log (fun b => b) (SFile false) [111] None (EvOpen :: map EvRead [[85; 58; 13; 10]; [80; 58]; [35]])
  = Some [85; 58; 10; 80; 58; 35].
Proof. vm_compute. reflexivity. Qed.

Example open_before_reads_examples :
  open_before_reads [1; 2; 3; 4; 5; 6; 7]%nat = true /\ open_before_reads [1; 2; 3; 5; 6; 7]%nat = true
  /\ open_before_reads [1; 2; 5; 3; 6; 7]%nat = false /\ open_before_reads [1; 2; 6; 7]%nat = false
  /\ open_before_reads [1; 2; 0; 3]%nat = false.
Proof. vm_compute. repeat split. Qed.
