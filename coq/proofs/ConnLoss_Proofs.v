(* ConnLoss_Proofs.v — theorems about coq/model/ConnLoss.v (C08).
   All statements are over an arbitrary configuration [c] that passes the computable check [cfg_ok]; props/C08.v
   instantiates them with the configuration generated from the source tree. *)
From Coq Require Import Lia.
From Verif Require Import Bytes ConnLoss.

Lemma cls_beq_eq : forall a b, cls_beq a b = true -> a = b.
Proof. exact internal_cls_dec_bl. Qed.

Lemma mem_cls_In : forall x l, mem_cls x l = true -> In x l.
Proof.
  intros x l H. unfold mem_cls in H. apply existsb_exists in H. destruct H as [y [Hy He]].
  apply cls_beq_eq in He. subst. exact Hy.
Qed.

Lemma all_transports_complete : forall tr, In tr all_transports.
Proof. destruct tr; simpl; auto 6. Qed.

Lemma is_timeout_eq : forall x, is_timeout x = true -> x = ETimeout.
Proof. intros x H. apply cls_beq_eq. exact H. Qed.

Ltac bsplit H :=
  repeat match type of H with
         | (_ && _) = true => let H1 := fresh "H" in apply andb_prop in H; destruct H as [H H1]
         end.

(* ================================================================================================ *)
Section WithCfg.
Variable c : cfg.
Hypothesis Hok : cfg_ok c = true.

Definition scr (x : cls) : Prop := scrapli c x = true.

Record tr_facts (tr : transport) : Prop := mkTF {
  tf_rguard : tc_read_guard (tcf c tr) = true;
  tf_wguard : tc_write_guard (tcf c tr) = true;
  tf_eofr : tc_eof_raises (tcf c tr) = true;
  tf_aeof : tc_alive_eof (tcf c tr) = true;
  tf_seteof : is_telnet tr = true -> tc_err_sets_eof (tcf c tr) = true;
  tf_read : forall x, In x (may_raise tr KRecv) ->
      flow_raised_scrapli c (chain c (tc_read_tbls (tcf c tr)) x) = true /\
      is_some (dispatch c (match tc_read_tbls (tcf c tr) with t :: _ => t | [] => [] end) x) = true;
  tf_read_timeout : flow_raised_scrapli c (chain c (tc_read_tbls (tcf c tr)) ETimeout) = true;
  tf_write : forall x, In x (may_raise tr KSend) ->
      flow_raised_scrapli c (chain c (tc_write_tbls (tcf c tr)) x) = true;
  tf_close : forall x, In x (may_raise tr KClose) ->
      flow_good c (chain c (tc_close_tbls (tcf c tr)) x) = true;
  tf_alive : forall x, In x (may_raise tr KProbe) ->
      flow_good c (chain c (tc_alive_tbls (tcf c tr)) x) = true;
  tf_open_len : length (tc_open_tbls (tcf c tr)) = length (open_kinds tr);
  tf_open : forall p, In p (combine (tc_open_tbls (tcf c tr)) (open_may_raise tr)) ->
      forall x, In x (snd p) -> flow_good c (chain c (fst p) x) = true
}.

Lemma ok_tr : forall tr, tr_facts tr.
Proof.
  intro tr. pose proof Hok as H. unfold cfg_ok in H.
  do 6 (apply andb_prop in H; destruct H as [H _]).
  rewrite forallb_forall in H. specialize (H tr (all_transports_complete tr)).
  unfold tr_ok in H.
  apply andb_prop in H; destruct H as [H Hopen].
  apply andb_prop in H; destruct H as [H Hlen].
  apply andb_prop in H; destruct H as [H Halive].
  apply andb_prop in H; destruct H as [H Hclose].
  apply andb_prop in H; destruct H as [H Hwrite].
  apply andb_prop in H; destruct H as [H Hrt].
  apply andb_prop in H; destruct H as [H Hread].
  apply andb_prop in H; destruct H as [H Hseteof].
  apply andb_prop in H; destruct H as [H Haeof].
  apply andb_prop in H; destruct H as [H Heofr].
  apply andb_prop in H; destruct H as [Hrg Hwg].
  constructor; auto.
  - intro Ht. rewrite Ht in Hseteof. simpl in Hseteof. exact Hseteof.
  - intros x Hx. rewrite forallb_forall in Hread. specialize (Hread x Hx).
    apply andb_prop in Hread. exact Hread.
  - intros x Hx. rewrite forallb_forall in Hwrite. auto.
  - intros x Hx. rewrite forallb_forall in Hclose. auto.
  - intros x Hx. rewrite forallb_forall in Halive. auto.
  - apply Nat.eqb_eq. exact Hlen.
  - intros p Hp x Hx. rewrite forallb_forall in Hopen. specialize (Hopen p Hp).
    rewrite forallb_forall in Hopen. auto.
Qed.

Ltac cfg_parts H :=
  pose proof Hok as H; unfold cfg_ok in H;
  let Hsl := fresh "Hsl" in let Hlg := fresh "Hlg" in let Hsh := fresh "Hsh" in let Hal := fresh "Hal" in
  let Hrw := fresh "Hrw" in let Hsc := fresh "Hsc" in
  apply andb_prop in H; destruct H as [H Hsl];
  apply andb_prop in H; destruct H as [H Hlg];
  apply andb_prop in H; destruct H as [H Hsh];
  apply andb_prop in H; destruct H as [H Hal];
  apply andb_prop in H; destruct H as [H Hrw];
  apply andb_prop in H; destruct H as [H Hsc].

Lemma ok_scr : forall x, In x scrapli_classes -> scr x.
Proof.
  intros x Hx. cfg_parts H. rewrite forallb_forall in Hsc. apply Hsc. exact Hx.
Qed.

Lemma scr_NotOpened : scr SNotOpened. Proof. apply ok_scr; simpl; auto. Qed.
Lemma scr_ConnError : scr SConnectionError. Proof. apply ok_scr; simpl; auto. Qed.
Lemma scr_AuthFailed : scr SAuthFailed. Proof. apply ok_scr; simpl; auto 6. Qed.
Lemma scr_Timeout : scr STimeout. Proof. apply ok_scr; simpl; auto 6. Qed.

Lemma ok_raw : forall x, In x raw_classes -> scrapli c x = false.
Proof.
  intros x Hx. cfg_parts H. rewrite forallb_forall in Hrw. specialize (Hrw x Hx).
  apply negb_true_iff in Hrw. exact Hrw.
Qed.

Lemma ok_sock_alive : forall x, In x os_family -> flow_good c (chain c (sock_alive_tbls c) x) = true.
Proof.
  intros x Hx. cfg_parts H. rewrite forallb_forall in Hal. auto.
Qed.

Lemma ok_sock_shutdown : forall x, In x os_family -> flow_good c (chain c (sock_shutdown_tbls c) x) = true.
Proof.
  intros x Hx. cfg_parts H. rewrite forallb_forall in Hsh. auto.
Qed.

Lemma ok_login : forall a x, In x scrapli_classes -> flow_good c (chain c (login_tbls c a) x) = true.
Proof.
  intros a x Hx. cfg_parts H. rewrite forallb_forall in Hlg.
  assert (Ha : In a [false; true]) by (destruct a; simpl; auto).
  specialize (Hlg a Ha). rewrite forallb_forall in Hlg. auto.
Qed.

Lemma ok_sleeps : login_async_sleeps c = true.
Proof. cfg_parts H. assumption. Qed.


(* ---------------------------------------------------------------------------------------------- *)
(* invariants *)
Definition inv (tr : transport) (st : tst) : Prop :=
  st_ok tr st = true /\ (is_telnet tr = true -> rlost st = true -> teof st = true).
Definition xgood (r : xres) : Prop := match r with XExc y => scr y | _ => True end.
Definition agood (r : ares) : Prop := match r with AExc y => scr y | _ => True end.
Definition ogood (o : option cls) : Prop := match o with Some y => scr y | None => True end.

Lemma flow_raised_inv : forall f, flow_raised_scrapli c f = true -> exists y, f = FRaised y /\ scr y.
Proof. intros [y| |] H; simpl in H; try discriminate. exists y. split; auto. Qed.

Lemma flow_good_inv : forall f, flow_good c f = true -> match f with FRaised y => scr y | _ => True end.
Proof. intros [y| |] H; simpl in *; auto. Qed.

Lemma inv_pdead : forall tr st, inv tr st -> inv tr (set_pdead st).
Proof. intros tr st [H1 H2]. split; auto. Qed.

Lemma inv_detach : forall tr st, inv tr st -> inv tr (detach st).
Proof. intros tr st [H1 H2]. split; auto. Qed.

Lemma env_ok_parts : forall tr e, env_ok tr e = true ->
  forallb (wev_ok tr) (sends e) = true /\ forallb (pev_ok tr) (probes e) = true /\
  forallb (cev_ok tr) (closes e) = true.
Proof.
  intros tr e H. unfold env_ok in H. apply andb_prop in H. destruct H as [H H3].
  apply andb_prop in H. destruct H as [H1 H2]. auto.
Qed.

Lemma env_ok_mk : forall tr ws ps cs,
  forallb (wev_ok tr) ws = true -> forallb (pev_ok tr) ps = true -> forallb (cev_ok tr) cs = true ->
  env_ok tr (mkEnv ws ps cs) = true.
Proof. intros. unfold env_ok. simpl. rewrite H, H0, H1. reflexivity. Qed.

Lemma pop_probe_ok : forall tr e p e', env_ok tr e = true -> pop_probe e = (p, e') ->
  pev_ok tr p = true /\ env_ok tr e' = true.
Proof.
  intros tr e p e' H Hp. destruct (env_ok_parts _ _ H) as [H1 [H2 H3]].
  unfold pop_probe in Hp. destruct (probes e) as [|q r] eqn:E.
  - inversion Hp; subst. split; auto.
  - inversion Hp; subst. simpl in H2. apply andb_prop in H2. destruct H2 as [Hq Hr].
    split; auto. apply env_ok_mk; auto.
Qed.

Lemma pop_send_ok : forall tr e w e', env_ok tr e = true -> pop_send e = (w, e') ->
  wev_ok tr w = true /\ env_ok tr e' = true.
Proof.
  intros tr e w e' H Hp. destruct (env_ok_parts _ _ H) as [H1 [H2 H3]].
  unfold pop_send in Hp. destruct (sends e) as [|q r] eqn:E.
  - inversion Hp; subst. split; auto.
  - inversion Hp; subst. simpl in H1. apply andb_prop in H1. destruct H1 as [Hq Hr].
    split; auto. apply env_ok_mk; auto.
Qed.

Lemma pop_close_ok : forall tr e v e', env_ok tr e = true -> pop_close e = (v, e') ->
  cev_ok tr v = true /\ env_ok tr e' = true.
Proof.
  intros tr e v e' H Hp. destruct (env_ok_parts _ _ H) as [H1 [H2 H3]].
  unfold pop_close in Hp. destruct (closes e) as [|q r] eqn:E.
  - inversion Hp; subst. split; auto.
  - inversion Hp; subst. simpl in H3. apply andb_prop in H3. destruct H3 as [Hq Hr].
    split; auto. apply env_ok_mk; auto.
Qed.

(* ---- probes ---- *)
Lemma probe_result_spec : forall ts p st r st' (L : list cls),
  (forall x, In x L -> flow_good c (chain c ts x) = true) ->
  match p with PRaise x => In x L | _ => True end ->
  probe_result c ts p st = (r, st') ->
  agood r /\ (r = ABool true -> st' = st) /\ (r <> ABool true -> st' = set_pdead st).
Proof.
  intros ts p st r st' L HL Hp H. unfold probe_result in H. destruct p as [| |x].
  - inversion H; subst. simpl. repeat split; auto. intro N. congruence.
  - inversion H; subst. simpl. repeat split; auto. intro N. discriminate.
  - specialize (HL x Hp). apply flow_good_inv in HL.
    destruct (chain c ts x) as [y| |]; inversion H; subst; simpl; repeat split; auto;
      intro N; discriminate.
Qed.

Lemma sock_probe_spec : forall st e r st' e',
  env_ok Telnet e = true \/ env_ok Paramiko e = true ->
  sock_probe c st e = (r, st', e') ->
  agood r /\ (env_ok Telnet e = true -> env_ok Telnet e' = true) /\
  (env_ok Paramiko e = true -> env_ok Paramiko e' = true) /\
  (r = ABool true -> st' = st /\ dead st = false) /\
  (r <> ABool true -> st' = set_pdead st).
Proof.
  intros st e r st' e' He H. unfold sock_probe in H.
  destruct (dead st) eqn:Ed.
  - destruct (probe_result c (sock_alive_tbls c) (PRaise EBrokenPipe) st) as [r0 st0] eqn:Ep.
    inversion H; subst. clear H.
    assert (HB : match PRaise EBrokenPipe with PRaise x => In x os_family | _ => True end)
      by (simpl; auto 8).
    pose proof (probe_result_spec (sock_alive_tbls c) (PRaise EBrokenPipe) st r st' os_family
                  ok_sock_alive HB Ep) as [Hg [H1 H2]].
    assert (Hnt : r <> ABool true).
    { intro Hr. subst. unfold probe_result in Ep.
      destruct (chain c (sock_alive_tbls c) EBrokenPipe); inversion Ep. }
    split; [exact Hg|]. split; [auto|]. split; [auto|]. split; [intro Hr; contradiction | exact H2].
  - destruct (pop_probe e) as [p e1] eqn:Epop.
    destruct (probe_result c (sock_alive_tbls c) p st) as [r0 st0] eqn:Ep.
    inversion H; subst. clear H.
    assert (HpL : match p with PRaise x => In x os_family | _ => True end).
    { destruct He as [He|He]; destruct (pop_probe_ok _ _ _ _ He Epop) as [Hp He1];
        destruct p as [| |x]; auto; unfold pev_ok in Hp; apply mem_cls_In in Hp; simpl in Hp; simpl; tauto. }
    pose proof (probe_result_spec _ _ _ _ _ os_family ok_sock_alive HpL Ep) as [Hg [H1 H2]].
    repeat split; auto.
    + intro He'. destruct (pop_probe_ok _ _ _ _ He' Epop); auto.
    + intro He'. destruct (pop_probe_ok _ _ _ _ He' Epop); auto.
Qed.

Lemma lib_probe_spec : forall tr st e r st' e',
  env_ok tr e = true -> tr <> Telnet ->
  lib_probe c tr st e = (r, st', e') ->
  agood r /\ env_ok tr e' = true /\ (r = ABool true -> st' = st /\ dead st = false) /\
  (r <> ABool true -> st' = set_pdead st).
Proof.
  intros tr st e r st' e' He Htr H. unfold lib_probe in H.
  destruct (dead st) eqn:Ed.
  - simpl in H. inversion H; subst. simpl.
    split; [exact I|]. split; [exact He|]. split; [intro N; discriminate | reflexivity].
  - destruct (pop_probe e) as [p e1] eqn:Epop.
    destruct (probe_result c (tc_alive_tbls (tcf c tr)) p st) as [r0 st0] eqn:Ep.
    inversion H; subst. clear H.
    destruct (pop_probe_ok _ _ _ _ He Epop) as [Hp He1].
    assert (HpL : match p with PRaise x => In x (may_raise tr KProbe) | _ => True end).
    { destruct p as [| |x]; auto. unfold pev_ok in Hp. apply mem_cls_In in Hp.
      destruct tr; try exact Hp. congruence. }
    pose proof (probe_result_spec _ _ _ _ _ (may_raise tr KProbe) (tf_alive _ (ok_tr tr)) HpL Ep)
      as [Hg [H1 H2]].
    repeat split; auto.
Qed.

(* ---- read ---- *)
Lemma st_ok_parts : forall tr st, st_ok tr st = true ->
  (forall x, lerr st = Some x -> In x (may_raise tr KRecv)) /\
  (forall x, werr st = Some x -> In x (may_raise tr KSend)).
Proof.
  intros tr st H. unfold st_ok in H. apply andb_prop in H. destruct H as [H1 H2]. split.
  - intros x Hx. rewrite Hx in H1. apply mem_cls_In. exact H1.
  - intros x Hx. rewrite Hx in H2. apply mem_cls_In. exact H2.
Qed.

Lemma mem_cls_refl_in : forall x l, In x l -> mem_cls x l = true.
Proof.
  intros x l H. unfold mem_cls. apply existsb_exists. exists x. split; auto.
  apply internal_cls_dec_lb. reflexivity.
Qed.

Lemma st_ok_mk : forall tr st,
  (forall x, lerr st = Some x -> In x (may_raise tr KRecv)) ->
  (forall x, werr st = Some x -> In x (may_raise tr KSend)) -> st_ok tr st = true.
Proof.
  intros tr st H1 H2. unfold st_ok. apply andb_true_intro. split.
  - destruct (lerr st) as [x|]; auto. apply mem_cls_refl_in. auto.
  - destruct (werr st) as [x|]; auto. apply mem_cls_refl_in. auto.
Qed.

Lemma eof_in_system : In EEOFError (may_raise System KRecv).
Proof. simpl. auto. Qed.

Lemma read_chain : forall tr x, In x (may_raise tr KRecv) ->
  exists y, chain c (tc_read_tbls (tcf c tr)) x = FRaised y /\ scr y.
Proof. intros tr x H. apply flow_raised_inv. apply (tf_read _ (ok_tr tr)). exact H. Qed.

Lemma read_dispatch : forall tr x, In x (may_raise tr KRecv) ->
  exists a, dispatch c (match tc_read_tbls (tcf c tr) with t :: _ => t | [] => [] end) x = Some a.
Proof.
  intros tr x H. destruct (tf_read _ (ok_tr tr) x H) as [_ H2].
  destruct (dispatch c _ x) as [a|]; try discriminate. exists a. reflexivity.
Qed.

Definition same_w (st st' : tst) : Prop :=
  attached st' = attached st /\ werr st' = werr st /\ pdead st' = pdead st.

Lemma t_read_ev_spec : forall tr st v r st',
  st_ok tr st = true -> rev_ok tr v = true -> t_read_ev c tr st v = (r, st') ->
  same_w st st' /\ st_ok tr st' = true /\
  match v with
  | RData b => r = XBytes b /\ leof st' = leof st /\ lerr st' = lerr st
  | REmpty => leof st' = true /\ lerr st' = lerr st /\ (is_telnet tr = true -> teof st' = true) /\
              match tr with Asyncssh => r = XBytes [] | _ => exists y, r = XExc y /\ scr y end
  | RRaise x => (exists y, r = XExc y /\ scr y) /\ (leof st = true -> leof st' = true) /\
                (is_timeout x = false -> rlost st' = true) /\
                (is_timeout x = true -> leof st' = leof st /\ lerr st' = lerr st) /\
                (is_some (lerr st) = true -> is_some (lerr st') = true) /\
                (is_telnet tr = true -> teof st' = true)
  | RBlock => st' = st /\ match tr with Paramiko => exists y, r = XExc y /\ scr y | _ => r = XBlock end
  end.
Proof.
  intros tr st v r st' Hst Hv H.
  destruct (st_ok_parts _ _ Hst) as [Hl Hw].
  destruct v as [b| |x|].
  - (* data *) unfold t_read_ev in H. inversion H; subst. clear H.
    destruct (is_telnet tr); simpl; repeat split; auto.
  - (* empty *)
    unfold t_read_ev in H.
    set (st1 := mkT (attached st) (if is_telnet tr then true else teof st) true (lerr st) (werr st) (pdead st)) in *.
    assert (Hst1 : st_ok tr st1 = true) by (apply st_ok_mk; simpl; auto).
    assert (Ht1 : is_telnet tr = true -> teof st1 = true) by (intro E; simpl; rewrite E; reflexivity).
    destruct tr.
    + rewrite (tf_eofr _ (ok_tr Telnet)) in H. inversion H; subst.
      repeat split; auto. exists SConnectionError. split; auto. apply scr_ConnError.
    + rewrite (tf_eofr _ (ok_tr ATelnet)) in H. inversion H; subst.
      repeat split; auto. exists SConnectionError. split; auto. apply scr_ConnError.
    + destruct (read_chain System EEOFError eof_in_system) as [y [Hy Hs]].
      rewrite Hy in H. inversion H; subst. repeat split; auto. exists y. auto.
    + rewrite (tf_eofr _ (ok_tr Paramiko)) in H. inversion H; subst.
      repeat split; auto. exists SConnectionError. split; auto. apply scr_ConnError.
    + inversion H; subst. repeat split; auto.
  - (* raise *)
    assert (Hx : In x (may_raise tr KRecv)) by (apply mem_cls_In; exact Hv).
    destruct (read_chain tr x Hx) as [y [Hy Hs]].
    destruct (read_dispatch tr x Hx) as [a Ha].
    unfold t_read_ev in H. rewrite Ha, Hy in H.
    set (eofx := match tr with System => cls_beq x EEOFError | _ => false end) in *.
    set (st1 := mkT (attached st) (teof st) (leof st || eofx)
                    (if negb (is_timeout x) && negb eofx then Some x else lerr st) (werr st) (pdead st)) in *.
    assert (Hst1 : st_ok tr st1 = true).
    { apply st_ok_mk; simpl; auto. intros z Hz.
      destruct (negb (is_timeout x) && negb eofx); auto. inversion Hz; subst. exact Hx. }
    assert (Hst' : st' = if is_telnet tr && tc_err_sets_eof (tcf c tr) then set_teof true st1 else st1)
      by (inversion H; reflexivity).
    assert (Hr : r = XExc y) by (inversion H; reflexivity). clear H.
    assert (Hsame : same_w st st' /\ st_ok tr st' = true /\ leof st' = leof st1 /\ lerr st' = lerr st1).
    { subst st'. destruct (is_telnet tr && tc_err_sets_eof (tcf c tr)); unfold same_w; simpl; repeat split; auto. }
    destruct Hsame as [Hsw [Hok' [Hle Hlr]]].
    split; [exact Hsw|]. split; [exact Hok'|].
    split; [exists y; auto|].
    split; [intro E; rewrite Hle; simpl; rewrite E; reflexivity|].
    split.
    { intro Et. unfold rlost. rewrite Hle, Hlr. simpl. rewrite Et. simpl.
      destruct eofx; simpl; [rewrite orb_true_r; reflexivity | apply orb_true_r]. }
    split.
    { intro Et. rewrite Hle, Hlr. simpl. rewrite Et. simpl.
      assert (eofx = false).
      { subst eofx. destruct tr; auto. apply is_timeout_eq in Et. subst. reflexivity. }
      rewrite H. rewrite orb_false_r. auto. }
    split.
    { intro E. rewrite Hlr. simpl. destruct (negb (is_timeout x) && negb eofx); auto. }
    intro Et. subst st'. rewrite Et. rewrite (tf_seteof _ (ok_tr tr) Et). reflexivity.
  - (* block *)
    unfold t_read_ev in H. destruct tr; try (inversion H; subst; split; [split|]; auto; fail).
    destruct (flow_raised_inv _ (tf_read_timeout _ (ok_tr Paramiko))) as [y [Hy Hs]].
    rewrite Hy in H. inversion H; subst. unfold same_w. repeat split; auto. exists y. auto.
Qed.

Lemma rlost_of : forall st st', leof st' = leof st -> lerr st' = lerr st -> rlost st' = rlost st.
Proof. intros st st' H1 H2. unfold rlost. rewrite H1, H2. reflexivity. Qed.

(* what one low-level read event yields, after the transport's handling *)
Definition step_post (tr : transport) (st : tst) (v : rev) (r : xres) (st' : tst) : Prop :=
  xgood r /\ inv tr st' /\ attached st' = attached st /\
  (leof st = true -> leof st' = true) /\ (is_some (lerr st) = true -> is_some (lerr st') = true) /\
  (is_some (werr st) = true -> is_some (werr st') = true) /\ (pdead st = true -> pdead st' = true) /\
  (forall b, r = XBytes b -> werr st' = werr st /\ pdead st' = pdead st /\
        match v with RData b' => b = b' /\ rlost st' = rlost st | _ => b = [] end) /\
  match v with
  | REmpty => rlost st' = true /\ (tr <> Asyncssh -> exists y, r = XExc y)
  | RRaise x => (exists y, r = XExc y) /\ (is_timeout x = false -> rlost st' = true)
  | RBlock => (r = XBlock \/ exists y, r = XExc y) /\ rlost st' = rlost st /\ werr st' = werr st /\ pdead st' = pdead st
  | RData _ => True
  end.

Lemma ev_to_post : forall tr st v r st',
  inv tr st -> rev_ok tr v = true -> (match v with RData _ => rlost st = false | _ => True end) ->
  t_read_ev c tr st v = (r, st') -> step_post tr st v r st'.
Proof.
  intros tr st v r st' [Hst Hinv] Hv Hd H.
  destruct (t_read_ev_spec _ _ _ _ _ Hst Hv H) as [[Ha [Hw Hp]] [Hok' Hm]].
  unfold step_post. destruct v as [b| |x|].
  - destruct Hm as [Hr [Hle Hlr]]. subst r.
    assert (Hrl : rlost st' = rlost st) by (apply rlost_of; auto).
    split; [exact I|]. split.
    { split; auto. intros _ Hrl'. rewrite Hrl, Hd in Hrl'. discriminate. }
    split; [exact Ha|]. split; [rewrite Hle; auto|]. split; [rewrite Hlr; auto|].
    split; [rewrite Hw; auto|]. split; [rewrite Hp; auto|].
    split; [|exact I]. intros b0 Hb. inversion Hb; subst. auto.
  - destruct Hm as [Hle [Hlr [Ht Hr]]].
    assert (Hrl : rlost st' = true) by (unfold rlost; rewrite Hle; reflexivity).
    assert (Hg : xgood r).
    { destruct tr; try (destruct Hr as [y [Hr Hs]]; subst r; exact Hs); subst r; exact I. }
    split; [exact Hg|]. split; [split; auto|].
    split; [exact Ha|]. split; [auto|]. split; [rewrite Hlr; auto|].
    split; [rewrite Hw; auto|]. split; [rewrite Hp; auto|].
    split.
    { intros b0 Hb. split; [auto|]. split; [auto|].
      destruct tr; try (destruct Hr as [y [Hr _]]; subst r; discriminate).
      subst r. inversion Hb. reflexivity. }
    split; [exact Hrl|]. intro Hn. destruct tr; try (destruct Hr as [y [Hr _]]; exists y; exact Hr).
    congruence.
  - destruct Hm as [[y [Hr Hs]] [Hle [Hnt [Hto [Hlr Ht]]]]]. subst r.
    split; [exact Hs|]. split; [split; auto|].
    split; [exact Ha|]. split; [auto|]. split; [auto|].
    split; [rewrite Hw; auto|]. split; [rewrite Hp; auto|].
    split; [intros b0 Hb; discriminate|].
    split; [exists y; reflexivity | exact Hnt].
  - destruct Hm as [Hs Hr]. subst st'.
    assert (Hg : xgood r).
    { destruct tr; try (subst r; exact I). destruct Hr as [y [Hr Hs]]. subst r. exact Hs. }
    split; [exact Hg|]. split; [split; auto|].
    split; [reflexivity|]. split; [auto|]. split; [auto|]. split; [auto|]. split; [auto|].
    split.
    { intros b0 Hb. destruct tr; try (subst r; discriminate). destruct Hr as [y [Hr _]]. subst r. discriminate. }
    split; [|auto].
    destruct tr; try (left; exact Hr). right. destruct Hr as [y [Hr _]]. exists y. exact Hr.
Qed.

Lemma t_read_step_spec : forall tr st e v r st' e',
  inv tr st -> env_ok tr e = true -> rev_ok tr v = true ->
  (match v with RData _ => rlost st = false | _ => True end) ->
  t_read_step c tr st e v = (r, st', e') ->
  step_post tr st v r st' /\ env_ok tr e' = true.
Proof.
  intros tr st e v r st' e' Hinv He Hv Hd H. unfold t_read_step in H.
  destruct (t_read_ev c tr st v) as [r0 st1] eqn:Eev.
  pose proof (ev_to_post _ _ _ _ _ Hinv Hv Hd Eev) as Hpost.
  assert (Hplain : (r, st', e') = (r0, st1, e) -> step_post tr st v r st' /\ env_ok tr e' = true).
  { intro E. inversion E; subst. auto. }
  destruct tr; try (apply Hplain; symmetry; destruct v; exact H).
  destruct v as [b| |x|]; try (apply Hplain; symmetry; exact H).
  - (* telnet, data: the Socket truth value after _read() *)
    destruct (sock_probe c st1 e) as [[a st2] e2] eqn:Ep.
    destruct (sock_probe_spec _ _ _ _ _ (or_introl He) Ep) as [Hag [He2 [_ [Ht Hf]]]].
    destruct Hpost as [Hg [Hi [Hat [Hle [Hlr [Hwe [Hpd [Hb Hm]]]]]]]].
    destruct a as [[|]|y].
    + destruct (Ht eq_refl) as [Es _]. subst st2. inversion H; subst.
      split; [|auto]. unfold step_post. repeat split; auto; try apply Hi.
      * apply (Hb b0 H0). * apply (Hb b0 H0). * apply (Hb b0 H0). * apply (Hb b0 H0).
    + assert (Es : st2 = set_pdead st1) by (apply Hf; discriminate). subst st2. inversion H; subst.
      split; [|auto]. unfold step_post.
      split; [apply scr_NotOpened|]. split; [apply inv_pdead; exact Hi|].
      split; [exact Hat|]. split; [exact Hle|]. split; [exact Hlr|]. split; [exact Hwe|].
      split; [intros; reflexivity|]. split; [intros b0 Hb0; discriminate | exact I].
    + assert (Es : st2 = set_pdead st1) by (apply Hf; discriminate). subst st2. inversion H; subst.
      split; [|auto]. unfold step_post.
      split; [exact Hag|]. split; [apply inv_pdead; exact Hi|].
      split; [exact Hat|]. split; [exact Hle|]. split; [exact Hlr|]. split; [exact Hwe|].
      split; [intros; reflexivity|]. split; [intros b0 Hb0; discriminate | exact I].
  - (* telnet, empty read *)
    destruct (sock_probe c st1 e) as [[a st2] e2] eqn:Ep.
    destruct (sock_probe_spec _ _ _ _ _ (or_introl He) Ep) as [Hag [He2 [_ [Ht Hf]]]].
    destruct Hpost as [Hg [Hi [Hat [Hle [Hlr [Hwe [Hpd [Hb [Hrl Hex]]]]]]]]].
    destruct a as [[|]|y].
    + destruct (Ht eq_refl) as [Es _]. subst st2. inversion H; subst.
      split; [|auto]. unfold step_post. repeat split; auto; try apply Hi; try apply (Hb b H0).
    + assert (Es : st2 = set_pdead st1) by (apply Hf; discriminate). subst st2. inversion H; subst.
      split; [|auto]. unfold step_post.
      split; [apply scr_NotOpened|]. split; [apply inv_pdead; exact Hi|].
      split; [exact Hat|]. split; [exact Hle|]. split; [exact Hlr|]. split; [exact Hwe|].
      split; [intros; reflexivity|]. split; [intros b0 Hb0; discriminate |].
      split; [exact Hrl | intros _; exists SNotOpened; reflexivity].
    + assert (Es : st2 = set_pdead st1) by (apply Hf; discriminate). subst st2. inversion H; subst.
      split; [|auto]. unfold step_post.
      split; [exact Hag|]. split; [apply inv_pdead; exact Hi|].
      split; [exact Hat|]. split; [exact Hle|]. split; [exact Hlr|]. split; [exact Hwe|].
      split; [intros; reflexivity|]. split; [intros b0 Hb0; discriminate |].
      split; [exact Hrl | intros _; exists y; reflexivity].
Qed.

(* a later state of the same connection: losses are never undone, a detached transport stays detached *)
Definition mono (st st' : tst) : Prop :=
  (leof st = true -> leof st' = true) /\ (is_some (lerr st) = true -> is_some (lerr st') = true) /\
  (is_some (werr st) = true -> is_some (werr st') = true) /\ (pdead st = true -> pdead st' = true) /\
  (attached st' = true -> attached st = true).

Lemma mono_refl : forall st, mono st st.
Proof. intro st. unfold mono. auto. Qed.

Lemma mono_trans : forall a b d, mono a b -> mono b d -> mono a d.
Proof. unfold mono. intros a b d [A1 [A2 [A3 [A4 A5]]]] [B1 [B2 [B3 [B4 B5]]]]. auto 10. Qed.

Lemma mono_pdead : forall st, mono st (set_pdead st).
Proof. intro st. unfold mono. simpl. auto. Qed.

Lemma mono_detach : forall st, mono st (detach st).
Proof. intro st. unfold mono. simpl. repeat split; auto. intro; discriminate. Qed.

Lemma mono_lost : forall st st', mono st st' -> lost st = true -> lost st' = true.
Proof.
  intros st st' [M1 [M2 [M3 [M4 _]]]] H. unfold lost, rlost, wlost in *.
  apply orb_true_iff in H. destruct H as [H|H]; apply orb_true_iff in H; destruct H as [H|H].
  - rewrite (M1 H). reflexivity.
  - rewrite (M2 H). rewrite orb_true_r. reflexivity.
  - rewrite (M3 H). simpl. apply orb_true_r.
  - rewrite (M4 H). rewrite !orb_true_r. reflexivity.
Qed.

Lemma mono_rlost : forall st st', mono st st' -> rlost st = true -> rlost st' = true.
Proof.
  intros st st' [M1 [M2 _]] H. unfold rlost in *. apply orb_true_iff in H. destruct H as [H|H].
  - rewrite (M1 H). reflexivity.
  - rewrite (M2 H). apply orb_true_r.
Qed.

Lemma step_post_mono : forall tr st v r st', step_post tr st v r st' -> mono st st'.
Proof.
  intros tr st v r st' [_ [_ [Ha [H1 [H2 [H3 [H4 _]]]]]]]. unfold mono. repeat split; auto.
  intro E. rewrite <- Ha. exact E.
Qed.

Definition is_exc (r : xres) : Prop := exists y, r = XExc y /\ scr y.

Lemma t_read_pre_spec : forall tr st e, inv tr st -> env_ok tr e = true ->
  match t_read_pre c tr st e with
  | PreGo st1 e1 => st1 = st /\ env_ok tr e1 = true /\ rlost st = false /\ attached st = true
  | PreStop r st1 e1 =>
      is_exc r /\ inv tr st1 /\ env_ok tr e1 = true /\ attached st1 = attached st /\ mono st st1 /\
      (attached st = false -> r = XExc SNotOpened /\ st1 = st) /\
      (rlost st = true -> rlost st1 = true)
  end.
Proof.
  intros tr st e Hinv He. unfold t_read_pre.
  destruct (attached st) eqn:Eat; simpl.
  2:{ rewrite (tf_rguard _ (ok_tr tr)). split; [exists SNotOpened; split; [reflexivity | apply scr_NotOpened]|].
      repeat split; auto; try apply Hinv; try apply mono_refl. }
  (* the sync telnet Socket truth value *)
  assert (Hprobe : forall ok st0 e1,
     (match tr with Telnet => sock_probe c st e | _ => (ABool true, st, e) end) = (ok, st0, e1) ->
     agood ok /\ env_ok tr e1 = true /\ (ok = ABool true -> st0 = st) /\ (ok <> ABool true -> st0 = set_pdead st)).
  { intros ok st0 e1 E. destruct tr; try (inversion E; subst; repeat split; auto; intro N; congruence).
    destruct (sock_probe_spec _ _ _ _ _ (or_introl He) E) as [Hg [He1 [_ [Ht Hf]]]].
    repeat split; auto. intro N. apply Ht. exact N. }
  destruct (match tr with Telnet => sock_probe c st e | _ => (ABool true, st, e) end) as [[ok st0] e1] eqn:Ep.
  destruct (Hprobe _ _ _ eq_refl) as [Hg [He1 [Ht Hf]]]. clear Hprobe.
  destruct ok as [[|]|y].
  - specialize (Ht eq_refl). subst st0.
    destruct Hinv as [Hst Htel].
    destruct (is_telnet tr && teof st) eqn:Etel.
    { rewrite (tf_eofr _ (ok_tr tr)).
      split; [exists SConnectionError; split; [reflexivity | apply scr_ConnError]|].
      repeat split; auto; try apply mono_refl; try (intros; congruence). }
    destruct (match tr with Asyncssh => leof st | _ => false end) eqn:Eas.
    { rewrite (tf_eofr _ (ok_tr tr)).
      split; [exists SConnectionError; split; [reflexivity | apply scr_ConnError]|].
      repeat split; auto; try apply mono_refl; try (intros; congruence). }
    destruct (leof st) eqn:Ele.
    { destruct (t_read_step c tr st e1 REmpty) as [[r st'] e2] eqn:Es.
      destruct (t_read_step_spec tr st e1 REmpty r st' e2 (conj Hst Htel) He1 eq_refl I Es) as [Hp He2].
      pose proof (step_post_mono _ _ _ _ _ Hp) as Hm.
      destruct Hp as [Hgr [Hi [Hat [_ [_ [_ [_ [_ [Hrl Hex]]]]]]]]].
      assert (Hna : tr <> Asyncssh) by (intro; subst; discriminate).
      destruct (Hex Hna) as [y Hy]. subst r.
      split; [exists y; split; [reflexivity | exact Hgr]|].
      repeat split; auto; try apply Hi; try apply Hm; try (rewrite Hat; exact Eat); try (intros; congruence). }
    destruct (lerr st) as [x|] eqn:Elr.
    { destruct (t_read_step c tr st e1 (RRaise x)) as [[r st'] e2] eqn:Es.
      assert (Hx : rev_ok tr (RRaise x) = true).
      { simpl. apply mem_cls_refl_in. apply (proj1 (st_ok_parts _ _ Hst)). exact Elr. }
      destruct (t_read_step_spec _ _ _ _ _ _ _ (conj Hst Htel) He1 Hx I Es) as [Hp He2].
      pose proof (step_post_mono _ _ _ _ _ Hp) as Hm.
      destruct Hp as [Hgr [Hi [Hat [_ [Hl2 [_ [_ [_ [[y Hy] _]]]]]]]]]. subst r.
      split; [exists y; split; [reflexivity | exact Hgr]|].
      repeat split; auto; try apply Hi; try apply Hm; try (rewrite Hat; exact Eat); try (intros; congruence).
      intros _. unfold rlost. rewrite Hl2. apply orb_true_r. rewrite Elr. reflexivity. }
    repeat split; auto. unfold rlost. rewrite Ele, Elr. reflexivity.
  - assert (Es : st0 = set_pdead st) by (apply Hf; discriminate). subst st0.
    split; [exists SNotOpened; split; [reflexivity | apply scr_NotOpened]|].
    repeat split; auto; try (apply inv_pdead; exact Hinv); try apply mono_pdead; try (intros; congruence).
  - assert (Es : st0 = set_pdead st) by (apply Hf; discriminate). subst st0.
    split; [exists y; split; [reflexivity | exact Hg]|].
    repeat split; auto; try (apply inv_pdead; exact Hinv); try apply mono_pdead; try (intros; congruence).
Qed.

(* ---- write ---- *)
Lemma t_write_spec : forall tr st e o st' e',
  inv tr st -> env_ok tr e = true -> t_write c tr st e = (o, st', e') ->
  ogood o /\ inv tr st' /\ env_ok tr e' = true /\ mono st st' /\ attached st' = attached st /\
  leof st' = leof st /\ lerr st' = lerr st /\ teof st' = teof st /\ pdead st' = pdead st /\
  (o = None -> st' = st) /\ (attached st = false -> o = Some SNotOpened /\ st' = st) /\
  (is_some (werr st) = true -> o <> None).
Proof.
  intros tr st e o st' e' Hinv He H. unfold t_write in H.
  destruct (attached st) eqn:Eat; simpl in H.
  2:{ rewrite (tf_wguard _ (ok_tr tr)) in H. inversion H; subst.
      split; [apply scr_NotOpened|]. repeat split; auto; try apply Hinv; try (intros; congruence). }
  destruct Hinv as [Hst Htel]. destruct (st_ok_parts _ _ Hst) as [Hl Hw].
  assert (Hcase : exists w e1, (match werr st with Some x => (WRaise x, e) | None => pop_send e end) = (w, e1)
                   /\ wev_ok tr w = true /\ env_ok tr e1 = true /\ (is_some (werr st) = true -> w <> WOk)).
  { destruct (werr st) as [x|] eqn:Ew.
    - exists (WRaise x), e. repeat split; auto. unfold wev_ok. apply mem_cls_refl_in. apply Hw. reflexivity.
      intros _ N. discriminate.
    - destruct (pop_send e) as [w e1] eqn:Ep. exists w, e1.
      destruct (pop_send_ok _ _ _ _ He Ep). repeat split; auto. intro N. discriminate. }
  destruct Hcase as [w [e1 [Ec [Hwok [He1 Hnz]]]]]. rewrite Ec in H.
  destruct w as [|x].
  - inversion H; subst. split; [exact I|]. repeat split; auto; try (intros; congruence).
    intro N. exfalso. apply (Hnz N). reflexivity.
  - assert (Hx : In x (may_raise tr KSend)) by (apply mem_cls_In; exact Hwok).
    destruct (flow_raised_inv _ (tf_write _ (ok_tr tr) x Hx)) as [y [Hy Hs]]. rewrite Hy in H.
    inversion H; subst. clear H. split; [exact Hs|].
    destruct (is_timeout x) eqn:Et.
    + repeat split; auto; try (intros; congruence).
    + split.
      { split. apply st_ok_mk; simpl; auto. intros z Hz. inversion Hz; subst. exact Hx. exact Htel. }
      repeat split; simpl; auto; try (intros; congruence).
Qed.

(* ---- isalive ---- *)
Lemma dead_of_alost : forall tr st, alost tr st = true -> leof st = false -> dead st = true \/ tr = ATelnet.
Proof.
  intros tr st H Hl. unfold alost, rlost, wlost in H. rewrite Hl in H. simpl in H. unfold dead.
  destruct (is_some (lerr st)); simpl in *; auto.
  destruct tr; auto; left; exact H.
Qed.

Lemma t_isalive_spec : forall tr st e r st' e',
  inv tr st -> env_ok tr e = true -> t_isalive c tr st e = (r, st', e') ->
  agood r /\ inv tr st' /\ env_ok tr e' = true /\ (st' = st \/ st' = set_pdead st) /\
  (attached st = false -> r = ABool false) /\ (alost tr st = true -> r <> ABool true).
Proof.
  intros tr st e r st' e' Hinv He H. unfold t_isalive in H.
  destruct (attached st) eqn:Eat; simpl in H.
  2:{ inversion H; subst. repeat split; auto; try apply Hinv. intros _ N. discriminate. }
  pose proof (tf_aeof _ (ok_tr tr)) as Hae.
  destruct tr.
  - (* telnet: two socket probes, then _eof *)
    destruct (sock_probe c st e) as [[a1 st1] e1] eqn:E1.
    destruct (sock_probe_spec _ _ _ _ _ (or_introl He) E1) as [Hg1 [He1 [_ [Ht1 Hf1]]]].
    destruct a1 as [[|]|y].
    + destruct (Ht1 eq_refl) as [Es Hd1]. subst st1.
      destruct (sock_probe c st e1) as [[a2 st2] e2] eqn:E2.
      destruct (sock_probe_spec _ _ _ _ _ (or_introl (He1 He)) E2) as [Hg2 [He2 [_ [Ht2 Hf2]]]].
      destruct a2 as [[|]|y].
      * destruct (Ht2 eq_refl) as [Es _]. subst st2. inversion H; subst. rewrite Hae. simpl.
        repeat split; auto; try apply Hinv; try (intros; congruence).
        intros Hal N. destruct (leof st') eqn:El.
        -- destruct Hinv as [_ Ht]. rewrite Ht in N; [discriminate | reflexivity | unfold rlost; rewrite El; reflexivity].
        -- destruct (dead_of_alost _ _ Hal El); congruence.
      * assert (Es : st2 = set_pdead st) by (apply Hf2; discriminate). subst st2. inversion H; subst.
        repeat split; auto; try (apply inv_pdead; exact Hinv); try (intros; congruence).
      * assert (Es : st2 = set_pdead st) by (apply Hf2; discriminate). subst st2. inversion H; subst.
        repeat split; auto; try (apply inv_pdead; exact Hinv); try (intros; congruence).
    + assert (Es : st1 = set_pdead st) by (apply Hf1; discriminate). subst st1. inversion H; subst.
      repeat split; auto; try (apply inv_pdead; exact Hinv); try (intros; congruence).
    + assert (Es : st1 = set_pdead st) by (apply Hf1; discriminate). subst st1. inversion H; subst.
      repeat split; auto; try (apply inv_pdead; exact Hinv); try (intros; congruence).
  - (* asynctelnet *)
    inversion H; subst. rewrite Hae. simpl. repeat split; auto; try apply Hinv; try (intros; congruence).
    intros Hal N. unfold alost in Hal. rewrite orb_false_r in Hal.
    destruct Hinv as [_ Ht]. rewrite (Ht eq_refl Hal) in N. simpl in N. discriminate.
  - (* system *)
    destruct (lib_probe c System st e) as [[a st1] e1] eqn:E1.
    destruct (lib_probe_spec _ _ _ _ _ _ He (ltac:(discriminate)) E1) as [Hg [He1 [Ht Hf]]].
    destruct a as [b|y].
    + inversion H; subst. destruct b.
      * destruct (Ht eq_refl) as [Es Hd]. subst st'. repeat split; auto; try apply Hinv; try (intros; congruence).
        intros Hal N. destruct (leof st) eqn:El; [discriminate|].
        destruct (dead_of_alost _ _ Hal El); congruence.
      * assert (Es : st' = set_pdead st) by (apply Hf; discriminate). subst st'. simpl.
        repeat split; auto; try (apply inv_pdead; exact Hinv); try (intros; congruence).
    + inversion H; subst. assert (Es : st' = set_pdead st) by (apply Hf; discriminate). subst st'.
      repeat split; auto; try (apply inv_pdead; exact Hinv); try (intros; congruence).
  - (* paramiko *)
    rewrite Hae in H. simpl in H. destruct (leof st || is_some (werr st)) eqn:Ef.
    + inversion H; subst. repeat split; auto; try apply Hinv; try (intros; congruence).
    + apply orb_false_iff in Ef. destruct Ef as [El Ew].
      destruct (lib_probe_spec _ _ _ _ _ _ He (ltac:(discriminate)) H) as [Hg [He1 [Ht Hf]]].
      destruct r as [[|]|y].
      * destruct (Ht eq_refl) as [Es Hd]. subst st'. repeat split; auto; try apply Hinv; try (intros; congruence).
        intros Hal N. destruct (dead_of_alost _ _ Hal El); congruence.
      * assert (Es : st' = set_pdead st) by (apply Hf; discriminate). subst st'.
        repeat split; auto; try (apply inv_pdead; exact Hinv); try (intros; congruence).
      * assert (Es : st' = set_pdead st) by (apply Hf; discriminate). subst st'.
        repeat split; auto; try (apply inv_pdead; exact Hinv); try (intros; congruence).
  - (* asyncssh *)
    rewrite Hae in H. simpl in H. destruct (leof st) eqn:El.
    + inversion H; subst. repeat split; auto; try apply Hinv; try (intros; congruence).
    + destruct (lib_probe_spec _ _ _ _ _ _ He (ltac:(discriminate)) H) as [Hg [He1 [Ht Hf]]].
      destruct r as [[|]|y].
      * destruct (Ht eq_refl) as [Es Hd]. subst st'. repeat split; auto; try apply Hinv; try (intros; congruence).
        intros Hal N. destruct (dead_of_alost _ _ Hal El); congruence.
      * assert (Es : st' = set_pdead st) by (apply Hf; discriminate). subst st'.
        repeat split; auto; try (apply inv_pdead; exact Hinv); try (intros; congruence).
      * assert (Es : st' = set_pdead st) by (apply Hf; discriminate). subst st'.
        repeat split; auto; try (apply inv_pdead; exact Hinv); try (intros; congruence).
Qed.

(* ---- close ---- *)
Definition same_r (st st' : tst) : Prop :=
  leof st' = leof st /\ lerr st' = lerr st /\ werr st' = werr st /\ teof st' = teof st.

Lemma same_r_refl : forall st, same_r st st. Proof. intro; unfold same_r; auto. Qed.
Lemma same_r_pdead : forall st, same_r st (set_pdead st). Proof. intro; unfold same_r; auto. Qed.
Lemma same_r_detach : forall st, same_r st (detach st). Proof. intro; unfold same_r; auto. Qed.
Lemma same_r_trans : forall a b d, same_r a b -> same_r b d -> same_r a d.
Proof. unfold same_r. intros a b d [A1 [A2 [A3 A4]]] [B1 [B2 [B3 B4]]]. repeat split; congruence. Qed.

Lemma close_socket_spec : forall tr (sh : bool) st e o st' e',
  (tr = Telnet /\ sh = true) \/ (tr = Paramiko /\ sh = false) ->
  inv tr st -> env_ok tr e = true -> close_socket c sh st e = (o, st', e') ->
  ogood o /\ inv tr st' /\ env_ok tr e' = true /\ mono st st' /\ same_r st st' /\
  (o = None -> attached st' = false).
Proof.
  intros tr sh st e o st' e' Htr Hinv He H. unfold close_socket in H.
  assert (Hor : env_ok Telnet e = true \/ env_ok Paramiko e = true)
    by (destruct Htr as [[? _]|[? _]]; subst; auto).
  assert (Hkeep : forall e0 e1, (env_ok Telnet e0 = true -> env_ok Telnet e1 = true) ->
                  (env_ok Paramiko e0 = true -> env_ok Paramiko e1 = true) ->
                  env_ok tr e0 = true -> env_ok tr e1 = true)
    by (intros e0 e1 A B; destruct Htr as [[? _]|[? _]]; subst; auto).
  destruct (sock_probe c st e) as [[a st1] e1] eqn:E1.
  destruct (sock_probe_spec _ _ _ _ _ Hor E1) as [Hg1 [Ht1 [Hp1 [Htt Hff]]]].
  assert (He1 : env_ok tr e1 = true) by (apply (Hkeep e e1); auto).
  destruct a as [[|]|y].
  - destruct (Htt eq_refl) as [Es _]. subst st1. unfold sock_close in H.
    assert (Hor1 : env_ok Telnet e1 = true \/ env_ok Paramiko e1 = true)
      by (destruct Htr as [[? _]|[? _]]; subst; auto).
    destruct (sock_probe c st e1) as [[a2 st2] e2] eqn:E2.
    destruct (sock_probe_spec _ _ _ _ _ Hor1 E2) as [Hg2 [Ht2 [Hp2 [Htt2 Hff2]]]].
    assert (He2 : env_ok tr e2 = true) by (apply (Hkeep e1 e2); auto).
    destruct a2 as [[|]|y].
    + destruct (Htt2 eq_refl) as [Es _]. subst st2.
      destruct (if sh then pop_close e2 else (COk, e2)) as [v e3] eqn:Ev.
      assert (Hv : env_ok tr e3 = true /\ match v with CRaise x => In x os_family | COk => True end).
      { destruct sh.
        - destruct (pop_close_ok _ _ _ _ He2 Ev) as [Hc He3]. split; auto.
          destruct v as [|x]; auto. destruct Htr as [[? _]|[_ ?]]; [subst|discriminate].
          unfold cev_ok in Hc. apply mem_cls_In in Hc. exact Hc.
        - inversion Ev; subst. auto. }
      destruct Hv as [He3 Hv]. destruct v as [|x].
      * inversion H; subst. split; [exact I|]. split; [apply inv_detach; exact Hinv|].
        split; [exact He3|]. split; [apply mono_detach|]. split; [apply same_r_detach | reflexivity].
      * pose proof (flow_good_inv _ (ok_sock_shutdown x Hv)) as Hfl.
        destruct (chain c (sock_shutdown_tbls c) x) as [y| |]; inversion H; subst.
        -- split; [exact Hfl|]. split; [exact Hinv|]. split; [exact He3|]. split; [apply mono_refl|].
           split; [apply same_r_refl | intro; discriminate].
        -- split; [exact I|]. split; [apply inv_detach; exact Hinv|]. split; [exact He3|].
           split; [apply mono_detach|]. split; [apply same_r_detach | reflexivity].
        -- split; [exact I|]. split; [apply inv_detach; exact Hinv|]. split; [exact He3|].
           split; [apply mono_detach|]. split; [apply same_r_detach | reflexivity].
    + assert (Es : st2 = set_pdead st) by (apply Hff2; discriminate). subst st2. inversion H; subst.
      split; [exact I|]. split; [apply inv_detach; apply inv_pdead; exact Hinv|]. split; [exact He2|].
      split; [eapply mono_trans; [apply mono_pdead | apply mono_detach]|].
      split; [unfold same_r; simpl; auto | reflexivity].
    + assert (Es : st2 = set_pdead st) by (apply Hff2; discriminate). subst st2. inversion H; subst.
      split; [exact Hg2|]. split; [apply inv_pdead; exact Hinv|]. split; [exact He2|].
      split; [apply mono_pdead|]. split; [apply same_r_pdead | intro; discriminate].
  - assert (Es : st1 = set_pdead st) by (apply Hff; discriminate). subst st1. inversion H; subst.
    split; [exact I|]. split; [apply inv_detach; apply inv_pdead; exact Hinv|]. split; [exact He1|].
    split; [eapply mono_trans; [apply mono_pdead | apply mono_detach]|].
    split; [unfold same_r; simpl; auto | reflexivity].
  - assert (Es : st1 = set_pdead st) by (apply Hff; discriminate). subst st1. inversion H; subst.
    split; [exact Hg1|]. split; [apply inv_pdead; exact Hinv|]. split; [exact He1|].
    split; [apply mono_pdead|]. split; [apply same_r_pdead | intro; discriminate].
Qed.

Lemma lib_close_spec : forall tr e o e',
  tr <> Telnet -> env_ok tr e = true -> lib_close c tr e = (o, e') -> ogood o /\ env_ok tr e' = true.
Proof.
  intros tr e o e' Htr He H. unfold lib_close in H.
  destruct (pop_close e) as [v e1] eqn:Ev. destruct (pop_close_ok _ _ _ _ He Ev) as [Hc He1].
  destruct v as [|x].
  - inversion H; subst. split; [exact I | exact He1].
  - assert (Hx : In x (may_raise tr KClose)).
    { unfold cev_ok in Hc. apply mem_cls_In in Hc. destruct tr; try exact Hc. congruence. }
    pose proof (flow_good_inv _ (tf_close _ (ok_tr tr) x Hx)) as Hfl.
    destruct (chain c (tc_close_tbls (tcf c tr)) x) as [y| |]; inversion H; subst; split; auto; exact I.
Qed.

Lemma t_close_spec : forall tr st e o st' e',
  inv tr st -> env_ok tr e = true -> t_close c tr st e = (o, st', e') ->
  ogood o /\ inv tr st' /\ env_ok tr e' = true /\ mono st st' /\ same_r st st' /\
  (o = None -> attached st' = false).
Proof.
  intros tr st e o st' e' Hinv He H. unfold t_close in H.
  destruct (attached st) eqn:Eat; simpl in H.
  2:{ inversion H; subst. split; [exact I|]. split; [exact Hinv|]. split; [exact He|].
      split; [apply mono_refl|]. split; [apply same_r_refl | intros _; exact Eat]. }
  assert (Hlib : forall tr', tr' = tr -> tr' <> Telnet ->
     forall o1 e1, lib_close c tr e = (o1, e1) ->
     match o1 with
     | Some x => (Some x, st, e1) = (o, st', e')
     | None => (None, detach st, e1) = (o, st', e')
     end ->
     ogood o /\ inv tr st' /\ env_ok tr e' = true /\ mono st st' /\ same_r st st' /\
     (o = None -> attached st' = false)).
  { intros tr' Etr Hn o1 e1 El Hm. assert (Hn' : tr <> Telnet) by congruence.
    destruct (lib_close_spec _ _ _ _ Hn' He El) as [Hg He1].
    destruct o1 as [x|]; inversion Hm; subst.
    - split; [exact Hg|]. split; [exact Hinv|]. split; [exact He1|]. split; [apply mono_refl|].
      split; [apply same_r_refl | intro; discriminate].
    - split; [exact I|]. split; [apply inv_detach; exact Hinv|]. split; [exact He1|].
      split; [apply mono_detach|]. split; [apply same_r_detach | reflexivity]. }
  destruct tr.
  - apply (close_socket_spec Telnet true _ _ _ _ _ (or_introl (conj eq_refl eq_refl)) Hinv He H).
  - inversion H; subst. split; [exact I|]. split; [apply inv_detach; exact Hinv|]. split; [exact He|].
    split; [apply mono_detach|]. split; [apply same_r_detach | reflexivity].
  - destruct (lib_close c System e) as [o1 e1] eqn:El.
    apply (Hlib System eq_refl (ltac:(discriminate)) o1 e1 eq_refl). destruct o1; exact H.
  - destruct (lib_close c Paramiko e) as [o1 e1] eqn:El.
    destruct (lib_close_spec _ _ _ _ (ltac:(discriminate) : Paramiko <> Telnet) He El) as [Hg He1].
    destruct o1 as [x|].
    + inversion H; subst. split; [exact Hg|]. split; [exact Hinv|]. split; [exact He1|]. split; [apply mono_refl|].
      split; [apply same_r_refl | intro; discriminate].
    + apply (close_socket_spec Paramiko false _ _ _ _ _ (or_intror (conj eq_refl eq_refl)) Hinv He1 H).
  - destruct (lib_close c Asyncssh e) as [o1 e1] eqn:El.
    apply (Hlib Asyncssh eq_refl (ltac:(discriminate)) o1 e1 eq_refl). destruct o1; exact H.
Qed.

(* ================================ the channel loops ================================ *)
Definition lres_state (r : lres) : tst * env * list rev :=
  match r with
  | LNext st e rs | LStop _ st e rs | LBlock st e rs | LSpin st e rs | LEmpty st e rs => (st, e, rs)
  end.

Definition common (tr : transport) (st : tst) (r : lres) : Prop :=
  let '(st', e', rs') := lres_state r in
  inv tr st' /\ env_ok tr e' = true /\ rs_ok tr rs' = true /\ mono st st' /\
  match r with LStop o _ _ _ => exists y, o = ORaised y /\ scr y | _ => True end.

(* an instruction that completes leaves the write side as it was; [rd]: it read, and then the read side is
   intact too (a loss met on the way ends the instruction in an exception) *)
Definition next_clause (rd : bool) (st : tst) (r : lres) : Prop :=
  match r with
  | LNext st' _ _ => werr st' = werr st /\ pdead st' = pdead st /\ attached st' = attached st /\
                     (if rd then rlost st' = false else rlost st' = rlost st)
  | _ => True
  end.

Lemma common_mono : forall tr st0 st r, mono st0 st -> common tr st r -> common tr st0 r.
Proof.
  intros tr st0 st r Hm Hc. unfold common in *. destruct (lres_state r) as [[st' e'] rs'].
  destruct Hc as [A [B [C [D E]]]].
  split; [exact A|]. split; [exact B|]. split; [exact C|]. split; [eapply mono_trans; eauto | exact E].
Qed.

Lemma common_intro : forall tr st r st' e' rs',
  lres_state r = (st', e', rs') -> inv tr st' -> env_ok tr e' = true -> rs_ok tr rs' = true -> mono st st' ->
  match r with LStop o _ _ _ => exists y, o = ORaised y /\ scr y | _ => True end -> common tr st r.
Proof. intros tr st r st' e' rs' E A B C D F. unfold common. rewrite E. auto. Qed.

Lemma rs_ok_tail : forall tr v rs, rs_ok tr (v :: rs) = true -> rev_ok tr v = true /\ rs_ok tr rs = true.
Proof. intros tr v rs H. unfold rs_ok in H. simpl in H. apply andb_prop in H. exact H. Qed.

Lemma read_until_spec : forall tr m rs buf st e,
  inv tr st -> env_ok tr e = true -> rs_ok tr rs = true -> m buf = false ->
  let r := read_until c tr m buf st e rs in
  common tr st r /\ next_clause true st r /\ (forall a b d, r <> LEmpty a b d).
Proof.
  intros tr m rs. induction rs as [|v rs IH]; intros buf st e Hinv He Hrs Hm; simpl.
  - pose proof (t_read_pre_spec tr st e Hinv He) as Hpre.
    destruct (t_read_pre c tr st e) as [r0 st1 e1|st1 e1].
    + destruct Hpre as [[y [Hy Hs]] [Hi [He1 [Hat [Hmo _]]]]]. subst r0.
      split; [eapply common_intro; try reflexivity; auto; exists y; auto|].
      split; [exact I | intros; discriminate].
    + destruct Hpre as [Es [He1 [Hrl Hat]]]. subst st1.
      destruct (t_read_step c tr st e1 RBlock) as [[r0 st2] e2] eqn:Es.
      destruct (t_read_step_spec tr st e1 RBlock r0 st2 e2 Hinv He1 eq_refl I Es) as [Hp He2].
      pose proof (step_post_mono _ _ _ _ _ Hp) as Hmo.
      destruct Hp as [Hg [Hi _]].
      destruct r0 as [b|y|]; (split; [eapply common_intro; try reflexivity; auto; try (exists y; auto)|]);
        split; try exact I; intros; discriminate.
  - destruct (rs_ok_tail _ _ _ Hrs) as [Hv Hrs'].
    pose proof (t_read_pre_spec tr st e Hinv He) as Hpre.
    destruct (t_read_pre c tr st e) as [r0 st1 e1|st1 e1].
    + destruct Hpre as [[y [Hy Hs]] [Hi [He1 [Hat [Hmo _]]]]]. subst r0.
      split; [eapply common_intro; try reflexivity; auto; exists y; auto|].
      split; [exact I | intros; discriminate].
    + destruct Hpre as [Es [He1 [Hrl Hat]]]. subst st1.
      destruct (t_read_step c tr st e1 v) as [[r0 st2] e2] eqn:Es.
      assert (Hd : match v with RData _ => rlost st = false | _ => True end) by (destruct v; auto).
      destruct (t_read_step_spec _ _ _ _ _ _ _ Hinv He1 Hv Hd Es) as [Hp He2].
      pose proof (step_post_mono _ _ _ _ _ Hp) as Hmo.
      destruct Hp as [Hg [Hi [Hat2 [_ [_ [_ [_ [Hb _]]]]]]]].
      destruct r0 as [b|y|].
      * destruct (Hb b eq_refl) as [Hw [Hpd Hv']].
        destruct (m (buf ++ b)) eqn:Em.
        -- (* the matcher accepts: only possible on real data *)
           assert (Hrl2 : rlost st2 = false).
           { destruct v as [b'| |x|]; try (subst b; rewrite app_nil_r in Em; congruence).
             destruct Hv' as [_ Hr]. rewrite Hr. exact Hrl. }
           split; [eapply common_intro; try reflexivity; auto|].
           split; [simpl; auto | intros; discriminate].
        -- specialize (IH (buf ++ b) st2 e2 Hi He2 Hrs' Em). simpl in IH.
           destruct IH as [Hc [Hn Hne]].
           split; [eapply common_mono; eauto|]. split; [|exact Hne].
           unfold next_clause in *. destruct (read_until c tr m (buf ++ b) st2 e2 rs); auto.
           destruct Hn as [A [B [C D]]]. repeat split; try congruence; try exact D.
      * split; [eapply common_intro; try reflexivity; auto; exists y; auto|].
        split; [exact I | intros; discriminate].
      * split; [eapply common_intro; try reflexivity; auto|].
        split; [exact I | intros; discriminate].
Qed.

Definition next_or_stop (r : lres) : Prop :=
  match r with LNext _ _ _ | LStop _ _ _ _ => True | _ => False end.

Lemma do_write_spec : forall tr st e rs,
  inv tr st -> env_ok tr e = true -> rs_ok tr rs = true ->
  let r := do_write c tr st e rs in
  common tr st r /\ next_or_stop r /\
  match r with LNext st' _ rs' => st' = st /\ rs' = rs | _ => True end.
Proof.
  intros tr st e rs Hinv He Hrs. unfold do_write.
  destruct (t_write c tr st e) as [[o st1] e1] eqn:Ew.
  destruct (t_write_spec _ _ _ _ _ _ Hinv He Ew) as [Hg [Hi [He1 [Hmo [_ [_ [_ [_ [_ [Hn _]]]]]]]]]].
  destruct o as [y|].
  - split; [eapply common_intro; try reflexivity; auto; exists y; auto|]. simpl. auto.
  - split; [eapply common_intro; try reflexivity; auto|]. simpl. auto.
Qed.

Lemma do_writes_spec : forall tr n st e rs,
  inv tr st -> env_ok tr e = true -> rs_ok tr rs = true ->
  let r := do_writes c tr n st e rs in
  common tr st r /\ next_or_stop r /\
  match r with LNext st' _ rs' => st' = st /\ rs' = rs | _ => True end.
Proof.
  intros tr n. induction n as [|k IH]; intros st e rs Hinv He Hrs; simpl.
  - split; [eapply common_intro; try reflexivity; auto; apply mono_refl|]. auto.
  - destruct (do_write_spec tr st e rs Hinv He Hrs) as [Hc [Hns Hm]].
    destruct (do_write c tr st e rs) as [st1 e1 rs1|o st1 e1 rs1|st1 e1 rs1|st1 e1 rs1|st1 e1 rs1];
      try contradiction.
    + destruct Hm as [Es Er]. subst st1 rs1. unfold common in Hc. simpl in Hc.
      destruct Hc as [_ [He1 _]]. apply IH; auto.
    + split; [exact Hc|]. simpl. auto.
Qed.

(* the dead-connection rounds of the Telnet login loop never complete the login *)
Definition not_next (r : lres) : Prop := match r with LNext _ _ _ => False | _ => True end.

Lemma pre_common : forall tr st e rs,
  inv tr st -> env_ok tr e = true -> rs_ok tr rs = true ->
  match t_read_pre c tr st e with
  | PreStop r st1 e1 => is_exc r /\ inv tr st1 /\ env_ok tr e1 = true /\ mono st st1
  | PreGo st1 e1 => st1 = st /\ env_ok tr e1 = true
  end.
Proof.
  intros tr st e rs Hinv He _. pose proof (t_read_pre_spec tr st e Hinv He) as H.
  destruct (t_read_pre c tr st e).
  - destruct H as [A [B [C [_ [D _]]]]]. auto.
  - destruct H as [A [B _]]. auto.
Qed.

Lemma env_ok_split : forall tr e, env_ok tr e = true ->
  env_ok tr (mkEnv (sends e) (probes e) (closes e)) = true.
Proof. intros tr e H. destruct e; exact H. Qed.

Lemma dead_probes_spec : forall tr ps st ws cs rs,
  inv tr st -> env_ok tr (mkEnv ws ps cs) = true -> rs_ok tr rs = true ->
  let r := dead_probes c tr st ws ps cs rs in common tr st r /\ not_next r.
Proof.
  intros tr ps. induction ps as [|p ps IH]; intros st ws cs rs Hinv He Hrs; simpl.
  - pose proof (pre_common tr st _ rs Hinv He Hrs) as Hp.
    destruct (t_read_pre c tr st (mkEnv ws [] cs)) as [r0 st1 e1|st1 e1].
    + destruct Hp as [[y [Hy Hs]] [Hi [He1 Hmo]]]. subst r0.
      destruct (swallows c tr y).
      * destruct tr; (split; [eapply common_intro; try reflexivity; auto | exact I]).
      * split; [eapply common_intro; try reflexivity; auto; exists y; auto | exact I].
    + destruct Hp as [Es He1]. subst st1.
      split; [eapply common_intro; try reflexivity; auto; apply mono_refl | exact I].
  - pose proof (pre_common tr st _ rs Hinv He Hrs) as Hp.
    destruct (t_read_pre c tr st (mkEnv ws (p :: ps) cs)) as [r0 st1 e1|st1 e1].
    + destruct Hp as [[y [Hy Hs]] [Hi [He1 Hmo]]]. subst r0.
      destruct (swallows c tr y).
      * destruct tr; try (split; [eapply common_intro; try reflexivity; auto | exact I]).
        (* sync telnet: one more probe was consumed *)
        assert (He' : env_ok Telnet (mkEnv ws ps cs) = true).
        { destruct (env_ok_parts _ _ He) as [A [B C]]. simpl in *. apply andb_prop in B. destruct B as [_ B].
          apply env_ok_mk; auto. }
        destruct (IH st1 ws cs rs Hi He' Hrs) as [Hc Hn].
        split; [eapply common_mono; eauto | exact Hn].
      * split; [eapply common_intro; try reflexivity; auto; exists y; auto | exact I].
    + destruct Hp as [Es He1]. subst st1.
      split; [eapply common_intro; try reflexivity; auto; apply mono_refl | exact I].
Qed.

Lemma dead_loop_spec : forall tr ws st ps cs rs,
  inv tr st -> env_ok tr (mkEnv ws ps cs) = true -> rs_ok tr rs = true ->
  let r := dead_loop c tr st ws ps cs rs in common tr st r /\ not_next r.
Proof.
  intros tr ws. induction ws as [|w ws IH]; intros st ps cs rs Hinv He Hrs; simpl.
  - destruct (t_write c tr st (mkEnv [] ps cs)) as [[o st1] e1] eqn:Ew.
    destruct (t_write_spec _ _ _ _ _ _ Hinv He Ew) as [Hg [Hi [He1 [Hmo _]]]].
    destruct o as [y|].
    + split; [eapply common_intro; try reflexivity; auto; exists y; auto | exact I].
    + assert (He1' : env_ok tr (mkEnv [] (probes e1) (closes e1)) = true).
      { destruct (env_ok_parts _ _ He1) as [A [B C]]. apply env_ok_mk; auto. }
      destruct (dead_probes_spec tr (probes e1) st1 [] (closes e1) rs Hi He1' Hrs) as [Hc Hn].
      split; [eapply common_mono; eauto | exact Hn].
  - destruct (t_write c tr st (mkEnv (w :: ws) ps cs)) as [[o st1] e1] eqn:Ew.
    destruct (t_write_spec _ _ _ _ _ _ Hinv He Ew) as [Hg [Hi [He1 [Hmo _]]]].
    destruct o as [y|].
    + split; [eapply common_intro; try reflexivity; auto; exists y; auto | exact I].
    + assert (He1' : env_ok tr (mkEnv ws (probes e1) cs) = true).
      { destruct (env_ok_parts _ _ He1) as [A [B C]]. destruct (env_ok_parts _ _ He) as [A0 [B0 C0]].
        simpl in A0. apply andb_prop in A0. destruct A0 as [_ A0]. apply env_ok_mk; auto. }
      pose proof (pre_common tr st1 _ rs Hi He1' Hrs) as Hp.
      destruct (t_read_pre c tr st1 (mkEnv ws (probes e1) cs)) as [r0 st2 e2|st2 e2].
      * destruct Hp as [[y [Hy Hs]] [Hi2 [He2 Hmo2]]]. subst r0.
        destruct (swallows c tr y).
        -- assert (He2' : env_ok tr (mkEnv ws (probes e2) cs) = true).
           { destruct (env_ok_parts _ _ He2) as [A [B C]]. destruct (env_ok_parts _ _ He1') as [A0 [B0 C0]].
             apply env_ok_mk; auto. }
           destruct (IH st2 (probes e2) cs rs Hi2 He2' Hrs) as [Hc Hn].
           split; [|exact Hn]. eapply common_mono; [|exact Hc]. eapply mono_trans; eauto.
        -- split; [|exact I]. eapply common_intro; try reflexivity; auto.
           eapply mono_trans; eauto. exists y; auto.
      * destruct Hp as [Es He2]. subst st2.
        split; [eapply common_intro; try reflexivity; auto | exact I].
Qed.

(* ---- what keeps the login loop from ever completing ---- *)
Lemma t_read_step_w : forall tr st e v r st' e',
  st_ok tr st = true -> env_ok tr e = true -> rev_ok tr v = true ->
  t_read_step c tr st e v = (r, st', e') ->
  werr st' = werr st /\ (pdead st' = pdead st \/ (tr = Telnet /\ pdead st' = true)).
Proof.
  intros tr st e v r st' e' Hst He Hv H. unfold t_read_step in H.
  destruct (t_read_ev c tr st v) as [r0 st1] eqn:Eev.
  destruct (t_read_ev_spec _ _ _ _ _ Hst Hv Eev) as [[Ha [Hw Hp]] _].
  assert (Hplain : (r, st', e') = (r0, st1, e) ->
          werr st' = werr st /\ (pdead st' = pdead st \/ (tr = Telnet /\ pdead st' = true))).
  { intro E. inversion E; subst. auto. }
  destruct tr; try (apply Hplain; symmetry; destruct v; exact H).
  destruct v as [b| |x|]; try (apply Hplain; symmetry; exact H);
    destruct (sock_probe c st1 e) as [[a st2] e2] eqn:Ep;
    destruct (sock_probe_spec _ _ _ _ _ (or_introl He) Ep) as [_ [_ [_ [Ht Hf]]]];
    destruct a as [[|]|y];
    try (destruct (Ht eq_refl) as [Es _]; subst st2; inversion H; subst; auto);
    try (assert (Es : st2 = set_pdead st1) by (apply Hf; discriminate); subst st2; inversion H; subst;
         simpl; split; [exact Hw | right; auto]).
Qed.

Lemma t_read_pre_go : forall tr st e st1 e1,
  t_read_pre c tr st e = PreGo st1 e1 ->
  attached st = true /\ rlost st1 = false /\ (is_telnet tr = true -> teof st1 = false) /\
  (tr = Telnet -> dead st = false) /\ (tr <> Telnet -> st1 = st).
Proof.
  intros tr st e st1 e1 H. unfold t_read_pre in H.
  destruct (attached st) eqn:Ea; simpl in H; [|discriminate].
  destruct (match tr with Telnet => sock_probe c st e | _ => (ABool true, st, e) end) as [[ok st0] e0] eqn:Ep.
  destruct ok as [[|]|y]; try discriminate.
  destruct (is_telnet tr && teof st0) eqn:Et; [discriminate|].
  destruct (match tr with Asyncssh => leof st0 | _ => false end) eqn:Eas; [discriminate|].
  destruct (leof st0) eqn:El.
  { destruct (t_read_step c tr st0 e0 REmpty) as [[? ?] ?]. discriminate. }
  destruct (lerr st0) eqn:Elr.
  { destruct (t_read_step c tr st0 e0 (RRaise c0)) as [[? ?] ?]. discriminate. }
  inversion H; subst. split; [reflexivity|]. split; [unfold rlost; rewrite El, Elr; reflexivity|].
  split.
  { intro E. rewrite E in Et. simpl in Et. exact Et. }
  split.
  - intro E. subst tr. unfold sock_probe in Ep. destruct (dead st) eqn:Ed; [|reflexivity].
    unfold probe_result in Ep. destruct (chain c (sock_alive_tbls c) EBrokenPipe); inversion Ep.
  - intro N. destruct tr; try congruence; inversion Ep; reflexivity.
Qed.

Definition doomed (tr : transport) (st : tst) : Prop :=
  attached st = false \/ rlost st = true \/ (is_telnet tr = true /\ teof st = true) \/
  (tr = Telnet /\ dead st = true).

Lemma sock_probe_true_same : forall st e st0 e0, sock_probe c st e = (ABool true, st0, e0) -> st0 = st.
Proof.
  intros st e st0 e0 H. unfold sock_probe in H.
  destruct (if dead st then (PRaise EBrokenPipe, e) else pop_probe e) as [p e'].
  unfold probe_result in H. destruct p as [| |x].
  - inversion H. reflexivity.
  - inversion H.
  - destruct (chain c (sock_alive_tbls c) x); inversion H.
Qed.

Lemma doomed_pre : forall tr st e st1 e1, doomed tr st -> t_read_pre c tr st e <> PreGo st1 e1.
Proof.
  intros tr st e st1 e1 Hd N. pose proof (t_read_pre_go _ _ _ _ _ N) as [Ha [Hr [Ht [Hdd Hs]]]].
  assert (Est : st1 = st).
  { destruct tr; try (apply Hs; discriminate).
    unfold t_read_pre in N. rewrite Ha in N. simpl in N.
    destruct (sock_probe c st e) as [[ok st0] e0] eqn:Ep.
    destruct ok as [[|]|y]; try discriminate.
    apply sock_probe_true_same in Ep. subst st0.
    destruct (teof st); simpl in N; [discriminate|].
    destruct (leof st) eqn:El. { destruct (t_read_step c Telnet st e0 REmpty) as [[? ?] ?]; discriminate. }
    destruct (lerr st) eqn:Elr. { destruct (t_read_step c Telnet st e0 (RRaise c0)) as [[? ?] ?]; discriminate. }
    inversion N. reflexivity. }
  subst st1. destruct Hd as [H|[H|[[H1 H2]|[H1 H2]]]]; try congruence.
  - rewrite (Ht H1) in H2. discriminate.
  - rewrite (Hdd H1) in H2. discriminate.
Qed.

Lemma answer_spec : forall tr seen cnt st e rs,
  inv tr st -> env_ok tr e = true -> rs_ok tr rs = true ->
  let r := answer c tr seen cnt st e rs in
  common tr st r /\ next_or_stop r /\
  match r with LNext st' _ rs' => st' = st /\ rs' = rs | _ => True end.
Proof.
  intros tr seen cnt st e rs Hinv He Hrs. unfold answer. destruct seen.
  - destruct (Nat.ltb 1 cnt).
    + split; [eapply common_intro; try reflexivity; auto; [apply mono_refl | exists SAuthFailed; split; auto; apply scr_AuthFailed]|].
      simpl. auto.
    + apply do_writes_spec; auto.
  - split; [eapply common_intro; try reflexivity; auto; apply mono_refl|]. simpl. auto.
Qed.

(* an instruction that completes on a connection that was intact leaves it intact *)
Definition lclause (st : tst) (r : lres) : Prop :=
  match r with LNext st' _ _ => lost st = false -> lost st' = false | _ => True end.

Lemma not_next_lclause : forall st r, not_next r -> lclause st r.
Proof. intros st r H. destruct r; simpl in *; auto. contradiction. Qed.

Lemma lost_doomed : forall tr st st2,
  lost st = false -> werr st2 = werr st ->
  (pdead st2 = pdead st \/ (tr = Telnet /\ pdead st2 = true)) ->
  lost st2 = true -> doomed tr st2.
Proof.
  intros tr st st2 Hl Hw Hp H2. unfold lost, rlost, wlost in *.
  apply orb_false_iff in Hl. destruct Hl as [_ Hwl]. apply orb_false_iff in Hwl. destruct Hwl as [Hwe Hpd].
  destruct Hp as [Hp|[Ht Hp]].
  - right. left. rewrite Hw, Hwe, Hp, Hpd in H2. simpl in H2. rewrite orb_false_r in H2. exact H2.
  - right. right. right. split; auto. unfold dead. rewrite Hp. rewrite orb_true_r. reflexivity.
Qed.

Lemma lclause_via : forall tr st st2 r,
  werr st2 = werr st -> (pdead st2 = pdead st \/ (tr = Telnet /\ pdead st2 = true)) ->
  (doomed tr st2 -> not_next r) -> lclause st2 r -> lclause st r.
Proof.
  intros tr st st2 r Hw Hp Hd Hc. destruct r as [st' e' rs'| | | |]; simpl in *; auto.
  intro Hl. destruct (lost st2) eqn:E2.
  - exfalso. apply Hd. eapply lost_doomed; eauto.
  - auto.
Qed.

Lemma telnets_data_step : forall tr st e b' b st2 e2,
  is_telnet tr = true -> t_read_step c tr st e (RData b') = (XBytes b, st2, e2) ->
  teof st2 = false /\ pdead st2 = pdead st.
Proof.
  intros tr st e b' b st2 e2 Ht H. unfold t_read_step, t_read_ev in H. rewrite Ht in H.
  destruct tr; simpl in Ht; try discriminate.
  - destruct (sock_probe c (set_teof false st) e) as [[a sx] ex] eqn:Epp.
    destruct a as [[|]|?]; inversion H; subst.
    apply sock_probe_true_same in Epp. subst. simpl. auto.
  - inversion H; subst. simpl. auto.
Qed.

Section LoginT.
Variables (tr : transport) (du dp dr : bytes -> bool).
Hypothesis Hdu : du [] = false.
Hypothesis Hdp : dp [] = false.
Hypothesis Hdr : dr [] = false.

Lemma login_t_doomed : forall rs ab uc pc st e,
  inv tr st -> env_ok tr e = true -> rs_ok tr rs = true -> doomed tr st ->
  not_next (login_t c tr du dp dr ab uc pc st e rs).
Proof.
  intros rs ab uc pc st e Hinv He Hrs Hd.
  pose proof (pre_common tr st e rs Hinv He Hrs) as Hp.
  destruct rs as [|v rs']; simpl;
    destruct (t_read_pre c tr st e) as [r0 st1 e1|st1 e1] eqn:Epre;
    try (exfalso; eapply doomed_pre; eauto; fail);
    destruct Hp as [[y [Hy Hs]] [Hi [He1 Hmo]]]; subst r0;
    (destruct (swallows c tr y); [|exact I]);
    apply (dead_loop_spec tr (sends e1) st1 (probes e1) (closes e1)); auto; apply env_ok_split; auto.
Qed.

Lemma login_t_spec : forall rs ab uc pc st e,
  inv tr st -> env_ok tr e = true -> rs_ok tr rs = true ->
  du ab = false -> dp ab = false -> dr ab = false ->
  let r := login_t c tr du dp dr ab uc pc st e rs in common tr st r /\ lclause st r.
Proof.
  induction rs as [|v rs IH]; intros ab uc pc st e Hinv He Hrs Hab1 Hab2 Hab3.
  - simpl. pose proof (t_read_pre_spec tr st e Hinv He) as Hpre.
    destruct (t_read_pre c tr st e) as [r0 st1 e1|st1 e1].
    + destruct Hpre as [[y [Hy Hs]] [Hi [He1 [Hat [Hmo _]]]]]. subst r0.
      destruct (swallows c tr y).
      * destruct (dead_loop_spec tr (sends e1) st1 (probes e1) (closes e1) [] Hi (env_ok_split _ _ He1) Hrs) as [Hc Hn].
        split; [eapply common_mono; eauto | apply not_next_lclause; exact Hn].
      * split; [eapply common_intro; try reflexivity; auto; exists y; auto | exact I].
    + destruct Hpre as [Es [He1 [Hrl Hat]]]. subst st1.
      destruct (t_read_step c tr st e1 RBlock) as [[r0 st2] e2] eqn:Es.
      destruct (t_read_step_spec tr st e1 RBlock r0 st2 e2 Hinv He1 eq_refl I Es) as [Hp He2].
      pose proof (step_post_mono _ _ _ _ _ Hp) as Hmo. destruct Hp as [Hg [Hi _]].
      destruct r0 as [b|y|]; (split; [eapply common_intro; try reflexivity; auto; try (exists y; auto) | exact I]).
  - destruct (rs_ok_tail _ _ _ Hrs) as [Hv Hrs'].
    simpl. pose proof (t_read_pre_spec tr st e Hinv He) as Hpre.
    destruct (t_read_pre c tr st e) as [r0 st1 e1|st1 e1].
    + destruct Hpre as [[y [Hy Hs]] [Hi [He1 [Hat [Hmo _]]]]]. subst r0.
      destruct (swallows c tr y).
      * destruct (dead_loop_spec tr (sends e1) st1 (probes e1) (closes e1) (v :: rs) Hi (env_ok_split _ _ He1) Hrs) as [Hc Hn].
        split; [eapply common_mono; eauto | apply not_next_lclause; exact Hn].
      * split; [eapply common_intro; try reflexivity; auto; exists y; auto | exact I].
    + destruct Hpre as [Es [He1 [Hrl Hat]]]. subst st1.
      destruct (t_read_step c tr st e1 v) as [[r0 st2] e2] eqn:Es.
      assert (Hd : match v with RData _ => rlost st = false | _ => True end) by (destruct v; auto).
      destruct (t_read_step_spec _ _ _ _ _ _ _ Hinv He1 Hv Hd Es) as [Hp He2].
      destruct (t_read_step_w _ _ _ _ _ _ _ (proj1 Hinv) He1 Hv Es) as [Hw2 Hp2].
      pose proof (step_post_mono _ _ _ _ _ Hp) as Hmo.
      destruct Hp as [Hg [Hi [Hat2 [_ [_ [_ [_ [Hb _]]]]]]]].
      destruct r0 as [b|y|].
      * (* data (or asyncssh's b"" at EOF) *)
        destruct (Hb b eq_refl) as [_ [_ Hv']].
        set (ab1 := ab ++ lower b).
        destruct (answer_spec tr (du ab1) uc st2 e2 rs Hi He2 Hrs') as [Hc1 [Hns1 Hm1]].
        destruct (answer c tr (du ab1) uc st2 e2 rs) as [st3 e3 rs3|o st3 e3 rs3|? ? ?|? ? ?|? ? ?];
          try contradiction.
        2:{ split; [eapply common_mono; eauto | exact I]. }
        destruct Hm1 as [E3 _]. subst st3.
        assert (He3 : env_ok tr e3 = true) by (unfold common in Hc1; simpl in Hc1; apply Hc1).
        set (ab2 := if du ab1 then [] else ab1).
        destruct (answer_spec tr (dp ab2) pc st2 e3 rs Hi He3 Hrs') as [Hc2 [Hns2 Hm2]].
        destruct (answer c tr (dp ab2) pc st2 e3 rs) as [st4 e4 rs4|o st4 e4 rs4|? ? ?|? ? ?|? ? ?];
          try contradiction.
        2:{ split; [eapply common_mono; eauto | exact I]. }
        destruct Hm2 as [E4 _]. subst st4.
        assert (He4 : env_ok tr e4 = true) by (unfold common in Hc2; simpl in Hc2; apply Hc2).
        set (ab3 := if dp ab2 then [] else ab2).
        (* the buffer the next round starts from is rejected by the three patterns, or accepted by the prompt's *)
        assert (Hnodata : (forall b', v <> RData b') -> ab3 = ab).
        { intro Hnd. assert (Eb : b = []) by (destruct v; auto; exfalso; eapply Hnd; reflexivity).
          subst ab3 ab2 ab1. rewrite Eb. simpl. rewrite app_nil_r. rewrite Hab1, Hab2. reflexivity. }
        destruct (dr ab3) eqn:Edr.
        -- split; [eapply common_intro; try reflexivity; auto|].
           simpl. intro Hl.
           destruct v as [b'| |x|]; try (rewrite Hnodata in Edr; [congruence | intros; discriminate]).
           destruct Hv' as [_ Hr2]. destruct (lost st2) eqn:E2; auto.
           exfalso. pose proof (lost_doomed _ _ _ Hl Hw2 Hp2 E2) as Hdm.
           destruct Hdm as [H|[H|[[H1 H2]|[H1 H2]]]].
           ++ congruence.
           ++ rewrite Hr2 in H. congruence.
           ++ destruct (telnets_data_step _ _ _ _ _ _ _ H1 Es) as [Ht2 _]. congruence.
           ++ subst tr. destruct (telnets_data_step Telnet _ _ _ _ _ _ eq_refl Es) as [_ Hpd2].
              unfold dead in H2. unfold lost, rlost, wlost in Hl, E2.
              apply orb_false_iff in Hl. destruct Hl as [Hl1 Hl2]. apply orb_false_iff in Hl2.
              destruct Hl2 as [Hl2 Hl4]. unfold rlost in Hr2, Hrl.
              rewrite Hw2, Hl2, Hpd2, Hl4, Hr2, Hrl in E2. discriminate.
        -- assert (A1 : du ab3 = false).
           { subst ab3 ab2. destruct (du ab1) eqn:E1; destruct (dp []) eqn:E0; try congruence;
               destruct (dp ab1) eqn:E4; try congruence. }
           assert (A2 : dp ab3 = false).
           { subst ab3. destruct (dp ab2) eqn:E; congruence. }
           destruct (IH ab3 (if du ab1 then S uc else uc) (if dp ab2 then S pc else pc) st2 e4
                        Hi He4 Hrs' A1 A2 Edr) as [Hc Hl].
           split; [eapply common_mono; eauto|].
           eapply lclause_via; eauto. intro Hdm. apply login_t_doomed; auto.
      * (* an exception: swallowed (a return is sent, next round) or raised *)
        destruct (swallows c tr y).
        -- destruct (do_write_spec tr st2 e2 rs Hi He2 Hrs') as [Hcw [Hnw Hmw]].
           destruct (do_write c tr st2 e2 rs) as [st3 e3 rs3|o st3 e3 rs3|? ? ?|? ? ?|? ? ?]; try contradiction.
           ++ destruct Hmw as [E3 _]. subst st3.
              assert (He3 : env_ok tr e3 = true) by (unfold common in Hcw; simpl in Hcw; apply Hcw).
              destruct (IH ab uc pc st2 e3 Hi He3 Hrs' Hab1 Hab2 Hab3) as [Hc Hl].
              split; [eapply common_mono; eauto|].
              eapply lclause_via; eauto. intro Hdm. apply login_t_doomed; auto.
           ++ split; [eapply common_mono; eauto | exact I].
        -- split; [eapply common_intro; try reflexivity; auto; exists y; auto | exact I].
      * split; [eapply common_intro; try reflexivity; auto | exact I].
Qed.
End LoginT.

Section LoginS.
Variables (tr : transport) (dm dp dph dr : bytes -> bool).
Hypothesis Hdp : dp [] = false.
Hypothesis Hdph : dph [] = false.
Hypothesis Hdr : dr [] = false.

Lemma login_s_doomed : forall rs ab pc phc st e,
  inv tr st -> env_ok tr e = true -> rs_ok tr rs = true -> doomed tr st ->
  not_next (login_s c tr dm dp dph dr ab pc phc st e rs).
Proof.
  intros rs ab pc phc st e Hinv He Hrs Hd.
  pose proof (pre_common tr st e rs Hinv He Hrs) as Hp.
  destruct rs as [|v rs']; simpl;
    destruct (t_read_pre c tr st e) as [r0 st1 e1|st1 e1] eqn:Epre;
    try (exfalso; eapply doomed_pre; eauto; fail);
    destruct Hp as [[y [Hy Hs]] _]; subst r0; exact I.
Qed.

Lemma login_s_spec : forall rs ab pc phc st e,
  inv tr st -> env_ok tr e = true -> rs_ok tr rs = true ->
  dp ab = false -> dph ab = false -> dr ab = false ->
  let r := login_s c tr dm dp dph dr ab pc phc st e rs in common tr st r /\ lclause st r.
Proof.
  induction rs as [|v rs IH]; intros ab pc phc st e Hinv He Hrs Hab1 Hab2 Hab3.
  - simpl. pose proof (t_read_pre_spec tr st e Hinv He) as Hpre.
    destruct (t_read_pre c tr st e) as [r0 st1 e1|st1 e1].
    + destruct Hpre as [[y [Hy Hs]] [Hi [He1 [Hat [Hmo _]]]]]. subst r0.
      split; [eapply common_intro; try reflexivity; auto; exists y; auto | exact I].
    + destruct Hpre as [Es [He1 [Hrl Hat]]]. subst st1.
      destruct (t_read_step c tr st e1 RBlock) as [[r0 st2] e2] eqn:Es.
      destruct (t_read_step_spec tr st e1 RBlock r0 st2 e2 Hinv He1 eq_refl I Es) as [Hp He2].
      pose proof (step_post_mono _ _ _ _ _ Hp) as Hmo. destruct Hp as [Hg [Hi _]].
      destruct r0 as [b|y|]; (split; [eapply common_intro; try reflexivity; auto; try (exists y; auto) | exact I]).
  - destruct (rs_ok_tail _ _ _ Hrs) as [Hv Hrs'].
    simpl. pose proof (t_read_pre_spec tr st e Hinv He) as Hpre.
    destruct (t_read_pre c tr st e) as [r0 st1 e1|st1 e1].
    + destruct Hpre as [[y [Hy Hs]] [Hi [He1 [Hat [Hmo _]]]]]. subst r0.
      split; [eapply common_intro; try reflexivity; auto; exists y; auto | exact I].
    + destruct Hpre as [Es [He1 [Hrl Hat]]]. subst st1.
      destruct (t_read_step c tr st e1 v) as [[r0 st2] e2] eqn:Es.
      assert (Hd : match v with RData _ => rlost st = false | _ => True end) by (destruct v; auto).
      destruct (t_read_step_spec _ _ _ _ _ _ _ Hinv He1 Hv Hd Es) as [Hp He2].
      destruct (t_read_step_w _ _ _ _ _ _ _ (proj1 Hinv) He1 Hv Es) as [Hw2 Hp2].
      pose proof (step_post_mono _ _ _ _ _ Hp) as Hmo.
      destruct Hp as [Hg [Hi [Hat2 [_ [_ [_ [_ [Hb _]]]]]]]].
      destruct r0 as [b|y|].
      * destruct (Hb b eq_refl) as [_ [Hpd2 Hv']].
        set (ab1 := ab ++ lower b).
        destruct (dm ab1).
        { split; [eapply common_intro; try reflexivity; auto; exists SAuthFailed; split; auto; apply scr_AuthFailed | exact I]. }
        destruct (answer_spec tr (dp ab1) pc st2 e2 rs Hi He2 Hrs') as [Hc1 [Hns1 Hm1]].
        destruct (answer c tr (dp ab1) pc st2 e2 rs) as [st3 e3 rs3|o st3 e3 rs3|? ? ?|? ? ?|? ? ?];
          try contradiction.
        2:{ split; [eapply common_mono; eauto | exact I]. }
        destruct Hm1 as [E3 _]. subst st3.
        assert (He3 : env_ok tr e3 = true) by (unfold common in Hc1; simpl in Hc1; apply Hc1).
        set (ab2 := if dp ab1 then [] else ab1).
        destruct (answer_spec tr (dph ab2) phc st2 e3 rs Hi He3 Hrs') as [Hc2 [Hns2 Hm2]].
        destruct (answer c tr (dph ab2) phc st2 e3 rs) as [st4 e4 rs4|o st4 e4 rs4|? ? ?|? ? ?|? ? ?];
          try contradiction.
        2:{ split; [eapply common_mono; eauto | exact I]. }
        destruct Hm2 as [E4 _]. subst st4.
        assert (He4 : env_ok tr e4 = true) by (unfold common in Hc2; simpl in Hc2; apply Hc2).
        set (ab3 := if dph ab2 then [] else ab2).
        assert (Hnodata : (forall b', v <> RData b') -> ab3 = ab).
        { intro Hnd. assert (Eb : b = []) by (destruct v; auto; exfalso; eapply Hnd; reflexivity).
          subst ab3 ab2 ab1. rewrite Eb. simpl. rewrite app_nil_r. rewrite Hab1, Hab2. reflexivity. }
        destruct (dr ab3) eqn:Edr.
        -- split; [eapply common_intro; try reflexivity; auto|].
           simpl. intro Hl.
           destruct v as [b'| |x|]; try (rewrite Hnodata in Edr; [congruence | intros; discriminate]).
           destruct Hv' as [_ Hr2].
           unfold lost, rlost, wlost in *. rewrite Hw2, Hpd2. unfold rlost in Hr2. rewrite Hr2. exact Hl.
        -- assert (A1 : dp ab3 = false).
           { subst ab3 ab2. destruct (dp ab1) eqn:E1; destruct (dph []) eqn:E0; try congruence;
               destruct (dph ab1) eqn:E4; try congruence. }
           assert (A2 : dph ab3 = false).
           { subst ab3. destruct (dph ab2) eqn:E; congruence. }
           destruct (IH ab3 (if dp ab1 then S pc else pc) (if dph ab2 then S phc else phc) st2 e4
                        Hi He4 Hrs' A1 A2 Edr) as [Hc Hl].
           split; [eapply common_mono; eauto|].
           eapply lclause_via; eauto. intro Hdm. apply login_s_doomed; auto.
      * split; [eapply common_intro; try reflexivity; auto; exists y; auto | exact I].
      * split; [eapply common_intro; try reflexivity; auto | exact I].
Qed.
End LoginS.

(* ================================ operations ================================ *)
Lemma doomedb_iff : forall tr st, doomedb tr st = true <-> doomed tr st.
Proof.
  intros tr st. unfold doomedb, doomed. split.
  - intro H. apply orb_true_iff in H. destruct H as [H|H].
    + apply orb_true_iff in H. destruct H as [H|H].
      * apply orb_true_iff in H. destruct H as [H|H].
        -- left. apply negb_true_iff. exact H.
        -- right. left. exact H.
      * right. right. left. apply andb_prop in H. exact H.
    + right. right. right. destruct tr; try discriminate. auto.
  - intros [H|[H|[[H1 H2]|[H1 H2]]]].
    + rewrite H. reflexivity.
    + rewrite H. rewrite orb_true_r. reflexivity.
    + rewrite H1, H2. simpl. rewrite orb_true_r. reflexivity.
    + subst tr. rewrite H2. rewrite !orb_true_r. reflexivity.
Qed.

Lemma read_until_doomed : forall tr m rs buf st e,
  inv tr st -> env_ok tr e = true -> doomed tr st -> not_next (read_until c tr m buf st e rs).
Proof.
  intros tr m rs buf st e Hinv He Hd.
  pose proof (t_read_pre_spec tr st e Hinv He) as Hp.
  destruct rs as [|v rs']; simpl;
    destruct (t_read_pre c tr st e) as [r0 st1 e1|st1 e1] eqn:Epre;
    try (exfalso; eapply doomed_pre; eauto; fail);
    destruct Hp as [[y [Hy Hs]] _]; subst r0; exact I.
Qed.

Lemma fire_spec : forall tr st e rs,
  inv tr st -> env_ok tr e = true -> rs_ok tr rs = true ->
  let r := fire c tr st e rs in common tr st r /\ not_next r /\ next_or_stop r.
Proof.
  intros tr st e rs Hinv He Hrs. unfold fire.
  destruct (t_close c tr st e) as [[o st1] e1] eqn:Ec.
  destruct (t_close_spec _ _ _ _ _ _ Hinv He Ec) as [Hg [Hi [He1 [Hmo _]]]].
  destruct o as [y|].
  - split; [eapply common_intro; try reflexivity; auto; exists y; auto|]. simpl. auto.
  - split; [eapply common_intro; try reflexivity; auto; exists STimeout; split; auto; apply scr_Timeout|].
    simpl. auto.
Qed.

Lemma resolve_spec : forall tr To Ti login st r,
  0 < To -> common tr st r -> (login = false -> forall a b d, r <> LEmpty a b d) ->
  let r' := resolve c tr To Ti login r in
  common tr st r' /\ next_or_stop r' /\ (not_next r -> not_next r') /\
  match r with LNext _ _ _ => r' = r | _ => True end.
Proof.
  intros tr To Ti login st r HTo Hc Hne.
  assert (HT : negb (To =? 0) = true) by (apply negb_true_iff; apply N.eqb_neq; lia).
  assert (Hfire : forall st1 e1 rs1, r = LBlock st1 e1 rs1 \/ r = LSpin st1 e1 rs1 \/ r = LEmpty st1 e1 rs1 ->
            common tr st (fire c tr st1 e1 rs1) /\ next_or_stop (fire c tr st1 e1 rs1) /\
            (not_next r -> not_next (fire c tr st1 e1 rs1))).
  { intros st1 e1 rs1 Hr. assert (Hc1 : inv tr st1 /\ env_ok tr e1 = true /\ rs_ok tr rs1 = true /\ mono st st1).
    { destruct Hr as [Hr|[Hr|Hr]]; subst r; unfold common in Hc; simpl in Hc; tauto. }
    destruct Hc1 as [A [B [C D]]]. destruct (fire_spec tr st1 e1 rs1 A B C) as [F1 [F2 F3]].
    split; [eapply common_mono; eauto|]. auto. }
  destruct r as [st1 e1 rs1|o st1 e1 rs1|st1 e1 rs1|st1 e1 rs1|st1 e1 rs1]; simpl.
  - auto.
  - auto.
  - rewrite HT. rewrite orb_true_r. destruct (Hfire st1 e1 rs1 (or_introl eq_refl)) as [A [B C]]. auto.
  - rewrite HT, ok_sleeps. rewrite orb_true_r. simpl.
    destruct (Hfire st1 e1 rs1 (or_intror (or_introl eq_refl))) as [A [B C]]. auto.
  - destruct login.
    + rewrite HT, ok_sleeps. simpl. rewrite orb_true_r.
      destruct (Hfire st1 e1 rs1 (or_intror (or_intror eq_refl))) as [A [B C]]. auto.
    + exfalso. eapply Hne; reflexivity.
Qed.

Lemma next_clause_lclause : forall st r, next_clause true st r -> lclause st r.
Proof.
  intros st r H. destruct r as [st' e' rs'| | | |]; simpl in *; auto.
  destruct H as [A [B [_ D]]]. intro Hl. unfold lost, wlost in *. rewrite D, A, B.
  apply orb_false_iff in Hl. destruct Hl as [_ Hl]. exact Hl.
Qed.

Lemma run_instr_spec : forall tr i st e rs,
  inv tr st -> env_ok tr e = true -> rs_ok tr rs = true -> instr_ok i = true ->
  let r := run_instr c tr i st e rs in
  common tr st r /\ lclause st r /\ (is_login i = false -> forall a b d, r <> LEmpty a b d) /\
  (instr_reads i = true -> doomed tr st -> not_next r) /\
  (attached st = false -> exists st' e' rs', r = LStop (ORaised SNotOpened) st' e' rs').
Proof.
  intros tr i st e rs Hinv He Hrs Hi. destruct i as [|m|du dp dr|dm dp dph dr]; simpl in *.
  - destruct (do_write_spec tr st e rs Hinv He Hrs) as [Hc [Hn Hm]].
    split; [exact Hc|]. split.
    { destruct (do_write c tr st e rs); simpl; auto. destruct Hm as [E _]. subst. auto. }
    split.
    { intros _ a b d N. rewrite N in Hn. exact Hn. }
    split; [intro; discriminate|].
    intro Ha. unfold do_write. destruct (t_write c tr st e) as [[o st1] e1] eqn:Ew.
    destruct (t_write_spec _ _ _ _ _ _ Hinv He Ew) as [_ [_ [_ [_ [_ [_ [_ [_ [_ [_ [Hna _]]]]]]]]]]].
    destruct (Hna Ha) as [Eo Es]. subst. eauto.
  - apply negb_true_iff in Hi.
    destruct (read_until_spec tr m rs [] st e Hinv He Hrs Hi) as [Hc [Hn Hne]].
    split; [exact Hc|]. split; [apply next_clause_lclause; exact Hn|].
    split; [intros _; exact Hne|].
    split; [intros _ Hd; apply read_until_doomed; auto|].
    intro Ha. pose proof (t_read_pre_spec tr st e Hinv He) as Hp.
    destruct rs as [|v rs']; simpl; destruct (t_read_pre c tr st e) as [r0 st1 e1|st1 e1];
      try (destruct Hp as [_ [_ [_ Hat]]]; congruence);
      destruct Hp as [_ [_ [_ [_ [_ [Hna _]]]]]]; destruct (Hna Ha) as [Er Es]; subst; eauto.
  - apply andb_prop in Hi. destruct Hi as [Hi H3]. apply andb_prop in Hi. destruct Hi as [H1 H2].
    apply negb_true_iff in H1. apply negb_true_iff in H2. apply negb_true_iff in H3.
    destruct (login_t_spec tr du dp dr H1 H2 H3 rs [] 0%nat 0%nat st e Hinv He Hrs H1 H2 H3) as [Hc Hl].
    split; [exact Hc|]. split; [exact Hl|]. split; [intro; discriminate|].
    split; [intros _ Hd; apply login_t_doomed; auto|].
    intro Ha. pose proof (t_read_pre_spec tr st e Hinv He) as Hp.
    assert (Hdl : forall rs0 st1 e1, attached st1 = false -> inv tr st1 -> env_ok tr e1 = true ->
              exists st' e' rs', dead_loop c tr st1 (sends e1) (probes e1) (closes e1) rs0
                                 = LStop (ORaised SNotOpened) st' e' rs').
    { intros rs0 st1 e1 Ha1 Hi1 He1.
      assert (Hw : forall ws, env_ok tr (mkEnv ws (probes e1) (closes e1)) = true ->
                 exists st' e', t_write c tr st1 (mkEnv ws (probes e1) (closes e1)) = (Some SNotOpened, st', e')).
      { intros ws Hws. destruct (t_write c tr st1 (mkEnv ws (probes e1) (closes e1))) as [[o st2] e2] eqn:Ew.
        destruct (t_write_spec _ _ _ _ _ _ Hi1 Hws Ew) as [_ [_ [_ [_ [_ [_ [_ [_ [_ [_ [Hna _]]]]]]]]]]].
        destruct (Hna Ha1) as [Eo Es]. subst. eauto. }
      destruct (sends e1) as [|w ws] eqn:Es; simpl.
      - destruct (Hw [] (ltac:(rewrite <- Es; apply env_ok_split; exact He1))) as [st' [e' Hw']].
        rewrite Hw'. eauto.
      - destruct (Hw (w :: ws) (ltac:(rewrite <- Es; apply env_ok_split; exact He1))) as [st' [e' Hw']].
        rewrite Hw'. eauto. }
    destruct rs as [|v rs']; simpl; destruct (t_read_pre c tr st e) as [r0 st1 e1|st1 e1];
      try (destruct Hp as [_ [_ [_ Hat]]]; congruence);
      destruct Hp as [_ [Hi1 [He1 [Hat1 [_ [Hna _]]]]]]; destruct (Hna Ha) as [Er Es]; subst;
      (destruct (swallows c tr SNotOpened); [apply Hdl; auto | eauto]).
  - apply andb_prop in Hi. destruct Hi as [Hi H3]. apply andb_prop in Hi. destruct Hi as [Hi H2].
    apply andb_prop in Hi. destruct Hi as [_ H1].
    apply negb_true_iff in H1. apply negb_true_iff in H2. apply negb_true_iff in H3.
    destruct (login_s_spec tr dm dp dph dr H1 H2 H3 rs [] 0%nat 0%nat st e Hinv He Hrs H1 H2 H3) as [Hc Hl].
    split; [exact Hc|]. split; [exact Hl|]. split; [intro; discriminate|].
    split; [intros _ Hd; apply login_s_doomed; auto|].
    intro Ha. pose proof (t_read_pre_spec tr st e Hinv He) as Hp.
    destruct rs as [|v rs']; simpl; destruct (t_read_pre c tr st e) as [r0 st1 e1|st1 e1];
      try (destruct Hp as [_ [_ [_ Hat]]]; congruence);
      destruct Hp as [_ [_ [_ [_ [_ [Hna _]]]]]]; destruct (Hna Ha) as [Er Es]; subst; eauto.
Qed.

Definition done_or_raised (o : outcome) : Prop := o = ODone \/ exists y, o = ORaised y /\ scr y.

Definition prog_post (tr : transport) (st : tst) (x : outcome * tst * env * list rev) : Prop :=
  let '(o, st', e', rs') := x in
  done_or_raised o /\ inv tr st' /\ env_ok tr e' = true /\ rs_ok tr rs' = true /\ mono st st' /\
  (o = ODone -> lost st = false -> lost st' = false).

Definition out_of (x : outcome * tst * env * list rev) : outcome := fst (fst (fst x)).

Lemma run_prog_spec : forall tr To Ti p st e rs,
  0 < To -> inv tr st -> env_ok tr e = true -> rs_ok tr rs = true -> forallb instr_ok p = true ->
  prog_post tr st (run_prog c tr To Ti p st e rs) /\
  (existsb instr_reads p = true -> doomed tr st -> out_of (run_prog c tr To Ti p st e rs) <> ODone) /\
  (attached st = false -> p <> [] -> out_of (run_prog c tr To Ti p st e rs) = ORaised SNotOpened).
Proof.
  intros tr To Ti p. induction p as [|i p IH]; intros st e rs HTo Hinv He Hrs Hp.
  - simpl. split; [|split].
    + unfold prog_post. split; [left; reflexivity|]. split; [exact Hinv|]. split; [exact He|].
      split; [exact Hrs|]. split; [apply mono_refl | auto].
    + intro; discriminate.
    + intros _ N. congruence.
  - simpl in Hp. apply andb_prop in Hp. destruct Hp as [Hi Hp].
    destruct (run_instr_spec tr i st e rs Hinv He Hrs Hi) as [Hc [Hl [Hne [Hdo Hna]]]].
    destruct (resolve_spec tr To Ti (is_login i) st (run_instr c tr i st e rs) HTo Hc Hne) as [Hc' [Hns [Hnn Hsame]]].
    simpl.
    destruct (resolve c tr To Ti (is_login i) (run_instr c tr i st e rs))
      as [st1 e1 rs1|o st1 e1 rs1|? ? ?|? ? ?|? ? ?] eqn:Er; try contradiction.
    + (* the instruction completed *)
      assert (Hr : run_instr c tr i st e rs = LNext st1 e1 rs1).
      { destruct (run_instr c tr i st e rs) as [a b d|? ? ? ?|? ? ?|? ? ?|? ? ?];
          try (exfalso; apply Hnn; exact I). congruence. }
      rewrite Hr in Hl, Hdo, Hna. simpl in Hl.
      unfold common in Hc'. simpl in Hc'. destruct Hc' as [Hi1 [He1 [Hrs1 [Hmo1 _]]]].
      destruct (IH st1 e1 rs1 HTo Hi1 He1 Hrs1 Hp) as [Hpost [Hdoom Hnat]].
      split; [|split].
      * unfold prog_post in *. destruct (run_prog c tr To Ti p st1 e1 rs1) as [[[o st2] e2] rs2].
        destruct Hpost as [A [B [C [D [E F]]]]].
        split; [exact A|]. split; [exact B|]. split; [exact C|]. split; [exact D|].
        split; [eapply mono_trans; eauto | auto].
      * intros Hex Hd. simpl in Hex. destruct (instr_reads i) eqn:Eri.
        -- exfalso. apply (Hdo eq_refl Hd).
        -- simpl in Hex. apply Hdoom; auto.
           (* a write that completed did not change the state *)
           destruct i; try discriminate. simpl in Hr.
           destruct (do_write_spec tr st e rs Hinv He Hrs) as [_ [_ Hm]]. rewrite Hr in Hm.
           destruct Hm as [Es _]. subst st1. exact Hd.
      * intros Ha _. destruct (Hna Ha) as [? [? [? N]]]. discriminate.
    + unfold common in Hc'. simpl in Hc'. destruct Hc' as [Hi1 [He1 [Hrs1 [Hmo1 [y [Ey Hs]]]]]]. subst o.
      split; [|split].
      * unfold prog_post. split; [right; exists y; auto|]. split; [exact Hi1|]. split; [exact He1|].
        split; [exact Hrs1|]. split; [exact Hmo1 | intro; discriminate].
      * intros _ _. unfold out_of. simpl. discriminate.
      * intros Ha _. destruct (Hna Ha) as [st' [e' [rs' Hr]]]. rewrite Hr in Er. simpl in Er.
        inversion Er; subst. reflexivity.
Qed.

(* ---- one operation of a history ---- *)
Definition is_raised (o : outcome) : Prop := exists y, o = ORaised y /\ scr y.

Definition op_post (tr : transport) (o : op) (st : tst) (x : outcome * tst * env * list rev) : Prop :=
  let '(out, st', e', rs') := x in
  good c out = true /\ inv tr st' /\ env_ok tr e' = true /\ rs_ok tr rs' = true /\ mono st st' /\
  (op_chan o = true -> lost st = false -> lost st' = true -> is_raised out) /\
  (op_reads o = true -> doomed tr st -> is_raised out) /\
  (op_io o = true -> attached st = false -> out = ORaised SNotOpened).

Lemma run_op_spec : forall tr To Ti o st e rs,
  0 < To -> inv tr st -> env_ok tr e = true -> rs_ok tr rs = true -> op_ok o = true ->
  op_post tr o st (run_op c tr To Ti o st e rs).
Proof.
  intros tr To Ti o st e rs HTo Hinv He Hrs Hop. destruct o as [p| | | |]; simpl.
  - (* channel operation *)
    destruct (run_prog_spec tr To Ti p st e rs HTo Hinv He Hrs Hop) as [Hpost [Hdoom Hnat]].
    unfold out_of in *. unfold prog_post in Hpost.
    destruct (run_prog c tr To Ti p st e rs) as [[[out st1] e1] rs1]. simpl in *.
    destruct Hpost as [A [B [C [D [E F]]]]].
    split. { destruct A as [A|[y [A Hs]]]; subst; auto. }
    split; [exact B|]. split; [exact C|]. split; [exact D|]. split; [exact E|].
    split.
    { intros _ Hl Hl'. destruct A as [A|A]; auto. rewrite (F A Hl) in Hl'. discriminate. }
    split.
    { intros Hr Hd. destruct A as [A|A]; auto. exfalso. apply (Hdoom Hr Hd). exact A. }
    intros Hio Ha. apply Hnat; auto. destruct p; [discriminate | congruence].
  - (* isalive() *)
    destruct (t_isalive c tr st e) as [[a st1] e1] eqn:Ea.
    destruct (t_isalive_spec _ _ _ _ _ _ Hinv He Ea) as [Hg [Hi [He1 [Hs _]]]].
    assert (Hmo : mono st st1) by (destruct Hs; subst; [apply mono_refl | apply mono_pdead]).
    destruct a as [b|y]; unfold op_post; simpl;
      (split; [auto|]); (split; [exact Hi|]); (split; [exact He1|]); (split; [exact Hrs|]);
      (split; [exact Hmo|]); (split; [intro; discriminate|]); (split; intro; discriminate).
  - (* close() *)
    destruct (t_close c tr st e) as [[o st1] e1] eqn:Ec.
    destruct (t_close_spec _ _ _ _ _ _ Hinv He Ec) as [Hg [Hi [He1 [Hmo _]]]].
    destruct o as [y|]; unfold op_post; simpl;
      (split; [auto|]); (split; [exact Hi|]); (split; [exact He1|]); (split; [exact Hrs|]);
      (split; [exact Hmo|]); (split; [intro; discriminate|]); (split; intro; discriminate).
  - discriminate.
  - (* transport.write() *)
    destruct (t_write c tr st e) as [[o st1] e1] eqn:Ew.
    destruct (t_write_spec _ _ _ _ _ _ Hinv He Ew) as [Hg [Hi [He1 [Hmo [_ [_ [_ [_ [_ [_ [Hna _]]]]]]]]]]].
    destruct o as [y|]; unfold op_post; simpl;
      (split; [auto|]); (split; [exact Hi|]); (split; [exact He1|]); (split; [exact Hrs|]);
      (split; [exact Hmo|]); (split; [intro; discriminate|]); (split; [intro; discriminate|]).
    + intros _ Ha. destruct (Hna Ha) as [E _]. inversion E. reflexivity.
    + intros _ Ha. destruct (Hna Ha) as [E _]. discriminate.
Qed.

(* ================================ histories ================================ *)
Definition obs_ok (o : obs) : Prop :=
  good c (o_out o) = true /\ agood (o_alive_after o) /\
  (o_alost_after o = true -> o_alive_after o <> ABool true) /\
  (o_chan o = true -> o_lost_before o = false -> o_lost_after o = true -> is_raised (o_out o)) /\
  (o_reads o = true -> o_doomed_before o = true -> is_raised (o_out o)) /\
  (o_io o = true -> o_attached_before o = false -> o_out o = ORaised SNotOpened).

Lemma run_ops_step : forall tr To Ti o st e rs,
  0 < To -> inv tr st -> env_ok tr e = true -> rs_ok tr rs = true -> op_ok o = true ->
  exists out st1 e1 rs1 al st2 e2,
    run_op c tr To Ti o st e rs = (out, st1, e1, rs1) /\ t_isalive c tr st1 e1 = (al, st2, e2) /\
    op_post tr o st (out, st1, e1, rs1) /\ agood al /\ inv tr st2 /\ env_ok tr e2 = true /\
    mono st st2 /\ (alost tr st1 = true -> al <> ABool true).
Proof.
  intros tr To Ti o st e rs HTo Hinv He Hrs Hop.
  pose proof (run_op_spec tr To Ti o st e rs HTo Hinv He Hrs Hop) as Hpost.
  destruct (run_op c tr To Ti o st e rs) as [[[out st1] e1] rs1] eqn:Eo.
  destruct (t_isalive c tr st1 e1) as [[al st2] e2] eqn:Ea.
  exists out, st1, e1, rs1, al, st2, e2.
  pose proof Hpost as Hpost'. unfold op_post in Hpost'.
  destruct Hpost' as [_ [Hi1 [He1 [_ [Hmo1 _]]]]].
  destruct (t_isalive_spec _ _ _ _ _ _ Hi1 He1 Ea) as [Hg [Hi2 [He2 [Hs [_ Hal]]]]].
  split; [first [reflexivity | assumption]|]. split; [first [reflexivity | assumption]|].
  split; [exact Hpost|]. split; [exact Hg|].
  split; [exact Hi2|]. split; [exact He2|]. split; [|exact Hal].
  eapply mono_trans; [exact Hmo1|]. destruct Hs; subst; [apply mono_refl | apply mono_pdead].
Qed.

Theorem run_ops_spec : forall tr To Ti os st e rs,
  0 < To -> inv tr st -> env_ok tr e = true -> rs_ok tr rs = true -> forallb op_ok os = true ->
  Forall obs_ok (run_ops c tr To Ti os st e rs).
Proof.
  intros tr To Ti os. induction os as [|o os IH]; intros st e rs HTo Hinv He Hrs Hops; simpl.
  - constructor.
  - simpl in Hops. apply andb_prop in Hops. destruct Hops as [Hop Hops].
    destruct (run_ops_step tr To Ti o st e rs HTo Hinv He Hrs Hop)
      as [out [st1 [e1 [rs1 [al [st2 [e2 [Eo [Ea [Hpost [Hg [Hi2 [He2 [Hmo Hal]]]]]]]]]]]]]].
    rewrite Eo, Ea. unfold op_post in Hpost.
    destruct Hpost as [A [B [C [D [E [F [G H]]]]]]].
    constructor.
    + unfold obs_ok. simpl. repeat split; auto.
      intros Hr Hd. apply G; auto. apply doomedb_iff. exact Hd.
    + apply IH; auto.
Qed.

(* once the read side is lost it stays lost: every later operation starts doomed, isalive() must say so *)
Theorem run_ops_after_loss : forall tr To Ti os st e rs,
  0 < To -> inv tr st -> env_ok tr e = true -> rs_ok tr rs = true -> forallb op_ok os = true ->
  rlost st = true ->
  Forall (fun o => o_doomed_before o = true /\ o_alost_after o = true) (run_ops c tr To Ti os st e rs).
Proof.
  intros tr To Ti os. induction os as [|o os IH]; intros st e rs HTo Hinv He Hrs Hops Hl; simpl.
  - constructor.
  - simpl in Hops. apply andb_prop in Hops. destruct Hops as [Hop Hops].
    destruct (run_ops_step tr To Ti o st e rs HTo Hinv He Hrs Hop)
      as [out [st1 [e1 [rs1 [al [st2 [e2 [Eo [Ea [Hpost [Hg [Hi2 [He2 [Hmo Hal]]]]]]]]]]]]]].
    rewrite Eo, Ea. unfold op_post in Hpost.
    destruct Hpost as [A [B [C [D [E _]]]]].
    constructor.
    + simpl. split.
      * apply doomedb_iff. right. left. exact Hl.
      * unfold alost. rewrite (mono_rlost _ _ E Hl). reflexivity.
    + apply IH; auto. apply (mono_rlost _ _ Hmo Hl).
Qed.

(* a detached transport (never opened, or closed) stays detached *)
Theorem run_ops_detached : forall tr To Ti os st e rs,
  0 < To -> inv tr st -> env_ok tr e = true -> rs_ok tr rs = true -> forallb op_ok os = true ->
  attached st = false ->
  Forall (fun o => o_attached_before o = false) (run_ops c tr To Ti os st e rs).
Proof.
  intros tr To Ti os. induction os as [|o os IH]; intros st e rs HTo Hinv He Hrs Hops Ha; simpl.
  - constructor.
  - simpl in Hops. apply andb_prop in Hops. destruct Hops as [Hop Hops].
    destruct (run_ops_step tr To Ti o st e rs HTo Hinv He Hrs Hop)
      as [out [st1 [e1 [rs1 [al [st2 [e2 [Eo [Ea [Hpost [Hg [Hi2 [He2 [Hmo Hal]]]]]]]]]]]]]].
    rewrite Eo, Ea. unfold op_post in Hpost.
    destruct Hpost as [A [B [C [D [E _]]]]].
    constructor; [exact Ha|]. apply IH; auto.
    destruct Hmo as [_ [_ [_ [_ M]]]]. destruct (attached st2) eqn:E2; auto. rewrite (M eq_refl) in Ha. discriminate.
Qed.

(* close() that returns leaves the transport detached *)
Theorem close_detaches : forall tr st e st' e',
  inv tr st -> env_ok tr e = true -> t_close c tr st e = (None, st', e') -> attached st' = false.
Proof.
  intros tr st e st' e' Hinv He H.
  destruct (t_close_spec _ _ _ _ _ _ Hinv He H) as [_ [_ [_ [_ [_ Hd]]]]]. auto.
Qed.

(* open(): whatever documented failure a library step meets, the result is a scrapli exception *)
Lemma open_steps_spec : forall ks tbls mr evs,
  length tbls = length ks -> length mr = length ks ->
  (forall p, In p (combine tbls mr) -> forall x, In x (snd p) -> flow_good c (chain c (fst p) x) = true) ->
  Forall2 (fun v l => match v with CRaise x => In x l | COk => True end) evs (firstn (length evs) mr) ->
  match open_steps c ks tbls evs with Some y => scr y | None => True end.
Proof.
  induction ks as [|k ks IH]; intros tbls mr evs Hl1 Hl2 Hfl Hev; simpl; auto.
  destruct tbls as [|ts tbls]; [discriminate|]. destruct mr as [|l mr]; [discriminate|].
  simpl in Hl1, Hl2. inversion Hl1. inversion Hl2.
  assert (Hfl' : forall p, In p (combine tbls mr) -> forall x, In x (snd p) -> flow_good c (chain c (fst p) x) = true)
    by (intros p Hp; apply Hfl; simpl; auto).
  destruct evs as [|v evs].
  - apply (IH tbls mr []); auto; simpl; constructor.
  - simpl in Hev. inversion Hev as [|v0 l0 evs0 mr0 Hx Hrest]; subst.
    destruct v as [|x].
    + apply (IH tbls mr evs); auto.
    + pose proof (flow_good_inv _ (Hfl (ts, l) (or_introl eq_refl) x Hx)) as Hf. simpl in Hf.
      destruct (chain c ts x) as [y| |]; auto;
        destruct k; try apply scr_AuthFailed; try apply scr_NotOpened; apply (IH tbls mr evs); auto.
Qed.

Theorem open_is_scrapli : forall tr evs,
  Forall2 (fun v l => match v with CRaise x => In x l | COk => True end) evs
          (firstn (length evs) (open_may_raise tr)) ->
  match t_open c tr evs with Some y => scr y | None => True end.
Proof.
  intros tr evs H. unfold t_open.
  apply (open_steps_spec (open_kinds tr) (tc_open_tbls (tcf c tr)) (open_may_raise tr) evs); auto.
  - apply (tf_open_len _ (ok_tr tr)).
  - destruct tr; reflexivity.
  - apply (tf_open _ (ok_tr tr)).
Qed.

(* timeout_ops = 0 disables the backstop: a silent peer then hangs the operation (outside the property) *)
Definition hang_ops : list op := [OpChan [IRead (fun _ => false)]].

Theorem timeout_zero_hangs :
  map o_out (run_ops c Telnet 0 0 hang_ops st_open (mkEnv [] [] []) []) = [OHang].
Proof.
  unfold hang_ops. cbn. unfold run_prog, run_instr, read_until, t_read_pre, sock_probe. cbn.
  rewrite andb_false_r. cbn.
  destruct (t_isalive c Telnet st_open {| sends := []; probes := []; closes := [] |}) as [[al ?] ?].
  reflexivity.
Qed.

Lemma inv_open : forall tr, inv tr st_open.
Proof. intro tr. split; [reflexivity|]. intros _ H. discriminate. Qed.

Lemma inv_never : forall tr, inv tr st_never.
Proof. intro tr. split; [reflexivity|]. intros _ H. discriminate. Qed.

(* the statement without the premise 0 < timeout_ops is false: timeout_ops = 0 means "no timeout" *)
Theorem full_refuted :
  ~ (forall tr To Ti os st e rs,
       inv tr st -> env_ok tr e = true -> rs_ok tr rs = true -> forallb op_ok os = true ->
       Forall obs_ok (run_ops c tr To Ti os st e rs)).
Proof.
  intro H. pose proof timeout_zero_hangs as Hz.
  specialize (H Telnet 0 0 hang_ops st_open (mkEnv [] [] []) [] (inv_open Telnet) eq_refl eq_refl eq_refl).
  destruct (run_ops c Telnet 0 0 hang_ops st_open (mkEnv [] [] []) []) as [|o l]; [discriminate|].
  simpl in Hz. inversion Hz as [[Ho Hl]]. inversion H as [|? ? Hob _]; subst.
  destruct Hob as [Hg _]. rewrite Ho in Hg. discriminate.
Qed.

End WithCfg.
