(* SshConfig_Proofs.v — theorems about model/SshConfig.v (scrapli/ssh_config.py SSHConfig).

   For ALL parsed entry lists and ALL looked-up names:
     lookup_total            construction and lookup never raise (no KeyError, the loops terminate)
     lookup_exact            a name that is a Host line / listed on one gets that entry
     merge_preserves_set     inheritance never changes an option the entry sets itself
     lookup_own_values       ... hence lookup of a listed name returns the entry's own set values
     merged_values_from_file every value of every merged entry is a value some entry of the file has
     lookup_choice_anchored  where unanchored search = whole-name match on the name, the entry
                             chosen for an unlisted name is the closest whole-name match, first in
                             file order on ties, else Host *
   The full statement  lookup = spec_lookup  is REFUTED (two independent witnesses, replayed on the
   real code as known findings); lookup_refines_spec_partial proves it for configs of named hosts
   (no wildcards) + Host * defaults whose names do not occur inside each other. *)
From Verif Require Import Bytes SshConfig.
From Coq Require Import Lia.

Definition tok_class (t : gtok) : N := match t with Lit _ => 0 | Star => 1 | Qm => 2 end.

(* ------------------------------------------------------------------------------------------ *)
(* byte strings, dict                                                                         *)
(* ------------------------------------------------------------------------------------------ *)
Lemma sbeq_refl a : beq a a = true.
Proof. induction a as [|x a IH]; cbn; [reflexivity|]. rewrite N.eqb_refl, IH. reflexivity. Qed.

Lemma sbeq_eq a : forall b, beq a b = true -> a = b.
Proof.
  induction a as [|x a IH]; intros [|y b] H; cbn in H; try discriminate; [reflexivity|].
  apply andb_prop in H as [H1 H2]. apply N.eqb_eq in H1. subst. f_equal. apply IH, H2.
Qed.

Lemma sbeq_neq a b : a <> b -> beq a b = false.
Proof. intros H. destruct (beq a b) eqn:E; [|reflexivity]. apply sbeq_eq in E. contradiction. Qed.

Lemma sbeq_false_neq a b : beq a b = false -> a <> b.
Proof. intros H E. subst. rewrite sbeq_refl in H. discriminate. Qed.

Lemma memk_In k l : memk k l = true <-> In k l.
Proof.
  induction l as [|x l IH]; cbn; [split; [discriminate|tauto]|].
  rewrite orb_true_iff, IH. split; intros [H|H]; auto.
  - left. symmetry. apply sbeq_eq, H.
  - left. subst. apply sbeq_refl.
Qed.

Lemma get_In_keys k d : In k (keys d) -> exists h, get k d = Some h.
Proof.
  induction d as [|[k' v] d IH]; cbn; [tauto|]. intros [H|H].
  - subst. rewrite sbeq_refl. eauto.
  - destruct (beq k k'); eauto.
Qed.

Lemma get_Some_keys k d h : get k d = Some h -> In k (keys d).
Proof.
  induction d as [|[k' v] d IH]; cbn; [discriminate|].
  destruct (beq k k') eqn:E; intros H.
  - left. symmetry. apply sbeq_eq, E.
  - right. auto.
Qed.

Lemma keys_dset k v d h : get k d = Some h -> keys (dset k v d) = keys d.
Proof.
  induction d as [|[k' v'] d IH]; cbn; [discriminate|].
  destruct (beq k k') eqn:E; intros H; cbn; [reflexivity|]. f_equal. auto.
Qed.

Lemma length_dset k v d h : get k d = Some h -> length (dset k v d) = length d.
Proof.
  intros H. rewrite <- (map_length fst (dset k v d)), <- (map_length fst d).
  change (length (keys (dset k v d)) = length (keys d)). erewrite keys_dset; eauto.
Qed.

Lemma get_dset_same k v d : get k (dset k v d) = Some v.
Proof.
  induction d as [|[k' v'] d IH]; cbn.
  - rewrite sbeq_refl. reflexivity.
  - destruct (beq k k') eqn:E; cbn; rewrite E; auto.
Qed.

Lemma get_dset_other k k2 v d : k2 <> k -> get k2 (dset k v d) = get k2 d.
Proof.
  intros N. induction d as [|[k' v'] d IH]; cbn.
  - rewrite (sbeq_neq _ _ N). reflexivity.
  - destruct (beq k k') eqn:E; cbn.
    + apply sbeq_eq in E. subst. rewrite (sbeq_neq _ _ N). reflexivity.
    + destruct (beq k2 k'); auto.
Qed.

Lemma remk_length k l : memk k l = true -> S (length (remk k l)) = length l.
Proof.
  induction l as [|x l IH]; cbn; [discriminate|].
  destruct (beq k x); cbn; intros H; [reflexivity|]. f_equal. auto.
Qed.

Lemma remk_incl k l x : In x (remk k l) -> In x l.
Proof.
  induction l as [|y l IH]; cbn; [tauto|]. destruct (beq k y); cbn; intuition.
Qed.

(* ------------------------------------------------------------------------------------------ *)
(* _lookup_fuzzy_match returns a key it was given, or "*"                                      *)
(* ------------------------------------------------------------------------------------------ *)
Lemma best_In cur l : best cur l = cur \/ In (best cur l) l.
Proof.
  revert cur; induction l as [|c r IH]; intros cur; cbn [best In]; [auto|].
  destruct (Nat.ltb (fst c) (fst cur)).
  - destruct (IH c) as [H|H]; [rewrite H|]; auto.
  - destruct (IH cur) as [H|H]; auto.
Qed.

Lemma pat_cands_key k t c : In c (pat_cands k t) -> snd c = k.
Proof.
  unfold pat_cands. intros H. apply in_flat_map in H as [p [_ H]].
  destruct (search (compile p) t); cbn in H; [|tauto]. destruct H as [H|[]]. subst. reflexivity.
Qed.

Lemma cands_key ks t c : In c (cands ks t) -> In (snd c) ks.
Proof.
  unfold cands. intros H. apply in_flat_map in H as [k [Hk H]].
  apply pat_cands_key in H. subst. exact Hk.
Qed.

Lemma fuzzy_in ks t : fuzzy ks t = star_key \/ In (fuzzy ks t) ks.
Proof.
  unfold fuzzy. destruct (cands ks t) as [|c r] eqn:E; [auto|]. right.
  apply cands_key with (t := t). rewrite E.
  destruct (best_In c r) as [H|H]; [rewrite H; left; reflexivity|right; exact H].
Qed.

(* ------------------------------------------------------------------------------------------ *)
(* lookup_total                                                                               *)
(* ------------------------------------------------------------------------------------------ *)
Definition has_star (d : dict) : Prop := In star_key (keys d).

Lemma fuzzy_get d ks t :
  has_star d -> (forall x, In x ks -> In x (keys d)) -> exists h, get (fuzzy ks t) d = Some h.
Proof.
  intros Hs Hi. apply get_In_keys. destruct (fuzzy_in ks t) as [H|H]; [rewrite H; exact Hs|auto].
Qed.

Lemma merge_loop_ok : forall fuel d k cur,
  (length cur < fuel)%nat -> In k (keys d) -> has_star d ->
  (forall x, In x cur -> In x (keys d)) ->
  exists d', merge_loop fuel d k cur = Ok d' /\ keys d' = keys d.
Proof.
  induction fuel as [|f IH]; intros d k cur Hf Hk Hs Hc; [lia|].
  cbn [merge_loop].
  set (ks := match cur with [] => keys d | _ => cur end).
  assert (Hks : forall x, In x ks -> In x (keys d)).
  { subst ks. destruct cur; auto. }
  destruct (get_In_keys _ _ Hk) as [h Hh]. rewrite Hh.
  destruct (fuzzy_get d ks k Hs Hks) as [src Hsrc]. rewrite Hsrc.
  assert (Hkeys : keys (dset k (fill h src) d) = keys d) by (eapply keys_dset; eauto).
  destruct (memk (fuzzy ks k) cur) eqn:M.
  - destruct (IH (dset k (fill h src) d) k (remk (fuzzy ks k) cur)) as [d' [E K]].
    + pose proof (remk_length _ _ M). lia.
    + rewrite Hkeys. exact Hk.
    + unfold has_star. rewrite Hkeys. exact Hs.
    + intros x Hx. rewrite Hkeys. apply Hc. eapply remk_incl; eauto.
    + exists d'. split; [exact E|]. rewrite K. exact Hkeys.
  - eexists. split; [reflexivity|exact Hkeys].
Qed.

Lemma merge_keys_ok : forall ks d,
  (forall k, In k ks -> In k (keys d)) -> has_star d ->
  exists d', merge_keys ks d = Ok d' /\ keys d' = keys d.
Proof.
  induction ks as [|k r IH]; intros d Hk Hs; cbn [merge_keys]; [eauto|].
  destruct (merge_loop_ok (S (S (length d))) d k (keys d)) as [d1 [E1 K1]].
  - unfold keys. rewrite map_length. lia.
  - apply Hk. left. reflexivity.
  - exact Hs.
  - auto.
  - rewrite E1. destruct (IH d1) as [d2 [E2 K2]].
    + intros x Hx. rewrite K1. apply Hk. right. exact Hx.
    + unfold has_star. rewrite K1. exact Hs.
    + exists d2. split; [exact E2|]. rewrite K2. exact K1.
Qed.

Lemma ensure_star_has d : has_star (ensure_star d).
Proof.
  unfold ensure_star, has_star. destruct (memk star_key (keys d)) eqn:M.
  - apply memk_In, M.
  - unfold keys. rewrite map_app. apply in_or_app. right. left. reflexivity.
Qed.

Theorem build_total es : exists d, build es = Ok d /\ has_star d
  /\ keys d = keys (ensure_star (dictify es)).
Proof.
  unfold build, merge.
  destruct (merge_keys_ok (keys (ensure_star (dictify es))) (ensure_star (dictify es))) as [d [E K]];
    [auto|apply ensure_star_has|].
  exists d. repeat split; [exact E| |exact K]. unfold has_star. rewrite K. apply ensure_star_has.
Qed.

Lemma lookup_ok d name : has_star d -> exists r, lookup d name = Ok r.
Proof.
  intros Hs. unfold lookup. destruct (get name d); [eauto|].
  destruct (find_listed name d); [eauto|].
  destruct (fuzzy_get d (keys d) name Hs (fun x H => H)) as [h Hh]. rewrite Hh. eauto.
Qed.

(* SSHConfig(file) and .lookup(name) never raise, whatever _parse discovered and whatever name *)
Theorem lookup_total : forall es name, exists r, run es name = Ok r.
Proof.
  intros es name. unfold run. destruct (build_total es) as [d [E [Hs _]]]. rewrite E.
  apply lookup_ok, Hs.
Qed.

(* ------------------------------------------------------------------------------------------ *)
(* exact names                                                                                *)
(* ------------------------------------------------------------------------------------------ *)
Lemma find_listed_sound name d k h :
  find_listed name d = Some (k, h) -> In (k, h) d /\ In name (split_ws k).
Proof.
  induction d as [|[k' h'] d IH]; cbn; [discriminate|].
  destruct (memk name (split_ws k')) eqn:M; intros H.
  - inversion H; subst. split; [left; reflexivity|apply memk_In, M].
  - destruct (IH H). auto.
Qed.

(* a name that is a whole Host line gets that entry; otherwise a name listed on a Host line gets
   the first entry listing it *)
Theorem lookup_exact d name :
  (forall h, get name d = Some h -> lookup d name = Ok (name, h))
  /\ (forall k h, get name d = None -> find_listed name d = Some (k, h) ->
        lookup d name = Ok (k, h) /\ In (k, h) d /\ In name (split_ws k)).
Proof.
  split.
  - intros h H. unfold lookup. rewrite H. reflexivity.
  - intros k h H1 H2. unfold lookup. rewrite H1, H2. split; [reflexivity|].
    apply find_listed_sound, H2.
Qed.

(* ------------------------------------------------------------------------------------------ *)
(* inheritance never overwrites an option that is set                                         *)
(* ------------------------------------------------------------------------------------------ *)
Definition keeps (h h' : host) : Prop :=
  (t_ob (h_hostname h) = true -> h_hostname h' = h_hostname h)
  /\ (t_on (h_port h) = true -> h_port h' = h_port h)
  /\ (t_b (h_user h) = true -> h_user h' = h_user h)
  /\ (t_ob (h_idonly h) = true -> h_idonly h' = h_idonly h)
  /\ (t_ob (h_idfile h) = true -> h_idfile h' = h_idfile h).

Lemma keeps_refl h : keeps h h.
Proof. unfold keeps. tauto. Qed.

Lemma keeps_trans a b c : keeps a b -> keeps b c -> keeps a c.
Proof.
  unfold keeps. intros (A1 & A2 & A3 & A4 & A5) (B1 & B2 & B3 & B4 & B5).
  repeat split; intros T.
  - rewrite <- (A1 T). apply B1. rewrite (A1 T). exact T.
  - rewrite <- (A2 T). apply B2. rewrite (A2 T). exact T.
  - rewrite <- (A3 T). apply B3. rewrite (A3 T). exact T.
  - rewrite <- (A4 T). apply B4. rewrite (A4 T). exact T.
  - rewrite <- (A5 T). apply B5. rewrite (A5 T). exact T.
Qed.

Lemma keeps_fill h src : keeps h (fill h src).
Proof. unfold keeps, fill; cbn. repeat split; intros T; rewrite T; reflexivity. Qed.

(* one `while True` loop changes only the entry of its own host line, and keeps what it set *)
Lemma merge_loop_keeps : forall fuel d k cur d',
  merge_loop fuel d k cur = Ok d' ->
  (forall k2, k2 <> k -> get k2 d' = get k2 d)
  /\ (forall h, get k d = Some h -> exists h', get k d' = Some h' /\ keeps h h').
Proof.
  induction fuel as [|f IH]; intros d k cur d' H; cbn [merge_loop] in H; [discriminate|].
  set (fm := fuzzy (match cur with [] => keys d | _ => cur end) k) in *.
  destruct (get k d) as [h|] eqn:Hh; [|discriminate].
  destruct (get fm d) as [src|] eqn:Hsrc; [|discriminate].
  destruct (memk fm cur).
  - apply IH in H as [H1 H2]. split.
    + intros k2 N. rewrite (H1 k2 N). apply get_dset_other, N.
    + intros h0 E. inversion E; subst h0.
      destruct (H2 (fill h src) (get_dset_same _ _ _)) as [h' [G K]].
      exists h'. split; [exact G|]. eapply keeps_trans; [apply keeps_fill|exact K].
  - inversion H; subst d'. split.
    + intros k2 N. apply get_dset_other, N.
    + intros h0 E. inversion E; subst h0. exists (fill h src). split; [apply get_dset_same|apply keeps_fill].
Qed.

Lemma merge_keys_keeps : forall ks d d',
  merge_keys ks d = Ok d' ->
  forall k h, get k d = Some h -> exists h', get k d' = Some h' /\ keeps h h'.
Proof.
  induction ks as [|k0 r IH]; intros d d' H k h G; cbn [merge_keys] in H.
  - inversion H; subst. exists h. split; [exact G|apply keeps_refl].
  - destruct (merge_loop (S (S (length d))) d k0 (keys d)) as [d1| |] eqn:E; try discriminate.
    apply merge_loop_keeps in E as [E1 E2].
    assert (exists h1, get k d1 = Some h1 /\ keeps h h1) as [h1 [G1 K1]].
    { destruct (beq k k0) eqn:B.
      - apply sbeq_eq in B. subst k0. apply E2, G.
      - exists h. split; [|apply keeps_refl]. rewrite E1; [exact G|]. apply sbeq_false_neq, B. }
    destruct (IH d1 d' H k h1 G1) as [h' [G' K']].
    exists h'. split; [exact G'|]. eapply keeps_trans; eauto.
Qed.

(* for every entry _parse discovered (after dict overwrite and "*" completion), the merged entry
   under the same Host line keeps every option the entry set itself *)
Theorem merge_preserves_set es d k h :
  build es = Ok d -> get k (ensure_star (dictify es)) = Some h ->
  exists h', get k d = Some h' /\ keeps h h'.
Proof. unfold build, merge. intros B G. eapply merge_keys_keeps; eauto. Qed.

(* the entry that names the host exactly is returned with its own set values intact *)
Theorem lookup_own_values es d name h :
  build es = Ok d -> get name (ensure_star (dictify es)) = Some h ->
  exists h', lookup d name = Ok (name, h') /\ keeps h h'.
Proof.
  intros B G. destruct (merge_preserves_set es d name h B G) as [h' [G' K]].
  exists h'. split; [|exact K]. apply (proj1 (lookup_exact d name)), G'.
Qed.

(* ------------------------------------------------------------------------------------------ *)
(* no value is invented: every option value of a merged entry is the value of that option in   *)
(* some entry of the file (or of the default Host * )                                          *)
(* ------------------------------------------------------------------------------------------ *)
Definition from_file (d0 : dict) (h : host) : Prop :=
  In (h_hostname h) (map (fun e => h_hostname (snd e)) d0)
  /\ In (h_port h) (map (fun e => h_port (snd e)) d0)
  /\ In (h_user h) (map (fun e => h_user (snd e)) d0)
  /\ In (h_idonly h) (map (fun e => h_idonly (snd e)) d0)
  /\ In (h_idfile h) (map (fun e => h_idfile (snd e)) d0).

Lemma from_file_fill d0 h src : from_file d0 h -> from_file d0 src -> from_file d0 (fill h src).
Proof.
  unfold from_file, fill; cbn. intros (A1 & A2 & A3 & A4 & A5) (B1 & B2 & B3 & B4 & B5).
  repeat split.
  - destruct (t_ob (h_hostname h)); assumption.
  - destruct (t_on (h_port h)); assumption.
  - destruct (t_b (h_user h)); assumption.
  - destruct (t_ob (h_idonly h)); assumption.
  - destruct (t_ob (h_idfile h)); assumption.
Qed.

Definition all_from (d0 d : dict) : Prop := forall k h, In (k, h) d -> from_file d0 h.

Lemma get_In k d h : get k d = Some h -> exists k', In (k', h) d.
Proof.
  induction d as [|[k' v] d IH]; cbn; [discriminate|].
  destruct (beq k k'); intros H.
  - inversion H; subst. exists k'. left. reflexivity.
  - destruct (IH H) as [k2 I]. exists k2. right. exact I.
Qed.

Lemma all_from_self d0 : all_from d0 d0.
Proof.
  intros k h I. unfold from_file.
  repeat split;
    match goal with |- In _ (map ?f _) => change (In (f (k, h)) (map f d0)); apply in_map, I end.
Qed.

Lemma In_dset k v d k2 h : In (k2, h) (dset k v d) -> h = v \/ In (k2, h) d.
Proof.
  induction d as [|[k' v'] d IH]; cbn.
  - intros [H|[]]. inversion H. auto.
  - destruct (beq k k'); cbn; intros [H|H].
    + inversion H. auto.
    + auto.
    + auto.
    + destruct (IH H); auto.
Qed.

Lemma all_from_dset d0 d k v : all_from d0 d -> from_file d0 v -> all_from d0 (dset k v d).
Proof.
  intros A V k2 h I. apply In_dset in I as [I|I]; [subst; exact V|eapply A, I].
Qed.

Lemma merge_loop_from d0 : forall fuel d k cur d',
  all_from d0 d -> merge_loop fuel d k cur = Ok d' -> all_from d0 d'.
Proof.
  induction fuel as [|f IH]; intros d k cur d' A H; cbn [merge_loop] in H; [discriminate|].
  set (fm := fuzzy (match cur with [] => keys d | _ => cur end) k) in *.
  destruct (get k d) as [h|] eqn:Hh; [|discriminate].
  destruct (get fm d) as [src|] eqn:Hsrc; [|discriminate].
  assert (A' : all_from d0 (dset k (fill h src) d)).
  { apply all_from_dset; [exact A|].
    apply get_In in Hh as [k1 I1]. apply get_In in Hsrc as [k2 I2].
    apply from_file_fill; eapply A; eauto. }
  destruct (memk fm cur); [eapply IH; eauto|]. inversion H; subst. exact A'.
Qed.

Lemma merge_keys_from d0 : forall ks d d',
  all_from d0 d -> merge_keys ks d = Ok d' -> all_from d0 d'.
Proof.
  induction ks as [|k r IH]; intros d d' A H; cbn [merge_keys] in H; [inversion H; subst; exact A|].
  destruct (merge_loop (S (S (length d))) d k (keys d)) as [d1| |] eqn:E; try discriminate.
  eapply IH; [|exact H]. eapply merge_loop_from; eauto.
Qed.

Theorem merged_values_from_file es d k h :
  build es = Ok d -> In (k, h) d -> from_file (ensure_star (dictify es)) h.
Proof.
  unfold build, merge. intros B I.
  eapply (merge_keys_from (ensure_star (dictify es))); [apply all_from_self|exact B|exact I].
Qed.

(* whatever lookup returns carries only values that occur in the file (or the defaults) *)
Corollary lookup_values_from_file es name k h :
  run es name = Ok (k, h) -> from_file (ensure_star (dictify es)) h.
Proof.
  unfold run. destruct (build es) as [d| |] eqn:B; try discriminate. intros L.
  assert (G : exists k', In (k', h) d).
  { unfold lookup in L. destruct (get name d) eqn:G1.
    - inversion L; subst. eapply get_In; eauto.
    - destruct (find_listed name d) as [[k1 h1]|] eqn:F.
      + inversion L; subst. apply find_listed_sound in F as [I _]. eauto.
      + destruct (get (fuzzy (keys d) name) d) eqn:G2; [|discriminate].
        inversion L; subst. eapply get_In; eauto. }
  destruct G as [k' I]. eapply merged_values_from_file; eauto.
Qed.

(* ------------------------------------------------------------------------------------------ *)
(* the entry chosen for an unlisted name                                                      *)
(* ------------------------------------------------------------------------------------------ *)
(* region hypothesis: on this text every pattern's unanchored search result IS its whole-text
   match (same success, same number of characters covered by wildcards) *)
Definition anchored_on (ks : list bytes) (t : bytes) : Prop :=
  forall k p, In k ks -> In p (split_ws k) -> search (compile p) t = anch_score (compile p) t.

Definition on_eqb' (a b : option nat) : bool :=
  match a, b with Some x, Some y => Nat.eqb x y | None, None => true | _, _ => false end.
Definition anchored_onb (ks : list bytes) (t : bytes) : bool :=
  forallb (fun k => forallb (fun p => on_eqb' (search (compile p) t) (anch_score (compile p) t))
                            (split_ws k)) ks.

Lemma anchored_onb_sound ks t : anchored_onb ks t = true -> anchored_on ks t.
Proof.
  unfold anchored_onb, anchored_on. intros H k p Hk Hp.
  rewrite forallb_forall in H. specialize (H k Hk). rewrite forallb_forall in H. specialize (H p Hp).
  destruct (search (compile p) t), (anch_score (compile p) t); cbn in H; try discriminate; auto.
  apply Nat.eqb_eq in H. subst. reflexivity.
Qed.

(* the closest whole-name match: first minimal closeness in file order, else "*" *)
Definition spec_best (ks : list bytes) (t : bytes) : bytes :=
  match spec_cands ks t with [] => star_key | c :: r => snd (best c r) end.

Lemma cands_anchored ks t : anchored_on ks t -> cands ks t = spec_cands ks t.
Proof.
  unfold anchored_on, cands, spec_cands. induction ks as [|k r IH]; intros H; cbn [flat_map]; [reflexivity|].
  f_equal.
  - unfold pat_cands, spec_pat_cands.
    assert (Hk : forall p, In p (split_ws k) -> search (compile p) t = anch_score (compile p) t)
      by (intros p Hp; apply (H k p); [left; reflexivity|exact Hp]).
    induction (split_ws k) as [|p ps IHp]; cbn [flat_map]; [reflexivity|].
    rewrite (Hk p) by (left; reflexivity). f_equal. apply IHp. intros q Hq. apply Hk. right. exact Hq.
  - apply IH. intros k' p Hk' Hp. apply (H k' p); [right; exact Hk'|exact Hp].
Qed.

Theorem lookup_choice_anchored d name :
  has_star d -> get name d = None -> find_listed name d = None -> anchored_on (keys d) name ->
  exists h, lookup d name = Ok (spec_best (keys d) name, h)
            /\ get (spec_best (keys d) name) d = Some h.
Proof.
  intros Hs G F A. unfold lookup. rewrite G, F.
  assert (E : fuzzy (keys d) name = spec_best (keys d) name).
  { unfold fuzzy, spec_best. rewrite (cands_anchored _ _ A). reflexivity. }
  rewrite E. destruct (fuzzy_get d (keys d) name Hs (fun x H => H)) as [h Hh]. rewrite E in Hh.
  rewrite Hh. eauto.
Qed.

(* ... and that key is where the specification's chain starts *)
Lemma spec_chain_head d name c r :
  spec_exact d name = None -> spec_cands (keys d) name = c :: r ->
  exists tl, spec_chain d name = snd (best c r) :: tl.
Proof.
  intros E C. unfold spec_chain. rewrite E, C. cbn [length spec_order]. eauto.
Qed.

(* ------------------------------------------------------------------------------------------ *)
(* the full statement and its refutation                                                      *)
(* ------------------------------------------------------------------------------------------ *)
Definition no_nl (s : bytes) : bool := forallb dotc s.
Definition to_outcome (o : option (bytes * host)) : outcome (bytes * host) :=
  match o with Some r => Ok r | None => KeyErr end.

(* FULL: for every parsed file and every (one-line) name the lookup is the specification's *)
Definition lookup_refines_spec_full : Prop :=
  forall es name, no_nl name = true -> run es name = to_outcome (spec_lookup es name).

Definition u_bob := mkHost None None [98;111;98] None None.
Definition u_def := mkHost None None [100;101;102] None None.

(* witness 1 (unanchored search): Host web / Host * ; looking up webserver-prod answers with the
   entry of web *)
Definition w1_es : list (bytes * host) := [([119;101;98], u_bob); (star_key, u_def)].
Definition w1_name : bytes := [119;101;98;115;101;114;118;101;114;45;112;114;111;100].

Theorem lookup_refines_spec_refuted : ~ lookup_refines_spec_full.
Proof.
  intros H. specialize (H w1_es w1_name eq_refl). vm_compute in H. discriminate.
Qed.

Example w1_model_answer : run w1_es w1_name = Ok ([119;101;98], u_bob).
Proof. vm_compute. reflexivity. Qed.
Example w1_spec_answer : spec_lookup w1_es w1_name = Some (star_key, u_def).
Proof. vm_compute. reflexivity. Qed.

(* the same statement restricted to inputs where unanchored search and whole-text match agree on
   the name AND on every Host line: still false, because inheritance is precomputed against the
   text of the Host line instead of the looked-up name *)
Definition anchored_everywhere (es : list (bytes * host)) (name : bytes) : bool :=
  let ks := keys (ensure_star (dictify es)) in
  anchored_onb ks name && forallb (fun k => anchored_onb ks k) ks.

Definition lookup_refines_spec_anchored_full : Prop :=
  forall es name, no_nl name = true -> anchored_everywhere es name = true ->
    run es name = to_outcome (spec_lookup es name).

(* witness 2: Host sw* (User u1) / Host *1 (Port 22) / Host * (IdentityFile /k); name sw1 *)
Definition w2_es : list (bytes * host) :=
  [([115;119;42], mkHost None None [117;49] None None);
   ([42;49], mkHost None (Some 22) [] None None);
   (star_key, mkHost None None [] None (Some [47;107]))].
Definition w2_name : bytes := [115;119;49].

Theorem lookup_refines_spec_anchored_refuted : ~ lookup_refines_spec_anchored_full.
Proof.
  intros H. specialize (H w2_es w2_name eq_refl eq_refl). vm_compute in H. discriminate.
Qed.

Example w2_model_answer :
  run w2_es w2_name = Ok ([115;119;42], mkHost None None [117;49] None (Some [47;107])).
Proof. vm_compute. reflexivity. Qed.
Example w2_spec_answer :
  spec_lookup w2_es w2_name = Some ([115;119;42], mkHost None (Some 22) [117;49] None (Some [47;107])).
Proof. vm_compute. reflexivity. Qed.

(* "an entry whose patterns do not match the host never contributes a value": FULL and refuted
   by witness 1 extended with an entry for the longer name (it inherits User from Host web) *)
Definition matches_name (k name : bytes) : bool :=
  beq k name || memk name (split_ws k)
  || existsb (fun p => gmatch (compile p) name) (split_ws k).

Definition only_matching_contribute_full : Prop :=
  forall es name k h, no_nl name = true -> run es name = Ok (k, h) -> t_b (h_user h) = true ->
    exists k' h', In (k', h') (ensure_star (dictify es)) /\ matches_name k' name = true
                  /\ h_user h' = h_user h.

Definition w3_es : list (bytes * host) :=
  [([119;101;98], u_bob); ([119;101;98;115;101;114;118;101;114;45;112;114;111;100], mkHost None (Some 22) [] None None)].

Theorem only_matching_contribute_refuted : ~ only_matching_contribute_full.
Proof.
  intros H.
  destruct (H w3_es w1_name [119;101;98;115;101;114;118;101;114;45;112;114;111;100] (mkHost None (Some 22) [98;111;98] None None) eq_refl) as (k' & h' & I & M & U).
  - vm_compute. reflexivity.
  - reflexivity.
  - vm_compute in I. destruct I as [I|[I|[I|[]]]]; inversion I; subst; vm_compute in M; try discriminate;
      vm_compute in U; discriminate.
Qed.

(* the premises of lookup_choice_anchored are satisfiable by a non-trivial state *)
Definition ex_es : list (bytes * host) :=
  [([115;119;49;46;108;97;98], mkHost (Some [49;48;46;48;46;48;46;49]) None [] None None);
   ([115;119;63;46;108;97;98], mkHost None (Some 2222) [98;111;98] None None);
   ([115;119;42], mkHost None (Some 22) [117;49] (Some [121;101;115]) None);
   (star_key, mkHost None None [100;101;102] None (Some [47;107]))].

Example choice_premises_satisfiable :
  exists d, build ex_es = Ok d /\ get [115;119;55;46;108;97;98] d = None /\ find_listed [115;119;55;46;108;97;98] d = None
    /\ anchored_on (keys d) [115;119;55;46;108;97;98] /\ spec_best (keys d) [115;119;55;46;108;97;98] = [115;119;63;46;108;97;98]
    /\ run ex_es [115;119;55;46;108;97;98] = Ok ([115;119;63;46;108;97;98], mkHost None (Some 2222) [98;111;98] (Some [121;101;115]) (Some [47;107]))
    /\ spec_lookup ex_es [115;119;55;46;108;97;98] = Some ([115;119;63;46;108;97;98], mkHost None (Some 2222) [98;111;98] (Some [121;101;115]) (Some [47;107])).
Proof.
  eexists. split; [vm_compute; reflexivity|].
  repeat split; try (vm_compute; reflexivity).
  apply anchored_onb_sound. vm_compute. reflexivity.
Qed.

(* ------------------------------------------------------------------------------------------ *)
(* lookup = specification, for files whose Host lines do not occur inside each other           *)
(* ------------------------------------------------------------------------------------------ *)
Lemma fill_self h : fill h h = h.
Proof.
  destruct h as [a b c d e]. unfold fill; cbn.
  destruct (t_ob a), (t_on b), (t_b c), (t_ob d), (t_ob e); reflexivity.
Qed.

Lemma fill_fill h s : fill (fill h s) s = fill h s.
Proof.
  destruct h as [a b c d e], s as [a' b' c' d' e']. unfold fill; cbn.
  f_equal.
  - destruct (t_ob a) eqn:E; [rewrite E; reflexivity|]. destruct (t_ob a'); reflexivity.
  - destruct (t_on b) eqn:E; [rewrite E; reflexivity|]. destruct (t_on b'); reflexivity.
  - destruct (t_b c) eqn:E; [rewrite E; reflexivity|]. destruct (t_b c'); reflexivity.
  - destruct (t_ob d) eqn:E; [rewrite E; reflexivity|]. destruct (t_ob d'); reflexivity.
  - destruct (t_ob e) eqn:E; [rewrite E; reflexivity|]. destruct (t_ob e'); reflexivity.
Qed.

Lemma dset_same k v d : get k d = Some v -> dset k v d = d.
Proof.
  induction d as [|[k' v'] d IH]; cbn; [discriminate|].
  destruct (beq k k'); intros H; [inversion H; reflexivity|]. f_equal. auto.
Qed.

Lemma dset_dset k v v' d : dset k v (dset k v' d) = dset k v d.
Proof.
  induction d as [|[k' v2] d IH]; cbn.
  - rewrite sbeq_refl. reflexivity.
  - destruct (beq k k') eqn:E; cbn; rewrite E; [reflexivity|]. f_equal. exact IH.
Qed.

(* no pattern of another non-default entry is found (by the unanchored search) in text [t] *)
Definition is_nil {A} (l : list A) : bool := match l with [] => true | _ => false end.
Definition isolated (ks : list bytes) (t k : bytes) : bool :=
  forallb (fun k' => beq k' k || beq k' star_key || is_nil (pat_cands k' t)) ks.
Definition lines_isolated (ks : list bytes) : bool := forallb (fun k => isolated ks k k) ks.

Lemma fuzzy_only ks ks' t k :
  isolated ks t k = true -> (forall x, In x ks' -> In x ks) ->
  fuzzy ks' t = k \/ fuzzy ks' t = star_key.
Proof.
  intros I S. unfold fuzzy. destruct (cands ks' t) as [|c r] eqn:E; [auto|].
  assert (Hin : In (best c r) (cands ks' t)).
  { rewrite E. destruct (best_In c r) as [H|H]; [rewrite H; left; reflexivity|right; exact H]. }
  unfold cands in Hin. apply in_flat_map in Hin as [k' [Hk' Hc]].
  pose proof (pat_cands_key _ _ _ Hc) as Hs. rewrite Hs.
  unfold isolated in I. rewrite forallb_forall in I. specialize (I k' (S k' Hk')).
  apply orb_prop in I as [I|I]; [apply orb_prop in I as [I|I]|].
  - left. apply sbeq_eq, I.
  - right. apply sbeq_eq, I.
  - destruct (pat_cands k' t); [destruct Hc|discriminate].
Qed.

Lemma memk_remk_other k x l : k <> x -> memk x (remk k l) = memk x l.
Proof.
  intros N. induction l as [|y l IH]; cbn [memk remk]; [reflexivity|].
  destruct (beq k y) eqn:B.
  - apply sbeq_eq in B. subst y. rewrite (sbeq_neq x k) by (intros X; apply N; symmetry; exact X).
    reflexivity.
  - cbn [memk]. rewrite IH. reflexivity.
Qed.

(* the loop for a non-default Host line [k] with value [h]: it ends with fill h s *)
Lemma loop_simple d0ks s k h : k <> star_key -> isolated d0ks k k = true ->
  forall fuel d cur hk,
    (length cur < fuel)%nat -> keys d = d0ks -> (forall x, In x cur -> In x d0ks) ->
    get k d = Some hk -> get star_key d = Some s ->
    (hk = h \/ hk = fill h s) -> (memk star_key cur = false -> hk = fill h s) ->
    merge_loop fuel d k cur = Ok (dset k (fill h s) d).
Proof.
  intros Nk Iso. induction fuel as [|f IH]; intros d cur hk Hf Hkeys Hcur Hk Hs Hhk Hstar; [lia|].
  cbn [merge_loop].
  set (ks' := match cur with [] => keys d | _ => cur end).
  assert (Hsub : forall x, In x ks' -> In x d0ks).
  { subst ks'. destruct cur; [rewrite Hkeys; auto|exact Hcur]. }
  rewrite Hk.
  destruct (fuzzy_only d0ks ks' k k Iso Hsub) as [F|F]; rewrite F.
  - (* the entry itself: fill hk hk = hk *)
    rewrite Hk, fill_self.
    destruct (memk k cur) eqn:M.
    + rewrite (dset_same _ _ _ Hk).
      rewrite (IH d (remk k cur) hk); [reflexivity| | exact Hkeys | | exact Hk | exact Hs | exact Hhk | ].
      * pose proof (remk_length _ _ M). lia.
      * intros x Hx. apply Hcur. eapply remk_incl; eauto.
      * intros M2. apply Hstar. rewrite memk_remk_other in M2; [exact M2|exact Nk].
    + (* k not in cur: the key list was not cur, so cur = [] and star was already merged *)
      assert (cur = []) as ->.
      { destruct cur as [|y cur']; [reflexivity|]. exfalso.
        destruct (fuzzy_in ks' k) as [X|X]; [rewrite F in X; contradiction|].
        rewrite F in X. subst ks'. apply memk_In in X. rewrite X in M. discriminate. }
      rewrite (Hstar eq_refl). reflexivity.
  - (* the default entry *)
    rewrite Hs.
    assert (E : fill hk s = fill h s) by (destruct Hhk as [->| ->]; [reflexivity|apply fill_fill]).
    rewrite E.
    destruct (memk star_key cur) eqn:M; [|reflexivity].
    rewrite (IH (dset k (fill h s) d) (remk star_key cur) (fill h s)).
    + rewrite dset_dset. reflexivity.
    + pose proof (remk_length _ _ M). lia.
    + rewrite <- Hkeys. eapply keys_dset; eauto.
    + intros x Hx. apply Hcur. eapply remk_incl; eauto.
    + apply get_dset_same.
    + rewrite get_dset_other by (intros X; apply Nk; symmetry; exact X). exact Hs.
    + right. reflexivity.
    + intros _. reflexivity.
Qed.

(* the loop for the default entry leaves the dict as it is *)
Lemma loop_star d0ks s : isolated d0ks star_key star_key = true ->
  forall fuel d cur,
    (length cur < fuel)%nat -> keys d = d0ks -> (forall x, In x cur -> In x d0ks) ->
    get star_key d = Some s ->
    merge_loop fuel d star_key cur = Ok d.
Proof.
  intros Iso. induction fuel as [|f IH]; intros d cur Hf Hkeys Hcur Hs; [lia|].
  cbn [merge_loop].
  set (ks' := match cur with [] => keys d | _ => cur end).
  assert (Hsub : forall x, In x ks' -> In x d0ks).
  { subst ks'. destruct cur; [rewrite Hkeys; auto|exact Hcur]. }
  assert (F : fuzzy ks' star_key = star_key)
    by (destruct (fuzzy_only d0ks ks' star_key star_key Iso Hsub); assumption).
  rewrite F, Hs, fill_self, (dset_same _ _ _ Hs).
  destruct (memk star_key cur) eqn:M; [|reflexivity].
  apply IH; auto.
  - pose proof (remk_length _ _ M). lia.
  - intros x Hx. apply Hcur. eapply remk_incl; eauto.
Qed.

(* what _merge_hosts computes on such a file: every entry filled from Host *, Host * itself as is *)
Definition merged_simple (d0 d : dict) (s : host) : Prop :=
  keys d = keys d0 /\ get star_key d = Some s
  /\ forall k h, k <> star_key -> get k d0 = Some h -> get k d = Some (fill h s).

Lemma merge_keys_simple d0 s : lines_isolated (keys d0) = true -> get star_key d0 = Some s ->
  forall todo d,
    (forall k, In k todo -> In k (keys d0)) ->
    keys d = keys d0 -> get star_key d = Some s ->
    (forall k h, k <> star_key -> get k d0 = Some h -> get k d = Some h \/ get k d = Some (fill h s)) ->
    exists d', merge_keys todo d = Ok d' /\ keys d' = keys d0 /\ get star_key d' = Some s
      /\ (forall k h, k <> star_key -> get k d0 = Some h -> get k d' = Some h \/ get k d' = Some (fill h s))
      /\ (forall k h, k <> star_key -> get k d0 = Some h ->
            (In k todo \/ get k d = Some (fill h s)) -> get k d' = Some (fill h s)).
Proof.
  intros LI S0. induction todo as [|k r IH]; intros d Htodo Hkeys Hs Hinv; cbn [merge_keys].
  - exists d. repeat split; auto. intros k h N G [[]|H]; exact H.
  - assert (Hk : In k (keys d0)) by (apply Htodo; left; reflexivity).
    assert (Iso : isolated (keys d0) k k = true).
    { unfold lines_isolated in LI. rewrite forallb_forall in LI. apply LI, Hk. }
    assert (Hlen : (length (keys d) < S (S (length d)))%nat) by (unfold keys; rewrite map_length; lia).
    assert (Hcur : forall x, In x (keys d) -> In x (keys d0)) by (rewrite Hkeys; auto).
    destruct (beq k star_key) eqn:B.
    + apply sbeq_eq in B. subst k.
      rewrite (loop_star (keys d0) s Iso _ d (keys d) Hlen Hkeys Hcur Hs).
      destruct (IH d) as (d' & E & K & S' & I' & P'); auto.
      { intros x Hx. apply Htodo. right. exact Hx. }
      exists d'. repeat split; auto.
      intros k h N G [[X|X]|X]; [subst k; contradiction| |]; apply (P' k h N G); auto.
    + assert (Nk : k <> star_key) by (apply sbeq_false_neq, B).
      destruct (get_In_keys _ _ Hk) as [h Gh].
      assert (exists hk, get k d = Some hk /\ (hk = h \/ hk = fill h s)) as (hk & Ghk & Hhk).
      { destruct (Hinv k h Nk Gh) as [X|X]; eauto. }
      rewrite (loop_simple (keys d0) s k h Nk Iso _ d (keys d) hk Hlen Hkeys Hcur Ghk Hs Hhk).
      2:{ intros M. exfalso. assert (In star_key (keys d)) by (eapply get_Some_keys; eauto).
          apply memk_In in H. rewrite H in M. discriminate. }
      set (d1 := dset k (fill h s) d).
      assert (K1 : keys d1 = keys d0) by (subst d1; rewrite <- Hkeys; eapply keys_dset; eauto).
      assert (S1 : get star_key d1 = Some s).
      { subst d1. rewrite get_dset_other by (intros X; apply Nk; symmetry; exact X). exact Hs. }
      assert (I1 : forall k2 h2, k2 <> star_key -> get k2 d0 = Some h2 ->
                     get k2 d1 = Some h2 \/ get k2 d1 = Some (fill h2 s)).
      { intros k2 h2 N2 G2. subst d1. destruct (beq k2 k) eqn:B2.
        - apply sbeq_eq in B2. subst k2. rewrite get_dset_same. right. rewrite Gh in G2. inversion G2. reflexivity.
        - rewrite get_dset_other by (apply sbeq_false_neq, B2). auto. }
      destruct (IH d1) as (d' & E & K & S' & I' & P'); auto.
      { intros x Hx. apply Htodo. right. exact Hx. }
      exists d'. repeat split; auto.
      intros k2 h2 N2 G2 H2. apply (P' k2 h2 N2 G2).
      destruct (beq k2 k) eqn:B2.
      * apply sbeq_eq in B2. subst k2. right. subst d1. rewrite get_dset_same.
        rewrite Gh in G2. inversion G2. reflexivity.
      * destruct H2 as [[X|X]|X].
        -- subst k2. rewrite sbeq_refl in B2. discriminate.
        -- left. exact X.
        -- right. subst d1. rewrite get_dset_other by (apply sbeq_false_neq, B2). exact X.
Qed.

Lemma build_simple es :
  lines_isolated (keys (ensure_star (dictify es))) = true ->
  exists d s, build es = Ok d /\ get star_key (ensure_star (dictify es)) = Some s
              /\ merged_simple (ensure_star (dictify es)) d s.
Proof.
  intros LI. set (d0 := ensure_star (dictify es)) in *.
  destruct (get_In_keys _ _ (ensure_star_has (dictify es))) as [s S0]. fold d0 in S0.
  destruct (merge_keys_simple d0 s LI S0 (keys d0) d0) as (d & E & K & S' & _ & P); auto.
  exists d, s. unfold build, merge. fold d0. repeat split; auto.
  intros k h N G. apply (P k h N G). left. eapply get_Some_keys; eauto.
Qed.

(* find_listed / get look at the keys only *)
Lemma find_listed_get name d k v : find_listed name d = Some (k, v) -> get k d = Some v.
Proof.
  induction d as [|[k' v'] d IH]; cbn; [discriminate|].
  destruct (memk name (split_ws k')) eqn:M; intros H.
  - inversion H; subst. rewrite sbeq_refl. reflexivity.
  - destruct (beq k k') eqn:B.
    + apply sbeq_eq in B. subst k'. apply find_listed_sound in H as [_ I].
      apply memk_In in I. rewrite I in M. discriminate.
    + auto.
Qed.

Lemma find_listed_keys name : forall d d2, keys d = keys d2 ->
  match find_listed name d, find_listed name d2 with
  | Some (k, _), Some (k2, _) => k = k2
  | None, None => True
  | _, _ => False
  end.
Proof.
  induction d as [|[k v] d IH]; intros [|[k2 v2] d2] H; cbn in *; try discriminate; [exact I|].
  inversion H; subst. destruct (memk name (split_ws k2)); [reflexivity|]. apply IH. assumption.
Qed.

Lemma get_none_keys k d d2 : keys d = keys d2 -> get k d = None -> get k d2 = None.
Proof.
  intros K G. destruct (get k d2) eqn:E; [|reflexivity].
  apply get_Some_keys in E. rewrite <- K in E. apply get_In_keys in E as [h2 E2]. congruence.
Qed.

(* the specification's chain is the chosen entry followed by Host * only (or Host * alone):
   exactly one non-default entry matches the name *)
Definition chain_shape (d0 : dict) (name : bytes) : bool :=
  match spec_chain d0 name with
  | [k] => beq k star_key
  | [k; s] => negb (beq k star_key) && beq s star_key
  | _ => false
  end.

Definition simple_cfg (es : list (bytes * host)) (name : bytes) : bool :=
  let d0 := ensure_star (dictify es) in
  lines_isolated (keys d0) && anchored_onb (keys d0) name && chain_shape d0 name.

Lemma spec_value es name k tl h s :
  chain_shape (ensure_star (dictify es)) name = true ->
  spec_chain (ensure_star (dictify es)) name = k :: tl ->
  get k (ensure_star (dictify es)) = Some h -> get star_key (ensure_star (dictify es)) = Some s ->
  spec_lookup es name = Some (k, if beq k star_key then h else fill h s).
Proof.
  intros C E G S0. unfold spec_lookup. unfold chain_shape in C. rewrite E in *.
  destruct tl as [|k2 [|k3 tl]]; try discriminate.
  - rewrite C, G. reflexivity.
  - apply andb_prop in C as [C1 C2]. apply sbeq_eq in C2. subst k2.
    apply negb_true_iff in C1. rewrite C1, G. cbn [fill_chain]. rewrite S0. reflexivity.
Qed.

Lemma model_value d0 d s k h :
  merged_simple d0 d s -> get k d0 = Some h -> get star_key d0 = Some s ->
  get k d = Some (if beq k star_key then h else fill h s).
Proof.
  intros (K & S' & P) G S0. destruct (beq k star_key) eqn:B.
  - apply sbeq_eq in B. subst k. rewrite S0 in G. inversion G; subst. exact S'.
  - apply P; [apply sbeq_false_neq, B|exact G].
Qed.

Theorem lookup_refines_spec_partial es name :
  simple_cfg es name = true -> run es name = to_outcome (spec_lookup es name).
Proof.
  unfold simple_cfg. set (d0 := ensure_star (dictify es)). intros H.
  apply andb_prop in H as [H C]. apply andb_prop in H as [LI A].
  apply anchored_onb_sound in A.
  destruct (build_simple es LI) as (d & s & B & S0 & M). fold d0 in S0, M.
  pose proof M as (K & S' & P).
  unfold run. rewrite B.
  assert (Hs : has_star d) by (eapply get_Some_keys; eauto).
  (* the key the model answers with is the head of the specification's chain *)
  assert (exists k tl v, lookup d name = Ok (k, v) /\ get k d = Some v /\ spec_chain d0 name = k :: tl)
    as (k & tl & v & L & G & E).
  { unfold lookup. destruct (get name d) as [v|] eqn:G1.
    - assert (exists h, get name d0 = Some h) as [h G0].
      { apply get_In_keys. rewrite <- K. eapply get_Some_keys; eauto. }
      exists name. unfold spec_chain, spec_exact. rewrite G0. eauto.
    - pose proof (get_none_keys _ _ _ K G1) as G0.
      pose proof (find_listed_keys name d d0 K) as FK.
      destruct (find_listed name d) as [[k1 v1]|] eqn:F1.
      + destruct (find_listed name d0) as [[k2 v2]|] eqn:F2; [|destruct FK]. subst k2.
        exists k1. unfold spec_chain, spec_exact. rewrite G0, F2.
        pose proof (find_listed_get _ _ _ _ F1). eauto.
      + destruct (find_listed name d0) as [[k2 v2]|] eqn:F2; [destruct FK|].
        assert (Ex : spec_exact d0 name = None) by (unfold spec_exact; rewrite G0, F2; reflexivity).
        assert (Fz : fuzzy (keys d) name = spec_best (keys d0) name).
        { rewrite K. unfold fuzzy, spec_best. rewrite (cands_anchored _ _ A). reflexivity. }
        destruct (fuzzy_get d (keys d) name Hs (fun x I => I)) as [v Gv]. rewrite Gv.
        rewrite Fz in Gv |- *. exists (spec_best (keys d0) name).
        unfold spec_best in *. destruct (spec_cands (keys d0) name) as [|c r] eqn:SC.
        * exfalso. unfold chain_shape, spec_chain in C. rewrite Ex, SC in C. cbn in C. discriminate.
        * destruct (spec_chain_head d0 name c r Ex SC) as [tl T]. eauto. }
  rewrite L.
  assert (exists h, get k d0 = Some h) as [h G0].
  { apply get_In_keys. rewrite <- K. eapply get_Some_keys; eauto. }
  rewrite (spec_value es name k tl h s C E G0 S0). cbn [to_outcome].
  rewrite (model_value d0 d s k h M G0 S0) in G. inversion G. reflexivity.
Qed.

(* the class is inhabited by non-trivial files: a host list, a ? pattern, a named host, Host * *)
Definition ex2_es : list (bytes * host) :=
  [([99;111;114;101;49;32;99;111;114;101;50], mkHost (Some [49;48;46;48;46;48;46;49]) None [] None None);
   ([115;119;63;46;108;97;98], mkHost None (Some 2222) [98;111;98] None None);
   ([119;101;98], mkHost None None [] (Some [121;101;115]) None);
   (star_key, mkHost None (Some 22) [100;101;102] None (Some [47;107]))].

Example simple_cfg_inhabited :
  simple_cfg ex2_es [115;119;55;46;108;97;98] = true          (* sw7.lab -> sw?.lab + defaults *)
  /\ simple_cfg ex2_es [99;111;114;101;50] = true    (* listed name *)
  /\ simple_cfg ex2_es [87;69;66] = true      (* case-insensitive match of a named host *)
  /\ simple_cfg ex2_es [122;122;122] = true      (* only the defaults *)
  /\ run ex2_es [115;119;55;46;108;97;98] = Ok ([115;119;63;46;108;97;98], mkHost None (Some 2222) [98;111;98] None (Some [47;107]))
  /\ simple_cfg w1_es w1_name = false      (* the findings' regions are outside *)
  /\ simple_cfg w2_es w2_name = false.
Proof. repeat split; vm_compute; reflexivity. Qed.

(* ------------------------------------------------------------------------------------------ *)
(* ssh_config_factory: the per-path cache is invisible on EVERY history of direct lookups and  *)
(* driver constructions (any paths, any names, explicit values or not), provided no consumer   *)
(* writes to the object lookup returned; refuted when one does.                                *)
(* ------------------------------------------------------------------------------------------ *)
Section CacheProofs.
  Variable file : bytes -> list (bytes * host).

  (* the invariant: every cached parse is the parse of its file *)
  Definition cinv (c : cache) : Prop := forall p d, cget p c = Some d -> build (file p) = Ok d.

  Lemma cget_cset_same p d c : cget p (cset p d c) = Some d.
  Proof.
    induction c as [|[p' d'] c IH]; cbn; [rewrite sbeq_refl; reflexivity|].
    destruct (beq p p') eqn:E; cbn; rewrite ?E; [reflexivity|exact IH].
  Qed.

  Lemma cget_cset_other p q d c : q <> p -> cget q (cset p d c) = cget q c.
  Proof.
    intros N. induction c as [|[p' d'] c IH]; cbn; [rewrite (sbeq_neq _ _ N); reflexivity|].
    destruct (beq p p') eqn:E; cbn.
    - apply sbeq_eq in E. subst p'. rewrite (sbeq_neq _ _ N). reflexivity.
    - rewrite IH. reflexivity.
  Qed.

  Lemma cinv_cset p d c : cinv c -> build (file p) = Ok d -> cinv (cset p d c).
  Proof.
    intros I B q d' G. destruct (beq q p) eqn:E.
    - apply sbeq_eq in E. subst q. rewrite cget_cset_same in G. inversion G. subst. exact B.
    - apply sbeq_false_neq in E. rewrite (cget_cset_other _ _ _ _ E) in G. apply I, G.
  Qed.

  Lemma sstep_ok c o :
    cinv c -> cinv (fst (sstep file false c o)) /\ snd (sstep file false c o) = sspec_one file o.
  Proof.
    intros I. destruct o as [p n|p n x|p]; cbn [sstep sspec_one]; unfold factory, run;
      destruct (cget p c) as [d|] eqn:G.
    - rewrite (I _ _ G). cbn [fst snd]. split; [exact I|reflexivity].
    - destruct (build (file p)) as [d| |] eqn:B; cbn [fst snd]; (split; [|reflexivity]); try exact I.
      apply cinv_cset; assumption.
    - rewrite (I _ _ G). destruct (lookup d n) as [[k h]| |]; cbn [fst snd]; (split; [exact I|reflexivity]).
    - destruct (build (file p)) as [d| |] eqn:B; cbn [fst snd]; try (split; [exact I|reflexivity]).
      destruct (lookup d n) as [[k h]| |]; cbn [fst snd]; (split; [apply cinv_cset; assumption|reflexivity]).
    - rewrite (I _ _ G). cbn [fst snd]. split; [exact I|reflexivity].
    - destruct (build (file p)) as [d| |] eqn:B; cbn [fst snd]; (split; [|reflexivity]); try exact I.
      apply cinv_cset; assumption.
  Qed.

  (* every history: the invariant is kept and the outputs are those of a fresh parse of the file *)
  Theorem cache_invisible : forall ops c,
    cinv c -> cinv (fst (srun file false c ops)) /\ snd (srun file false c ops) = sspec file ops.
  Proof.
    induction ops as [|o ops IH]; intros c I; [split; [exact I|reflexivity]|].
    cbn [srun sspec map]. destruct (sstep file false c o) as [c' out] eqn:Es.
    pose proof (sstep_ok c o I) as [I' Ho]. rewrite Es in I', Ho. cbn [fst snd] in I', Ho.
    destruct (IH c' I') as [I'' Hs]. destruct (srun file false c' ops) as [c'' outs].
    cbn [fst snd] in *. split; [exact I''|]. rewrite Ho, Hs. reflexivity.
  Qed.

  Corollary cache_invisible_from_empty ops :
    cinv (fst (srun file false [] ops)) /\ snd (srun file false [] ops) = sspec file ops.
  Proof. apply cache_invisible. intros p d G. discriminate G. Qed.
End CacheProofs.

(* the premises are satisfied by a non-trivial history: two paths, a wildcard entry shared by two
   hosts, drivers with and without explicit values interleaved with direct lookups *)
Definition cw_path1 : bytes := [97].
Definition cw_path2 : bytes := [98].
Definition cw_file (p : bytes) : list (bytes * host) :=
  if beq p cw_path1
  then [([115;119;49], mkHost None (Some 2201) [117] None (Some [47;107]));            (* sw1 *)
        ([101;45;42], mkHost None (Some 2202) [101] None None)]                       (* e-* *)
  else [([115;119;49], mkHost None (Some 99) [] None None)].
Definition cw_ops : list sop :=
  [SDriver cw_path1 [115;119;49] (mkEx (Some 830) [109] []);      (* sw1, port= and auth_username= *)
   SLookup cw_path1 [115;119;49];
   SDriver cw_path1 [101;45;49] (mkEx None [] [47;120]);          (* e-1, auth_private_key= *)
   SDriver cw_path1 [101;45;50] (mkEx None [] []);                (* e-2 under the same wildcard *)
   SLookup cw_path2 [115;119;49];
   SDriver cw_path1 [115;119;49] (mkEx None [] []);
   SDump cw_path2].

Example cache_invisible_nontrivial :
  snd (srun cw_file false [] cw_ops) =
    [ODriver (830, [109], [47;107]);
     OHost ([115;119;49], mkHost None (Some 2201) [117] None (Some [47;107]));
     ODriver (2202, [101], [47;120]);
     ODriver (2202, [101], []);
     OHost ([115;119;49], mkHost None (Some 99) [] None None);
     ODriver (2201, [117], [47;107]);
     ODict [([115;119;49], mkHost None (Some 99) [] None None); (star_key, default_host)]].
Proof. vm_compute. reflexivity. Qed.

(* a consumer that writes to the looked-up object changes what later lookups return *)
Example cache_visible_when_written : snd (srun cw_file true [] cw_ops) <> sspec cw_file cw_ops.
Proof. vm_compute. discriminate. Qed.
