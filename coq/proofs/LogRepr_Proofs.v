(* LogRepr_Proofs.v — the payload written by the buffering handler can be read back: repr of a bytes
   object (model/LogHandler.v repr_bytes) is inverted by the decoder below, hence injective.  So the
   coalesced line determines every payload byte ("without losing ... any byte" at the level of the file). *)
From Verif Require Import Bytes LogFormat LogHandler LogHandler_Proofs.
From Coq Require Import Lia.

Definition unhex (d : N) : N := if d <? 58 then d - 48 else d - 87.

(* one item from the front of a repr body: Some (None, rest) = the closing quote,
   Some (Some c, rest) = a byte, None = not a repr *)
Definition decode1 (q : N) (s : str) : option (option N * str) :=
  match s with
  | [] => None
  | c :: rest =>
      if c =? q then Some (None, rest)
      else if c =? 92 then
        match rest with
        | d :: rest' =>
            if d =? 120 then
              match rest' with
              | h1 :: h2 :: rest'' => Some (Some (16 * unhex h1 + unhex h2), rest'')
              | _ => None
              end
            else if d =? 116 then Some (Some 9, rest')
            else if d =? 110 then Some (Some 10, rest')
            else if d =? 114 then Some (Some 13, rest')
            else Some (Some d, rest')
        | [] => None
        end
      else Some (Some c, rest)
  end.

Fixpoint decode (fuel : nat) (q : N) (s : str) : option bytes :=
  match fuel with
  | O => None
  | S f =>
      match decode1 q s with
      | None => None
      | Some (None, rest) => match rest with [] => Some [] | _ => None end
      | Some (Some c, rest) => option_map (cons c) (decode f q rest)
      end
  end.

Definition unrepr_bytes (s : str) : option bytes :=
  match s with
  | 98 :: q :: body => decode (S (length body)) q body
  | _ => None
  end.

Lemma decode1_repr_nat : forall q (k : nat) tail, (q = 39 \/ q = 34) -> (k < 256)%nat ->
  decode1 q (repr_byte q (N.of_nat k) ++ tail) = Some (Some (N.of_nat k), tail).
Proof.
  intros q k tail Hq Hk.
  destruct Hq; subst q;
    (do 256 (destruct k as [|k]; [vm_compute; reflexivity|])); exfalso; lia.
Qed.

Lemma decode1_repr : forall q c tail, (q = 39 \/ q = 34) -> c < 256 ->
  decode1 q (repr_byte q c ++ tail) = Some (Some c, tail).
Proof.
  intros q c tail Hq Hc. rewrite <- (N2Nat.id c). apply decode1_repr_nat; [exact Hq | lia].
Qed.

Lemma repr_byte_nonempty : forall q c, (1 <= length (repr_byte q c))%nat.
Proof.
  intros. unfold repr_byte, esc_common.
  repeat match goal with |- context [if ?b then _ else _] => destruct b end; cbn; lia.
Qed.

Lemma decode_repr : forall b q fuel, (q = 39 \/ q = 34) -> all_bytes b = true ->
  (length (flat_map (repr_byte q) b) < fuel)%nat ->
  decode fuel q (flat_map (repr_byte q) b ++ [q]) = Some b.
Proof.
  induction b as [|c b IH]; intros q fuel Hq Hb Hf.
  - destruct fuel; [cbn in Hf; lia|]. cbn [flat_map app decode decode1]. rewrite N.eqb_refl. reflexivity.
  - destruct fuel; [lia|]. cbn [all_bytes forallb] in Hb. unfold all_bytes in *. cbn [forallb] in Hb.
    apply andb_true_iff in Hb. destruct Hb as [Hc Hb]. unfold is_byte in Hc. apply N.ltb_lt in Hc.
    cbn [flat_map]. rewrite <- app_assoc. cbn [decode]. rewrite (decode1_repr q c _ Hq Hc).
    rewrite IH; [reflexivity | exact Hq | exact Hb |].
    cbn [flat_map] in Hf. rewrite app_length in Hf. pose proof (repr_byte_nonempty q c). lia.
Qed.

Lemma quote_for_cases : forall s, quote_for s = 39 \/ quote_for s = 34.
Proof. intro s. unfold quote_for. destruct (mem 39 s && negb (mem 34 s)); [right | left]; reflexivity. Qed.

(* repr of a bytes object can be read back, for EVERY byte string *)
Theorem unrepr_repr : forall b, all_bytes b = true -> unrepr_bytes (repr_bytes b) = Some b.
Proof.
  intros b Hb. unfold repr_bytes, unrepr_bytes. apply decode_repr; [apply quote_for_cases | exact Hb |].
  rewrite app_length. cbn. lia.
Qed.

Corollary repr_bytes_injective : forall a b, all_bytes a = true -> all_bytes b = true ->
  repr_bytes a = repr_bytes b -> a = b.
Proof.
  intros a b Ha Hb E. apply unrepr_repr in Ha. apply unrepr_repr in Hb. rewrite E in Ha. congruence.
Qed.

Example unrepr_example :
  unrepr_bytes (repr_bytes [39; 34; 92; 13; 10; 9; 0; 27; 37; 127; 128; 255; 97]) = Some [39; 34; 92; 13; 10; 9; 0; 27; 37; 127; 128; 255; 97]
  /\ repr_bytes [105; 116; 39; 115] = [98; 34; 105; 116; 39; 115; 34].      (* b"it's" *)
Proof. vm_compute. split; reflexivity. Qed.

(* what str.encode produces are bytes *)
Lemma byte_plus_div : forall base c d bound, d <> 0 -> c < d * bound -> base + bound <= 256 -> is_byte (base + c / d) = true.
Proof.
  intros. unfold is_byte. apply N.ltb_lt. assert (c / d < bound) by (apply N.div_lt_upper_bound; assumption). lia.
Qed.
Lemma byte_plus_mod : forall x, is_byte (128 + x mod 64) = true.
Proof. intros. unfold is_byte. apply N.ltb_lt. pose proof (N.mod_lt x 64). lia. Qed.

Lemma forallb_cons : forall A (f : A -> bool) x l, forallb f (x :: l) = f x && forallb f l.
Proof. reflexivity. Qed.

Lemma utf8_cp_bytes_aux : forall c, match utf8_cp c with Some bs => all_bytes bs = true | None => True end.
Proof.
  intro c. unfold utf8_cp, all_bytes.
  destruct (c <? 128) eqn:E1.
  { rewrite forallb_cons. change (forallb is_byte []) with true.
    unfold is_byte. apply N.ltb_lt in E1. rewrite andb_true_r. apply N.ltb_lt. lia. }
  destruct (c <? 2048) eqn:E2.
  { apply N.ltb_lt in E2. rewrite !forallb_cons. change (forallb is_byte []) with true.
    rewrite (byte_plus_div 192 c 64 32), byte_plus_mod by lia. reflexivity. }
  destruct (c <? 65536) eqn:E3.
  { destruct ((55296 <=? c) && (c <=? 57343)); [exact I|].
    apply N.ltb_lt in E3. rewrite !forallb_cons. change (forallb is_byte []) with true.
    rewrite (byte_plus_div 224 c 4096 16), !byte_plus_mod by lia. reflexivity. }
  destruct (c <? 1114112) eqn:E4; [|exact I].
  apply N.ltb_lt in E4. rewrite !forallb_cons. change (forallb is_byte []) with true.
  rewrite (byte_plus_div 240 c 262144 5), !byte_plus_mod by lia. reflexivity.
Qed.

Lemma utf8_cp_bytes : forall c bs, utf8_cp c = Some bs -> all_bytes bs = true.
Proof. intros c bs H. pose proof (utf8_cp_bytes_aux c) as A. rewrite H in A. exact A. Qed.

Lemma all_bytes_app : forall a b, all_bytes (a ++ b) = all_bytes a && all_bytes b.
Proof. intros. unfold all_bytes. apply forallb_app. Qed.

Lemma utf8_bytes : forall s bs, utf8 s = Some bs -> all_bytes bs = true.
Proof.
  induction s as [|c s IH]; intros bs H.
  - injection H as <-. reflexivity.
  - cbn [utf8] in H. destruct (utf8_cp c) as [a|] eqn:Ec; [|discriminate].
    destruct (utf8 s) as [b|] eqn:Es; [|discriminate]. injection H as <-.
    rewrite all_bytes_app, (utf8_cp_bytes c a Ec), (IH b eq_refl). reflexivity.
Qed.

Lemma pay_bytes : forall r, all_bytes (pay r) = true.
Proof.
  intro r. unfold pay, read_payload. destruct (get_message r) as [m|]; [|reflexivity].
  destruct (prefixb read_prefix m); [|reflexivity].
  destruct (utf8 (skipn read_prefix_len m)) as [p|] eqn:E; [|reflexivity]. exact (utf8_bytes _ _ E).
Qed.

Lemma flat_map_pay_bytes : forall g, all_bytes (flat_map pay g) = true.
Proof.
  induction g as [|r g IH]; [reflexivity|]. cbn [flat_map]. rewrite all_bytes_app, pay_bytes, IH. reflexivity.
Qed.

(* the coalesced line of a read group determines the group's payload, byte for byte *)
Theorem group_payload_recoverable : forall r g, is_read r = true ->
  unrepr_bytes (skipn (length read_out) (group_message (r :: g))) = Some (flat_map pay (r :: g)).
Proof.
  intros r g H. unfold group_message. rewrite H.
  change (fun x => opt_bytes (read_payload x)) with pay.
  assert (S : forall (A : Type) (p s : list A), skipn (length p) (p ++ s) = s).
  { induction p as [|x p IH]; intro s; [reflexivity|]. cbn. apply IH. }
  rewrite S. apply unrepr_repr. apply flat_map_pay_bytes.
Qed.
