(* SshArgv_Proofs.v — the argv built by the system transport, read with ssh's option grammar
   (model/SshArgv.v), says exactly what was resolved; for ALL hosts, ports, users, keys, files. *)
From Coq Require Import String Ascii Decimal DecimalN Lia.
From Verif Require Import Bytes Resolve SshArgv Resolve_Proofs.

(* ---- str(int) is injective: the -p argument determines the port ---- *)
Lemma uint_str_inj u : forall v, uint_str u = uint_str v -> u = v.
Proof.
  induction u; destruct v; cbn; intros H; try discriminate; try reflexivity;
    injection H as H; f_equal; auto.
Qed.

Theorem dec_inj n m : dec n = dec m -> n = m.
Proof.
  unfold dec. intros H. apply uint_str_inj in H.
  rewrite <- (DecimalN.Unsigned.of_to n), <- (DecimalN.Unsigned.of_to m). f_equal. exact H.
Qed.

(* ---- a list of (option letter, value) pairs rendered as separate argv elements ---- *)
Definition render (ps : list (N * str)) : list str := flat_map (fun cv => [[DASH; fst cv]; snd cv]) ps.
Definition collect (ps : list (N * str)) (o : ssh_opts) : ssh_opts :=
  fold_left (fun o cv => add_opt (fst cv) (snd cv) o) ps o.
Definition takes_arg (c : N) : bool := match optkind_of c with WithArg => true | _ => false end.

Lemma getopt_render ps : forall o tail,
  forallb (fun cv => takes_arg (fst cv)) ps = true ->
  getopt_loop (render ps ++ tail) o = getopt_loop tail (collect ps o).
Proof.
  induction ps as [|[c v] ps IH]; intros o tail H; [reflexivity|].
  cbn [forallb fst] in H. apply andb_true_iff in H. destruct H as [Hc Hps].
  cbn [render flat_map fst snd app]. fold (render ps).
  unfold takes_arg in Hc.
  cbn [getopt_loop]. replace (DASH =? DASH) with true by reflexivity. cbn [negb].
  assert (Hnd : (c =? DASH) = false).
  { destruct (c =? DASH) eqn:E; [|reflexivity]. unfold optkind_of in Hc. rewrite E, orb_true_r in Hc. discriminate. }
  rewrite Hnd. cbn [andb scan_cluster].
  destruct (optkind_of c); try discriminate.
  cbn [app]. rewrite IH by assumption. reflexivity.
Qed.

(* a first element that does not start with '-' stops the option scan at once *)
Lemma getopt_stops_at_host h rest o :
  starts_dash h = false -> getopt_loop (h :: rest) o = GoOk o (h :: rest) false.
Proof.
  intros H. cbn [getopt_loop]. destruct h as [|c0 [|c cl]]; try reflexivity.
  cbn [starts_dash] in H. rewrite H. reflexivity.
Qed.

(* ---- build_open_cmd as "ssh host" followed by rendered pairs ---- *)
Definition open_cmd_pairs (b : base_targs) (tsock ttrans : N) (p : plugin_targs) : list (N * str) :=
  [(112, dec (b_port b)); (111, lit "ConnectTimeout=" ++ dec tsock); (111, lit "ServerAliveInterval=" ++ dec ttrans)]
  ++ (if nonempty_s (p_key p) then [(105, p_key p)] else [])
  ++ (if nonempty_s (p_user p) then [(108, p_user p)] else [])
  ++ (if negb (p_strict p)
      then [(111, lit "StrictHostKeyChecking=no"); (111, lit "UserKnownHostsFile=/dev/null")]
      else [(111, lit "StrictHostKeyChecking=yes")]
           ++ (if beq (p_kh p) MAGIC_KH then []
               else if nonempty_s (p_kh p) then [(111, lit "UserKnownHostsFile=" ++ p_kh p)] else []))
  ++ (if negb (nonempty_s (p_cfg p)) then [(70, lit "/dev/null")]
      else if beq (p_cfg p) MAGIC_CFG then [] else [(70, p_cfg p)]).

Lemma build_open_cmd_render b tsock ttrans p extra :
  build_open_cmd b tsock ttrans p extra =
  lit "ssh" :: b_host b :: render (open_cmd_pairs b tsock ttrans p) ++ extra.
Proof.
  unfold build_open_cmd, open_cmd_pairs.
  destruct (nonempty_s (p_key p)); destruct (nonempty_s (p_user p)); destruct (p_strict p);
    destruct (beq (p_kh p) MAGIC_KH); destruct (nonempty_s (p_kh p));
    destruct (nonempty_s (p_cfg p)); destruct (beq (p_cfg p) MAGIC_CFG); reflexivity.
Qed.

Lemma open_cmd_pairs_take_arg b tsock ttrans p :
  forallb (fun cv => takes_arg (fst cv)) (open_cmd_pairs b tsock ttrans p) = true.
Proof.
  unfold open_cmd_pairs.
  destruct (nonempty_s (p_key p)); destruct (nonempty_s (p_user p)); destruct (p_strict p);
    destruct (beq (p_kh p) MAGIC_KH); destruct (nonempty_s (p_kh p));
    destruct (nonempty_s (p_cfg p)); destruct (beq (p_cfg p) MAGIC_CFG); reflexivity.
Qed.

Lemma open_cmd_pairs_collect b tsock ttrans p :
  collect (open_cmd_pairs b tsock ttrans p) no_opts = expected_opts b tsock ttrans p.
Proof.
  unfold open_cmd_pairs, expected_opts.
  destruct (nonempty_s (p_key p)); destruct (nonempty_s (p_user p)); destruct (p_strict p);
    destruct (beq (p_kh p) MAGIC_KH); destruct (nonempty_s (p_kh p));
    destruct (nonempty_s (p_cfg p)); destruct (beq (p_cfg p) MAGIC_CFG); reflexivity.
Qed.

(* ---- Theorem: the argv says what was resolved, each value its own element, no remote command ---- *)
Theorem argv_faithful b tsock ttrans p :
  starts_dash (b_host b) = false ->
  ssh_parse (build_open_cmd b tsock ttrans p []) =
  Parsed (b_host b) (expected_opts b tsock ttrans p) [].
Proof.
  intros Hd. rewrite build_open_cmd_render. unfold ssh_parse.
  rewrite getopt_stops_at_host by assumption.
  rewrite app_nil_r.
  destruct (render (open_cmd_pairs b tsock ttrans p)) eqn:Er.
  - (* impossible: -p is always there *)
    unfold open_cmd_pairs in Er. discriminate Er.
  - rewrite <- Er. rewrite <- (app_nil_r (render _)).
    rewrite getopt_render by apply open_cmd_pairs_take_arg.
    cbn [getopt_loop]. rewrite open_cmd_pairs_collect. reflexivity.
Qed.

(* whatever the user appends through transport_options["open_cmd"], ssh's destination is the host *)
Theorem destination_is_host b tsock ttrans p extra :
  starts_dash (b_host b) = false ->
  match ssh_parse (build_open_cmd b tsock ttrans p extra) with
  | Parsed d _ _ => d = b_host b
  | Usage => True
  end.
Proof.
  intros Hd. rewrite build_open_cmd_render. unfold ssh_parse.
  rewrite getopt_stops_at_host by assumption.
  destruct (render (open_cmd_pairs b tsock ttrans p) ++ extra); [reflexivity|].
  destruct (getopt_loop (s :: l) no_opts); [reflexivity|exact I].
Qed.

(* reading the individual settings back *)
Corollary argv_settings b tsock ttrans p :
  starts_dash (b_host b) = false ->
  exists o, ssh_parse (build_open_cmd b tsock ttrans p []) = Parsed (b_host b) o [] /\
    s_port o = Some (dec (b_port b)) /\
    s_user o = (if nonempty_s (p_user p) then Some (p_user p) else None) /\
    s_ids o = (if nonempty_s (p_key p) then [p_key p] else []) /\
    s_cfgfile o = (if negb (nonempty_s (p_cfg p)) then Some (lit "/dev/null")
                   else if beq (p_cfg p) MAGIC_CFG then None else Some (p_cfg p)) /\
    o_get (lit "StrictHostKeyChecking") (s_o o) = Some (if p_strict p then lit "yes" else lit "no") /\
    o_get (lit "UserKnownHostsFile") (s_o o) =
      (if negb (p_strict p) then Some (lit "/dev/null")
       else if beq (p_kh p) MAGIC_KH then None
       else if nonempty_s (p_kh p) then Some (p_kh p) else None) /\
    s_flags o = [] /\ s_other o = [].
Proof.
  intros Hd. exists (expected_opts b tsock ttrans p). split; [apply argv_faithful; assumption|].
  unfold expected_opts. cbn [s_port s_user s_ids s_cfgfile s_o s_flags s_other].
  repeat split.
  - destruct (p_strict p); reflexivity.
  - destruct (p_strict p); cbn [negb]; [|reflexivity].
    destruct (beq (p_kh p) MAGIC_KH); [reflexivity|].
    destruct (nonempty_s (p_kh p)); [|reflexivity].
    (* UserKnownHostsFile=<kh> : split at the first '=' gives back kh whatever kh contains *)
    cbn. reflexivity.
Qed.

(* ---- without the side condition the statement is false: a host that starts with '-' ---- *)
Definition argv_faithful_full : Prop :=
  forall b tsock ttrans p,
    ssh_parse (build_open_cmd b tsock ttrans p []) = Parsed (b_host b) (expected_opts b tsock ttrans p) [].

Theorem argv_faithful_full_refuted : ~ argv_faithful_full.
Proof.
  intros H.
  specialize (H (mkB (lit "-oProxyCommand=x") 22) 15 30 (mkP [] [] false [] [])).
  vm_compute in H. discriminate H.
Qed.

(* ... and it is worse than a usage error when the user appended anything: the option is taken *)
Example dash_host_is_read_as_option :
  ssh_parse (build_open_cmd (mkB (lit "-oProxyCommand=x") 22) 15 30 (mkP [] [] false [] []) [lit "r1"]) =
  Parsed (lit "r1")
         (mkO (Some (lit "22")) None [] (Some (lit "/dev/null"))
              [lit "ProxyCommand=x"; lit "ConnectTimeout=15"; lit "ServerAliveInterval=30";
               lit "StrictHostKeyChecking=no"; lit "UserKnownHostsFile=/dev/null"] [] []) [].
Proof. vm_compute. reflexivity. Qed.

(* ---- end to end: constructor + argv, no side condition (the constructor refuses such hosts) ---- *)
Theorem system_argv_end_to_end e a r b p tsock ttrans :
  resolve true e a = Built r b (Some p) ->
  ssh_parse (build_open_cmd b tsock ttrans p []) =
  Parsed (r_host r)
         (expected_opts (mkB (r_host r) (r_port r)) tsock ttrans
                        (mkP (r_user r) (r_key r) (r_strict r) (r_cfg r) (r_kh r))) [].
Proof.
  intros H.
  pose proof (host_never_option _ _ _ _ _ H) as [_ Hd].
  pose proof (reported_eq_dialled _ _ _ _ _ H) as (Hh & Hp & Hpl).
  rewrite argv_faithful by assumption.
  destruct (has_ssh_fields (a_transport a)); [|discriminate].
  injection Hpl as Hpl. subst p. destruct b as [bh bp]. cbn [b_host b_port] in *. subst bh bp. reflexivity.
Qed.

Theorem system_argv_end_to_end_refuted_at_pinned_commit :
  exists e a r b p,
    resolve false e a = Built r b (Some p) /\
    ssh_parse (build_open_cmd b 15 30 p []) = Usage.
Proof.
  exists env_port2222, (args_plain System (lit "-oProxyCommand=x") PNone).
  eexists; eexists; eexists; split; vm_compute; reflexivity.
Qed.

(* premises satisfiable / shape of the result on a concrete, non-trivial input *)
Example argv_example :
  build_open_cmd (mkB (lit "core sw") 2022) 15 30
                 (mkP (lit "-x") (lit "/k y") true (lit "/c f") (lit "/kh")) [] =
  [lit "ssh"; lit "core sw"; lit "-p"; lit "2022"; lit "-o"; lit "ConnectTimeout=15"; lit "-o";
   lit "ServerAliveInterval=30"; lit "-i"; lit "/k y"; lit "-l"; lit "-x"; lit "-o";
   lit "StrictHostKeyChecking=yes"; lit "-o"; lit "UserKnownHostsFile=/kh"; lit "-F"; lit "/c f"]
  /\ ssh_parse (build_open_cmd (mkB (lit "core sw") 2022) 15 30
                 (mkP (lit "-x") (lit "/k y") true (lit "/c f") (lit "/kh")) []) =
     Parsed (lit "core sw")
            (mkO (Some (lit "2022")) (Some (lit "-x")) [lit "/k y"] (Some (lit "/c f"))
                 [lit "ConnectTimeout=15"; lit "ServerAliveInterval=30"; lit "StrictHostKeyChecking=yes";
                  lit "UserKnownHostsFile=/kh"] [] []) [].
Proof. split; vm_compute; reflexivity. Qed.

(* the grammar model on inputs the builder never produces: clusters, attached values, "--", re-scan
   after the destination, remote command *)
Example ssh_parse_examples :
  ssh_parse [lit "ssh"; lit "-vp2022"; lit "-4l"; lit "bob"; lit "r1"; lit "-o"; lit "A=b"; lit "ls"; lit "-l"] =
    Parsed (lit "r1") (mkO (Some (lit "2022")) (Some (lit "bob")) [] None [lit "A=b"] [118; 52] []) [lit "ls"; lit "-l"]
  /\ ssh_parse [lit "ssh"; lit "--"; lit "-r1"; lit "-v"] = Parsed (lit "-r1") no_opts [lit "-v"]
  /\ ssh_parse [lit "ssh"; lit "-p"] = Usage
  /\ ssh_parse [lit "ssh"; lit "-Z"; lit "r1"] = Usage
  /\ ssh_parse [lit "ssh"; lit "-p"; lit "1"; lit "-p"; lit "2"; lit "r1"] =
       Parsed (lit "r1") (mkO (Some (lit "1")) None [] None [] [] []) [].
Proof. repeat split; vm_compute; reflexivity. Qed.
