(* ResponseRaw_Proofs.v — the failed flag of a Response on the BYTES the channel returned
   (model/ResponseRaw.v): whatever the bytes are (well-formed UTF-8 or not), the flag is literal
   containment of a marker in the text they are read as; for ASCII markers that is containment of
   the marker's bytes in the raw output itself. *)
From Verif Require Import Bytes Response Response_Proofs ResponseRaw.
From Coq Require Import Lia.

Lemma record_raw_failed : forall input f raw,
  r_failed (record_raw (new_response input f) raw) = contains_any (markers_of f) (decode_output raw).
Proof. intros. unfold record_raw. apply record_failed. Qed.

Theorem failed_iff_marker_raw : forall input f raw,
  r_failed (record_raw (new_response input f) raw) = true
  <-> exists m, In m (markers_of f) /\ Infix m (decode_output raw).
Proof. intros. unfold record_raw. apply failed_iff_marker. Qed.

Lemma record_raw_fields : forall input f raw,
  r_input (record_raw (new_response input f) raw) = input /\
  r_result (record_raw (new_response input f) raw) = decode_output raw /\
  r_markers (record_raw (new_response input f) raw) = markers_of f.
Proof. intros. repeat split. Qed.

(* well-formed UTF-8 is taken as it is *)
Lemma decode_output_utf8 : forall raw, utf8_valid raw = true -> decode_output raw = raw.
Proof. intros raw H. unfold decode_output. rewrite H. reflexivity. Qed.

Lemma ascii_utf8_valid : forall s, is_ascii s = true -> utf8_valid s = true.
Proof.
  induction s as [|c s IH]; intros H; [reflexivity|].
  unfold is_ascii in H. cbn [forallb] in H. apply andb_true_iff in H. destruct H as [Hc Hs].
  cbn [utf8_valid]. rewrite Hc. apply IH. exact Hs.
Qed.

Lemma latin1_text_cons : forall c s, latin1_text (c :: s) = latin1_char c ++ latin1_text s.
Proof. reflexivity. Qed.

(* ---- ASCII markers: found in the ISO-8859-1 reading exactly where their bytes are in the raw output ---- *)
Lemma prefixb_nil : forall s, prefixb [] s = true.
Proof. destruct s; reflexivity. Qed.

Lemma infixb_nil : forall s, infixb [] s = true.
Proof. destruct s; reflexivity. Qed.

Lemma prefixb_high : forall x m h t, x < 128 -> 128 <= h -> prefixb (x :: m) (h :: t) = false.
Proof.
  intros x m h t Hx Hh. cbn [prefixb].
  replace (x =? h) with false by (symmetry; apply N.eqb_neq; lia). reflexivity.
Qed.

Lemma high1 : forall c, 128 <= 192 + c / 64.
Proof. intros c. apply N.le_trans with 192; [lia | apply N.le_add_r]. Qed.
Lemma high2 : forall c, 128 <= 128 + c mod 64.
Proof. intros c. apply N.le_add_r. Qed.

Lemma prefixb_latin1 : forall m s, is_ascii m = true -> prefixb m (latin1_text s) = prefixb m s.
Proof.
  induction m as [|x m IH]; intros s Hm; [rewrite !prefixb_nil; reflexivity|].
  unfold is_ascii in Hm. cbn [forallb] in Hm. apply andb_true_iff in Hm. destruct Hm as [Hx Hm].
  apply N.ltb_lt in Hx.
  destruct s as [|c s]; [reflexivity|].
  rewrite latin1_text_cons. unfold latin1_char. destruct (c <? 128) eqn:Hc.
  - cbn [app prefixb]. rewrite IH by exact Hm. reflexivity.
  - apply N.ltb_ge in Hc. cbn [app]. rewrite !prefixb_high by (try apply high1; lia). reflexivity.
Qed.

Lemma infixb_latin1 : forall m s, is_ascii m = true -> infixb m (latin1_text s) = infixb m s.
Proof.
  intros m s Hm. destruct m as [|x m]; [rewrite !infixb_nil; reflexivity|].
  assert (Hx : x < 128).
  { unfold is_ascii in Hm. cbn [forallb] in Hm. apply andb_true_iff in Hm. apply N.ltb_lt. apply Hm. }
  induction s as [|c s IH]; [reflexivity|].
  cbn [infixb]. rewrite <- IH.
  rewrite <- (prefixb_latin1 (x :: m) (c :: s) Hm).
  rewrite latin1_text_cons. unfold latin1_char. destruct (c <? 128) eqn:Hc.
  - cbn [app infixb]. reflexivity.
  - apply N.ltb_ge in Hc. cbn [app infixb].
    rewrite (prefixb_high x m (192 + c / 64)) by (try apply high1; lia).
    rewrite (prefixb_high x m (128 + c mod 64)) by (try apply high2; lia).
    reflexivity.
Qed.

Lemma contains_any_latin1 : forall ms s,
  forallb is_ascii ms = true -> contains_any ms (latin1_text s) = contains_any ms s.
Proof.
  induction ms as [|m ms IH]; intros s H; [reflexivity|].
  cbn [forallb] in H. apply andb_true_iff in H. destruct H as [Hm Hms].
  unfold contains_any in *. cbn [existsb]. rewrite infixb_latin1 by exact Hm. rewrite IH by exact Hms. reflexivity.
Qed.

(* whatever bytes the device printed: with ASCII markers the response is failed exactly when the
   bytes of one of the markers occur in the raw output *)
Theorem failed_raw_ascii_markers : forall input f raw,
  forallb is_ascii (markers_of f) = true ->
  r_failed (record_raw (new_response input f) raw) = contains_any (markers_of f) raw.
Proof.
  intros input f raw H. rewrite record_raw_failed. unfold decode_output.
  destruct (utf8_valid raw); [reflexivity|]. apply contains_any_latin1. exact H.
Qed.

Corollary failed_raw_ascii_markers_iff : forall input f raw,
  forallb is_ascii (markers_of f) = true ->
  (r_failed (record_raw (new_response input f) raw) = true <-> exists m, In m (markers_of f) /\ Infix m raw).
Proof. intros. rewrite failed_raw_ascii_markers by assumption. apply contains_any_spec. Qed.

(* no markers: never failed, whatever the bytes *)
Corollary raw_no_markers_never_failed : forall input raw,
  r_failed (record_raw (new_response input FNone) raw) = false /\
  r_failed (record_raw (new_response input (FList [])) raw) = false.
Proof. intros. split; reflexivity. Qed.

(* the ISO-8859-1 reading of any byte string is text (well-formed UTF-8): the fallback cannot fail *)
Lemma latin1_text_valid : forall s, all_bytes s = true -> utf8_valid (latin1_text s) = true.
Proof.
  induction s as [|c s IH]; intros H; [reflexivity|].
  unfold all_bytes in H. cbn [forallb] in H. apply andb_true_iff in H. destruct H as [Hc Hs].
  unfold is_byte in Hc. apply N.ltb_lt in Hc.
  rewrite latin1_text_cons. unfold latin1_char. destruct (c <? 128) eqn:E.
  - cbn [app utf8_valid]. rewrite E. apply IH. exact Hs.
  - apply N.ltb_ge in E.
    assert (Hq : c / 64 = 2 \/ c / 64 = 3).
    { assert (H2 : 2 <= c / 64) by (apply N.div_le_lower_bound; lia).
      assert (H4 : c / 64 < 4) by (apply N.div_lt_upper_bound; lia).
      revert H2 H4. generalize (c / 64). intros q H2 H4. lia. }
    assert (Hr : c mod 64 < 64) by (apply N.mod_lt; lia).
    assert (Hb : between 128 191 (128 + c mod 64) = true).
    { revert Hr. generalize (c mod 64). intros r Hr.
      unfold between. apply andb_true_iff. split; apply N.leb_le; lia. }
    cbn [app]. destruct Hq as [-> | ->]; cbn [utf8_valid];
      change (192 + 2) with 194; change (192 + 3) with 195;
      change (194 <? 128) with false; change (195 <? 128) with false;
      change (between 194 223 194) with true; change (between 194 223 195) with true;
      cbv iota; rewrite Hb; cbn [andb]; apply IH; exact Hs.
Qed.

Theorem decode_output_valid : forall raw, all_bytes raw = true -> utf8_valid (decode_output raw) = true.
Proof.
  intros raw H. unfold decode_output. destruct (utf8_valid raw) eqn:E; [exact E|]. apply latin1_text_valid. exact H.
Qed.

(* witnesses: bytes that are not UTF-8 (a latin-1 "café", the 0xb6 0x93 0xa5 garbage, a truncated sequence,
   a lone continuation byte, an overlong form, a surrogate) without a marker leave the response NOT failed,
   with a marker failed; well-formed multi-byte UTF-8 likewise; a non-ASCII marker ("é" = C3 A9) is found in
   the ISO-8859-1 reading of the byte E9 and not in the ISO-8859-1 reading of C3 A9 FF *)
Definition m_err : bytes := [69;82;82].
Example raw_flag_witnesses :
  flag_of_raw (FStr m_err) [99;97;102;233] = false /\
  flag_of_raw (FStr m_err) [99;97;102;233;32;69;82;82] = true /\
  flag_of_raw (FStr m_err) [182;147;165] = false /\
  flag_of_raw (FStr m_err) [182;69;82;82;147;165] = true /\
  flag_of_raw (FStr m_err) [69;82;195] = false /\
  flag_of_raw (FStr m_err) [69;82;82;195] = true /\
  flag_of_raw (FStr m_err) [128] = false /\
  flag_of_raw (FStr m_err) [192;175;111;107] = false /\
  flag_of_raw (FStr m_err) [237;160;128] = false /\
  flag_of_raw (FStr m_err) [69;82;128;82] = false /\
  flag_of_raw (FStr m_err) [228;184;173;32;111;107] = false /\
  flag_of_raw (FStr m_err) [228;184;173;69;82;82] = true /\
  flag_of_raw (FStr [195;169]) [233] = true /\
  flag_of_raw (FStr [195;169]) [195;169] = true /\
  flag_of_raw (FStr [195;169]) [195;169;255] = false /\
  decode_output [99;97;102;233] = [99;97;102;195;169] /\
  decode_output [240;159;152;128] = [240;159;152;128] /\
  utf8_valid [240;159;152] = false /\ utf8_valid [244;144;128;128] = false /\ utf8_valid [224;128;128] = false /\
  utf8_valid [244;143;191;191] = true /\ utf8_valid [237;159;191] = true /\ utf8_valid [194;128] = true /\ utf8_valid [193;128] = false.
Proof. vm_compute. repeat split; reflexivity. Qed.
