(* PrivGraph_Proofs.v — theorems about model/PrivGraph.v.
   Part A: the path-visited search on ANY graph (sound, complete).
   Part B: trees given by parent pointers: subtree gates, the hop lemma, routes.
   Part C: the acquire_priv loop: nav_reaches (compliant device), nav_bounded (any device).
   Part D: refutations by computation (the two known findings). *)
From Verif Require Import Bytes PrivGraph.
From Coq Require Import Lia.
Local Open Scope nat_scope.

Lemma memn_true : forall x l, memn x l = true <-> In x l.
Proof.
  unfold memn. intros. rewrite existsb_exists. split.
  - intros (y & Hy & E). apply Nat.eqb_eq in E. subst. auto.
  - intros H. exists x. split; auto. apply Nat.eqb_refl.
Qed.
Lemma memn_false : forall x l, memn x l = false <-> ~ In x l.
Proof. intros. rewrite <- memn_true. destruct (memn x l); split; intros; congruence. Qed.

Lemma oeqb_true : forall a b, oeqb a b = true <-> a = b.
Proof.
  destruct a, b; simpl; split; intros H; try congruence; auto.
  - apply Nat.eqb_eq in H. congruence.
  - inversion H. apply Nat.eqb_refl.
Qed.

(* last node of the walk x :: p *)
Fixpoint lst (x : nat) (p : list nat) : nat := match p with [] => x | y :: r => lst y r end.

Lemma lst_in : forall r y, In (lst y r) (y :: r).
Proof. induction r; simpl; intros; auto. right. apply IHr. Qed.

(* ------------------------------------------------------------------------------------------ *)
(* Part A *)
Lemma try_res : forall rec pm' ns res, try_ rec pm' ns = res -> res <> [] ->
  exists n, In n ns /\ memn n pm' = false /\ rec n = res.
Proof.
  induction ns as [|n r IH]; simpl; intros res H Hne.
  - congruence.
  - destruct (memn n pm') eqn:M.
    + destruct (IH _ H Hne) as (m & ? & ? & ?). exists m; auto.
    + destruct (rec n) eqn:R.
      * destruct (IH _ H Hne) as (m & ? & ? & ?). exists m; auto.
      * exists n. repeat split; auto. congruence.
Qed.

Lemma try_complete : forall rec pm' ns n, In n ns -> memn n pm' = false -> rec n <> [] ->
  try_ rec pm' ns <> [].
Proof.
  induction ns as [|m r IH]; simpl; intros n Hin M R.
  - contradiction.
  - destruct Hin as [->|Hin].
    + rewrite M. destruct (rec n) eqn:E; congruence.
    + destruct (memn m pm'). { eapply IH; eauto. }
      destruct (rec m) eqn:E. { eapply IH; eauto. } congruence.
Qed.

Section Graph.
  Variable nbrs : nat -> list nat.

  (* x :: p is a walk of the graph *)
  Fixpoint chain (x : nat) (p : list nat) : Prop :=
    match p with [] => True | y :: r => In y (nbrs x) /\ chain y r end.

  Lemma dfs_sound : forall fuel pm cur dst res,
    dfs nbrs fuel pm cur dst = res -> res <> [] -> ~ In cur pm ->
    exists p, res = pm ++ cur :: p /\ chain cur p /\ lst cur p = dst /\ NoDup (cur :: p)
              /\ (forall y, In y p -> ~ In y pm).
  Proof.
    induction fuel as [|f IH]; simpl; intros pm cur dst res H Hne Hnin.
    - congruence.
    - destruct (cur =? dst) eqn:E.
      + apply Nat.eqb_eq in E. subst. exists []. simpl. repeat split; auto.
        constructor; [intros []|constructor].
      + destruct (try_res _ _ _ _ H Hne) as (n & Hn & M & R).
        apply memn_false in M.
        assert (Hn1 : ~ In n pm) by (intros X; apply M; apply in_or_app; auto).
        assert (Hn2 : n <> cur) by (intros X; apply M; apply in_or_app; right; simpl; auto).
        destruct (IH _ _ _ _ R Hne M) as (p & Hres & Hch & Hl & Hnd & Hav).
        exists (n :: p). repeat split; auto.
        * rewrite Hres, <- app_assoc. reflexivity.
        * constructor; auto. intros [X|X]; [congruence|].
          apply (Hav _ X). apply in_or_app. right. simpl. auto.
        * intros y [<-|Y]; auto. intros X. apply (Hav _ Y). apply in_or_app. auto.
  Qed.

  Lemma dfs_complete : forall fuel pm cur dst p,
    chain cur p -> lst cur p = dst -> NoDup (cur :: p) -> (forall y, In y (cur :: p) -> ~ In y pm) ->
    length p < fuel -> dfs nbrs fuel pm cur dst <> [].
  Proof.
    induction fuel as [|f IH]; simpl; intros pm cur dst p Hch Hl Hnd Hav Hlen.
    - lia.
    - destruct (cur =? dst) eqn:E.
      + destruct pm; simpl; congruence.
      + destruct p as [|x1 rest].
        * simpl in Hl. apply Nat.eqb_neq in E. congruence.
        * simpl in Hch. destruct Hch as [Hadj Hch]. simpl in Hl, Hlen.
          inversion Hnd as [|? ? Hc Hnd']; subst.
          apply (try_complete _ _ _ x1 Hadj).
          -- apply memn_false. intros X. apply in_app_or in X. destruct X as [X|[X|[]]].
             ++ apply (Hav x1); simpl; auto.
             ++ subst. apply Hc. simpl; auto.
          -- apply (IH _ _ _ rest); auto; try lia.
             intros y Hy X. apply in_app_or in X. destruct X as [X|[X|[]]].
             ++ apply (Hav y); auto.
             ++ subst. apply Hc. exact Hy.
  Qed.

  (* every walk contains a duplicate-free walk with the same ends *)
  Lemma chain_app_r : forall l1 x y l2, chain x (l1 ++ y :: l2) -> chain y l2.
  Proof. induction l1; simpl; intros x y l2 H; [tauto|]. destruct H. eauto. Qed.
  Lemma lst_app_r : forall l1 x y l2, lst x (l1 ++ y :: l2) = lst y l2.
  Proof. induction l1; simpl; intros; auto. Qed.

  Lemma simple_walk : forall n cur p, length p <= n -> chain cur p ->
    exists q, chain cur q /\ lst cur q = lst cur p /\ NoDup (cur :: q) /\ length q <= length p /\ incl q p.
  Proof.
    induction n as [|n IH]; intros cur p Hlen Hch.
    - destruct p; simpl in Hlen; [|lia]. exists []. simpl. repeat split; auto.
      + constructor; [intros []|constructor].
      + intros x [].
    - destruct (in_dec Nat.eq_dec cur p) as [Hin|Hnin].
      + apply in_split in Hin. destruct Hin as (l1 & l2 & ->).
        rewrite lst_app_r. apply chain_app_r in Hch.
        rewrite app_length in Hlen. simpl in Hlen.
        destruct (IH cur l2) as (q & ? & ? & ? & ? & Hi); auto; try lia.
        exists q. repeat split; auto.
        * rewrite app_length. simpl. lia.
        * intros x Hx. apply in_or_app. right. right. auto.
      + destruct p as [|y r].
        * exists []. simpl. repeat split; auto.
          -- constructor; [intros []|constructor].
          -- intros x [].
        * simpl in Hch, Hlen. destruct Hch as [Hadj Hch].
          destruct (IH y r) as (q & Hq1 & Hq2 & Hq3 & Hq4 & Hq5); auto; try lia.
          exists (y :: q). simpl. repeat split; auto.
          -- constructor; auto. intros [X|X].
             ++ subst. apply Hnin. simpl. auto.
             ++ apply Hnin. simpl. right. apply Hq5. exact X.
          -- lia.
          -- intros x [<-|X]; simpl; auto.
  Qed.
End Graph.

(* ------------------------------------------------------------------------------------------ *)
(* Part B: trees given by parent pointers *)
Section Tree.
  Variable parent : nat -> option nat.
  Variable depth : nat -> nat.
  Variable nbrs : nat -> list nat.
  (* acyclic parent pointers *)
  Hypothesis Hdepth : forall n p, parent n = Some p -> depth n = S (depth p).
  (* the graph sets hold exactly the tree neighbours — in ANY order *)
  Hypothesis Hnbrs : forall a b, In b (nbrs a) <-> parent a = Some b \/ parent b = Some a.

  Notation up := (up parent).
  (* a is d or an ancestor of d;  sub x = { d | anc x d } *)
  Definition anc (a d : nat) : Prop := exists k, up k d = Some a.

  Lemma up_depth : forall k d a, up k d = Some a -> depth d = k + depth a.
  Proof.
    induction k; simpl; intros d a H.
    - inversion H; auto.
    - destruct (parent d) eqn:E; try discriminate. apply Hdepth in E. apply IHk in H. lia.
  Qed.

  Lemma up_snoc : forall k x, up (S k) x = match up k x with Some y => parent y | None => None end.
  Proof.
    induction k; intros x.
    - simpl. destruct (parent x); auto.
    - change (up (S (S k)) x) with (match parent x with Some p => up (S k) p | None => None end).
      change (up (S k) x) with (match parent x with Some p => up k p | None => None end).
      destruct (parent x); auto.
  Qed.

  Lemma anc_refl : forall a, anc a a.
  Proof. intros a. exists 0. reflexivity. Qed.
  Lemma anc_step : forall c p d, parent c = Some p -> anc c d -> anc p d.
  Proof. intros c p d Hp [k Hk]. exists (S k). rewrite up_snoc, Hk. exact Hp. Qed.
  Lemma anc_child : forall x y z, parent z = Some y -> anc x y -> anc x z.
  Proof. intros x y z Hp [k Hk]. exists (S k). simpl. rewrite Hp. exact Hk. Qed.
  Lemma anc_depth : forall a d, anc a d -> depth a <= depth d.
  Proof. intros a d [k Hk]. apply up_depth in Hk. lia. Qed.
  Lemma anc_unique : forall a b d, anc a d -> anc b d -> depth a = depth b -> a = b.
  Proof.
    intros a b d [k Hk] [j Hj] E.
    pose proof (up_depth _ _ _ Hk). pose proof (up_depth _ _ _ Hj).
    assert (k = j) by lia. subst. congruence.
  Qed.
  Lemma anc_strict : forall c p, parent c = Some p -> ~ anc c p.
  Proof. intros c p Hp A. apply anc_depth in A. apply Hdepth in Hp. lia. Qed.

  Lemma ancb_spec : forall a d, ancb parent depth a d = true <-> anc a d.
  Proof.
    intros a d. unfold ancb. rewrite andb_true_iff, Nat.leb_le, oeqb_true. split.
    - intros [_ H]. eexists; eauto.
    - intros [k Hk]. pose proof (up_depth _ _ _ Hk).
      split; [lia|]. replace (depth d - depth a) with k by lia. exact Hk.
  Qed.
  Lemma anc_dec : forall a d, anc a d \/ ~ anc a d.
  Proof.
    intros a d. destruct (ancb parent depth a d) eqn:E.
    - left. apply ancb_spec. exact E.
    - right. intros A. apply ancb_spec in A. congruence.
  Qed.

  (* a walk enters the subtree of x only at x, and leaves it only from x to its parent *)
  Lemma gate_in : forall x y z, In z (nbrs y) -> ~ anc x y -> anc x z -> z = x.
  Proof.
    intros x y z Hadj Hn Ha. apply Hnbrs in Hadj. destruct Hadj as [Hp|Hp].
    - exfalso. apply Hn. eapply anc_child; eauto.
    - destruct Ha as [k Hk]. destruct k; simpl in Hk.
      + congruence.
      + rewrite Hp in Hk. exfalso. apply Hn. eexists; eauto.
  Qed.

  Lemma gate_out : forall x y z, In z (nbrs y) -> anc x y -> ~ anc x z -> y = x /\ parent x = Some z.
  Proof.
    intros x y z Hadj Ha Hn. apply Hnbrs in Hadj. destruct Hadj as [Hp|Hp].
    - destruct Ha as [k Hk]. destruct k; simpl in Hk.
      + inversion Hk. subst. auto.
      + rewrite Hp in Hk. exfalso. apply Hn. eexists; eauto.
    - exfalso. apply Hn. eapply anc_child; eauto.
  Qed.

  Lemma enter : forall x q y, chain nbrs y q -> ~ anc x y -> anc x (lst y q) -> In x q.
  Proof.
    induction q as [|z q IH]; simpl; intros y Hch Hn Ha.
    - contradiction.
    - destruct Hch as [Hadj Hch]. destruct (anc_dec x z) as [A|A].
      + left. eapply gate_in; eauto.
      + right. eapply IH; eauto.
  Qed.

  Lemma leave : forall x q y, chain nbrs y q -> anc x y -> ~ anc x (lst y q) ->
    exists z, parent x = Some z /\ In z q.
  Proof.
    induction q as [|z q IH]; simpl; intros y Hch Ha Hn.
    - contradiction.
    - destruct Hch as [Hadj Hch]. destruct (anc_dec x z) as [A|A].
      + destruct (IH _ Hch A Hn) as (w & ? & ?). exists w. auto.
      + destruct (gate_out _ _ _ Hadj Ha A) as [_ Hp]. exists z. auto.
  Qed.

  (* for ANY duplicate-free walk cur :: x1 :: rest ending in dst *)
  Lemma hop_up : forall cur x1 rest dst,
    chain nbrs cur (x1 :: rest) -> lst cur (x1 :: rest) = dst -> NoDup (cur :: x1 :: rest) ->
    parent cur = Some x1 -> ~ anc cur dst.
  Proof.
    intros cur x1 rest dst [_ Hch] Hl Hnd Hp A. simpl in Hl. subst dst.
    assert (In cur rest) by (eapply enter; eauto; apply anc_strict; auto).
    inversion Hnd; subst. apply H2. simpl. auto.
  Qed.

  Lemma hop_down : forall cur x1 rest dst,
    chain nbrs cur (x1 :: rest) -> lst cur (x1 :: rest) = dst -> NoDup (cur :: x1 :: rest) ->
    parent x1 = Some cur -> anc x1 dst.
  Proof.
    intros cur x1 rest dst [_ Hch] Hl Hnd Hp. simpl in Hl. subst dst.
    destruct (anc_dec x1 (lst x1 rest)) as [A|A]; auto. exfalso.
    destruct (leave _ _ _ Hch (anc_refl x1) A) as (z & Hz & Hin).
    assert (z = cur) by congruence. subst z.
    inversion Hnd; subst. apply H1. simpl. auto.
  Qed.

  (* the route: up while not an ancestor of dst, then down towards dst *)
  Inductive Route (dst : nat) : nat -> list line -> Prop :=
  | R_nil : Route dst dst []
  | R_up : forall cur p r, cur <> dst -> ~ anc cur dst -> parent cur = Some p -> Route dst p r ->
           Route dst cur (LDeesc cur :: r)
  | R_down : forall cur c r, cur <> dst -> parent c = Some cur -> anc c dst -> Route dst c r ->
             Route dst cur (LEsc c :: r).

  (* whichever duplicate-free walk the search returned, its second node is the next node of the
     route, and the code's test `levels[map[1]].previous_priv != current` tells up from down *)
  Lemma hop : forall cur x1 rest dst r,
    chain nbrs cur (x1 :: rest) -> lst cur (x1 :: rest) = dst -> NoDup (cur :: x1 :: rest) ->
    Route dst cur r ->
    exists r', Route dst x1 r' /\
      ((oeqb (parent x1) (Some cur) = true /\ parent x1 = Some cur /\ r = LEsc x1 :: r') \/
       (oeqb (parent x1) (Some cur) = false /\ parent cur = Some x1 /\ r = LDeesc cur :: r')).
  Proof.
    intros cur x1 rest dst r Hch Hl Hnd HR.
    assert (Hne : cur <> dst).
    { intros E. subst dst. inversion Hnd as [|? ? Hc _]; subst. apply Hc.
      simpl in E. rewrite E. apply lst_in. }
    destruct (oeqb (parent x1) (Some cur)) eqn:T.
    - apply oeqb_true in T. pose proof (hop_down _ _ _ _ Hch Hl Hnd T) as A.
      inversion HR; subst; try congruence.
      + exfalso. apply H0. eapply anc_step; eauto.
      + assert (c = x1).
        { eapply anc_unique; eauto. apply Hdepth in H0. apply Hdepth in T. lia. }
        subst c. eexists. split; eauto.
    - assert (Hp : parent cur = Some x1).
      { destruct Hch as [Hadj _]. apply Hnbrs in Hadj. destruct Hadj as [?|X]; auto.
        apply oeqb_true in X. congruence. }
      pose proof (hop_up _ _ _ _ Hch Hl Hnd Hp) as A.
      inversion HR; subst; try congruence.
      + assert (p = x1) by congruence. subst p. eexists. split; eauto.
      + exfalso. apply A. eapply anc_step; eauto.
  Qed.

  Lemma route_at_dst : forall dst r, Route dst dst r -> r = [].
  Proof. intros dst r H. inversion H; auto; congruence. Qed.

  (* every duplicate-free walk from cur to dst is as long as the route *)
  Lemma simple_walk_len : forall dst p cur r, NoDup (cur :: p) -> chain nbrs cur p -> lst cur p = dst ->
    Route dst cur r -> length p = length r.
  Proof.
    induction p as [|x1 rest IH]; intros cur r Hnd Hch Hl HR.
    - simpl in Hl. subst. apply route_at_dst in HR. subst. reflexivity.
    - destruct (hop cur x1 rest dst r Hch Hl Hnd HR) as (r' & HR' & [(_ & _ & ->)|(_ & _ & ->)]);
        simpl; f_equal; apply (IH x1); auto; try (inversion Hnd; auto); destruct Hch; auto.
  Qed.

  (* a route is a walk of the graph *)
  Lemma route_walk : forall dst cur r, Route dst cur r ->
    exists p, chain nbrs cur p /\ lst cur p = dst /\ length p = length r.
  Proof.
    induction 1.
    - exists []. simpl. auto.
    - destruct IHRoute as (q & ? & ? & ?). exists (p :: q). simpl. repeat split; auto.
      apply Hnbrs. auto.
    - destruct IHRoute as (q & ? & ? & ?). exists (c :: q). simpl. repeat split; auto.
      apply Hnbrs. auto.
  Qed.

  (* so the search finds a map cur :: x1 :: _ whenever a route exists and the fuel covers it *)
  Lemma change_map_shape : forall fuel dst cur r,
    Route dst cur r -> cur <> dst -> length r < fuel ->
    exists x1 rest, dfs nbrs fuel [] cur dst = cur :: x1 :: rest /\
      chain nbrs cur (x1 :: rest) /\ lst cur (x1 :: rest) = dst /\ NoDup (cur :: x1 :: rest).
  Proof.
    intros fuel dst cur r HR Hne Hlen.
    destruct (route_walk _ _ _ HR) as (p & Hch & Hl & Hpl).
    destruct (simple_walk nbrs (length p) cur p (le_n _) Hch) as (q & Hq1 & Hq2 & Hq3 & Hq4 & _).
    assert (Hc : dfs nbrs fuel [] cur dst <> []).
    { apply (dfs_complete nbrs fuel [] cur dst q); auto; try congruence; try lia. }
    destruct (dfs_sound nbrs fuel [] cur dst _ eq_refl Hc) as (p' & Hres & Hch' & Hl' & Hnd' & _).
    { intros []. }
    simpl in Hres. destruct p' as [|x1 rest].
    - simpl in Hl'. congruence.
    - exists x1, rest. auto.
  Qed.

  (* existence of routes: every two nodes under a common root *)
  Variable root : nat.
  Definition valid (x : nat) : Prop := up (depth x) x = Some root.

  Lemma route_down : forall dst k c, up k dst = Some c -> exists r, Route dst c r /\ length r = k.
  Proof.
    induction k; intros c Hk.
    - simpl in Hk. inversion Hk. subst. exists []. split; [constructor|reflexivity].
    - rewrite up_snoc in Hk. destruct (up k dst) as [c'|] eqn:E; try discriminate.
      destruct (IHk _ eq_refl) as (r & HR & Hlen).
      exists (LEsc c' :: r). split; [|simpl; lia].
      apply R_down; auto.
      + intros X. subst c. pose proof (up_depth _ _ _ E). apply Hdepth in Hk. lia.
      + exists k. exact E.
  Qed.

  Lemma route_exists : forall dst, valid dst -> forall n cur, depth cur = n -> valid cur ->
    exists r, Route dst cur r /\ length r <= n + depth dst.
  Proof.
    intros dst Hvd. induction n as [|n IH]; intros cur Hd Hv.
    - unfold valid in Hv. rewrite Hd in Hv. simpl in Hv. inversion Hv. subst cur.
      destruct (route_down dst (depth dst) root Hvd) as (r & ? & ?). exists r. split; auto. lia.
    - destruct (anc_dec cur dst) as [[k Hk]|A].
      + destruct (route_down dst k cur Hk) as (r & ? & ?). exists r. split; auto.
        apply up_depth in Hk. lia.
      + unfold valid in Hv. rewrite Hd in Hv. simpl in Hv.
        destruct (parent cur) as [p|] eqn:Hp; try discriminate.
        pose proof (Hdepth _ _ Hp) as Hdp. assert (depth p = n) by lia.
        destruct (IH p) as (r & HR & Hlen); auto.
        { unfold valid. rewrite H. exact Hv. }
        exists (LDeesc cur :: r). split; [|simpl; lia].
        apply R_up with p; auto. intros X. subst. apply A. apply anc_refl.
  Qed.

  (* the computed route of the model is the route *)
  Lemma route_compute : forall dst cur r, Route dst cur r -> forall fuel, length r < fuel ->
    route parent depth fuel cur dst = r.
  Proof.
    induction 1; intros fuel Hf; (destruct fuel; [simpl in Hf; lia|]); simpl.
    - rewrite Nat.eqb_refl. reflexivity.
    - apply Nat.eqb_neq in H. rewrite H.
      destruct (ancb parent depth cur dst) eqn:E.
      + apply ancb_spec in E. contradiction.
      + rewrite H1. f_equal. apply IHRoute. simpl in Hf. lia.
    - apply Nat.eqb_neq in H. rewrite H.
      assert (A : anc cur dst) by (eapply anc_step; eauto).
      destruct (ancb parent depth cur dst) eqn:E.
      2:{ apply ancb_spec in A. congruence. }
      destruct H1 as [k Hk]. pose proof (up_depth _ _ _ Hk) as D.
      pose proof (Hdepth _ _ H0) as D2.
      replace (depth dst - depth cur - 1) with k by lia. rewrite Hk.
      f_equal. apply IHRoute. simpl in Hf. lia.
  Qed.
End Tree.

(* ------------------------------------------------------------------------------------------ *)
(* Part C: the acquire_priv loop *)
Lemma pick_self : forall m dst ms, In m ms -> pick (Some m) dst ms = Some m.
Proof.
  intros m dst ms H. unfold pick. destruct ms as [|h t]; [contradiction|].
  apply memn_true in H. rewrite H. reflexivity.
Qed.
Lemma pick_dst : forall dst ms, In dst ms -> pick None dst ms = Some dst.
Proof.
  intros dst ms H. unfold pick. destruct ms as [|h t]; [contradiction|].
  apply memn_true in H. rewrite H. reflexivity.
Qed.
Lemma pick_single : forall m dst, m <> dst -> pick None dst [m] = Some m.
Proof.
  intros m dst H. unfold pick, memn. simpl. apply Nat.eqb_neq in H.
  rewrite Nat.eqb_sym in H. rewrite H. reflexivity.
Qed.
Lemma pick_in : forall b dst ms x, pick b dst ms = Some x -> In x ms.
Proof.
  intros b dst ms x. unfold pick. destruct ms as [|h t]; [discriminate|].
  destruct b as [b|].
  - destruct (memn b (h :: t)) eqn:E1; [|destruct (memn dst (h :: t)) eqn:E2]; intros H; inversion H; subst.
    + apply memn_true; auto. + apply memn_true; auto. + simpl; auto.
  - destruct (memn dst (h :: t)) eqn:E2; intros H; inversion H; subst.
    + apply memn_true; auto. + simpl; auto.
Qed.

Lemma pigeon : forall N l, NoDup l -> (forall x, In x l -> x < N) -> length l <= N.
Proof.
  intros N l Hnd Hlt. rewrite <- (seq_length N 0). apply NoDup_incl_length; auto.
  intros x Hx. apply in_seq. specialize (Hlt x Hx). lia.
Qed.

Section Nav.
  Variable N factor : nat.
  Variable stop : bool.
  Variable parent : nat -> option nat.
  Variable auth : nat -> bool.
  Variable nbrs : nat -> list nat.
  Variable matches : nat -> list nat.
  Variable D : Type.
  Variable dmode : D -> nat.
  Variable dline : D -> line -> D * reply.

  Notation loop' := (loop N factor stop parent auth nbrs matches D dmode dline).
  Notation acquire' := (acquire N factor stop parent auth nbrs matches D dmode dline).
  Notation escalate' := (escalate stop parent auth matches D dmode dline).
  Notation deescalate' := (deescalate D dline).

  (* ---- any device, any graph: the loop is bounded by its own counter ---- *)
  Lemma deescalate_exc : forall cur d d' e, deescalate' cur d = (d', Some e) -> e = Timeout.
  Proof.
    unfold deescalate. intros cur d d' e. destruct (dline d (LDeesc cur)) as [d1 r].
    destruct r; intros H; inversion H; auto.
  Qed.
  Lemma escalate_exc : forall x d d' e, escalate' x d = (d', Some e) -> e = Timeout \/ e = AuthFailed.
  Proof.
    unfold escalate. intros x d d' e. destruct (auth x).
    - destruct (dline d (LEsc x)) as [d1 r1].
      destruct (match r1 with RPrompt => okp parent matches D dmode x d1 | RPassword => true | RSilent => false end).
      + destruct (stop && match r1 with RPrompt => true | _ => false end).
        * intros H; inversion H.
        * destruct (dline d1 LSec) as [d2 r2].
          destruct r2; [destruct (okp parent matches D dmode x d2)| |]; intros H; inversion H; auto.
      + intros H; inversion H; auto.
    - destruct (dline d (LEsc x)) as [d1 r]. destruct r; intros H; inversion H; auto.
  Qed.

  Lemma loop_bounded : forall fuel tr belief dst d o b d' tr',
    length tr <= factor * N -> factor * N + 1 < fuel + length tr ->
    loop' fuel tr belief dst d = (o, b, d', tr') ->
    o <> OutOfFuel /\ length tr' <= factor * N + 1 /\
    (o = Reached \/ o = PrivilegeError \/ o = AuthFailed \/ o = Timeout \/ o = Crash).
  Proof.
    induction fuel as [|f IH]; intros tr belief dst d o b d' tr' Hl Hf H.
    - lia.
    - simpl in H. destruct (dline d LRet) as [d1 r].
      destruct r; try (inversion H; subst; repeat split; try discriminate; try lia; tauto).
      destruct (process N parent nbrs belief dst (matches (dmode d1))) as [a b1].
      destruct a; try (inversion H; subst; repeat split; try discriminate; try lia; tauto).
      + destruct (deescalate' cur d1) as [d2 [e|]] eqn:E.
        * apply deescalate_exc in E. inversion H; subst.
          rewrite app_length. simpl. repeat split; try discriminate; try lia; tauto.
        * destruct (factor * N <? length (tr ++ [LDeesc cur])) eqn:B.
          -- inversion H; subst. rewrite app_length in *. simpl in *.
             repeat split; try discriminate; try lia; tauto.
          -- apply Nat.ltb_ge in B. eapply IH; eauto. rewrite app_length in *. simpl in *. lia.
      + destruct (escalate' x d1) as [d2 [e|]] eqn:E.
        * apply escalate_exc in E. inversion H; subst.
          rewrite app_length. simpl. destruct E; subst; repeat split; try discriminate; try lia; tauto.
        * destruct (factor * N <? length (tr ++ [LEsc x])) eqn:B.
          -- inversion H; subst. rewrite app_length in *. simpl in *.
             repeat split; try discriminate; try lia; tauto.
          -- apply Nat.ltb_ge in B. eapply IH; eauto. rewrite app_length in *. simpl in *. lia.
  Qed.

  (* nav_bounded: for EVERY device (all refusal sets, all password outcomes, any behaviour at all),
     every graph, every classification: acquire_priv ends — never out of fuel — after at most
     factor*|levels|+1 transition attempts, in success or one of the listed errors *)
  Theorem nav_bounded : forall belief dst d o b d' tr,
    acquire' belief dst d = (o, b, d', tr) ->
    o <> OutOfFuel /\ length tr <= factor * N + 1 /\
    (o = Reached \/ o = PrivilegeError \/ o = AuthFailed \/ o = Timeout \/ o = Crash).
  Proof.
    unfold acquire. intros belief dst d o b d' tr H. destruct (dst <? N).
    - eapply loop_bounded; eauto; simpl; lia.
    - inversion H; subst. simpl. repeat split; try discriminate; try lia; tauto.
  Qed.

  (* ---- trees ---- *)
  Variable depth : nat -> nat.
  Variable root : nat.
  Hypothesis Hdepth : forall n p, parent n = Some p -> depth n = S (depth p).
  Hypothesis Hnbrs : forall a b, In b (nbrs a) <-> parent a = Some b \/ parent b = Some a.
  Notation valid' := (valid parent depth root).
  Notation Route' := (Route parent).
  Hypothesis Hdepth_lt : forall x, valid' x -> depth x < N.

  Lemma valid_parent : forall c p, parent c = Some p -> valid' c -> valid' p.
  Proof.
    unfold valid. intros c p Hp Hv. rewrite (Hdepth _ _ Hp) in Hv. simpl in Hv. rewrite Hp in Hv. exact Hv.
  Qed.
  Lemma valid_child : forall c p, parent c = Some p -> valid' p -> valid' c.
  Proof.
    unfold valid. intros c p Hp Hv. rewrite (Hdepth _ _ Hp). simpl. rewrite Hp. exact Hv.
  Qed.

  Lemma route_len : forall src dst, valid' src -> valid' dst ->
    exists r, Route' dst src r /\ length r + 2 <= 2 * N.
  Proof.
    intros src dst Hs Hd.
    destruct (route_exists parent depth Hdepth root dst Hd (depth src) src eq_refl Hs) as (r & HR & Hl).
    exists r. split; auto. pose proof (Hdepth_lt _ Hs). pose proof (Hdepth_lt _ Hd). lia.
  Qed.

  (* with a tree and a classification that only names levels, the search always finds a map:
     no IndexError, whatever the device does *)
  Hypothesis Hcls_valid : forall m x, In x (matches m) -> valid' x.

  Lemma process_no_crash : forall belief dst ms, (forall x, In x ms -> valid' x) -> valid' dst ->
    fst (process N parent nbrs belief dst ms) <> NoMap.
  Proof.
    intros belief dst ms Hms Hd. unfold process.
    destruct (pick belief dst ms) as [cur|] eqn:P; simpl; try discriminate.
    destruct (cur =? dst) eqn:E; simpl; try discriminate.
    apply Nat.eqb_neq in E. apply pick_in in P. apply Hms in P.
    destruct (route_len cur dst P Hd) as (r & HR & Hl).
    destruct (change_map_shape parent nbrs Hnbrs (2 * N) dst cur r HR E) as (x1 & rest & Hm & _); try lia.
    unfold change_map. rewrite Hm. destruct (oeqb (parent x1) (Some cur)); simpl; discriminate.
  Qed.

  Lemma loop_no_crash : forall fuel tr belief dst d o b d' tr', valid' dst ->
    loop' fuel tr belief dst d = (o, b, d', tr') -> o <> Crash.
  Proof.
    induction fuel as [|f IH]; intros tr belief dst d o b d' tr' Hd H.
    - simpl in H. inversion H. discriminate.
    - simpl in H. destruct (dline d LRet) as [d1 r].
      destruct r; try (inversion H; subst; discriminate).
      pose proof (process_no_crash belief dst (matches (dmode d1)) (Hcls_valid _) Hd) as NC.
      destruct (process N parent nbrs belief dst (matches (dmode d1))) as [a b1].
      destruct a; try (inversion H; subst; discriminate).
      + destruct (deescalate' cur d1) as [d2 [e|]] eqn:E.
        * apply deescalate_exc in E. inversion H; subst. discriminate.
        * destruct (factor * N <? length (tr ++ [LDeesc cur])); [inversion H; discriminate|eauto].
      + destruct (escalate' x d1) as [d2 [e|]] eqn:E.
        * apply escalate_exc in E. inversion H; subst. destruct E; subst; discriminate.
        * destruct (factor * N <? length (tr ++ [LEsc x])); [inversion H; discriminate|eauto].
      + simpl in NC. congruence.
  Qed.

  (* nav_bounded on trees: only success or a scrapli privilege / authentication / timeout error *)
  Theorem nav_bounded_tree : forall belief dst d o b d' tr, valid' dst ->
    acquire' belief dst d = (o, b, d', tr) ->
    length tr <= factor * N + 1 /\
    (o = Reached \/ o = PrivilegeError \/ o = AuthFailed \/ o = Timeout).
  Proof.
    intros belief dst d o b d' tr Hd H.
    destruct (nav_bounded _ _ _ _ _ _ _ H) as (_ & Hl & Ho). split; auto.
    assert (o <> Crash).
    { unfold acquire in H. destruct (dst <? N); [eapply loop_no_crash; eauto|inversion H; discriminate]. }
    tauto.
  Qed.

  (* ---- the compliant device ---- *)
  Hypothesis Hfactor : 1 <= factor.
  Hypothesis Hvalid_lt : forall x, valid' x -> x < N.   (* levels are indices below |levels| *)

  Lemma chain_valid : forall p cur, chain nbrs cur p -> valid' cur -> forall y, In y p -> valid' y.
  Proof.
    induction p as [|z p IH]; simpl; intros cur Hch Hv y Hy; [contradiction|].
    destruct Hch as [Hadj Hch].
    assert (valid' z).
    { apply Hnbrs in Hadj. destruct Hadj; [eapply valid_parent|eapply valid_child]; eauto. }
    destruct Hy as [<-|Hy]; auto. eapply IH; eauto.
  Qed.

  (* the route visits distinct levels: it has at most |levels| - 1 transitions *)
  Lemma route_len_tight : forall src dst, valid' src -> valid' dst ->
    exists r, Route' dst src r /\ length r + 1 <= N.
  Proof.
    intros src dst Hs Hd. destruct (route_len src dst Hs Hd) as (r & HR & Hl). exists r. split; auto.
    destruct (Nat.eq_dec src dst) as [E|Hne].
    - subst src. apply route_at_dst in HR. subst. simpl. pose proof (Hvalid_lt _ Hd). lia.
    - destruct (change_map_shape parent nbrs Hnbrs (2 * N) dst src r HR Hne) as (x1 & rest & _ & Hch & Hlst & Hnd); try lia.
      rewrite <- (simple_walk_len parent depth nbrs Hdepth Hnbrs dst (x1 :: rest) src r Hnd Hch Hlst HR).
      assert (length (src :: x1 :: rest) <= N).
      { apply pigeon; auto. intros y [<-|Hy]; apply Hvalid_lt; auto. eapply chain_valid; eauto. }
      simpl in *. lia.
  Qed.
  (* the prompt printed in a level is matched by that level's pattern, and for a level that is the
     previous_priv of some level by no other pattern (leaves may share prompts) *)
  Hypothesis Hcls_in : forall m, valid' m -> In m (matches m).
  Hypothesis Hcls_inner : forall m c, parent c = Some m -> matches m = [m].
  (* the device (in the states [Inv] it can be in) answers get_prompt with its prompt and performs
     the single-step transitions *)
  Variable Inv : D -> Prop.
  Hypothesis Hret : forall d, Inv d -> exists d', dline d LRet = (d', RPrompt) /\ dmode d' = dmode d /\ Inv d'.
  Hypothesis Hde : forall d p, Inv d -> parent (dmode d) = Some p ->
    exists d', deescalate' (dmode d) d = (d', None) /\ dmode d' = p /\ Inv d'.
  Hypothesis Hesc : forall d x, Inv d -> parent x = Some (dmode d) ->
    exists d', escalate' x d = (d', None) /\ dmode d' = x /\ Inv d'.

  Lemma loop_reaches : forall dst m r, Route' dst m r ->
    forall fuel tr belief d, Inv d -> dmode d = m -> valid' m -> valid' dst ->
    (belief = Some m \/ (belief = None /\ (m = dst \/ exists c, parent c = Some m))) ->
    length r < fuel -> length r < 2 * N -> length tr + length r <= factor * N ->
    exists d', loop' fuel tr belief dst d = (Reached, Some dst, d', tr ++ r) /\ dmode d' = dst.
  Proof.
    induction 1 as [|cur p r Hne Hna Hp HR IH|cur c r Hne Hp Ha HR IH];
      intros fuel tr belief d HI Hm Hv Hvd Hb Hf H2N Hlen;
      (destruct fuel as [|f]; [simpl in Hf; lia|]); simpl;
      destruct (Hret d HI) as (d1 & E1 & M1 & I1); rewrite E1, M1, Hm.
    - (* at the target *)
      assert (P : pick belief dst (matches dst) = Some dst).
      { destruct Hb as [->|[-> _]]; [apply pick_self|apply pick_dst]; auto. }
      unfold process. rewrite P, Nat.eqb_refl. exists d1. rewrite app_nil_r. split; auto. congruence.
    - (* up *)
      assert (P : pick belief dst (matches cur) = Some cur).
      { destruct Hb as [->|[-> [X|[c Hc]]]]; [apply pick_self; auto|congruence|].
        rewrite (Hcls_inner _ _ Hc). apply pick_single; auto. }
      pose proof (R_up parent dst cur p r Hne Hna Hp HR) as HRfull.
      destruct (change_map_shape parent nbrs Hnbrs (2 * N) dst cur _ HRfull Hne H2N)
        as (x1 & rest & Hmap & Hch & Hl & Hnd).
      destruct (hop parent depth nbrs Hdepth Hnbrs _ _ _ _ _ Hch Hl Hnd HRfull)
        as (r' & HR' & [(_ & _ & X)|(T & Hp' & X)]); [discriminate|].
      unfold process. rewrite P. apply Nat.eqb_neq in Hne. rewrite Hne.
      unfold change_map. rewrite Hmap, T.
      assert (Hm1 : dmode d1 = cur) by congruence.
      destruct (Hde d1 p I1) as (d2 & E2 & M2 & I2); [rewrite Hm1; auto|]. rewrite Hm1 in E2. rewrite E2.
      simpl in Hlen, Hf, H2N.
      assert (B : (factor * N <? length (tr ++ [LDeesc cur])) = false).
      { apply Nat.ltb_ge. rewrite app_length. simpl. lia. }
      rewrite B.
      destruct (IH f (tr ++ [LDeesc cur]) None d2) as (d' & E' & M'); auto; try lia.
      + eapply valid_parent; eauto.
      + right. split; auto. right. exists cur. auto.
      + rewrite app_length. simpl. lia.
      + exists d'. rewrite <- app_assoc in E'. simpl in E'. auto.
    - (* down *)
      assert (P : pick belief dst (matches cur) = Some cur).
      { destruct Hb as [->|[-> [X|[c' Hc]]]]; [apply pick_self; auto|congruence|].
        rewrite (Hcls_inner _ _ Hc). apply pick_single; auto. }
      pose proof (R_down parent dst cur c r Hne Hp Ha HR) as HRfull.
      destruct (change_map_shape parent nbrs Hnbrs (2 * N) dst cur _ HRfull Hne H2N)
        as (x1 & rest & Hmap & Hch & Hl & Hnd).
      destruct (hop parent depth nbrs Hdepth Hnbrs _ _ _ _ _ Hch Hl Hnd HRfull)
        as (r' & HR' & [(T & _ & X)|(_ & _ & X)]); [|discriminate].
      inversion X; subst x1 r'. clear X.
      unfold process. rewrite P. pose proof Hne as Hne'. apply Nat.eqb_neq in Hne'. rewrite Hne'.
      unfold change_map. rewrite Hmap, T.
      assert (Hm1 : dmode d1 = cur) by congruence.
      destruct (Hesc d1 c I1) as (d2 & E2 & M2 & I2); [rewrite Hm1; auto|]. rewrite E2.
      simpl in Hlen, Hf, H2N.
      assert (B : (factor * N <? length (tr ++ [LEsc c])) = false).
      { apply Nat.ltb_ge. rewrite app_length. simpl. lia. }
      rewrite B.
      destruct (IH f (tr ++ [LEsc c]) None d2) as (d' & E' & M'); auto; try lia.
      + eapply valid_child; eauto.
      + right. split; auto.
        inversion HR; subst; auto.
        * exfalso. auto.
        * right. eexists; eauto.
      + rewrite app_length. simpl. lia.
      + exists d'. rewrite <- app_assoc in E'. simpl in E'. auto.
  Qed.

  (* nav_reaches: from any level the driver has navigated to (belief = device mode = src), with a
     device that performs the transitions, acquire_priv(dst) returns normally, device and belief
     at dst, and the transitions attempted are exactly the route — each once, fewer than the bound *)
  Theorem nav_reaches : forall src dst d, valid' src -> valid' dst -> dst < N -> Inv d -> dmode d = src ->
    exists d', acquire' (Some src) dst d =
                 (Reached, Some dst, d', route parent depth (2 * N) src dst)
               /\ dmode d' = dst /\ length (route parent depth (2 * N) src dst) + 1 <= N.
  Proof.
    intros src dst d Hs Hd HdN HI Hm.
    destruct (route_len_tight src dst Hs Hd) as (r & HR & Hl).
    rewrite (route_compute parent depth Hdepth dst src r HR (2 * N)); try lia.
    unfold acquire. apply Nat.ltb_lt in HdN. rewrite HdN.
    assert (B1 : length r < factor * N + 2) by nia.
    assert (B2 : length (@nil line) + length r <= factor * N) by (simpl; nia).
    destruct (loop_reaches dst src r HR (factor * N + 2) [] (Some src) d) as (d' & E & M); auto; try lia.
    exists d'. simpl in E. auto.
  Qed.
End Nav.

(* ---- a normal return means the device is in the target — for EVERY device, when the prompts are
   unambiguous.  (With levels that share a prompt this is false: Part D.) ---- *)
Section Exact.
  Variable N factor : nat.
  Variable stop : bool.
  Variable parent : nat -> option nat.
  Variable auth : nat -> bool.
  Variable nbrs : nat -> list nat.
  Variable matches : nat -> list nat.
  Variable D : Type.
  Variable dmode : D -> nat.
  Variable dline : D -> line -> D * reply.
  Hypothesis Hcls_exact : forall m, matches m = [m].

  Lemma pick_exact : forall belief dst m cur, pick belief dst [m] = Some cur -> cur = m.
  Proof.
    intros belief dst m cur H. apply pick_in in H. destruct H as [H|[]]. auto.
  Qed.

  Lemma loop_reached_sound : forall fuel tr belief dst d b d' tr',
    loop N factor stop parent auth nbrs matches D dmode dline fuel tr belief dst d = (Reached, b, d', tr') ->
    dmode d' = dst /\ b = Some dst.
  Proof.
    induction fuel as [|f IH]; intros tr belief dst d b d' tr' H.
    - simpl in H. inversion H.
    - simpl in H. destruct (dline d LRet) as [d1 r]. destruct r; try (inversion H; fail).
      rewrite Hcls_exact in H. unfold process in H.
      destruct (pick belief dst [dmode d1]) as [cur|] eqn:P; try (inversion H; fail).
      apply pick_exact in P. subst cur.
      destruct (dmode d1 =? dst) eqn:E.
      + inversion H; subst. apply Nat.eqb_eq in E. auto.
      + destruct (change_map N nbrs (dmode d1) dst) as [|a [|x1 rest]]; try (inversion H; fail).
        destruct (oeqb (parent x1) (Some (dmode d1))).
        * destruct (escalate stop parent auth matches D dmode dline x1 d1) as [d2 [e|]] eqn:X.
          -- apply escalate_exc in X. inversion H; subst. destruct X; discriminate.
          -- destruct (factor * N <? length (tr ++ [LEsc x1])); [inversion H|eauto].
        * destruct (deescalate D dline (dmode d1) d1) as [d2 [e|]] eqn:X.
          -- apply deescalate_exc in X. inversion H; subst. discriminate.
          -- destruct (factor * N <? length (tr ++ [LDeesc (dmode d1)])); [inversion H|eauto].
  Qed.

  Theorem reached_sound : forall belief dst d b d' tr,
    acquire N factor stop parent auth nbrs matches D dmode dline belief dst d = (Reached, b, d', tr) ->
    dmode d' = dst /\ b = Some dst.
  Proof.
    unfold acquire. intros belief dst d b d' tr H. destruct (dst <? N); [|inversion H].
    eapply loop_reached_sound; eauto.
  Qed.
End Exact.

(* ---- what the driver remembers does not matter where the prompt is unambiguous: histories in which
   the USER's lines moved the device (send_configs([.., "end"]), Junos "commit and-quit",
   send_command("configure terminal")) leave a stale _current_priv_level behind ---- *)
Section Belief.
  Variable N factor : nat.
  Variable stop : bool.
  Variable parent : nat -> option nat.
  Variable auth : nat -> bool.
  Variable nbrs : nat -> list nat.
  Variable matches : nat -> list nat.
  Variable D : Type.
  Variable dmode : D -> nat.
  Variable dline : D -> line -> D * reply.

  Lemma pick_singleton : forall belief dst m, pick belief dst [m] = Some m.
  Proof.
    intros [b|] dst m; unfold pick, memn; simpl.
    - destruct (b =? m) eqn:E; simpl.
      + apply Nat.eqb_eq in E. subst. reflexivity.
      + destruct (dst =? m) eqn:E2; simpl; [apply Nat.eqb_eq in E2; subst|]; reflexivity.
    - destruct (dst =? m) eqn:E2; simpl; [apply Nat.eqb_eq in E2; subst|]; reflexivity.
  Qed.

  Lemma process_singleton : forall belief dst m,
    process N parent nbrs belief dst [m] = process N parent nbrs (Some m) dst [m].
  Proof. intros. unfold process. rewrite !pick_singleton. reflexivity. Qed.

  (* the remembered level is consulted only to choose among SEVERAL levels matching the prompt: when the
     prompt the device prints is matched by one level only, acquire_priv does the same whatever it
     remembers (a stale memory after the user's own lines moved the device, DUMMY, anything) *)
  Theorem acquire_stale_belief : forall belief dst d d1, dst < N ->
    dline d LRet = (d1, RPrompt) -> matches (dmode d1) = [dmode d1] ->
    acquire N factor stop parent auth nbrs matches D dmode dline belief dst d =
    acquire N factor stop parent auth nbrs matches D dmode dline (Some (dmode d1)) dst d.
  Proof.
    intros belief dst d d1 HN Hr Hm. unfold acquire. apply Nat.ltb_lt in HN. rewrite HN.
    replace (factor * N + 2) with (S (factor * N + 1)) by lia.
    simpl. rewrite Hr. rewrite Hm. rewrite (process_singleton belief). reflexivity.
  Qed.
End Belief.

(* nav_reaches from a level the driver does NOT remember correctly: same hypotheses, plus the prompt of
   the level the device is in is matched by that level only *)
Theorem nav_reaches_stale_belief :
  forall (N factor : nat) (stop : bool) (parent : nat -> option nat) (auth : nat -> bool)
         (nbrs matches : nat -> list nat) (D : Type) (dmode : D -> nat) (dline : D -> line -> D * reply)
         (depth : nat -> nat) (root : nat),
    (forall n p : nat, parent n = Some p -> depth n = S (depth p)) ->
    (forall a b : nat, In b (nbrs a) <-> parent a = Some b \/ parent b = Some a) ->
    (forall x : nat, valid parent depth root x -> depth x < N) ->
    1 <= factor ->
    (forall x : nat, valid parent depth root x -> x < N) ->
    (forall m : nat, valid parent depth root m -> In m (matches m)) ->
    (forall m c : nat, parent c = Some m -> matches m = [m]) ->
    forall Inv : D -> Prop,
    (forall d : D, Inv d -> exists d' : D, dline d LRet = (d', RPrompt) /\ dmode d' = dmode d /\ Inv d') ->
    (forall (d : D) (p : nat), Inv d -> parent (dmode d) = Some p ->
       exists d' : D, deescalate D dline (dmode d) d = (d', None) /\ dmode d' = p /\ Inv d') ->
    (forall (d : D) (x : nat), Inv d -> parent x = Some (dmode d) ->
       exists d' : D, escalate stop parent auth matches D dmode dline x d = (d', None) /\ dmode d' = x /\ Inv d') ->
    forall (belief : option nat) (src dst : nat) (d : D),
      valid parent depth root src -> valid parent depth root dst -> dst < N -> Inv d -> dmode d = src ->
      matches src = [src] ->
      exists d' : D,
        acquire N factor stop parent auth nbrs matches D dmode dline belief dst d =
          (Reached, Some dst, d', route parent depth (2 * N) src dst) /\
        dmode d' = dst /\ length (route parent depth (2 * N) src dst) + 1 <= N.
Proof.
  intros N factor stop parent auth nbrs matches D dmode dline depth root H1 H2 H3 H4 H5 H6 H7 Inv Hret Hde Hesc
         belief src dst d Hs Hd HdN HI Hm Hex.
  destruct (Hret d HI) as (d1 & Er & Em & _).
  rewrite (acquire_stale_belief N factor stop parent auth nbrs matches D dmode dline belief dst d d1 HdN Er).
  - rewrite Em, Hm.
    apply (nav_reaches N factor stop parent auth nbrs matches D dmode dline depth root H1 H2 H3 H4 H5 H6 H7 Inv Hret Hde Hesc); auto.
  - rewrite Em, Hm. exact Hex.
Qed.

(* ------------------------------------------------------------------------------------------ *)
(* histories of acquire_priv calls on one connection: every call is judged on its own *)
Section CallsProofs.
  Variable N factor : nat.
  Variable stop : bool.
  Variable parent : nat -> option nat.
  Variable auth : nat -> bool.
  Variable nbrs : nat -> list nat.
  Variable matches : nat -> list nat.
  Variable D : Type.
  Variable dmode : D -> nat.

  Local Notation calls' := (acquire_calls N factor stop parent auth nbrs matches D dmode).
  Local Notation state' := (calls_state N factor stop parent auth nbrs matches D dmode).

  Lemma acquire_calls_app : forall cs cs' belief d,
    calls' (cs ++ cs') belief d =
    calls' cs belief d ++ calls' cs' (fst (state' cs belief d)) (snd (state' cs belief d)).
  Proof.
    induction cs as [|[dl dst] r IH]; intros cs' belief d; [reflexivity|].
    simpl. destruct (acquire N factor stop parent auth nbrs matches D dmode dl belief dst d) as [[[o b] d'] tr].
    simpl. rewrite IH. reflexivity.
  Qed.

  Lemma acquire_calls_length : forall cs belief d, length (calls' cs belief d) = length cs.
  Proof.
    induction cs as [|[dl dst] r IH]; intros belief d; [reflexivity|].
    simpl. destruct (acquire N factor stop parent auth nbrs matches D dmode dl belief dst d) as [[[o b] d'] tr].
    simpl. rewrite IH. reflexivity.
  Qed.

  (* whatever the devices of the individual calls do, whatever earlier calls ended in: EVERY call of
     the history ends, never out of fuel, within factor*|levels|+1 attempts of its own *)
  Theorem calls_bounded : forall cs belief d,
    Forall (fun r : outcome * option nat * D * list line =>
              let '(o, _, _, tr) := r in
              o <> OutOfFuel /\ length tr <= factor * N + 1 /\
              (o = Reached \/ o = PrivilegeError \/ o = AuthFailed \/ o = Timeout \/ o = Crash))
           (calls' cs belief d).
  Proof.
    induction cs as [|[dl dst] r IH]; intros belief d; [constructor|].
    simpl. destruct (acquire N factor stop parent auth nbrs matches D dmode dl belief dst d) as [[[o b] d'] tr] eqn:E.
    constructor; [|apply IH].
    exact (nav_bounded N factor stop parent auth nbrs matches D dmode dl belief dst d o b d' tr E).
  Qed.
End CallsProofs.

(* after ANY history of calls (any targets, any device behaviour during them, any outcomes — failed
   ones included), a call during which the device cooperates, started with the device at the prompt
   of a level matched by that level only, reaches its target by exactly the route from where the
   device is: hypotheses of nav_reaches for the LAST call's device only *)
Theorem nav_history_reaches :
  forall (N factor : nat) (stop : bool) (parent : nat -> option nat) (auth : nat -> bool)
         (nbrs matches : nat -> list nat) (D : Type) (dmode : D -> nat) (dline : D -> line -> D * reply)
         (depth : nat -> nat) (root : nat),
    (forall n p : nat, parent n = Some p -> depth n = S (depth p)) ->
    (forall a b : nat, In b (nbrs a) <-> parent a = Some b \/ parent b = Some a) ->
    (forall x : nat, valid parent depth root x -> depth x < N) ->
    1 <= factor ->
    (forall x : nat, valid parent depth root x -> x < N) ->
    (forall m : nat, valid parent depth root m -> In m (matches m)) ->
    (forall m c : nat, parent c = Some m -> matches m = [m]) ->
    forall Inv : D -> Prop,
    (forall d : D, Inv d -> exists d' : D, dline d LRet = (d', RPrompt) /\ dmode d' = dmode d /\ Inv d') ->
    (forall (d : D) (p : nat), Inv d -> parent (dmode d) = Some p ->
       exists d' : D, deescalate D dline (dmode d) d = (d', None) /\ dmode d' = p /\ Inv d') ->
    (forall (d : D) (x : nat), Inv d -> parent x = Some (dmode d) ->
       exists d' : D, escalate stop parent auth matches D dmode dline x d = (d', None) /\ dmode d' = x /\ Inv d') ->
    forall (cs : list (call D)) (belief0 : option nat) (d0 : D) (src dst : nat),
      let st := calls_state N factor stop parent auth nbrs matches D dmode cs belief0 d0 in
      valid parent depth root src -> valid parent depth root dst -> dst < N ->
      Inv (snd st) -> dmode (snd st) = src -> matches src = [src] ->
      exists d' : D,
        acquire_calls N factor stop parent auth nbrs matches D dmode (cs ++ [(dline, dst)]) belief0 d0 =
          acquire_calls N factor stop parent auth nbrs matches D dmode cs belief0 d0
          ++ [(Reached, Some dst, d', route parent depth (2 * N) src dst)] /\
        dmode d' = dst /\ length (route parent depth (2 * N) src dst) + 1 <= N.
Proof.
  intros N factor stop parent auth nbrs matches D dmode dline depth root H1 H2 H3 H4 H5 H6 H7 Inv Hret Hde Hesc
         cs belief0 d0 src dst st Hs Hd HdN HI Hm Hex.
  destruct (nav_reaches_stale_belief N factor stop parent auth nbrs matches D dmode dline depth root
              H1 H2 H3 H4 H5 H6 H7 Inv Hret Hde Hesc (fst st) src dst (snd st) Hs Hd HdN HI Hm Hex)
    as (d' & E & Em & Hl).
  exists d'. split; [|split; assumption].
  rewrite acquire_calls_app. fold st. simpl. rewrite E. reflexivity.
Qed.

(* ------------------------------------------------------------------------------------------ *)
(* the premises of nav_reaches are satisfiable: the IOS-XE shaped tree exec - privilege_exec -
   {configuration, tclsh}, an authenticated escalation to level 1, a device that just moves *)
Module Example_Tree.
  Definition parent (n : nat) : option nat :=
    match n with 1 => Some 0 | 2 => Some 1 | 3 => Some 1 | _ => None end.
  Definition depth (n : nat) : nat := match n with 1 => 1 | 2 => 2 | 3 => 2 | _ => 0 end.
  (* neighbour sets in an order that is neither sorted nor parent-first *)
  Definition nbrs (n : nat) : list nat :=
    match n with 0 => [1] | 1 => [3; 2; 0] | 2 => [1] | 3 => [1] | _ => [] end.
  Definition matches (m : nat) : list nat := if m <? 4 then [m] else [].
  Definition auth (n : nat) : bool := n =? 1.
  Definition dline (d : nat) (l : line) : nat * reply :=
    match l with
    | LDeesc m => (match parent d with Some p => p | None => d end, RPrompt)
    | LEsc x => (x, RPrompt)
    | _ => (d, RPrompt)
    end.
  Definition dmode (d : nat) : nat := d.

  Lemma Hdepth : forall n p, parent n = Some p -> depth n = S (depth p).
  Proof. intros [|[|[|[|n]]]] p H; simpl in H; inversion H; reflexivity. Qed.
  Lemma Hnbrs : forall a b, In b (nbrs a) <-> parent a = Some b \/ parent b = Some a.
  Proof.
    intros [|[|[|[|a]]]] [|[|[|[|b]]]]; simpl; split; intros H;
      repeat match goal with
             | H : _ \/ _ |- _ => destruct H
             | H : False |- _ => contradiction
             | H : S _ = 0 |- _ => discriminate H
             | H : 0 = S _ |- _ => discriminate H
             | H : S _ = S _ |- _ => apply eq_add_S in H
             | H : Some _ = Some _ |- _ => inversion H; clear H
             | H : None = Some _ |- _ => discriminate H
             end; subst; auto 6; try discriminate.
  Qed.
  Lemma valid_lt : forall x, valid parent depth 0 x -> x < 4.
  Proof. intros [|[|[|[|x]]]] H; try lia. unfold valid in H. simpl in H. inversion H. Qed.
  Lemma lt_valid : forall x, x < 4 -> valid parent depth 0 x.
  Proof. intros [|[|[|[|x]]]] H; try lia; reflexivity. Qed.

  Example nav_reaches_premises_satisfiable : forall stop src dst, src < 4 -> dst < 4 ->
    exists d', acquire 4 2 stop parent auth nbrs matches nat dmode dline (Some src) dst src
               = (Reached, Some dst, d', route parent depth 8 src dst) /\ dmode d' = dst.
  Proof.
    intros stop src dst Hs Hd.
    destruct (nav_reaches 4 2 stop parent auth nbrs matches nat dmode dline depth 0 Hdepth Hnbrs) with
      (Inv := fun _ : nat => True) (src := src) (dst := dst) (d := src) as (d' & E & M & _); auto.
    - intros x Hx. apply valid_lt in Hx. destruct x as [|[|[|[|x]]]]; simpl; lia.
    - apply valid_lt.
    - intros m Hm. apply valid_lt in Hm. unfold matches. apply Nat.ltb_lt in Hm. rewrite Hm. simpl; auto.
    - intros m c Hc. destruct c as [|[|[|[|c]]]]; simpl in Hc; inversion Hc; reflexivity.
    - intros d _. exists d. auto.
    - intros d p _ Hp. unfold deescalate, dline, dmode in *. rewrite Hp. eauto.
    - intros d x _ Hp. unfold escalate, dline, okp, dmode, matches in *.
      assert (x < 4) by (destruct x as [|[|[|[|x]]]]; simpl in Hp; try discriminate; lia).
      apply Nat.ltb_lt in H. rewrite H. unfold memn. simpl. rewrite Nat.eqb_refl. simpl.
      destruct (auth x); destruct stop; simpl; eauto.
    - apply lt_valid; auto.
    - apply lt_valid; auto.
    - exists d'. auto.
  Qed.

  (* and the conclusion is not vacuous: a concrete instance, by the theorem *)
  Example tclsh_to_configuration :
    exists d', acquire 4 2 false parent auth nbrs matches nat dmode dline (Some 3) 2 3
               = (Reached, Some 2, d', [LDeesc 3; LEsc 2]) /\ dmode d' = 2.
  Proof. apply (nav_reaches_premises_satisfiable false 3 2); lia. Qed.

  (* the premises of nav_reaches_stale_belief are satisfiable, for every remembered level *)
  Example stale_belief_premises_satisfiable : forall stop belief src dst, src < 4 -> dst < 4 ->
    exists d', acquire 4 2 stop parent auth nbrs matches nat dmode dline belief dst src
               = (Reached, Some dst, d', route parent depth 8 src dst) /\ dmode d' = dst.
  Proof.
    intros stop belief src dst Hs Hd.
    rewrite (acquire_stale_belief 4 2 stop parent auth nbrs matches nat dmode dline belief dst src src Hd).
    - apply nav_reaches_premises_satisfiable; auto.
    - reflexivity.
    - unfold matches, dmode. apply Nat.ltb_lt in Hs. rewrite Hs. reflexivity.
  Qed.

  (* send_configs([.., "end"]) left the device in privilege_exec (1) while the driver remembers
     configuration (2): acquire_priv(configuration) types the escalate command again *)
  Example configuration_again_after_user_end :
    exists d', acquire 4 2 false parent auth nbrs matches nat dmode dline (Some 2) 2 1
               = (Reached, Some 2, d', [LEsc 2]) /\ dmode d' = 2.
  Proof. apply (stale_belief_premises_satisfiable false (Some 2) 1 2); lia. Qed.

  (* the premises of nav_history_reaches are satisfiable: after ANY history (any devices during the
     earlier calls) that leaves the device in one of the four levels, the cooperating device is navigated *)
  Example history_premises_satisfiable : forall stop cs belief0 d0 dst,
    let st := calls_state 4 2 stop parent auth nbrs matches nat dmode cs belief0 d0 in
    snd st < 4 -> dst < 4 ->
    exists d', acquire_calls 4 2 stop parent auth nbrs matches nat dmode (cs ++ [(dline, dst)]) belief0 d0
               = acquire_calls 4 2 stop parent auth nbrs matches nat dmode cs belief0 d0
                 ++ [(Reached, Some dst, d', route parent depth 8 (snd st) dst)] /\ dmode d' = dst.
  Proof.
    intros stop cs belief0 d0 dst st Hs Hd.
    destruct (stale_belief_premises_satisfiable stop (fst st) (snd st) dst Hs Hd) as (d' & E & M).
    exists d'. split; auto.
    rewrite acquire_calls_app. fold st. simpl. rewrite E. reflexivity.
  Qed.

  (* a device that ignores every deescalate command *)
  Definition dstuck (d : nat) (l : line) : nat * reply :=
    match l with LEsc x => (x, RPrompt) | _ => (d, RPrompt) end.

  (* not vacuous: from configuration (2) the device ignores "end": acquire_priv(privilege_exec) gives up
     after 2*4+1 attempts; then the device cooperates: the very same call needs ONE attempt, and so
     does the next one — no attempt of the failed call is charged to the later ones *)
  Example history_after_a_refused_call :
    acquire_calls 4 2 false parent auth nbrs matches nat dmode [(dstuck, 1); (dline, 1); (dline, 3)] (Some 2) 2
    = [(PrivilegeError, None, 2, repeat (LDeesc 2) 9); (Reached, Some 1, 1, [LDeesc 2]); (Reached, Some 3, 3, [LEsc 3])].
  Proof. vm_compute. reflexivity. Qed.
End Example_Tree.

(* ------------------------------------------------------------------------------------------ *)
(* Part D: the two findings, by computation on the faithful model *)
Module Findings.
  (* IOS-XR shaped table: privilege_exec, configuration, configuration_exclusive (same prompt) *)
  Definition t_xr : table :=
    [mkP None []%N []%N false;
     mkP (Some 0) [99;116]%N [101;110;100]%N false;      (* "ct" / "end" *)
     mkP (Some 0) [99;101]%N [101;110;100]%N false].     (* "ce" / "end" *)
  Definition cls_xr : list (list nat) := [[0]; [1; 2]; [1; 2]].
  Definition order_xr : list (list nat) := [[1; 2]; [0]; [0]].

  (* full statement for refusing devices: a normal return implies the device is in the target *)
  Definition refusal_full : Prop :=
    forall t root order cls stuck secret sec src dst o b s tr,
      is_tree t root = true -> cmds_ok t = true -> order_ok t order = true ->
      (forall m, m < length t -> memn m (nth m cls []) = true) ->
      src < length t -> dst < length t ->
      run_acquire 2 true (mkC t stuck [] secret sec) order cls (Some src) src dst = (o, b, s, tr) ->
      o = Reached -> s_mode s = dst.

  Theorem refusal_full_refuted : ~ refusal_full.
  Proof.
    intros H.
    specialize (H t_xr 0 order_xr cls_xr [(1, 0)] None []%N 1 2).
    remember (run_acquire 2 true (mkC t_xr [(1, 0)] [] None []%N) order_xr cls_xr (Some 1) 1 2) as res eqn:R.
    vm_compute in R. destruct res as [[[o b] s] tr]. inversion R; subst.
    assert (X : 1 = 2); [|discriminate X].
    apply (H Reached (Some 2) {| s_mode := 1; s_dialog := None; s_log := [(1, [101;110;100]%N)]; s_hidden := []; s_mute := false |} [LDeesc 1]);
      auto; try (simpl; lia).
    intros m Hm. simpl in Hm. destruct m as [|[|[|m]]]; try reflexivity. lia.
  Qed.

  (* IOS-XE shaped table, the device grants `enable` without a password dialogue *)
  Definition t_xe : table :=
    [mkP None []%N []%N false;
     mkP (Some 0) [101;110]%N [100;105]%N true].          (* "en" / "di", escalate_auth *)
  Definition only_route_lines (stop : bool) : Prop :=
    forall sec, blank sec = false ->
      let '(_, _, s, _) := run_acquire 2 stop (mkC t_xe [] [] None sec) [[1]; [0]] [[0]; [1]] (Some 0) 0 1 in
      s_log s = route_log t_xe 0 (route_of t_xe 0 1).

  (* every interact event always sent (the pinned commit): auth_secondary is typed as a command *)
  Theorem secondary_typed_refuted : ~ only_route_lines false.
  Proof. intros H. specialize (H [83]%N eq_refl). vm_compute in H. discriminate H. Qed.

  (* interaction ends at a completion pattern: nothing but the route's commands *)
  Theorem secondary_not_typed_when_stopping : only_route_lines true.
  Proof. intros sec Hb. vm_compute. reflexivity. Qed.
End Findings.

(* ------------------------------------------------------------------------------------------ *)
(* glue: the boolean checks on a concrete table give the tree hypotheses of Part B/C *)
Lemma in_insert_sorted : forall x y l, In x (insert_sorted y l) <-> x = y \/ In x l.
Proof.
  induction l as [|z l IH]; simpl.
  - intuition.
  - destruct (y <=? z); simpl; rewrite ?IH; intuition.
Qed.
Lemma in_sort_nat : forall x l, In x (sort_nat l) <-> In x l.
Proof.
  induction l as [|y l IH]; simpl; [tauto|].
  rewrite in_insert_sorted, IH. intuition.
Qed.
Lemma nat_list_eqb_eq : forall a b, nat_list_eqb a b = true -> a = b.
Proof.
  induction a as [|x a IH]; destruct b as [|y b]; simpl; intros H; try discriminate; auto.
  apply andb_true_iff in H. destruct H as [H1 H2]. apply Nat.eqb_eq in H1. f_equal; auto.
Qed.

Section Glue.
  Variable t : table.
  Variable root : nat.
  Hypothesis Htree : is_tree t root = true.

  Lemma parent_ge : forall n, length t <= n -> parent_of t n = None.
  Proof. intros n H. unfold parent_of. apply Nat.ltb_ge in H. rewrite H. reflexivity. Qed.

  Lemma is_tree_at : forall n, n < length t ->
    match parent_of t n with
    | Some p => (p <? length t) && (depth_of t n =? S (depth_of t p))
    | None => true
    end = true
    /\ oeqb (up (parent_of t) (depth_of t n) n) (Some root) = true
    /\ (depth_of t n <? length t) = true.
  Proof.
    intros n Hn. unfold is_tree in Htree. apply andb_true_iff in Htree. destruct Htree as [_ H].
    rewrite forallb_forall in H. specialize (H n). rewrite in_seq in H.
    assert (X : 0 <= n < 0 + length t) by lia. specialize (H X).
    apply andb_true_iff in H. destruct H as [H H3].
    apply andb_true_iff in H. destruct H as [H1 H2]. auto.
  Qed.

  Lemma root_lt : root < length t.
  Proof. unfold is_tree in Htree. apply andb_true_iff in Htree. destruct Htree as [H _]. apply Nat.ltb_lt. exact H. Qed.

  Lemma tree_Hdepth : forall n p, parent_of t n = Some p -> depth_of t n = S (depth_of t p).
  Proof.
    intros n p H. destruct (lt_dec n (length t)) as [L|L].
    - destruct (is_tree_at n L) as (A & _ & _). rewrite H in A.
      apply andb_true_iff in A. destruct A as [_ A]. apply Nat.eqb_eq in A. exact A.
    - rewrite parent_ge in H by lia. discriminate.
  Qed.

  Lemma tree_parent_lt : forall n p, parent_of t n = Some p -> n < length t /\ p < length t.
  Proof.
    intros n p H. destruct (lt_dec n (length t)) as [L|L].
    - destruct (is_tree_at n L) as (A & _ & _). rewrite H in A.
      apply andb_true_iff in A. destruct A as [A _]. apply Nat.ltb_lt in A. auto.
    - rewrite parent_ge in H by lia. discriminate.
  Qed.

  Lemma tree_valid_lt : forall x, valid (parent_of t) (depth_of t) root x -> x < length t.
  Proof.
    intros x Hv. destruct (lt_dec x (length t)) as [L|L]; auto. exfalso.
    assert (D0 : depth_of t x = 0).
    { unfold depth_of. destruct (length t) eqn:E; simpl; auto. rewrite parent_ge; auto. lia. }
    unfold valid in Hv. rewrite D0 in Hv. simpl in Hv. inversion Hv. pose proof root_lt. lia.
  Qed.

  Lemma tree_lt_valid : forall x, x < length t -> valid (parent_of t) (depth_of t) root x.
  Proof. intros x L. destruct (is_tree_at x L) as (_ & A & _). apply oeqb_true in A. exact A. Qed.

  Lemma tree_depth_lt : forall x, valid (parent_of t) (depth_of t) root x -> depth_of t x < length t.
  Proof.
    intros x Hv. destruct (is_tree_at x (tree_valid_lt x Hv)) as (_ & _ & A). apply Nat.ltb_lt. exact A.
  Qed.

  Lemma in_graph_of : forall a b, In b (graph_of t a) <-> parent_of t a = Some b \/ parent_of t b = Some a.
  Proof.
    intros a b. unfold graph_of, children_of. rewrite in_app_iff, filter_In, in_seq, oeqb_true. split.
    - intros [H|[_ H]]; auto. destruct (parent_of t a) as [p|]; simpl in H; [|contradiction].
      destruct H as [H|[]]. subst. auto.
    - intros [H|H].
      + rewrite H. simpl. auto.
      + right. split; auto. apply tree_parent_lt in H. lia.
  Qed.

  Variable order : list (list nat).
  Hypothesis Horder : order_ok t order = true.

  (* the observed iteration order of the python sets satisfies the graph hypothesis of Part B *)
  Lemma tree_Hnbrs : forall a b, In b (order_nbrs order a) <-> parent_of t a = Some b \/ parent_of t b = Some a.
  Proof.
    intros a b. rewrite <- in_graph_of.
    unfold order_ok in Horder. apply andb_true_iff in Horder. destruct Horder as [HL HF].
    apply Nat.eqb_eq in HL.
    destruct (lt_dec a (length t)) as [L|L].
    - rewrite forallb_forall in HF. specialize (HF a). rewrite in_seq in HF.
      assert (X : 0 <= a < 0 + length t) by lia. specialize (HF X).
      apply nat_list_eqb_eq in HF.
      rewrite <- (in_sort_nat b (order_nbrs order a)), HF, in_sort_nat. tauto.
    - unfold order_nbrs. rewrite nth_overflow by lia. rewrite in_graph_of. split; [intros []|].
      intros [H|H]; apply tree_parent_lt in H; lia.
  Qed.
End Glue.

(* classification table: every level's prompt is matched by its own pattern; the prompt of a level
   that is some level's previous_priv is matched by nothing else *)
Definition cls_ok (t : table) (cls : list (list nat)) : bool :=
  forallb (fun m => memn m (nth m cls [])) (seq 0 (length t))
  && forallb (fun c => match parent_of t c with
                       | Some m => nat_list_eqb (nth m cls []) [m]
                       | None => true
                       end) (seq 0 (length t)).

(* nav_reaches for every concrete table that passes the boolean checks (the ones evaluated on the
   generated tables in props/C04.v), any observed set order, any compliant device *)
Theorem nav_reaches_table :
  forall (t : table) (root : nat) (order cls : list (list nat)) (factor : nat) (stop : bool)
         (D : Type) (dmode : D -> nat) (dline : D -> line -> D * reply) (Inv : D -> Prop),
    is_tree t root = true -> order_ok t order = true -> cls_ok t cls = true -> 1 <= factor ->
    (forall d, Inv d -> exists d', dline d LRet = (d', RPrompt) /\ dmode d' = dmode d /\ Inv d') ->
    (forall d p, Inv d -> parent_of t (dmode d) = Some p ->
       exists d', deescalate D dline (dmode d) d = (d', None) /\ dmode d' = p /\ Inv d') ->
    (forall d x, Inv d -> parent_of t x = Some (dmode d) ->
       exists d', escalate stop (parent_of t) (auth_of t) (fun m => nth m cls []) D dmode dline x d = (d', None)
                  /\ dmode d' = x /\ Inv d') ->
    forall src dst d, src < length t -> dst < length t -> Inv d -> dmode d = src ->
      exists d',
        acquire (length t) factor stop (parent_of t) (auth_of t) (order_nbrs order) (fun m => nth m cls [])
                D dmode dline (Some src) dst d = (Reached, Some dst, d', route_of t src dst)
        /\ dmode d' = dst /\ length (route_of t src dst) + 1 <= length t.
Proof.
  intros t root order cls factor stop D dmode dline Inv Ht Ho Hc Hf Hret Hde Hesc src dst d Hs Hd HI Hm.
  unfold cls_ok in Hc. apply andb_true_iff in Hc. destruct Hc as [Hc1 Hc2].
  rewrite forallb_forall in Hc1, Hc2.
  unfold route_of.
  apply (nav_reaches (length t) factor stop (parent_of t) (auth_of t) (order_nbrs order)
           (fun m => nth m cls []) D dmode dline (depth_of t) root) with (Inv := Inv); auto.
  - apply tree_Hdepth with root; auto.
  - apply tree_Hnbrs with root; auto.
  - apply tree_depth_lt; auto.
  - apply tree_valid_lt; auto.
  - intros m Hv. apply (tree_valid_lt t root Ht) in Hv. apply memn_true. apply Hc1. apply in_seq. lia.
  - intros m c Hp. destruct (tree_parent_lt t root Ht _ _ Hp) as [Lc _].
    specialize (Hc2 c). rewrite in_seq in Hc2. assert (X : 0 <= c < 0 + length t) by lia.
    specialize (Hc2 X). rewrite Hp in Hc2. apply nat_list_eqb_eq in Hc2. exact Hc2.
  - apply tree_lt_valid; auto.
  - apply tree_lt_valid; auto.
Qed.
