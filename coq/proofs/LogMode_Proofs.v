(* LogMode_Proofs.v — the `mode` argument of enable_basic_logging: every casing of "write" / "append" means the same
   file mode, everything else is refused before a handler exists; with the served spelling the file is what
   file_log_complete / plain_log_complete say of that mode. *)
From Verif Require Import Bytes LogFormat LogHandler LogHandler_Proofs.
From Coq Require Import Lia.

Lemma lower_byte_idem : forall c, lower_byte (lower_byte c) = lower_byte c.
Proof.
  intro c. unfold lower_byte. destruct ((65 <=? c) && (c <=? 90)) eqn:E.
  - apply andb_true_iff in E. destruct E as [A B]. apply N.leb_le in A. apply N.leb_le in B.
    replace (c + 32 <=? 90) with false by (symmetry; apply N.leb_gt; lia).
    rewrite andb_false_r. reflexivity.
  - rewrite E. reflexivity.
Qed.

Lemma lower_idem : forall s, lower (lower s) = lower s.
Proof. intro s. unfold lower. rewrite map_map. apply map_ext. apply lower_byte_idem. Qed.

Lemma beq_refl' : forall a, beq a a = true.
Proof. induction a as [|x a IH]; [reflexivity|]. cbn [beq]. rewrite N.eqb_refl, IH. reflexivity. Qed.

Lemma beq_true' : forall a b, beq a b = true -> a = b.
Proof.
  induction a as [|x a IH]; destruct b as [|y b]; cbn [beq]; intro H; try discriminate; [reflexivity|].
  apply andb_true_iff in H. destruct H as [H1 H2]. apply N.eqb_eq in H1. f_equal; [assumption | apply IH; assumption].
Qed.

Lemma beq_neq' : forall a b, a <> b -> beq a b = false.
Proof. intros a b H. destruct (beq a b) eqn:E; [|reflexivity]. exfalso. apply H. apply beq_true'. assumption. Qed.

(* the meaning of a spelling depends on its lower-cased form only *)
Theorem mode_of_case_insensitive : forall m, mode_of (lower m) = mode_of m.
Proof. intro m. unfold mode_of. rewrite lower_idem. reflexivity. Qed.

Theorem mode_of_spec : forall m,
  (lower m = mode_append -> mode_of m = Some true) /\
  (lower m = mode_write -> mode_of m = Some false) /\
  (lower m <> mode_append -> lower m <> mode_write -> mode_of m = None).
Proof.
  intro m. unfold mode_of. repeat split.
  - intro H. rewrite H. reflexivity.
  - intro H. rewrite H. reflexivity.
  - intros A W. rewrite (beq_neq' _ _ W), (beq_neq' _ _ A). reflexivity.
Qed.

(* whatever the casing of "append": the handler is installed in append mode — the previous content of the file is kept and
   the records follow it (file_log_complete / plain_log_complete say which lines); whatever the casing of "write": the file
   starts empty *)
Theorem basic_logging_append_any_casing : forall buffered c existing m recs,
  lower m = mode_append ->
  run_basic buffered c existing m recs = Some (run_handler buffered c existing true recs).
Proof. intros buffered c existing m recs H. unfold run_basic. destruct (mode_of_spec m) as (A & _). rewrite (A H). reflexivity. Qed.

Theorem basic_logging_write_any_casing : forall buffered c existing m recs,
  lower m = mode_write ->
  run_basic buffered c existing m recs = Some (run_handler buffered c [] false recs).
Proof.
  intros buffered c existing m recs H. unfold run_basic. destruct (mode_of_spec m) as (_ & W & _). rewrite (W H).
  destruct buffered; reflexivity.
Qed.

Theorem basic_logging_append_keeps_previous : forall buffered c existing m recs st,
  lower m = mode_append -> run_basic buffered (fixed c) existing m recs = Some st ->
  exists added, file st = existing ++ added
    /\ file (run_handler buffered (fixed c) [] true recs) = added.
Proof.
  intros buffered c existing m recs st H R. rewrite (basic_logging_append_any_casing _ _ _ _ _ H) in R.
  injection R as <-. destruct buffered; cbn [run_handler].
  - destruct (file_log_complete c existing true recs) as (F & _). destruct (file_log_complete c [] true recs) as (F0 & _).
    cbv zeta in *. eexists. split; [exact F|]. rewrite F0. reflexivity.
  - destruct (plain_log_complete c existing true recs) as (F & _). destruct (plain_log_complete c [] true recs) as (F0 & _).
    cbv zeta in *. eexists. split; [exact F|]. rewrite F0. reflexivity.
Qed.

Theorem basic_logging_refuses_other_strings : forall buffered c existing m recs,
  lower m <> mode_append -> lower m <> mode_write -> run_basic buffered c existing m recs = None.
Proof.
  intros buffered c existing m recs A W. unfold run_basic. destruct (mode_of_spec m) as (_ & _ & N). rewrite (N A W). reflexivity.
Qed.

(* validating the lower-cased spelling but choosing the file mode from the raw string: "Append" is served — in WRITE mode *)
Theorem mode_of_raw_refuted :
  exists m, lower m = mode_append /\ mode_of_raw m = Some false.
Proof. exists [65; 112; 112; 101; 110; 100]. split; reflexivity. Qed.

Example mode_spellings :
  mode_of [65; 80; 80; 69; 78; 68] = Some true /\ mode_of [87; 114; 105; 116; 101] = Some false
  /\ mode_of [32; 97; 112; 112; 101; 110; 100] = None /\ mode_of [97] = None.
Proof. repeat split; reflexivity. Qed.
