(* Commandeer_Proofs.v — theorems about model/Commandeer.v (the channel logs of a commandeered connection). *)
From Verif Require Import Bytes ChanLog Commandeer ChanLog_Proofs.
From Coq Require Import Lia.

Lemma upd_same : forall s d v, upd s d v d = v.
Proof. intros. unfold upd. rewrite Nat.eqb_refl. reflexivity. Qed.

Lemma upd_other : forall s d v x, x <> d -> upd s d v x = s x.
Proof. intros. unfold upd. destruct (Nat.eqb x d) eqn:E; [apply Nat.eqb_eq in E; contradiction|reflexivity]. Qed.

Lemma cmd_run_cons : forall st e evs, cmd_run st (e :: evs) = cmd_run (cmd_step st e) evs.
Proof. reflexivity. Qed.

Lemma read_step : forall st w c d,
  ref_of w st = Some d ->
  cmd_step st (CRead w c) = mkC (ref_a st) (ref_b st) (upd (cont st) d (cont st d ++ remove_byte CR c)).
Proof. intros st w c d H. unfold cmd_step. rewrite H. reflexivity. Qed.

(* reads while BOTH objects refer to d: all of them land in d, in order; nothing else moves *)
Lemma shared_reads : forall d post st,
  ref_a st = Some d -> ref_b st = Some d ->
  ref_a (cmd_run st (reads_of post)) = Some d /\ ref_b (cmd_run st (reads_of post)) = Some d /\
  cont (cmd_run st (reads_of post)) d = cont st d ++ remove_byte CR (concat (map snd post)) /\
  (forall x, x <> d -> cont (cmd_run st (reads_of post)) x = cont st x).
Proof.
  induction post as [|[w c] post IH]; intros st Ha Hb.
  - cbn. rewrite app_nil_r. repeat split; assumption.
  - assert (Hr : ref_of w st = Some d) by (destruct w; assumption).
    change (reads_of ((w, c) :: post)) with (CRead w c :: reads_of post).
    rewrite cmd_run_cons, (read_step st w c d Hr).
    set (st1 := mkC (ref_a st) (ref_b st) (upd (cont st) d (cont st d ++ remove_byte CR c))).
    destruct (IH st1 Ha Hb) as (A & B & C & D).
    repeat split; try assumption.
    + rewrite C. unfold st1. cbn [cont]. rewrite upd_same. cbn [map concat snd].
      rewrite remove_byte_app, app_assoc. reflexivity.
    + intros x Hx. rewrite (D x Hx). unfold st1. cbn [cont]. apply upd_other. exact Hx.
Qed.

(* reads through A while A refers to d (B's reference is whatever it is) *)
Lemma reads_through_a : forall d pre st,
  ref_a st = Some d ->
  ref_a (cmd_run st (reads_via WA pre)) = Some d /\ ref_b (cmd_run st (reads_via WA pre)) = ref_b st /\
  cont (cmd_run st (reads_via WA pre)) d = cont st d ++ remove_byte CR (concat pre) /\
  (forall x, x <> d -> cont (cmd_run st (reads_via WA pre)) x = cont st x).
Proof.
  induction pre as [|c pre IH]; intros st Ha.
  - cbn. rewrite app_nil_r. repeat split; assumption.
  - change (reads_via WA (c :: pre)) with (CRead WA c :: reads_via WA pre).
    rewrite cmd_run_cons, (read_step st WA c d Ha).
    set (st1 := mkC (ref_a st) (ref_b st) (upd (cont st) d (cont st d ++ remove_byte CR c))).
    destruct (IH st1 Ha) as (A & B & C & D).
    repeat split; try assumption.
    + rewrite C. unfold st1. cbn [cont]. rewrite upd_same. cbn [concat].
      rewrite remove_byte_app, app_assoc. reflexivity.
    + intros x Hx. rewrite (D x Hx). unfold st1. cbn [cont]. apply upd_other. exact Hx.
Qed.

Lemma cmd_run_app : forall a b st, cmd_run st (a ++ b) = cmd_run (cmd_run st a) b.
Proof. intros. unfold cmd_run. apply fold_left_app. Qed.

(* commandeer_exact: A opened the connection with a channel log on destination d.  Whatever is read through A
   before the commandeering and through A or B after it, in any interleaving: d holds what it held after A's
   open followed by EVERY byte read on the connection, CRs removed, in order, once; every other destination —
   the one B was configured with included — is untouched. *)
Theorem commandeer_exact : forall d s pre post,
  cont (cmd_run (after_open (Some d) s) (cmd_session CTakeover pre post)) d
    = s d ++ remove_byte CR (concat (pre ++ map snd post)) /\
  (forall x, x <> d -> cont (cmd_run (after_open (Some d) s) (cmd_session CTakeover pre post)) x = s x).
Proof.
  intros d s pre post. unfold cmd_session. rewrite cmd_run_app, cmd_run_cons.
  destruct (reads_through_a d pre (after_open (Some d) s) eq_refl) as (A & B & C & D).
  set (st1 := cmd_run (after_open (Some d) s) (reads_via WA pre)) in *.
  assert (Ha2 : ref_a (cmd_step st1 CTakeover) = Some d) by (cbn; exact A).
  assert (Hb2 : ref_b (cmd_step st1 CTakeover) = Some d) by (cbn; rewrite A; reflexivity).
  destruct (shared_reads d post _ Ha2 Hb2) as (_ & _ & C2 & D2).
  split.
  - rewrite C2. cbn [cmd_step cont]. rewrite C. cbn [after_open cont].
    rewrite concat_app, remove_byte_app, app_assoc. reflexivity.
  - intros x Hx. rewrite (D2 x Hx). cbn [cmd_step cont]. rewrite (D x Hx). reflexivity.
Qed.

(* A has no channel log: B gets none by commandeering, nothing is written anywhere (B's configured destination
   stays as it was) *)
Lemma no_log_reads : forall post st,
  ref_a st = None -> ref_b st = None -> cmd_run st (reads_of post) = st.
Proof.
  induction post as [|[w c] post IH]; intros st Ha Hb; [reflexivity|].
  change (reads_of ((w, c) :: post)) with (CRead w c :: reads_of post). rewrite cmd_run_cons.
  assert (Hr : ref_of w st = None) by (destruct w; assumption).
  assert (Hs : cmd_step st (CRead w c) = st) by (unfold cmd_step; rewrite Hr; reflexivity).
  rewrite Hs. apply IH; assumption.
Qed.

Theorem commandeer_without_log : forall s pre post,
  cmd_run (after_open None s) (cmd_session CTakeover pre post) = after_open None s.
Proof.
  intros. unfold cmd_session. rewrite cmd_run_app.
  assert (H : cmd_run (after_open None s) (reads_via WA pre) = after_open None s).
  { induction pre as [|c pre IH]; [reflexivity|].
    change (reads_via WA (c :: pre)) with (CRead WA c :: reads_via WA pre). rewrite cmd_run_cons. exact IH. }
  rewrite H, cmd_run_cons. apply no_log_reads; reflexivity.
Qed.

(* the commandeering object opening its own configured destination instead — the same file as A's, write mode —
   loses what was read before: the statement of commandeer_exact is false of that variant *)
Theorem reopen_same_destination_refuted :
  exists d s pre post,
    cont (cmd_run (after_open (Some d) s) (cmd_session (CReopen d false) pre post)) d
      <> s d ++ remove_byte CR (concat (pre ++ map snd post)).
Proof.
  exists 0%nat, (fun _ => []), [[97; 13; 10]], [(WB, [98]); (WA, [99])]. vm_compute. discriminate.
Qed.

Example commandeer_example :
  let st := cmd_run (after_open (Some 0%nat) (fun x => if Nat.eqb x 0 then [111] else [120]))
                    (cmd_session CTakeover [[97; 13; 10]] [(WB, [98; 13]); (WA, [99])]) in
  cont st 0%nat = [111; 97; 10; 98; 99] /\ cont st 1%nat = [120].
Proof. vm_compute. split; reflexivity. Qed.
