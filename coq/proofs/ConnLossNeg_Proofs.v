(* ConnLossNeg_Proofs.v — theorems about coq/model/ConnLossNeg.v (C08): the replies to the Telnet option burst,
   written from inside read(), surface a lost connection as a scrapli exception.
   Over an arbitrary configuration [c] passing [cfg_ok] and reply-site facts [n] passing [neg_ok]; props/C08.v
   instantiates them with what is generated from the source tree. *)
From Coq Require Import Lia.
From Verif Require Import Bytes ConnLoss ConnLoss_Proofs ConnLossNeg.

Section WithCfg.
Variable c : cfg.
Hypothesis Hok : cfg_ok c = true.
Variable n : ncfg.

Definition wev_neg (tr : transport) (w : wev) : bool :=
  match w with WRaise x => mem_cls x (neg_may_raise tr) | WOk => true end.

Lemma neg_env_parts : forall tr st e, neg_env_ok tr st e = true ->
  forallb (wev_neg tr) (sends e) = true /\ (forall x, werr st = Some x -> In x (neg_may_raise tr)).
Proof.
  intros tr st e H. unfold neg_env_ok in H. apply andb_prop in H. destruct H as [H1 H2]. split.
  - exact H1.
  - intros x Hx. rewrite Hx in H2. apply mem_cls_In. exact H2.
Qed.

Lemma neg_env_mk : forall tr st e,
  forallb (wev_neg tr) (sends e) = true -> (forall x, werr st = Some x -> In x (neg_may_raise tr)) ->
  neg_env_ok tr st e = true.
Proof.
  intros tr st e H1 H2. unfold neg_env_ok. apply andb_true_intro. split.
  - exact H1.
  - destruct (werr st) as [x|]; auto. apply mem_cls_refl_in. auto.
Qed.

Lemma neg_in_send : forall tr x, In x (neg_may_raise tr) -> In x (may_raise tr KSend).
Proof. intros tr x H. destruct tr; simpl in H; try contradiction. exact H. Qed.

(* a socket probe touches neither the write events nor the write side's state *)
Lemma sock_probe_keeps : forall st e r st' e',
  sock_probe c st e = (r, st', e') -> sends e' = sends e /\ werr st' = werr st.
Proof.
  intros st e r st' e' H. unfold sock_probe in H.
  assert (Hpr : forall p s r0 s0, probe_result c (sock_alive_tbls c) p s = (r0, s0) -> werr s0 = werr s).
  { intros p s r0 s0 E. unfold probe_result in E. destruct p as [| |x].
    - inversion E; reflexivity.
    - inversion E; reflexivity.
    - destruct (chain c (sock_alive_tbls c) x); inversion E; reflexivity. }
  destruct (dead st).
  - destruct (probe_result c (sock_alive_tbls c) (PRaise EBrokenPipe) st) as [r0 s0] eqn:Ep.
    inversion H; subst. split; [reflexivity | eapply Hpr; exact Ep].
  - destruct (pop_probe e) as [p e1] eqn:Epop.
    destruct (probe_result c (sock_alive_tbls c) p st) as [r0 s0] eqn:Ep.
    inversion H; subst. split; [| eapply Hpr; exact Ep].
    unfold pop_probe in Epop. destruct (probes e); inversion Epop; reflexivity.
Qed.

Definition neg_post (tr : transport) (st : tst) (o : option cls) (st' : tst) (e' : env) : Prop :=
  ogood c o /\ inv tr st' /\ env_ok tr e' = true /\ neg_env_ok tr st' e' = true /\
  mono st st' /\ attached st' = attached st /\ (o = None -> st' = st).

Lemma neg_post_refl : forall tr st e,
  inv tr st -> env_ok tr e = true -> neg_env_ok tr st e = true -> neg_post tr st None st e.
Proof.
  intros tr st e Hinv He Hn. unfold neg_post. simpl.
  split; [exact I|]. split; [exact Hinv|]. split; [exact He|]. split; [exact Hn|].
  split; [apply mono_refl|]. split; reflexivity.
Qed.

Lemma neg_post_trans : forall tr st st1 e1 o st' e',
  neg_post tr st None st1 e1 -> neg_post tr st1 o st' e' -> neg_post tr st o st' e'.
Proof.
  intros tr st st1 e1 o st' e' [_ [_ [_ [_ [M1 [A1 S1]]]]]] [G [I2 [E2 [N2 [M2 [A2 S2]]]]]].
  unfold neg_post. split; [exact G|]. split; [exact I2|]. split; [exact E2|]. split; [exact N2|].
  split; [eapply mono_trans; eauto|]. split; [congruence|].
  intro N. rewrite (S2 N). apply S1. reflexivity.
Qed.

Lemma neg_guard_spec : forall tr st e o st' e',
  inv tr st -> env_ok tr e = true -> neg_env_ok tr st e = true ->
  neg_guard c n tr st e = (o, st', e') -> neg_post tr st o st' e'.
Proof.
  intros tr st e o st' e' Hinv He Hn H. unfold neg_guard in H.
  assert (Hid : (o, st', e') = (None, st, e) -> neg_post tr st o st' e').
  { intro E. inversion E; subst. apply neg_post_refl; auto. }
  destruct tr; try (apply Hid; symmetry; exact H).
  destruct (n_probe n); [| apply Hid; symmetry; exact H].
  destruct (sock_probe c st e) as [[a st1] e1] eqn:Ep.
  destruct (sock_probe_spec c Hok _ _ _ _ _ (or_introl He) Ep) as [Hg [He1 [_ [Ht Hf]]]].
  destruct (sock_probe_keeps _ _ _ _ _ Ep) as [Hs Hw].
  destruct (neg_env_parts _ _ _ Hn) as [Hn1 Hn2].
  destruct a as [[|]|y].
  - destruct (Ht eq_refl) as [Es _]. subst st1. inversion H; subst.
    unfold neg_post. split; [exact I|]. split; [exact Hinv|]. split; [auto|].
    split; [apply neg_env_mk; [rewrite Hs; exact Hn1 | exact Hn2]|].
    split; [apply mono_refl|]. split; reflexivity.
  - assert (Es : st1 = set_pdead st) by (apply Hf; discriminate). subst st1. inversion H; subst.
    unfold neg_post. split; [apply (scr_NotOpened c Hok)|]. split; [apply inv_pdead; exact Hinv|].
    split; [auto|]. split; [apply neg_env_mk; [rewrite Hs; exact Hn1 | exact Hn2]|].
    split; [apply mono_pdead|]. split; [reflexivity | intro N; discriminate].
  - assert (Es : st1 = set_pdead st) by (apply Hf; discriminate). subst st1. inversion H; subst.
    unfold neg_post. split; [exact Hg|]. split; [apply inv_pdead; exact Hinv|].
    split; [auto|]. split; [apply neg_env_mk; [rewrite Hs; exact Hn1 | exact Hn2]|].
    split; [apply mono_pdead|]. split; [reflexivity | intro N; discriminate].
Qed.

Lemma neg_guards_spec : forall tr k st e o st' e',
  inv tr st -> env_ok tr e = true -> neg_env_ok tr st e = true ->
  neg_guards c n tr k st e = (o, st', e') -> neg_post tr st o st' e'.
Proof.
  intros tr k. induction k as [|k IH]; intros st e o st' e' Hinv He Hn H.
  - simpl in H. inversion H; subst. apply neg_post_refl; auto.
  - simpl in H. destruct (neg_guard c n tr st e) as [[o1 st1] e1] eqn:Eg.
    pose proof (neg_guard_spec _ _ _ _ _ _ Hinv He Hn Eg) as Hp1.
    destruct o1 as [x|].
    + inversion H; subst. exact Hp1.
    + destruct Hp1 as [G1 [I1 [E1 [N1 R1]]]].
      eapply neg_post_trans; [split; [exact G1|split; [exact I1|split; [exact E1|split; [exact N1|exact R1]]]]|].
      apply (IH _ _ _ _ _ I1 E1 N1 H).
Qed.

Lemma neg_reply_spec : forall tr st e o st' e',
  neg_ok c n tr = true -> inv tr st -> env_ok tr e = true -> neg_env_ok tr st e = true ->
  neg_reply c n st e = (o, st', e') -> neg_post tr st o st' e'.
Proof.
  intros tr st e o st' e' Hneg Hinv He Hn H. unfold neg_reply in H.
  destruct (neg_env_parts _ _ _ Hn) as [Hn1 Hn2].
  assert (Hcase : exists w e1, (match werr st with Some x => (WRaise x, e) | None => pop_send e end) = (w, e1)
                   /\ wev_neg tr w = true /\ env_ok tr e1 = true /\ forallb (wev_neg tr) (sends e1) = true).
  { destruct (werr st) as [x|] eqn:Ew.
    - exists (WRaise x), e. repeat split; auto.
      simpl. apply mem_cls_refl_in. apply Hn2. reflexivity.
    - destruct (pop_send e) as [w e1] eqn:Ep. exists w, e1.
      destruct (pop_send_ok _ _ _ _ He Ep) as [_ He1].
      split; [reflexivity|].
      unfold pop_send in Ep. destruct (sends e) as [|q r] eqn:Es; inversion Ep; subst; simpl.
      + repeat split; auto. rewrite Es. reflexivity.
      + simpl in Hn1. apply andb_prop in Hn1. destruct Hn1 as [Hq Hr].
        repeat split; auto. }
  destruct Hcase as [w [e1 [Ec [Hw [He1 Hs1]]]]]. rewrite Ec in H.
  destruct w as [|x].
  - inversion H; subst. unfold neg_post.
    split; [exact I|]. split; [exact Hinv|]. split; [exact He1|]. split; [apply neg_env_mk; auto|].
    split; [apply mono_refl|]. split; reflexivity.
  - assert (Hx : In x (neg_may_raise tr)) by (apply mem_cls_In; exact Hw).
    unfold neg_ok in Hneg. rewrite forallb_forall in Hneg. specialize (Hneg x Hx).
    destruct (flow_raised_inv c _ Hneg) as [y [Hy Hsy]]. rewrite Hy in H.
    inversion H; subst. clear H.
    unfold neg_post. split; [exact Hsy|].
    destruct Hinv as [Hst Htel]. destruct (st_ok_parts _ _ Hst) as [Hl Hwr].
    destruct (is_timeout x) eqn:Et.
    + split; [split; auto|]. split; [exact He1|]. split; [apply neg_env_mk; auto|].
      split; [apply mono_refl|]. split; [reflexivity | intro N; discriminate].
    + split.
      { split; [|exact Htel]. apply st_ok_mk; simpl; auto.
        intros z Hz. inversion Hz; subst. apply (neg_in_send tr). exact Hx. }
      split; [exact He1|].
      split.
      { apply neg_env_mk; simpl; auto. intros z Hz. inversion Hz; subst. exact Hx. }
      split; [unfold mono; simpl; repeat split; auto|].
      split; [reflexivity | intro N; discriminate].
Qed.

(* the burst: whatever happens to the replies, it ends in a scrapli exception or leaves the state as it was
   (every reply left, every probe answered alive) *)
Lemma neg_burst_spec : forall tr k st e o st' e',
  neg_ok c n tr = true -> inv tr st -> env_ok tr e = true -> neg_env_ok tr st e = true ->
  neg_burst c n tr k st e = (o, st', e') -> neg_post tr st o st' e'.
Proof.
  intros tr k. induction k as [|k IH]; intros st e o st' e' Hneg Hinv He Hn H.
  - simpl in H. inversion H; subst. apply neg_post_refl; auto.
  - cbn [neg_burst] in H.
    destruct (neg_guards c n tr 3 st e) as [[og sg] eg] eqn:Eg.
    pose proof (neg_guards_spec _ _ _ _ _ _ _ Hinv He Hn Eg) as Hpg.
    destruct og as [x|].
    + inversion H; subst. exact Hpg.
    + destruct (neg_reply c n sg eg) as [[o2 st2] e2] eqn:Er.
      assert (Hpg' := Hpg). destruct Hpg' as [_ [Ig [Eg' [Ng _]]]].
      pose proof (neg_reply_spec _ _ _ _ _ _ Hneg Ig Eg' Ng Er) as Hpr.
      destruct o2 as [y|].
      * inversion H; subst. eapply neg_post_trans; eauto.
      * assert (Hpr' := Hpr). destruct Hpr' as [_ [Ir [Er' [Nr _]]]].
        eapply neg_post_trans; [exact Hpg|]. eapply neg_post_trans; [exact Hpr|].
        apply (IH _ _ _ _ _ Hneg Ir Er' Nr H).
Qed.

Lemma t_read_step_sends : forall tr st e v r st' e',
  t_read_step c tr st e v = (r, st', e') -> sends e' = sends e.
Proof.
  intros tr st e v r st' e' H. unfold t_read_step in H.
  destruct (t_read_ev c tr st v) as [r0 st1].
  destruct tr; try (destruct v; inversion H; reflexivity).
  destruct v as [b| |x|]; try (inversion H; reflexivity);
    destruct (sock_probe c st1 e) as [[a st2] e2] eqn:Ep;
    destruct (sock_probe_keeps _ _ _ _ _ Ep) as [Hs _];
    destruct a as [[|]|y]; inversion H; subst; exact Hs.
Qed.

Lemma t_read_pre_go_sends : forall tr st e st1 e1,
  t_read_pre c tr st e = PreGo st1 e1 -> sends e1 = sends e.
Proof.
  intros tr st e st1 e1 H. unfold t_read_pre in H.
  destruct (attached st); simpl in H; [|discriminate].
  destruct (match tr with Telnet => sock_probe c st e | _ => (ABool true, st, e) end) as [[ok st0] e0] eqn:Ep.
  assert (Hs : sends e0 = sends e).
  { destruct tr; try (inversion Ep; reflexivity). apply (sock_probe_keeps _ _ _ _ _ Ep). }
  destruct ok as [[|]|y]; try discriminate.
  destruct (is_telnet tr && teof st0); [discriminate|].
  destruct (match tr with Asyncssh => leof st0 | _ => false end); [discriminate|].
  destruct (leof st0).
  { destruct (t_read_step c tr st0 e0 REmpty) as [[? ?] ?]. discriminate. }
  destruct (lerr st0) as [x|].
  { destruct (t_read_step c tr st0 e0 (RRaise x)) as [[? ?] ?]. discriminate. }
  inversion H; subst. exact Hs.
Qed.

(* read() over an option burst: it returns, blocks (the timeout's business) or raises a scrapli exception --
   never a raw one -- whichever reply the lost connection fails, whichever probe finds it dead; the state stays
   within the invariant of the main theorems (so every later operation is covered by run_ops_spec) *)
Theorem t_read_neg_spec : forall tr k st e rs r st' e' rs',
  neg_ok c n tr = true -> inv tr st -> env_ok tr e = true -> neg_env_ok tr st e = true ->
  rs_ok tr rs = true ->
  t_read_neg c n tr k st e rs = (r, st', e', rs') ->
  xgood c r /\ inv tr st' /\ env_ok tr e' = true /\ rs_ok tr rs' = true /\ mono st st' /\
  (attached st = false -> r = XExc SNotOpened).
Proof.
  intros tr k st e rs r st' e' rs' Hneg Hinv He Hn Hrs H. unfold t_read_neg in H.
  pose proof (t_read_pre_spec c Hok tr st e Hinv He) as Hpre.
  destruct (t_read_pre c tr st e) as [r0 st1 e1 | st1 e1] eqn:Epre.
  - (* stopped before the low-level read *)
    destruct Hpre as [[y [Hy Hsy]] [Hi1 [He1 [Hat [Hm [Hna _]]]]]].
    inversion H; subst.
    split; [exact Hsy|]. split; [exact Hi1|]. split; [exact He1|]. split; [exact Hrs|]. split; [exact Hm|].
    intro Ha; apply Hna; exact Ha.
  - destruct Hpre as [Es [He1 [Hrl Hat]]]. subst st1.
    pose proof (t_read_pre_go_sends _ _ _ _ _ Epre) as Hs1.
    destruct (neg_env_parts _ _ _ Hn) as [Hn1 Hn2].
    destruct (t_read_step c tr st e1 (RData [])) as [[r2 st2] e2] eqn:Ea.
    destruct (t_read_step_spec c Hok tr st e1 (RData []) r2 st2 e2 Hinv He1 eq_refl Hrl Ea) as [Hp2 He2].
    pose proof (step_post_mono _ _ _ _ _ _ Hp2) as Hm2.
    pose proof (t_read_step_sends _ _ _ _ _ _ _ Ea) as Hs2.
    destruct Hp2 as [Hg2 [Hi2 [Hat2 [_ [_ [_ [_ [Hb2 _]]]]]]]].
    assert (Hstop : (r, st', e', rs') = (r2, st2, e2, rs) ->
      xgood c r /\ inv tr st' /\ env_ok tr e' = true /\ rs_ok tr rs' = true /\ mono st st' /\
      (attached st = false -> r = XExc SNotOpened)).
    { intro E. inversion E; subst. repeat split; auto; try apply Hi2; try apply Hm2. intro N. congruence. }
    destruct r2 as [b|x|]; try (apply Hstop; symmetry; exact H).
    destruct (Hb2 b eq_refl) as [Hw2 [Hpd2 [_ Hrl2]]].
    assert (Hn2' : neg_env_ok tr st2 e2 = true).
    { apply neg_env_mk; [rewrite Hs2, Hs1; exact Hn1 | rewrite Hw2; exact Hn2]. }
    destruct (neg_burst c n tr k st2 e2) as [[o st3] e3] eqn:Eb.
    destruct (neg_burst_spec _ _ _ _ _ _ _ Hneg Hi2 He2 Hn2' Eb) as [Hg3 [Hi3 [He3 [_ [Hm3 [_ Hs3]]]]]].
    destruct o as [x|].
    + inversion H; subst.
      split; [exact Hg3|]. split; [exact Hi3|]. split; [exact He3|]. split; [exact Hrs|].
      split; [eapply mono_trans; eauto|]. intro N. congruence.
    + specialize (Hs3 eq_refl). subst st3.
      assert (Hfin : forall v rs1, rev_ok tr v = true -> rs_ok tr rs1 = true ->
        (let '(r4, st4, e4) := t_read_step c tr st2 e3 v in (r4, st4, e4, rs1)) = (r, st', e', rs') ->
        xgood c r /\ inv tr st' /\ env_ok tr e' = true /\ rs_ok tr rs' = true /\ mono st st' /\
        (attached st = false -> r = XExc SNotOpened)).
      { intros v rs1 Hv Hrs1 E.
        destruct (t_read_step c tr st2 e3 v) as [[r4 st4] e4] eqn:E4. inversion E; subst.
        assert (Hd : match v with RData _ => rlost st2 = false | _ => True end).
        { destruct v; auto. rewrite Hrl2. exact Hrl. }
        destruct (t_read_step_spec c Hok tr st2 e3 v r st' e' Hi2 He3 Hv Hd E4) as [Hp4 He4].
        pose proof (step_post_mono _ _ _ _ _ _ Hp4) as Hm4.
        destruct Hp4 as [Hg4 [Hi4 _]].
        split; [exact Hg4|]. split; [exact Hi4|]. split; [exact He4|]. split; [exact Hrs1|].
        split; [eapply mono_trans; eauto|]. intro N. congruence. }
      destruct rs as [|v rs1].
      * apply (Hfin RBlock []); auto.
      * destruct (rs_ok_tail _ _ _ Hrs) as [Hv Hrs1]. apply (Hfin v rs1); auto.
Qed.

(* non-vacuity of [neg_ok]: a bare send at the reply site (no table) does not pass on the sync transport *)
Lemma neg_ok_bare_fails : neg_ok c (mkNcfg false []) Telnet = false.
Proof.
  unfold neg_ok. simpl. rewrite (ok_raw c Hok EOSError); [reflexivity|]. simpl. auto.
Qed.

End WithCfg.

(* both Telnet transports at once, the reply-site facts given per transport (as they are generated) *)
Theorem telnets_read_neg_spec : forall (c : cfg) (nf : transport -> ncfg),
  cfg_ok c = true ->
  neg_ok c (nf Telnet) Telnet = true /\ neg_ok c (nf ATelnet) ATelnet = true ->
  forall tr k st e rs r st' e' rs',
    is_telnet tr = true -> inv tr st -> env_ok tr e = true -> neg_env_ok tr st e = true -> rs_ok tr rs = true ->
    t_read_neg c (nf tr) tr k st e rs = (r, st', e', rs') ->
    xgood c r /\ inv tr st' /\ env_ok tr e' = true /\ rs_ok tr rs' = true /\ mono st st' /\
    (attached st = false -> r = XExc SNotOpened).
Proof.
  intros c nf Hok [H1 H2] tr k st e rs r st' e' rs' Ht.
  apply (t_read_neg_spec c Hok (nf tr) tr k st e rs r st' e' rs').
  destruct tr; try discriminate; assumption.
Qed.
