(* ChanReopen_Proofs.v — one channel object opened, closed and opened again: what its channel log holds. *)
From Verif Require Import Bytes ChanLog ChanLog_Proofs ChanReopen.
From Coq Require Import Lia.

Lemma crs_cons : forall c cs, crs (c :: cs) = remove_byte CR c ++ crs cs.
Proof. intros. unfold crs. cbn [concat]. apply remove_byte_app. Qed.

Lemma crs_app : forall a b, crs (a ++ b) = crs a ++ crs b.
Proof. intros. unfold crs. rewrite concat_app. apply remove_byte_app. Qed.

Lemma crs_nil : crs [] = [].
Proof. reflexivity. Qed.

Lemma reopen_run_app : forall v k ko st a b,
  reopen_run v k ko st (a ++ b) = reopen_run v k ko (reopen_run v k ko st a) b.
Proof. intros. unfold reopen_run. apply fold_left_app. Qed.

(* the reads of a session through an OPEN handle: all logged, in order *)
Lemma reads_open : forall v k ko chunks d l r x,
  reopen_run v k ko (mkRS d HOpen l r x) (map HEvRead chunks)
  = mkRS (d ++ crs chunks) HOpen (l + length chunks)%nat r x.
Proof.
  unfold reopen_run. induction chunks as [|c cs IH]; intros d l r x.
  - cbn [map fold_left length]. rewrite crs_nil, app_nil_r. f_equal. lia.
  - cbn [map fold_left]. cbn [reopen_step hnd dest logged raised dropped].
    rewrite IH. rewrite crs_cons, app_assoc. f_equal. cbn [length]. lia.
Qed.

(* the reads of a session through a CLOSED handle (the code as it is): every one raises, nothing is logged *)
Lemma reads_closed : forall k ko chunks d l r x,
  reopen_run false k ko (mkRS d HClosed l r x) (map HEvRead chunks)
  = mkRS d HClosed l (r + length chunks)%nat x.
Proof.
  unfold reopen_run. induction chunks as [|c cs IH]; intros d l r x.
  - cbn [map fold_left length]. f_equal. lia.
  - cbn [map fold_left]. cbn [reopen_step hnd dest logged raised dropped].
    rewrite IH. f_equal. cbn [length]. lia.
Qed.

(* one whole session on a FILE destination, whatever the handle was before (none, or the closed one of the last session) *)
Lemma session_file : forall a ko chunks d h l r x,
  reopen_run false (SFile a) ko (mkRS d h l r x) (session_evs chunks)
  = mkRS ((if a then d else []) ++ crs chunks) HClosed (l + length chunks)%nat r x.
Proof.
  intros. unfold session_evs.
  change (HEvOpen :: map HEvRead chunks ++ [HEvClose]) with ([HEvOpen] ++ map HEvRead chunks ++ [HEvClose]).
  rewrite !reopen_run_app.
  assert (E : reopen_run false (SFile a) ko (mkRS d h l r x) [HEvOpen] = mkRS (if a then d else []) HOpen l r x) by reflexivity.
  rewrite E, reads_open. reflexivity.
Qed.

(* ---- append mode: everything ever served, after what the file held before ---- *)
Lemma history_append : forall ko sessions d h l r x,
  let st := reopen_run false (SFile true) ko (mkRS d h l r x) (history sessions) in
  dest st = d ++ crs (concat sessions) /\ raised st = r /\ dropped st = x
  /\ logged st = (l + length (concat sessions))%nat.
Proof.
  induction sessions as [|s ss IH]; intros d h l r x; cbv zeta.
  - unfold history, reopen_run. cbn [flat_map fold_left dest raised dropped logged concat length]. rewrite crs_nil, app_nil_r. repeat split; lia.
  - unfold history. cbn [flat_map]. fold (history ss). rewrite reopen_run_app, session_file.
    destruct (IH (d ++ crs s) HClosed (l + length s)%nat r x) as (A & B & C & D). cbv zeta in *.
    rewrite A, B, C, D. cbn [concat]. rewrite crs_app, app_assoc, app_length. repeat split; lia.
Qed.

Theorem reopen_append_exact : forall ko existing sessions,
  let st := reopen_run false (SFile true) ko (reopen_init existing) (history sessions) in
  dest st = existing ++ crs (concat sessions) /\ raised st = 0%nat /\ dropped st = 0%nat
  /\ logged st = length (concat sessions).
Proof.
  intros ko existing sessions. cbv zeta. unfold reopen_init.
  destruct (history_append ko sessions existing HNone 0%nat 0%nat 0%nat) as (A & B & C & D). cbv zeta in *.
  repeat split; assumption.
Qed.

(* ---- write mode: every open starts the file anew — it holds the LAST session, whole ---- *)
Lemma history_write_counts : forall ko sessions d h l r x,
  let st := reopen_run false (SFile false) ko (mkRS d h l r x) (history sessions) in
  raised st = r /\ dropped st = x /\ logged st = (l + length (concat sessions))%nat.
Proof.
  induction sessions as [|s ss IH]; intros d h l r x; cbv zeta.
  - cbn. repeat split; lia.
  - unfold history. cbn [flat_map]. fold (history ss). rewrite reopen_run_app, session_file.
    destruct (IH ([] ++ crs s) HClosed (l + length s)%nat r x) as (A & B & C). cbv zeta in *.
    rewrite A, B, C. cbn [concat]. rewrite app_length. repeat split; lia.
Qed.

Theorem reopen_write_last : forall ko existing earlier last,
  let st := reopen_run false (SFile false) ko (reopen_init existing) (history (earlier ++ [last])) in
  dest st = crs last /\ raised st = 0%nat /\ dropped st = 0%nat.
Proof.
  intros ko existing earlier last. cbv zeta.
  destruct (history_write_counts ko (earlier ++ [last]) existing HNone 0%nat 0%nat 0%nat) as (A & B & _). cbv zeta in *.
  unfold reopen_init. split; [|split; assumption].
  unfold history. rewrite flat_map_app, reopen_run_app. cbn [flat_map]. rewrite app_nil_r.
  destruct (reopen_run false (SFile false) ko (mkRS existing HNone 0 0 0) (flat_map session_evs earlier)) as [d h l r x].
  rewrite session_file. reflexivity.
Qed.

(* ---- a BytesIO that survives close(): the caller's object accumulates every session ---- *)
Lemma session_bio_open : forall chunks d h l r x, h <> HClosed ->
  reopen_run false SBytesIO true (mkRS d h l r x) (session_evs chunks)
  = mkRS (d ++ crs chunks) HOpen (l + length chunks)%nat r x.
Proof.
  intros chunks d h l r x H. unfold session_evs.
  change (HEvOpen :: map HEvRead chunks ++ [HEvClose]) with ([HEvOpen] ++ map HEvRead chunks ++ [HEvClose]).
  rewrite !reopen_run_app.
  assert (E : reopen_run false SBytesIO true (mkRS d h l r x) [HEvOpen] = mkRS d HOpen l r x)
    by (destruct h; [reflexivity | reflexivity | contradiction]).
  rewrite E, reads_open. reflexivity.
Qed.

Lemma history_bio_open : forall sessions d h l r x, h <> HClosed ->
  let st := reopen_run false SBytesIO true (mkRS d h l r x) (history sessions) in
  dest st = d ++ crs (concat sessions) /\ raised st = r /\ dropped st = x
  /\ logged st = (l + length (concat sessions))%nat.
Proof.
  induction sessions as [|s ss IH]; intros d h l r x H; cbv zeta.
  - unfold history, reopen_run. cbn [flat_map fold_left dest raised dropped logged concat length]. rewrite crs_nil, app_nil_r. repeat split; lia.
  - unfold history. cbn [flat_map]. fold (history ss). rewrite reopen_run_app, session_bio_open by assumption.
    destruct (IH (d ++ crs s) HOpen (l + length s)%nat r x) as (A & B & C & D); [discriminate|]. cbv zeta in *.
    rewrite A, B, C, D. cbn [concat]. rewrite crs_app, app_assoc, app_length. repeat split; lia.
Qed.

Theorem reopen_bytesio_kept_open_exact : forall existing sessions,
  let st := reopen_run false SBytesIO true (reopen_init existing) (history sessions) in
  dest st = existing ++ crs (concat sessions) /\ raised st = 0%nat /\ dropped st = 0%nat.
Proof.
  intros. cbv zeta. unfold reopen_init.
  destruct (history_bio_open sessions existing HNone 0%nat 0%nat 0%nat) as (A & B & C & _); [discriminate|].
  cbv zeta in *. repeat split; assumption.
Qed.

(* ---- io.BytesIO proper: close() closes the caller's object; opened again, every read RAISES (nothing is lost quietly) ---- *)
Lemma session_bio_closed : forall chunks d l r x,
  reopen_run false SBytesIO false (mkRS d HClosed l r x) (session_evs chunks)
  = mkRS d HClosed l (r + length chunks)%nat x.
Proof.
  intros. unfold session_evs.
  change (HEvOpen :: map HEvRead chunks ++ [HEvClose]) with ([HEvOpen] ++ map HEvRead chunks ++ [HEvClose]).
  rewrite !reopen_run_app.
  assert (E : reopen_run false SBytesIO false (mkRS d HClosed l r x) [HEvOpen] = mkRS d HClosed l r x) by reflexivity.
  rewrite E, reads_closed. reflexivity.
Qed.

Lemma history_bio_closed : forall sessions d l r x,
  reopen_run false SBytesIO false (mkRS d HClosed l r x) (history sessions)
  = mkRS d HClosed l (r + length (concat sessions))%nat x.
Proof.
  induction sessions as [|s ss IH]; intros d l r x.
  - cbn. f_equal. lia.
  - unfold history. cbn [flat_map]. fold (history ss). rewrite reopen_run_app, session_bio_closed, IH.
    cbn [concat]. rewrite app_length. f_equal. lia.
Qed.

Theorem reopen_bytesio_closed_loud : forall existing first later,
  let st := reopen_run false SBytesIO false (reopen_init existing) (history (first :: later)) in
  dest st = existing ++ crs first /\ raised st = length (concat later) /\ dropped st = 0%nat
  /\ logged st = length first.
Proof.
  intros existing first later. cbv zeta. unfold history. cbn [flat_map]. fold (history later).
  rewrite reopen_run_app. unfold reopen_init.
  assert (E : reopen_run false SBytesIO false (mkRS existing HNone 0 0 0) (session_evs first)
              = mkRS (existing ++ crs first) HClosed (0 + length first)%nat 0%nat 0%nat).
  { unfold session_evs.
    change (HEvOpen :: map HEvRead first ++ [HEvClose]) with ([HEvOpen] ++ map HEvRead first ++ [HEvClose]).
    rewrite !reopen_run_app.
    assert (E0 : reopen_run false SBytesIO false (mkRS existing HNone 0 0 0) [HEvOpen] = mkRS existing HOpen 0%nat 0%nat 0%nat) by reflexivity.
    rewrite E0, reads_open. reflexivity. }
  rewrite E, history_bio_closed. cbn [dest raised dropped logged]. repeat split; lia.
Qed.

(* ---- whichever destination is configured: no read of any session is lost quietly ---- *)
Theorem reopen_nothing_silent : forall k ko existing sessions, k <> SNone ->
  let st := reopen_run false k ko (reopen_init existing) (history sessions) in
  dropped st = 0%nat /\ (logged st + raised st)%nat = length (concat sessions).
Proof.
  intros k ko existing sessions H. cbv zeta. destruct k as [|a|]; [contradiction| |].
  - destruct a.
    + destruct (reopen_append_exact ko existing sessions) as (_ & B & C & D). cbv zeta in *. rewrite B, C, D. split; lia.
    + destruct (history_write_counts ko sessions existing HNone 0%nat 0%nat 0%nat) as (A & B & C). cbv zeta in *.
      unfold reopen_init. rewrite A, B, C. split; lia.
  - destruct ko.
    + destruct (history_bio_open sessions existing HNone 0%nat 0%nat 0%nat) as (_ & B & C & D); [discriminate|]. cbv zeta in *.
      unfold reopen_init. rewrite B, C, D. split; lia.
    + destruct sessions as [|s ss]; [cbn; split; reflexivity|].
      destruct (reopen_bytesio_closed_loud existing s ss) as (_ & B & C & D). cbv zeta in *. rewrite B, C, D.
      cbn [concat]. rewrite app_length. split; lia.
Qed.

(* "set the log up only when channel_log is None, skip a closed log": the second session is lost without a sound *)
Theorem reopen_skip_if_set_refuted :
  exists k existing sessions,
    let st := reopen_run true k false (reopen_init existing) (history sessions) in
    dropped st <> 0%nat /\ raised st = 0%nat /\ dest st <> existing ++ crs (concat sessions).
Proof.
  exists (SFile true), [111], [[[97; 13]]; [[98]]]. vm_compute. repeat split; discriminate.
Qed.

Example reopen_premises_nontrivial :
  let st := reopen_run false (SFile false) false (reopen_init [111]) (history [[[97; 13]]; [[98; 13]; [99]]]) in
  dest st = [98; 99] /\ logged st = 3%nat.
Proof. vm_compute. split; reflexivity. Qed.
