(* OpenHist_Proofs.v — isolation of the system transport objects of one process: whatever the order of
   opens, closes, re-opens and direct _build_open_cmd() calls over any number of objects, every open()
   of object i spawns exactly one ssh whose argv is built from object i's OWN arguments; with a
   class-level `open_cmd` this is false.  And: the (host, port, username) asyncssh ends up with are the
   transport's own whatever the library would take for an absent keyword — false for the twin that
   drops an empty username. *)
From Coq Require Import String Lia.
From Verif Require Import Bytes Resolve SshArgv Resolve_Proofs SshArgv_Proofs OpenHist.

(* every object's open_cmd is still empty or is its own argv *)
Definition cell_ok (o : sys_obj) (c : list str) : Prop := c = [] \/ c = obj_argv o.
Definition hinv (objs : list sys_obj) (st : hstate) : Prop := Forall2 cell_ok objs st.

Lemma Forall2_nth {A B} (P : A -> B -> Prop) l1 l2 :
  Forall2 P l1 l2 -> forall i a, nth_error l1 i = Some a -> exists b, nth_error l2 i = Some b /\ P a b.
Proof.
  induction 1 as [|x y l1 l2 Hxy _ IH]; intros i a Hi.
  - destruct i; discriminate Hi.
  - destruct i as [|i]; cbn in *.
    + injection Hi as <-. exists y. split; [reflexivity|assumption].
    + apply IH. exact Hi.
Qed.

Lemma Forall2_upd {A B} (P : A -> B -> Prop) l1 l2 :
  Forall2 P l1 l2 -> forall i a x, nth_error l1 i = Some a -> P a x -> Forall2 P l1 (upd i x l2).
Proof.
  induction 1 as [|x0 y l1 l2 Hxy Hr IH]; intros i a x Hi Hp.
  - destruct i; discriminate Hi.
  - destruct i as [|i]; cbn in *.
    + injection Hi as <-. constructor; assumption.
    + constructor; [assumption|]. eapply IH; eassumption.
Qed.

Lemma hinv_init objs : hinv objs (map (fun _ => []) objs).
Proof. induction objs; cbn; constructor; [left; reflexivity|assumption]. Qed.

Lemma hstep_spec objs st op :
  hinv objs st -> hinv objs (fst (hstep objs st op)) /\ snd (hstep objs st op) = spawn_of objs op.
Proof.
  intros H. destruct op as [i|i|i]; cbn [hstep spawn_of].
  - destruct (nth_error objs i) as [o|] eqn:Ho; [|split; [exact H|reflexivity]].
    destruct (Forall2_nth _ _ _ H _ _ Ho) as (c & Hc & Hok). rewrite Hc. cbn [fst snd].
    assert (Hc' : (if cmd_set c then c else obj_argv o) = obj_argv o).
    { destruct Hok as [-> | ->]; [reflexivity|]. destruct (cmd_set (obj_argv o)); reflexivity. }
    rewrite Hc'. split; [|reflexivity].
    eapply Forall2_upd; [exact H|exact Ho|right; reflexivity].
  - split; [exact H|reflexivity].
  - destruct (nth_error objs i) as [o|] eqn:Ho; cbn [fst snd]; (split; [|reflexivity]); [|exact H].
    eapply Forall2_upd; [exact H|exact Ho|right; reflexivity].
Qed.

Lemma hrun_spec objs ops : forall st, hinv objs st -> hrun objs st ops = flat_map (spawn_of objs) ops.
Proof.
  induction ops as [|op ops IH]; intros st H; [reflexivity|].
  cbn [hrun flat_map]. destruct (hstep_spec objs st op H) as [Hi Hs].
  destruct (hstep objs st op) as [st' ev]. cbn [fst snd] in *. subst ev. f_equal. apply IH. exact Hi.
Qed.

(* the spawns of a history are, op by op, a function of the opened object's own record *)
Theorem hist_spawns_spec objs ops : hist_spawns objs ops = flat_map (spawn_of objs) ops.
Proof. apply hrun_spec, hinv_init. Qed.

Theorem hist_isolated objs ops i argv :
  In (i, argv) (hist_spawns objs ops) -> exists o, nth_error objs i = Some o /\ argv = obj_argv o.
Proof.
  rewrite hist_spawns_spec. intros H. apply in_flat_map in H. destruct H as (op & _ & H).
  destruct op as [j|j|j]; cbn in H; try contradiction.
  destruct (nth_error objs j) as [o|] eqn:Ho; [|contradiction].
  destruct H as [H|[]]. injection H as -> <-. exists o. split; [exact Ho|reflexivity].
Qed.

(* ... and ssh reads each of them as the opened object's own host / port / login / files *)
Theorem hist_argv_faithful objs ops i argv :
  In (i, argv) (hist_spawns objs ops) ->
  exists o, nth_error objs i = Some o /\ argv = obj_argv o /\
    (starts_dash (b_host (so_b o)) = false ->
       match ssh_parse argv with Parsed d _ _ => d = b_host (so_b o) | Usage => True end /\
       (so_extra o = [] ->
        ssh_parse argv = Parsed (b_host (so_b o)) (expected_opts (so_b o) (so_tsock o) (so_ttrans o) (so_p o)) [])).
Proof.
  intros H. destruct (hist_isolated _ _ _ _ H) as (o & Ho & ->).
  exists o. split; [exact Ho|]. split; [reflexivity|]. intros Hd. split.
  - apply destination_is_host. exact Hd.
  - intros He. unfold obj_argv. rewrite He. apply argv_faithful. exact Hd.
Qed.

(* every open of an existing object spawns exactly once *)
Theorem hist_every_open_spawns objs ops :
  map fst (hist_spawns objs ops) =
  flat_map (fun op => match op with
                      | HOpen i => match nth_error objs i with Some _ => [i] | None => [] end
                      | _ => [] end) ops.
Proof.
  rewrite hist_spawns_spec. induction ops as [|op ops IH]; [reflexivity|].
  cbn [flat_map]. rewrite map_app, IH. f_equal.
  destruct op as [i|i|i]; cbn; try reflexivity. destruct (nth_error objs i); reflexivity.
Qed.

(* the class-level `open_cmd`: the second object dials the first one's destination *)
Definition obj_r1 : sys_obj := mkSO (mkB (lit "r1") 22) 15 30 (mkP (lit "alice") [] false [] []) [].
Definition obj_fw : sys_obj := mkSO (mkB (lit "fw-1") 830) 15 30 (mkP (lit "breakglass") [] false [] []) [].

Theorem shared_open_cmd_not_isolated :
  exists objs ops i argv o,
    In (i, argv) (shared_spawns objs ops) /\ nth_error objs i = Some o /\ argv <> obj_argv o /\
    starts_dash (b_host (so_b o)) = false /\
    match ssh_parse argv with Parsed d _ _ => d <> b_host (so_b o) | Usage => False end.
Proof.
  exists [obj_r1; obj_fw], [HOpen 0%nat; HClose 0%nat; HOpen 1%nat], 1%nat, (obj_argv obj_r1), obj_fw.
  split; [vm_compute; right; left; reflexivity|].
  split; [reflexivity|]. split; [vm_compute; discriminate|]. split; [reflexivity|].
  vm_compute. discriminate.
Qed.

(* a direct _build_open_cmd() is right for every object even then (why the unit tests cannot see it) *)
Example shared_direct_build_is_right :
  shared_spawns [obj_r1; obj_fw] [HOpen 0%nat; HBuild 1%nat; HOpen 1%nat; HOpen 0%nat] =
  [(0%nat, obj_argv obj_r1); (1%nat, obj_argv obj_fw); (0%nat, obj_argv obj_r1)].
Proof. vm_compute. reflexivity. Qed.

(* premises satisfiable: a non-trivial history *)
Example hist_example :
  hist_spawns [obj_r1; obj_fw] [HOpen 0%nat; HClose 0%nat; HOpen 1%nat; HOpen 0%nat; HOpen 7%nat] =
  [(0%nat, obj_argv obj_r1); (1%nat, obj_argv obj_fw); (0%nat, obj_argv obj_r1)].
Proof. vm_compute. reflexivity. Qed.

(* ---- library keyword arguments ---- *)
Theorem asyncssh_connects_with_reported l b p :
  lib_resolve l (asyncssh_kwargs b p) = (b_host b, b_port b, p_user p).
Proof. reflexivity. Qed.

(* constructor + transport: what asyncssh ends up with is what the driver reports *)
Theorem asyncssh_end_to_end l e a r b p :
  resolve true e a = Built r b (Some p) ->
  lib_resolve l (asyncssh_kwargs b p) = (r_host r, r_port r, r_user r).
Proof.
  intros H. pose proof (reported_eq_dialled _ _ _ _ _ H) as (Hh & Hp & Hpl).
  rewrite asyncssh_connects_with_reported, Hh, Hp.
  destruct (has_ssh_fields (a_transport a)); [|discriminate].
  injection Hpl as ->. reflexivity.
Qed.

Theorem asyncssh_user_if_any_refuted :
  exists l b p, lib_resolve l (asyncssh_kwargs_user_if_any b p) <> (b_host b, b_port b, p_user p).
Proof.
  exists (mkL (lit "r1") 22 (lit "root")), (mkB (lit "r1") 22), (mkP [] [] false [] []).
  vm_compute. discriminate.
Qed.

(* ---- several asyncssh objects, possibly holding ONE user dict ---- *)
Lemma as_open_heap objs hp i : fst (as_open objs hp i) = hp.
Proof.
  unfold as_open. destruct (nth_error objs i) as [o|]; [|reflexivity].
  destruct (nth_error hp (ao_d o)); reflexivity.
Qed.

(* the user's dicts are what they were, and the connect calls are, open by open, a function of the opened
   object's own record and its dict as the user wrote it — whatever was opened before, whoever shares it *)
Theorem as_hist_spec objs hp opens :
  as_run as_open objs hp opens = (hp, flat_map (as_dial objs hp) opens).
Proof.
  induction opens as [|i r IH]; [reflexivity|].
  cbn [as_run flat_map]. pose proof (as_open_heap objs hp i) as Hh. unfold as_dial at 1.
  destruct (as_open objs hp i) as [hp' ev]. cbn [fst snd] in *. subst hp'. rewrite IH. reflexivity.
Qed.

Lemma kw_free_own o u l :
  kw_free u -> lib_resolve l (own_kwargs o u) = (b_host (ao_b o), b_port (ao_b o), p_user (ao_p o)).
Proof. destruct u as [h p n]. unfold kw_free. cbn. intros (-> & -> & ->). reflexivity. Qed.

Theorem as_hist_reported objs hp opens i k :
  In (i, k) (snd (as_run as_open objs hp opens)) ->
  exists o u, nth_error objs i = Some o /\ nth_error hp (ao_d o) = Some u /\ k = own_kwargs o u /\
    (kw_free u -> forall l, lib_resolve l k = (b_host (ao_b o), b_port (ao_b o), p_user (ao_p o))).
Proof.
  rewrite as_hist_spec. cbn [snd]. intros H. apply in_flat_map in H. destruct H as (j & _ & H).
  unfold as_dial, as_open in H. destruct (nth_error objs j) as [o|] eqn:Ho; [|contradiction].
  destruct (nth_error hp (ao_d o)) as [u|] eqn:Hu; [|contradiction].
  cbn [snd] in H. destruct H as [H|[]]. injection H as -> <-.
  exists o, u. split; [exact Ho|]. split; [exact Hu|]. split; [reflexivity|].
  intros Hf l. apply kw_free_own. exact Hf.
Qed.

(* the aliasing is invisible: n devices given ONE dict connect exactly as n devices given each its own
   copy of it, in every order of opens *)
Lemma copied_nth devs : forall n i,
  nth_error (devs_copied_from n devs) i =
  match nth_error devs i with Some d => Some (mkAO (fst d) (snd d) (n + i)) | None => None end.
Proof.
  induction devs as [|d r IH]; intros n i; [destruct i; reflexivity|].
  destruct i as [|i]; cbn [devs_copied_from nth_error].
  - rewrite Nat.add_0_r. reflexivity.
  - rewrite IH. replace (S n + i)%nat with (n + S i)%nat by lia. reflexivity.
Qed.

Lemma const_nth {A B} (u : B) (l : list A) i a :
  nth_error l i = Some a -> nth_error (map (fun _ => u) l) i = Some u.
Proof. intros H. rewrite nth_error_map, H. reflexivity. Qed.

Theorem as_shared_eq_copies devs u opens :
  snd (as_run as_open (devs_shared devs) [u] opens) =
  snd (as_run as_open (devs_copied_from 0 devs) (map (fun _ => u) devs) opens).
Proof.
  rewrite !as_hist_spec. cbn [snd]. apply flat_map_ext. intros i.
  unfold as_dial, as_open, devs_shared. rewrite copied_nth, nth_error_map.
  destruct (nth_error devs i) as [d|] eqn:Hd; cbn [option_map]; [|reflexivity].
  cbn [ao_d Nat.add nth_error]. rewrite (const_nth u devs i d Hd). reflexivity.
Qed.

(* ... but not for a transport that writes into the dict: two devices, one (empty) dict, the second
   connects to the first one's host as the first one's user, and the user's dict is no longer empty *)
Definition ao_r1 : as_obj := mkAO (mkB (lit "r1") 22) (mkP (lit "alice") [] false [] []) 0.
Definition ao_fw : as_obj := mkAO (mkB (lit "fw-1") 830) (mkP (lit "breakglass") [] false [] []) 0.

Theorem as_setdefault_shared_refuted :
  exists objs hp opens i j oi oj k,
    nth_error objs i = Some oi /\ nth_error objs j = Some oj /\ i <> j /\ shares_dict oi oj /\
    Forall kw_free hp /\
    In (j, k) (snd (as_run as_open_setdefault objs hp opens)) /\
    (forall l, lib_resolve l k <> (b_host (ao_b oj), b_port (ao_b oj), p_user (ao_p oj))) /\
    fst (as_run as_open_setdefault objs hp opens) <> hp.
Proof.
  exists [ao_r1; ao_fw], [kw_empty], [0%nat; 1%nat], 0%nat, 1%nat, ao_r1, ao_fw, (own_kwargs ao_r1 kw_empty).
  split; [reflexivity|]. split; [reflexivity|]. split; [discriminate|]. split; [reflexivity|].
  split; [repeat constructor|]. split; [vm_compute; right; left; reflexivity|].
  split; [intros l; vm_compute; discriminate|]. vm_compute. discriminate.
Qed.

(* each device with its own dict looks right even then (why per-device option dicts cannot show it) *)
Example as_setdefault_copies_look_right :
  snd (as_run as_open_setdefault (devs_copied_from 0 [(ao_b ao_r1, ao_p ao_r1); (ao_b ao_fw, ao_p ao_fw)])
                                 [kw_empty; kw_empty] [0%nat; 1%nat; 0%nat]) =
  snd (as_run as_open (devs_copied_from 0 [(ao_b ao_r1, ao_p ao_r1); (ao_b ao_fw, ao_p ao_fw)])
                      [kw_empty; kw_empty] [0%nat; 1%nat; 0%nat]).
Proof. vm_compute. reflexivity. Qed.

(* premises satisfiable: a non-trivial history over a shared dict *)
Example as_hist_example :
  as_run as_open [ao_r1; ao_fw] [kw_empty] [1%nat; 0%nat; 1%nat; 5%nat] =
  ([kw_empty], [(1%nat, asyncssh_kwargs (ao_b ao_fw) (ao_p ao_fw)); (0%nat, asyncssh_kwargs (ao_b ao_r1) (ao_p ao_r1));
                (1%nat, asyncssh_kwargs (ao_b ao_fw) (ao_p ao_fw))]).
Proof. vm_compute. reflexivity. Qed.
