(* OpenHist_Proofs.v — isolation of the system transport objects of one process: whatever the order of
   opens, closes, re-opens and direct _build_open_cmd() calls over any number of objects, every open()
   of object i spawns exactly one ssh whose argv is built from object i's OWN arguments; with a
   class-level `open_cmd` this is false.  And: the (host, port, username) asyncssh ends up with are the
   transport's own whatever the library would take for an absent keyword — false for the twin that
   drops an empty username. *)
From Coq Require Import String Lia.
From Verif Require Import Bytes Resolve SshArgv Resolve_Proofs SshArgv_Proofs OpenHist.

(* every object's open_cmd is still empty or is its own argv *)
Definition cell_ok (o : sys_obj) (c : list str) : Prop := c = [] \/ c = obj_argv o.
Definition hinv (objs : list sys_obj) (st : hstate) : Prop := Forall2 cell_ok objs st.

Lemma Forall2_nth {A B} (P : A -> B -> Prop) l1 l2 :
  Forall2 P l1 l2 -> forall i a, nth_error l1 i = Some a -> exists b, nth_error l2 i = Some b /\ P a b.
Proof.
  induction 1 as [|x y l1 l2 Hxy _ IH]; intros i a Hi.
  - destruct i; discriminate Hi.
  - destruct i as [|i]; cbn in *.
    + injection Hi as <-. exists y. split; [reflexivity|assumption].
    + apply IH. exact Hi.
Qed.

Lemma Forall2_upd {A B} (P : A -> B -> Prop) l1 l2 :
  Forall2 P l1 l2 -> forall i a x, nth_error l1 i = Some a -> P a x -> Forall2 P l1 (upd i x l2).
Proof.
  induction 1 as [|x0 y l1 l2 Hxy Hr IH]; intros i a x Hi Hp.
  - destruct i; discriminate Hi.
  - destruct i as [|i]; cbn in *.
    + injection Hi as <-. constructor; assumption.
    + constructor; [assumption|]. eapply IH; eassumption.
Qed.

Lemma hinv_init objs : hinv objs (map (fun _ => []) objs).
Proof. induction objs; cbn; constructor; [left; reflexivity|assumption]. Qed.

Lemma hstep_spec objs st op :
  hinv objs st -> hinv objs (fst (hstep objs st op)) /\ snd (hstep objs st op) = spawn_of objs op.
Proof.
  intros H. destruct op as [i|i|i]; cbn [hstep spawn_of].
  - destruct (nth_error objs i) as [o|] eqn:Ho; [|split; [exact H|reflexivity]].
    destruct (Forall2_nth _ _ _ H _ _ Ho) as (c & Hc & Hok). rewrite Hc. cbn [fst snd].
    assert (Hc' : (if cmd_set c then c else obj_argv o) = obj_argv o).
    { destruct Hok as [-> | ->]; [reflexivity|]. destruct (cmd_set (obj_argv o)); reflexivity. }
    rewrite Hc'. split; [|reflexivity].
    eapply Forall2_upd; [exact H|exact Ho|right; reflexivity].
  - split; [exact H|reflexivity].
  - destruct (nth_error objs i) as [o|] eqn:Ho; cbn [fst snd]; (split; [|reflexivity]); [|exact H].
    eapply Forall2_upd; [exact H|exact Ho|right; reflexivity].
Qed.

Lemma hrun_spec objs ops : forall st, hinv objs st -> hrun objs st ops = flat_map (spawn_of objs) ops.
Proof.
  induction ops as [|op ops IH]; intros st H; [reflexivity|].
  cbn [hrun flat_map]. destruct (hstep_spec objs st op H) as [Hi Hs].
  destruct (hstep objs st op) as [st' ev]. cbn [fst snd] in *. subst ev. f_equal. apply IH. exact Hi.
Qed.

(* the spawns of a history are, op by op, a function of the opened object's own record *)
Theorem hist_spawns_spec objs ops : hist_spawns objs ops = flat_map (spawn_of objs) ops.
Proof. apply hrun_spec, hinv_init. Qed.

Theorem hist_isolated objs ops i argv :
  In (i, argv) (hist_spawns objs ops) -> exists o, nth_error objs i = Some o /\ argv = obj_argv o.
Proof.
  rewrite hist_spawns_spec. intros H. apply in_flat_map in H. destruct H as (op & _ & H).
  destruct op as [j|j|j]; cbn in H; try contradiction.
  destruct (nth_error objs j) as [o|] eqn:Ho; [|contradiction].
  destruct H as [H|[]]. injection H as -> <-. exists o. split; [exact Ho|reflexivity].
Qed.

(* ... and ssh reads each of them as the opened object's own host / port / login / files *)
Theorem hist_argv_faithful objs ops i argv :
  In (i, argv) (hist_spawns objs ops) ->
  exists o, nth_error objs i = Some o /\ argv = obj_argv o /\
    (starts_dash (b_host (so_b o)) = false ->
       match ssh_parse argv with Parsed d _ _ => d = b_host (so_b o) | Usage => True end /\
       (so_extra o = [] ->
        ssh_parse argv = Parsed (b_host (so_b o)) (expected_opts (so_b o) (so_tsock o) (so_ttrans o) (so_p o)) [])).
Proof.
  intros H. destruct (hist_isolated _ _ _ _ H) as (o & Ho & ->).
  exists o. split; [exact Ho|]. split; [reflexivity|]. intros Hd. split.
  - apply destination_is_host. exact Hd.
  - intros He. unfold obj_argv. rewrite He. apply argv_faithful. exact Hd.
Qed.

(* every open of an existing object spawns exactly once *)
Theorem hist_every_open_spawns objs ops :
  map fst (hist_spawns objs ops) =
  flat_map (fun op => match op with
                      | HOpen i => match nth_error objs i with Some _ => [i] | None => [] end
                      | _ => [] end) ops.
Proof.
  rewrite hist_spawns_spec. induction ops as [|op ops IH]; [reflexivity|].
  cbn [flat_map]. rewrite map_app, IH. f_equal.
  destruct op as [i|i|i]; cbn; try reflexivity. destruct (nth_error objs i); reflexivity.
Qed.

(* the class-level `open_cmd`: the second object dials the first one's destination *)
Definition obj_r1 : sys_obj := mkSO (mkB (lit "r1") 22) 15 30 (mkP (lit "alice") [] false [] []) [].
Definition obj_fw : sys_obj := mkSO (mkB (lit "fw-1") 830) 15 30 (mkP (lit "breakglass") [] false [] []) [].

Theorem shared_open_cmd_not_isolated :
  exists objs ops i argv o,
    In (i, argv) (shared_spawns objs ops) /\ nth_error objs i = Some o /\ argv <> obj_argv o /\
    starts_dash (b_host (so_b o)) = false /\
    match ssh_parse argv with Parsed d _ _ => d <> b_host (so_b o) | Usage => False end.
Proof.
  exists [obj_r1; obj_fw], [HOpen 0%nat; HClose 0%nat; HOpen 1%nat], 1%nat, (obj_argv obj_r1), obj_fw.
  split; [vm_compute; right; left; reflexivity|].
  split; [reflexivity|]. split; [vm_compute; discriminate|]. split; [reflexivity|].
  vm_compute. discriminate.
Qed.

(* a direct _build_open_cmd() is right for every object even then (why the unit tests cannot see it) *)
Example shared_direct_build_is_right :
  shared_spawns [obj_r1; obj_fw] [HOpen 0%nat; HBuild 1%nat; HOpen 1%nat; HOpen 0%nat] =
  [(0%nat, obj_argv obj_r1); (1%nat, obj_argv obj_fw); (0%nat, obj_argv obj_r1)].
Proof. vm_compute. reflexivity. Qed.

(* premises satisfiable: a non-trivial history *)
Example hist_example :
  hist_spawns [obj_r1; obj_fw] [HOpen 0%nat; HClose 0%nat; HOpen 1%nat; HOpen 0%nat; HOpen 7%nat] =
  [(0%nat, obj_argv obj_r1); (1%nat, obj_argv obj_fw); (0%nat, obj_argv obj_r1)].
Proof. vm_compute. reflexivity. Qed.

(* ---- library keyword arguments ---- *)
Theorem asyncssh_connects_with_reported l b p :
  lib_resolve l (asyncssh_kwargs b p) = (b_host b, b_port b, p_user p).
Proof. reflexivity. Qed.

(* constructor + transport: what asyncssh ends up with is what the driver reports *)
Theorem asyncssh_end_to_end l e a r b p :
  resolve true e a = Built r b (Some p) ->
  lib_resolve l (asyncssh_kwargs b p) = (r_host r, r_port r, r_user r).
Proof.
  intros H. pose proof (reported_eq_dialled _ _ _ _ _ H) as (Hh & Hp & Hpl).
  rewrite asyncssh_connects_with_reported, Hh, Hp.
  destruct (has_ssh_fields (a_transport a)); [|discriminate].
  injection Hpl as ->. reflexivity.
Qed.

Theorem asyncssh_user_if_any_refuted :
  exists l b p, lib_resolve l (asyncssh_kwargs_user_if_any b p) <> (b_host b, b_port b, p_user p).
Proof.
  exists (mkL (lit "r1") 22 (lit "root")), (mkB (lit "r1") 22), (mkP [] [] false [] []).
  vm_compute. discriminate.
Qed.
