(* TimeoutRestore_Proofs.v — theorems about model/TimeoutRestore.v.

   Main results
     timeouts_restored          for EVERY sequence of calls, override value, outcome of every step and
                                callback (callbacks may themselves run such calls): timeout_ops and
                                timeout_transport are afterwards what they were before  (repaired code)
     session_timeout_restored   the same for the timeout pushed into the library session as well,
                                when it agreed with timeout_transport before (as open() leaves it) and
                                no read_callback stage loses the transport between its two pushes
     pinned_refuted             the code of the pinned commit (restore outside finally) is refuted
     pinned_partial             ... and restores whenever no timed read / read_callback stage is left
                                by anything but a match or a ScrapliTimeout
   [view b]: b = false looks at (timeout_ops, timeout_transport) only, b = true at the session
   timeout too; every lemma is proved once, for both. *)
From Verif Require Import TimeoutRestore.
From Coq Require Import Lia.

Definition view (b : bool) (s : st) : Z * Z * Z := (ops s, tr s, if b then sess s else 0).

(* timeout_transport and the session's timeout agree (what open() and the setter establish) *)
Definition inv (c : cfg) (s : st) : Prop := has_set c = true -> sess s = tr s.

Definition neutral {A} (b : bool) (f : st -> st * A) : Prop := forall s, view b (fst (f s)) = view b s.

Lemma view_core : forall s s', view true s' = view true s <-> core s' = core s.
Proof. intros; unfold view, core; split; intro H; exact H. Qed.

Lemma view_true_false : forall s s', view true s' = view true s -> view false s' = view false s.
Proof. unfold view; intros s s' H; inversion H; reflexivity. Qed.

Lemma view_inv : forall b c s s', view b s' = view b s -> (b = true -> inv c s) -> (b = true -> inv c s').
Proof.
  unfold view, inv; intros b c s s' H Hi Hb Hs; subst b; inversion H.
  rewrite H2, H3. apply Hi; auto.
Qed.

Lemma view_tick : forall b p s, view b (tick p s) = view b s.
Proof. reflexivity. Qed.

Lemma view_ticks : forall b p n s, view b (ticks p n s) = view b s.
Proof. induction n; intros; cbn [ticks]; [reflexivity | rewrite IHn; apply view_tick]. Qed.

(* ---- timeout_modifier ----------------------------------------------------------------------- *)
Lemma with_override_neutral : forall b o body, neutral b body -> neutral b (with_override o body).
Proof.
  intros b o body H s. destruct o as [|v|]; cbn [with_override].
  - apply H.
  - destruct (v =? ops s) eqn:E; [apply H|].
    specialize (H (set_ops v s)). destruct (body (set_ops v s)) as [s1 r]; cbn [fst] in *.
    unfold view in *; cbn [set_ops ops tr sess] in *. inversion H. reflexivity.
  - reflexivity.
Qed.

Lemma body_plain_neutral : forall b r, neutral b (body_plain r).
Proof. intros b r s; destruct r; reflexivity. Qed.

Lemma send_commands_loop_neutral : forall b o stop rs failed, neutral b (send_commands_loop o stop rs failed).
Proof.
  intros b o stop rs; induction rs as [|r rest IH]; intros failed s; cbn [send_commands_loop].
  - reflexivity.
  - pose proof (with_override_neutral b o _ (body_plain_neutral b r) s) as H.
    destruct (with_override o (body_plain r) s) as [s1 out]; cbn [fst] in H.
    destruct out; cbn [fst]; try exact H.
    + rewrite IH; exact H.
    + destruct stop; [exact H | rewrite IH; exact H].
Qed.

(* ---- the timed read --------------------------------------------------------------------------- *)
Lemma timed_loop_view : forall b evs e s, view b (fst (timed_loop evs e s)) = view b s.
Proof.
  intros b evs e; induction evs as [|x r IH]; intros s; cbn [timed_loop].
  - destruct e; reflexivity.
  - rewrite IH; apply view_tick.
Qed.

Lemma timed_loop_done : forall evs e s, snd (timed_loop evs e s) = Ok <-> e = EndDone.
Proof.
  intros evs e; induction evs as [|x r IH]; intros s; cbn [timed_loop].
  - destruct e; cbn; split; congruence.
  - apply IH.
Qed.

Lemma timed_read_neutral : forall b c rd evs e,
  fin c = true \/ e = EndDone -> neutral b (read_until_prompt_or_time c rd evs e).
Proof.
  intros b c rd evs e H s; unfold read_until_prompt_or_time.
  pose proof (timed_loop_view b evs e (set_tr_direct (trunc_s rd) s)) as Hv.
  pose proof (timed_loop_done evs e (set_tr_direct (trunc_s rd) s)) as Hd.
  destruct (timed_loop evs e (set_tr_direct (trunc_s rd) s)) as [s2 r]; cbn [fst snd] in *.
  assert (R : view b (set_tr_direct (tr s) s2) = view b s).
  { unfold view in *; cbn [set_tr_direct ops tr sess] in *; inversion Hv; reflexivity. }
  destruct r; cbn [fst]; try exact R.
  - destruct H as [H | H]; [rewrite H; exact R | apply Hd in H; discriminate].
  - destruct H as [H | H]; [rewrite H; exact R | apply Hd in H; discriminate].
  - destruct H as [H | H]; [rewrite H; exact R | apply Hd in H; discriminate].
Qed.

(* ---- read_callback ---------------------------------------------------------------------------- *)
(* the transport is not lost between the two pushes of one stage *)
Definition stable (g : stage) : Prop := st_closed_end g = true -> st_closed g = true.

(* what the pinned code needs of a stage: nothing but a match or a ScrapliTimeout ends it, the transport is open *)
Definition benign_end (g : stage) : Prop :=
  st_closed g = false /\
  match st_end g with SMatch _ _ _ => True | SExc ETimeout => True | _ => False end.

Lemma ticks_ops : forall p n s, ops (ticks p n s) = ops s.
Proof. induction n; intros; cbn [ticks]; [reflexivity | rewrite IHn; reflexivity]. Qed.
Lemma ticks_tr : forall p n s, tr (ticks p n s) = tr s.
Proof. induction n; intros; cbn [ticks]; [reflexivity | rewrite IHn; reflexivity]. Qed.
Lemma ticks_sess : forall p n s, sess (ticks p n s) = sess s.
Proof. induction n; intros; cbn [ticks]; [reflexivity | rewrite IHn; reflexivity]. Qed.

Lemma stage_reads_view : forall b c rt g s,
  (fin c = true \/ benign_end g) -> (b = true -> inv c s) -> (b = true -> stable g) ->
  view b (fst (stage_reads c rt g s)) = view b s.
Proof.
  intros b c rt g s Hok Hinv Hst. unfold stage_reads, set_tr_driver, benign_end, stable, inv in *.
  destruct (has_set c) eqn:Hh; destruct (st_closed g) eqn:Hc; destruct (st_closed_end g) eqn:Hce;
  destruct (fin c) eqn:Hf; destruct (st_end g) as [cb cm nt|e|] eqn:He; try destruct e;
  cbn [fst]; unfold view, tick; cbn [ops tr sess fst]; rewrite ?ticks_ops, ?ticks_tr, ?ticks_sess; cbn [ops tr sess];
  destruct b; try reflexivity.
  all: try (rewrite Hinv by auto; reflexivity).
  all: try (specialize (Hst eq_refl eq_refl); discriminate).
  all: try (destruct Hok as [Hok | [Hok1 Hok2]]; [discriminate | try discriminate; try contradiction]).
Qed.

Lemma stage_reads_match : forall c rt g s s1 cb cm nt,
  stage_reads c rt g s = (s1, GoMatch cb cm nt) -> st_end g = SMatch cb cm nt.
Proof.
  intros c rt g s s1 cb cm nt. unfold stage_reads, set_tr_driver.
  destruct (has_set c); destruct (st_closed g); destruct (st_closed_end g); destruct (fin c);
  destruct (st_end g) as [cb' cm' nt'|e|]; try destruct e; intro H; inversion H; reflexivity.
Qed.

(* a callback leaves the timeouts as it found them (it may run any well-formed calls: cb_of_ops_ok) *)
Definition cb_ok (b : bool) (c : cfg) (cb : st -> st * option exc) : Prop :=
  forall s, (b = true -> inv c s) -> view b (fst (cb s)) = view b s.

Definition wf_stage (b : bool) (c : cfg) (g : stage) : Prop :=
  (b = true -> stable g) /\ match st_end g with SMatch cb _ _ => cb_ok b c cb | _ => True end.

Fixpoint wf_op (b : bool) (c : cfg) (x : op) : Prop :=
  match x with
  | OReadCallback _ _ gs => Forall (wf_stage b c) gs
  | ONet _ y => wf_op b c y
  | _ => True
  end.

(* the region in which the pinned code restores as well *)
Fixpoint benign_stages (gs : list stage) : Prop :=
  match gs with
  | [] => False
  | g :: rest => benign_end g /\
                 match st_end g with SMatch _ complete _ => complete = true \/ benign_stages rest | _ => True end
  end.

Fixpoint benign (x : op) : Prop :=
  match x with
  | OSendAndRead _ _ _ _ e _ => e = EndDone
  | OReadCallback _ _ gs => benign_stages gs
  | ONet _ y => benign y
  | _ => True
  end.

Lemma read_callback_stages_view : forall b c gs rt s,
  Forall (wf_stage b c) gs -> (fin c = true \/ benign_stages gs) -> (b = true -> inv c s) ->
  view b (fst (read_callback_stages c rt gs s)) = view b s.
Proof.
  intros b c gs; induction gs as [|g rest IH]; intros rt s Hwf Hok Hinv; cbn [read_callback_stages].
  - destruct Hok as [Hf | []].
    assert (Hs : b = true -> stable (mkstage false false 0 SBlocks)) by (intros _ H; discriminate H).
    pose proof (stage_reads_view b c rt _ s (or_introl Hf) Hinv Hs) as H.
    destruct (stage_reads c rt (mkstage false false 0 SBlocks) s) as [s1 r]; exact H.
  - inversion Hwf as [|g' rest' [Hst Hcb] Hrest]; subst g' rest'.
    assert (Hok1 : fin c = true \/ benign_end g).
    { destruct Hok as [Hf | [Hb _]]; [left | right]; assumption. }
    pose proof (stage_reads_view b c rt g s Hok1 Hinv Hst) as H.
    destruct (stage_reads c rt g s) as [s1 r] eqn:E; cbn [fst] in H.
    destruct r as [cb cm nt | e |]; cbn [fst]; try exact H.
    apply stage_reads_match in E. rewrite E in Hcb.
    assert (Hinv1 : b = true -> inv c (tick PhCb s1)).
    { apply (view_inv b c s); [rewrite view_tick; exact H | exact Hinv]. }
    pose proof (Hcb (tick PhCb s1) Hinv1) as Hc. rewrite view_tick, H in Hc.
    destruct (cb (tick PhCb s1)) as [s2 ce]; cbn [fst] in Hc.
    destruct ce as [e|]; [exact Hc|].
    destruct cm; [exact Hc|].
    rewrite IH; [exact Hc | exact Hrest | | apply (view_inv b c s); assumption].
    destruct Hok as [Hf | [_ Hb]]; [left; exact Hf | right].
    rewrite E in Hb. destruct Hb as [Hb | Hb]; [discriminate | exact Hb].
Qed.

Lemma run_op_view : forall b c x s,
  wf_op b c x -> (fin c = true \/ benign x) -> (b = true -> inv c s) ->
  view b (fst (run_op c x s)) = view b s.
Proof.
  intros b c x; induction x as [o r | o stop rs | o r | o rd p evs e failed | init rt gs | acq y IH];
    intros s Hwf Hok Hinv; cbn [run_op].
  - apply with_override_neutral, body_plain_neutral.
  - apply send_commands_loop_neutral.
  - apply with_override_neutral, body_plain_neutral.
  - apply with_override_neutral. intro s0.
    assert (Hn : neutral b (read_until_prompt_or_time c rd evs e)).
    { apply timed_read_neutral. destruct Hok as [Hf | Hb]; [left | right]; assumption. }
    destruct p; try reflexivity.
    + specialize (Hn (tick PhIo s0)). destruct (read_until_prompt_or_time c rd evs e (tick PhIo s0)) as [s1 r].
      cbn [fst] in Hn. destruct r; cbn [fst]; rewrite Hn; apply view_tick.
    + specialize (Hn (tick PhIo s0)). destruct (read_until_prompt_or_time c rd evs e (tick PhIo s0)) as [s1 r].
      cbn [fst] in Hn. destruct r; cbn [fst]; rewrite Hn; apply view_tick.
  - cbn [wf_op benign] in *. destruct init; try reflexivity.
    + apply read_callback_stages_view; assumption.
    + rewrite (read_callback_stages_view b c gs rt (tick PhIo s) Hwf Hok); [apply view_tick|].
      apply (view_inv b c s); [apply view_tick | exact Hinv].
  - cbn [wf_op benign] in *. destruct acq; try reflexivity.
    + apply IH; assumption.
    + rewrite (IH (tick PhAcq s) Hwf Hok); [apply view_tick|].
      apply (view_inv b c s); [apply view_tick | exact Hinv].
Qed.

Lemma run_ops_view : forall b c l s,
  Forall (wf_op b c) l -> (fin c = true \/ Forall benign l) -> (b = true -> inv c s) ->
  view b (fst (run_ops c l s)) = view b s.
Proof.
  intros b c l; induction l as [|x r IH]; intros s Hwf Hok Hinv; cbn [run_ops]; [reflexivity|].
  inversion Hwf as [|x' r' Hx Hr]; subst x' r'.
  assert (Hokx : fin c = true \/ benign x) by (destruct Hok as [Hf | Hb]; [left; exact Hf | right; inversion Hb; assumption]).
  assert (Hokr : fin c = true \/ Forall benign r) by (destruct Hok as [Hf | Hb]; [left; exact Hf | right; inversion Hb; assumption]).
  pose proof (run_op_view b c x s Hx Hokx Hinv) as H.
  destruct (run_op c x s) as [s1 o]; cbn [fst] in H.
  pose proof (IH s1 Hr Hokr (view_inv b c s s1 H Hinv)) as H2.
  destruct (run_ops c r s1) as [s2 os]; cbn [fst] in *. rewrite H2; exact H.
Qed.

(* callbacks may themselves run calls with per-call timeouts, to any depth *)
Lemma cb_of_ops_ok : forall b c l raise,
  Forall (wf_op b c) l -> (fin c = true \/ Forall benign l) -> cb_ok b c (cb_of_ops c l raise).
Proof.
  intros b c l raise Hwf Hok s Hinv. unfold cb_of_ops; cbn [fst].
  rewrite view_tick. apply run_ops_view; assumption.
Qed.

(* ---- the theorems ------------------------------------------------------------------------------ *)
Theorem timeouts_restored : forall (c : cfg) (l : list op) (s : st),
  fin c = true -> Forall (wf_op false c) l ->
  ops (fst (run_ops c l s)) = ops s /\ tr (fst (run_ops c l s)) = tr s.
Proof.
  intros c l s Hf Hwf.
  pose proof (run_ops_view false c l s Hwf (or_introl Hf)) as H.
  unfold view in H. assert (Hd : false = true -> inv c s) by discriminate.
  specialize (H Hd). inversion H. split; reflexivity.
Qed.

Theorem session_timeout_restored : forall (c : cfg) (l : list op) (s : st),
  fin c = true -> Forall (wf_op true c) l -> inv c s ->
  core (fst (run_ops c l s)) = core s.
Proof.
  intros c l s Hf Hwf Hinv. apply (proj1 (view_core _ _)).
  apply run_ops_view; [exact Hwf | left; exact Hf | intros _; exact Hinv].
Qed.

(* one call, whatever its outcome *)
Theorem call_restores : forall (c : cfg) (x : op) (s s' : st) (out : outcome),
  fin c = true -> wf_op true c x -> inv c s -> run_op c x s = (s', out) -> core s' = core s.
Proof.
  intros c x s s' out Hf Hwf Hinv E. apply (proj1 (view_core _ _)).
  pose proof (run_op_view true c x s Hwf (or_introl Hf) (fun _ => Hinv)) as H.
  rewrite E in H. exact H.
Qed.

(* an operation without callbacks needs no hypothesis at all *)
Fixpoint no_callbacks (x : op) : Prop :=
  match x with
  | OReadCallback _ _ gs => Forall (fun g => match st_end g with SMatch _ _ _ => False | _ => True end) gs
  | ONet _ y => no_callbacks y
  | _ => True
  end.

Lemma no_callbacks_wf : forall c x, no_callbacks x -> wf_op false c x.
Proof.
  intros c x; induction x; cbn [no_callbacks wf_op]; auto.
  intro H. induction H as [|g gs Hg _ IH]; constructor; [|exact IH].
  split; [discriminate|]. destruct (st_end g); [contradiction | exact I | exact I].
Qed.

Theorem call_without_callbacks_restores : forall (c : cfg) (x : op) (s : st),
  fin c = true -> no_callbacks x ->
  ops (fst (run_op c x s)) = ops s /\ tr (fst (run_op c x s)) = tr s.
Proof.
  intros c x s Hf Hn.
  pose proof (run_op_view false c x s (no_callbacks_wf c x Hn) (or_introl Hf)) as H.
  assert (Hd : false = true -> inv c s) by discriminate. specialize (H Hd).
  unfold view in H. inversion H. split; reflexivity.
Qed.

(* the override is in effect while the call runs ... *)
Theorem override_in_effect : forall c v r s,
  v <> ops s -> (forall e, r <> BPre e) ->
  hd_error (log (fst (run_op c (OSendCommand (OvVal v) r) s))) = Some (PhIo, (v, tr s, sess s)).
Proof.
  intros c v r s Hv Hr. cbn [run_op with_override].
  destruct (v =? ops s) eqn:E; [apply Z.eqb_eq in E; contradiction|].
  destruct r; cbn; try reflexivity. exfalso; eapply Hr; reflexivity.
Qed.

(* ... and so is int(read_duration) during the timed read *)
Theorem read_duration_in_effect : forall rd evs e s s' out,
  timed_loop evs e (set_tr_direct (trunc_s rd) s) = (s', out) ->
  (evs <> [] \/ e <> EndDone) ->
  hd_error (log s') = Some (PhTimed, (ops s, trunc_s rd, sess s)).
Proof.
  intros rd evs e s.
  assert (G : forall evs s0 s' out, timed_loop evs e s0 = (s', out) -> (evs <> [] \/ e <> EndDone) ->
              hd_error (log s') = Some (PhTimed, core s0)).
  { induction evs0 as [|x r IH]; intros s0 s' out H Hne; cbn [timed_loop] in H.
    - destruct e; inversion H; subst; try reflexivity. destruct Hne as [Hne | Hne]; contradiction.
    - destruct r as [|y r'].
      + cbn [timed_loop] in H. destruct e; inversion H; subst; reflexivity.
      + apply IH in H; [|left; discriminate]. rewrite H. reflexivity. }
  intros s' out H Hne. apply G in H; [|exact Hne]. rewrite H. reflexivity.
Qed.

(* a negative read_timeout (the default, Gen_Timeouts) leaves the transport timeout alone while reading *)
Lemma negative_read_timeout_is_neutral : forall c rt g s,
  rt < 0 -> st_closed g = false -> inv c s ->
  core (fst (set_tr_driver c (st_closed g) (if rt >=? 0 then rt else tr s) s)) = core s.
Proof.
  intros c rt g s Hrt Hc Hinv. assert (E : (rt >=? 0) = false) by (rewrite Z.geb_leb; apply Z.leb_gt; lia).
  rewrite E, Hc. unfold set_tr_driver, core. destruct (has_set c) eqn:Hh; cbn [fst ops tr sess]; [|reflexivity].
  rewrite (Hinv Hh). reflexivity.
Qed.

(* ---- the pinned commit -------------------------------------------------------------------------- *)
Definition cfg_now (hs : bool) : cfg := mkcfg true hs.
Definition cfg_pinned (hs : bool) : cfg := mkcfg false hs.
Definition s30 : st := mkst 30000 30000 30000 [].

Definition C14_full (c : cfg) : Prop :=
  forall (l : list op) (s : st), Forall (wf_op true c) l -> inv c s -> core (fst (run_ops c l s)) = core s.

Theorem pinned_refuted : forall hs, ~ C14_full (cfg_pinned hs).
Proof.
  intros hs H.
  specialize (H [OReadCallback PIoOk 3000 [mkstage false false 1 (SExc EConn)]] s30).
  assert (W : Forall (wf_op true (cfg_pinned hs)) [OReadCallback PIoOk 3000 [mkstage false false 1 (SExc EConn)]]).
  { repeat constructor. intros _ X; discriminate X. }
  assert (I : inv (cfg_pinned hs) s30) by (intros _; reflexivity).
  specialize (H W I). destruct hs; vm_compute in H; discriminate H.
Qed.

Theorem pinned_refuted_timed_read : forall hs, exists x s,
  no_callbacks x /\ tr (fst (run_op (cfg_pinned hs) x s)) <> tr s.
Proof.
  intros hs. exists (OSendAndRead (OvVal 7500) 2500 PIoOk [RData] (EndExc EConn) false), s30.
  split; [exact I|]. destruct hs; vm_compute; discriminate.
Qed.

Theorem pinned_partial : forall (c : cfg) (l : list op) (s : st),
  Forall (wf_op true c) l -> Forall benign l -> inv c s -> core (fst (run_ops c l s)) = core s.
Proof.
  intros c l s Hwf Hb Hinv. apply (proj1 (view_core _ _)).
  apply run_ops_view; [exact Hwf | right; exact Hb | intros _; exact Hinv].
Qed.

(* ---- the premises are satisfiable by non-trivial states; every outcome occurs --------------------- *)
Definition nested_cb (c : cfg) : st -> st * option exc :=
  cb_of_ops c [OSendCommand (OvVal 7500) BOk; OSendAndRead (OvVal 0) 2999 PIoOk [RData; RTimeout] (EndExc EConn) false;
               OReadCallback PIoOk 250 [mkstage false false 2 (SMatch (cb_of_ops c [] (Some ECallback)) true (-1000))]] None.

Definition sample_ops (c : cfg) : list op :=
  [ ONet PIoOk (OSendCommands (OvVal 5000) true [BOk; BFailed; BOk]);
    OReadCallback PIoOk 3500 [mkstage false false 3 (SMatch (nested_cb c) false 4250);
                              mkstage false false 1 (SExc EConn)];
    OSendAndRead (OvVal 12250) 2999 PIoOk [RData; RTimeout; RData] (EndExc EInterrupt) false;
    ONet (PIo EPriv) (OSendCommand OvNone BOk);
    OReadCallback PNone 0 [mkstage true true 0 (SExc ENotOpened)] ].

Example sample_ops_wf : forall hs, Forall (wf_op true (cfg_now hs)) (sample_ops (cfg_now hs)).
Proof.
  intros hs. unfold sample_ops. repeat constructor; try (intros _ X; discriminate X); try (intros _ X; exact X).
  cbn [st_end]. unfold nested_cb. apply cb_of_ops_ok; [|left; reflexivity].
  repeat constructor; try (intros _ X; discriminate X).
  all: try (cbn [st_end]; apply cb_of_ops_ok; [constructor | left; reflexivity]).
Qed.

Example sample_ops_run :
  run_ops (cfg_now true) (sample_ops (cfg_now true)) s30
  = (mkst 30000 30000 30000 (log (fst (run_ops (cfg_now true) (sample_ops (cfg_now true)) s30))),
     [FailedCommand; Raised EConn; Raised EInterrupt; Raised EPriv; Raised ENotOpened]).
Proof. vm_compute. reflexivity. Qed.

Example sample_ops_change_the_timeouts_meanwhile :
  existsb (fun o => negb (obs_eqb o (PhIo, (30000, 30000, 30000))) && negb (obs_eqb o (PhCb, (30000, 30000, 30000))))
          (log (fst (run_ops (cfg_now true) (sample_ops (cfg_now true)) s30))) = true.
Proof. vm_compute. reflexivity. Qed.

Example sample_inv : forall hs, inv (cfg_now hs) s30.
Proof. intros hs _. reflexivity. Qed.

Example every_outcome_occurs : forall out : outcome, exists x,
  no_callbacks x /\ snd (run_op (cfg_now true) x s30) = out.
Proof.
  intros [| | e |].
  - exists (OSendCommand (OvVal 5000) BOk); split; [exact I | reflexivity].
  - exists (OSendCommand (OvVal 5000) BFailed); split; [exact I | reflexivity].
  - exists (OSendAndRead (OvVal 5000) 2500 PIoOk [RData] (EndExc e) false); split; [exact I | reflexivity].
  - exists (OReadCallback PIoOk 3000 [mkstage false false 2 SBlocks]); split; [repeat constructor | reflexivity].
Qed.

Example benign_satisfiable :
  Forall benign [OSendAndRead (OvVal 5000) 2500 PIoOk [RData; RTimeout] EndDone true;
                 OReadCallback PIoOk 3000 [mkstage false false 2 (SMatch (cb_of_ops (cfg_pinned true) [] None) false 4000);
                                           mkstage false false 1 (SExc ETimeout)]].
Proof.
  constructor; [reflexivity|]. constructor; [|constructor].
  cbn. split; [split; [reflexivity | exact I]|]. right. cbn. split; [split; [reflexivity | exact I] | exact I].
Qed.

(* ---- the thread based timeout --------------------------------------------------------------------
   pool_call_restores        the pool's exit joins the worker => when the call has ended both timeouts
                             (and the session's) are what they were, and no thread is left to write them
   pool_call_blocks_iff      the call never ends exactly when the exit joins a worker whose read never wakes
   pool_unjoined_refuted     without the join the read duration is the connection's timeout_transport when
                             ScrapliTimeout reaches the caller ...
   pool_unjoined_late_write  ... and the worker's restore later overwrites what the user has assigned since *)
Theorem pool_call_restores : forall c o w k s,
  fin c = true -> p_out (pool_call c true o w k s) <> Blocks ->
  core (p_state (pool_call c true o w k s)) = core s /\ p_late (pool_call c true o w k s) = None.
Proof.
  intros c o w k s Hf Hb. unfold pool_call in *.
  destruct o; destruct k; cbn in Hb |- *; try (exfalso; apply Hb; reflexivity);
    destruct w; rewrite ?Hf; cbn; unfold core; cbn; rewrite ?ticks_ops, ?ticks_sess; cbn; auto.
Qed.

Theorem pool_call_blocks_iff : forall c joins o w k s,
  p_out (pool_call c joins o w k s) = Blocks <-> (joins = true /\ k = WakeNever /\ o <> OvBad).
Proof.
  intros c joins o w k s; unfold pool_call; split.
  - destruct o, joins, k; cbn; intro H; try discriminate H; repeat split; discriminate.
  - intros [Hj [Hk Ho]]; subst; destruct o; cbn; try reflexivity. exfalso; apply Ho; reflexivity.
Qed.

Theorem pool_settled_is_user_state : forall c o w k s rc,
  fin c = true -> p_out (pool_call c true o w k s) <> Blocks ->
  settled c rc (pool_call c true o w k s) = user_sets c rc (p_state (pool_call c true o w k s)).
Proof.
  intros c o w k s rc Hf Hb. unfold settled.
  destruct (pool_call_restores c o w k s Hf Hb) as [_ Hl]. rewrite Hl. reflexivity.
Qed.

Definition pool_witness (hs : bool) : pres :=
  pool_call (mkcfg true hs) false (OvVal 80) (WTimed 5000 0) WakeLater (mkst 30000 30000 30000 []).

Theorem pool_unjoined_refuted : forall hs,
  p_out (pool_witness hs) = Raised ETimeout /\ ops (p_state (pool_witness hs)) = 30000
  /\ tr (p_state (pool_witness hs)) = 5000.
Proof. intros hs; vm_compute; auto. Qed.

Theorem pool_unjoined_late_write : forall hs,
  tr (user_sets (mkcfg true hs) (Some (20000, 11000)) (p_state (pool_witness hs))) = 11000
  /\ tr (settled (mkcfg true hs) (Some (20000, 11000)) (pool_witness hs)) = 30000.
Proof. intros hs; destruct hs; vm_compute; auto. Qed.

(* the premises of pool_call_restores are satisfiable by a call that does change both values meanwhile *)
Example pool_call_sample :
  let r := pool_call (mkcfg true true) true (OvVal 80) (WTimed 2999 1) WakeLater (mkst 30000 12500 12500 []) in
  p_out r = Raised ETimeout /\ core (p_state r) = (30000, 12500, 12500)
  /\ rev (log (p_state r)) = [(PhIo, (80, 12500, 12500)); (PhTimed, (80, 2000, 12500)); (PhTimed, (80, 2000, 12500))].
Proof. vm_compute; auto. Qed.

(* degenerate arguments: an empty batch reaches no decorated call, an argument check that raises ends the public method
   before one - neither sets a timeout at any point (not only "restored": nothing is observed, nothing is logged),
   whatever the override; and a plural call whose first command fails its own check inside the decorated call
   ([BPre]) has set and restored it *)
Theorem degenerate_calls_touch_nothing : forall c o stop e x s,
  run_op c (OSendCommands o stop []) s = (s, Ok)
  /\ run_op c (ONet PNone (OSendCommands o stop [])) s = (s, Ok)
  /\ run_op c (ONet (PNoIo e) x) s = (s, Raised e)
  /\ core (fst (run_op c (OSendCommands o stop [BPre e]) s)) = core s.
Proof.
  intros c o stop e x s. repeat split; try reflexivity.
  cbn [run_op send_commands_loop]. destruct o as [|v|]; cbn [with_override body_plain]; try reflexivity.
  destruct (v =? ops s); reflexivity.
Qed.

Example degenerate_calls_sample :
  run_op (mkcfg true true) (ONet PIoOk (OSendCommands (OvVal 7500) true [])) (mkst 30000 30000 30000 [])
  = (mkst 30000 30000 30000 [(PhAcq, (30000, 30000, 30000))], Ok).
Proof. vm_compute; reflexivity. Qed.
