(* Heap_Proofs.v — isolation of connections (model/Heap.v), for ALL histories.
   Frame argument over object identities: every address a table reaches has exactly one owner
   (a platform definition or a connection); an operation on connection i writes only at addresses
   owned by i or freshly allocated; what a table's value depends on is exactly what it reaches. *)
From Verif Require Import Bytes Heap.
From Coq Require Import Lia.
Local Open Scope nat_scope.

(* ---- heap primitives ----------------------------------------------------------------------------- *)
Lemma hget_app : forall h e a, a < length h -> hget (h ++ e) a = hget h a.
Proof. intros. unfold hget. apply nth_error_app1. auto. Qed.

Lemma hget_some_lt : forall h a o, hget h a = Some o -> a < length h.
Proof. intros. unfold hget in H. apply nth_error_Some. congruence. Qed.

Lemma hget_alloc_new : forall h o, hget (h ++ [o]) (length h) = Some o.
Proof. intros. unfold hget. rewrite nth_error_app2; auto. rewrite Nat.sub_diag. auto. Qed.

Lemma length_upd : forall a o h, length (upd a o h) = length h.
Proof. intros a o h. revert a. induction h; intros [|a']; simpl; auto. Qed.

Lemma hget_upd_other : forall h a c o, a <> c -> hget (upd a o h) c = hget h c.
Proof.
  unfold hget. induction h as [|x h IH]; intros a c o H; simpl. destruct a; auto.
  destruct a, c; simpl; auto. congruence.
Qed.

Lemma hget_upd_same : forall h a o, a < length h -> hget (upd a o h) a = Some o.
Proof.
  unfold hget. induction h as [|x h IH]; intros a o H; simpl in *. lia.
  destruct a; simpl; auto. apply IH. lia.
Qed.

(* ---- a table's value depends only on what it reaches ------------------------------------------------ *)
Lemma flat_map_ext_in' : forall (A B : Type) (f g : A -> list B) l,
  (forall x, In x l -> f x = g x) -> flat_map f l = flat_map g l.
Proof. induction l; simpl; intros; auto. rewrite H; auto. rewrite IHl; auto. Qed.

Lemma in_reach : forall h r a, In a (reach h r) <->
  a = r \/ In a (links_at h r) \/ exists p, In p (links_at h r) /\ In a (links_at h p).
Proof.
  unfold reach. intros. simpl. rewrite in_app_iff. rewrite in_flat_map. split.
  - intros [H|[H|H]]; auto.
  - intros [H|[H|H]]; auto.
Qed.

Lemma links_at_eq : forall h h' a, hget h' a = hget h a -> links_at h' a = links_at h a.
Proof. unfold links_at. intros. rewrite H. auto. Qed.

Lemma reach_frame : forall h h' r,
  (forall a, In a (reach h r) -> hget h' a = hget h a) -> reach h' r = reach h r.
Proof.
  intros. unfold reach.
  assert (L : links_at h' r = links_at h r).
  { apply links_at_eq. apply H. apply in_reach. auto. }
  rewrite L. f_equal. f_equal. apply flat_map_ext_in'. intros. apply links_at_eq. apply H.
  apply in_reach. auto.
Qed.

Lemma view_dict_frame : forall h h' d,
  (forall a, In a (reach h d) -> hget h' a = hget h a) -> view_dict h' d = view_dict h d.
Proof.
  intros. unfold view_dict.
  assert (D : hget h' d = hget h d) by (apply H; apply in_reach; auto).
  rewrite D. destruct (hget h d) as [[l|f nc|es]|] eqn:E; auto.
  f_equal. apply map_ext_in. intros [k pa] Hin. simpl. f_equal.
  assert (P : In pa (links_at h d)).
  { unfold links_at. rewrite E. simpl. change pa with (snd (k, pa)). apply in_map. auto. }
  unfold view_priv.
  assert (Q : hget h' pa = hget h pa) by (apply H; apply in_reach; auto).
  rewrite Q. destruct (hget h pa) as [[l|f nc|es2]|] eqn:E2; auto.
  unfold view_list.
  assert (R : hget h' nc = hget h nc).
  { apply H. apply in_reach. right. right. exists pa. split; auto. unfold links_at. rewrite E2. simpl. auto. }
  rewrite R. auto.
Qed.

Lemma in_reach_tables : forall h r a, In a (reach_tables h r) <-> In a (reach h (fst r)) \/ a = snd r.
Proof. unfold reach_tables. intros. rewrite in_app_iff. simpl. intuition. Qed.

Lemma reach_tables_frame : forall h h' r,
  (forall a, In a (reach_tables h r) -> hget h' a = hget h a) -> reach_tables h' r = reach_tables h r.
Proof.
  intros. unfold reach_tables. f_equal. apply reach_frame. intros. apply H. apply in_reach_tables. auto.
Qed.

Lemma view_tables_frame : forall h h' r,
  (forall a, In a (reach_tables h r) -> hget h' a = hget h a) -> view_tables h' r = view_tables h r.
Proof.
  intros. unfold view_tables. f_equal.
  - apply view_dict_frame. intros. apply H. apply in_reach_tables. auto.
  - unfold view_list. rewrite H; auto. apply in_reach_tables. auto.
Qed.

(* ---- ownership invariant ------------------------------------------------------------------------------ *)
Definition owner := (nat + nat)%type.      (* inl k : platform definition k ; inr i : connection i *)

Definition roots_of (s : state) (o : owner) : option (addr * addr) :=
  match o with
  | inl k => nth_error (st_defs s) k
  | inr i => match nth_error (st_conns s) i with Some c => Some (cn_privs c, cn_fwc c) | None => None end
  end.

Definition Inv (s : state) (own : addr -> option owner) : Prop :=
  (forall a, length (st_heap s) <= a -> own a = None) /\
  (forall o r, roots_of s o = Some r -> forall a, In a (reach_tables (st_heap s) r) -> own a = Some o).

Lemma inv_lt : forall s own o r a, Inv s own -> roots_of s o = Some r ->
  In a (reach_tables (st_heap s) r) -> a < length (st_heap s).
Proof.
  intros. destruct H as [I1 I2]. specialize (I2 o r H0 a H1).
  destruct (le_lt_dec (length (st_heap s)) a); auto. rewrite I1 in I2; auto. discriminate.
Qed.

(* what an operation may do: allocate, and write at addresses owned by [t] *)
Definition writes_only (s s' : state) (own : addr -> option owner) (t : option owner) : Prop :=
  length (st_heap s) <= length (st_heap s') /\
  forall a, a < length (st_heap s) -> (forall o, t = Some o -> own a <> Some o) ->
            hget (st_heap s') a = hget (st_heap s) a.

Lemma frame_other : forall s s' own t o r,
  Inv s own -> writes_only s s' own t -> roots_of s o = Some r -> t <> Some o ->
  forall a, In a (reach_tables (st_heap s) r) -> hget (st_heap s') a = hget (st_heap s) a.
Proof.
  intros. destruct H0 as [_ W]. apply W.
  - eapply inv_lt; eauto.
  - intros o' E F. destruct H as [_ I2]. rewrite (I2 o r H1 a H3) in F. congruence.
Qed.

(* ---- in-place updates that keep the links (SetPattern, AppendNC, AppendFWC) ------------------------------- *)
Lemma links_at_upd_same_links : forall h x o0 o1 a,
  hget h x = Some o0 -> links o1 = links o0 -> links_at (upd x o1 h) a = links_at h a.
Proof.
  intros. unfold links_at. destruct (Nat.eq_dec x a).
  - subst. rewrite hget_upd_same. rewrite H. auto. eapply hget_some_lt; eauto.
  - rewrite hget_upd_other; auto.
Qed.

Lemma reach_upd_same_links : forall h x o0 o1 r,
  hget h x = Some o0 -> links o1 = links o0 -> reach (upd x o1 h) r = reach h r.
Proof.
  intros. unfold reach. rewrite (links_at_upd_same_links h x o0 o1 r); auto.
  f_equal. f_equal. apply flat_map_ext_in'. intros. eapply links_at_upd_same_links; eauto.
Qed.

Lemma inplace_step : forall s own i c x o0 o1,
  Inv s own -> nth_error (st_conns s) i = Some c ->
  hget (st_heap s) x = Some o0 -> links o1 = links o0 ->
  In x (reach_tables (st_heap s) (cn_privs c, cn_fwc c)) ->
  Inv (set_heap s (upd x o1 (st_heap s))) own /\
  writes_only s (set_heap s (upd x o1 (st_heap s))) own (Some (inr i)).
Proof.
  intros. assert (OX : own x = Some (inr i)).
  { destruct H as [_ I2]. apply (I2 (inr i) (cn_privs c, cn_fwc c)); auto. simpl. rewrite H0. auto. }
  split.
  - destruct H as [I1 I2]. split.
    + intros a Ha. apply I1. unfold set_heap in Ha. cbn [st_heap] in Ha. rewrite length_upd in Ha. auto.
    + intros o r R a Ha. apply (I2 o r); auto.
      unfold set_heap in Ha. cbn [st_heap] in Ha.
      unfold reach_tables in *. rewrite (reach_upd_same_links _ x o0 o1) in Ha; auto.
  - split; unfold set_heap; cbn [st_heap]. rewrite length_upd. auto.
    intros a Ha Hn. apply hget_upd_other. intro. subst. apply (Hn (inr i)); auto.
Qed.

(* ---- allocation only (New, NewCommunity) -------------------------------------------------------------------- *)
Definition fresh_priv (h0 h1 : heap) (pa : addr) : Prop :=
  length h0 <= pa < length h1 /\ exists f nc, hget h1 pa = Some (OPriv f nc) /\ length h0 <= nc < length h1.

Lemma copy_list_ext : forall h a h1 a', copy_list h a = Some (h1, a') ->
  exists l, h1 = h ++ [OList l] /\ a' = length h.
Proof.
  unfold copy_list. intros. destruct (hget h a) as [[l| |]|]; try discriminate.
  inversion H. eauto.
Qed.

Lemma deepcopy_priv_ext : forall h pa h1 pa', deepcopy_priv h pa = Some (h1, pa') ->
  exists e, h1 = h ++ e /\ fresh_priv h h1 pa'.
Proof.
  unfold deepcopy_priv. intros. destruct (hget h pa) as [[|f nc|]|]; try discriminate.
  destruct (copy_list h nc) as [[h2 nc']|] eqn:C; try discriminate.
  apply copy_list_ext in C. destruct C as [l [C1 C2]]. subst. inversion H. subst. clear H.
  exists ([OList l] ++ [OPriv f (length h)]). rewrite app_assoc. split; auto.
  unfold fresh_priv. rewrite !app_length. simpl. split. lia.
  exists f, (length h). split. 2: lia.
  replace (length h + 1) with (length (h ++ [OList l])) by (rewrite app_length; simpl; lia).
  apply hget_alloc_new.
Qed.

Lemma fresh_priv_mono : forall h0 h1 e pa, fresh_priv h0 h1 pa -> fresh_priv h0 (h1 ++ e) pa.
Proof.
  unfold fresh_priv. intros. destruct H as [A [f [nc [B C]]]]. rewrite app_length. split. lia.
  exists f, nc. split. rewrite hget_app; auto. lia. lia.
Qed.

Lemma fresh_priv_base : forall h0 e h1 pa, fresh_priv (h0 ++ e) h1 pa -> fresh_priv h0 h1 pa.
Proof.
  unfold fresh_priv. intros. rewrite app_length in H. destruct H as [A [f [nc [B C]]]]. split. lia.
  exists f, nc. split; auto. lia.
Qed.

Lemma deepcopy_entries_ext : forall es h h1 es', deepcopy_entries h es = Some (h1, es') ->
  exists e, h1 = h ++ e /\ Forall (fun x => fresh_priv h h1 (snd x)) es'.
Proof.
  induction es as [|[k pa] r]; simpl; intros.
  - inversion H. subst. exists []. rewrite app_nil_r. auto.
  - destruct (deepcopy_priv h pa) as [[h2 pa']|] eqn:P; try discriminate.
    destruct (deepcopy_entries h2 r) as [[h3 r']|] eqn:R; try discriminate.
    inversion H. subst. clear H.
    apply deepcopy_priv_ext in P. destruct P as [e1 [P1 P2]]. subst.
    apply IHr in R. destruct R as [e2 [R1 R2]]. subst.
    exists (e1 ++ e2). rewrite app_assoc. split; auto. constructor.
    + simpl. apply fresh_priv_mono. auto.
    + eapply Forall_impl. 2: apply R2. intros. simpl in H. eapply fresh_priv_base. eauto.
Qed.

Lemma deepcopy_dict_ext : forall h d h1 d', deepcopy_dict h d = Some (h1, d') ->
  exists e, h1 = h ++ e /\ forall a, In a (reach h1 d') -> length h <= a < length h1.
Proof.
  unfold deepcopy_dict. intros. destruct (hget h d) as [[| |es]|]; try discriminate.
  destruct (deepcopy_entries h es) as [[h2 es']|] eqn:E; try discriminate.
  inversion H. subst. clear H. apply deepcopy_entries_ext in E. destruct E as [e [E1 E2]]. subst.
  exists (e ++ [ODict es']). rewrite app_assoc. split; auto.
  intros a Ha. apply in_reach in Ha.
  assert (L : links_at ((h ++ e) ++ [ODict es']) (length (h ++ e)) = map snd es').
  { unfold links_at. rewrite hget_alloc_new. auto. }
  rewrite L in Ha. rewrite !app_length in *. simpl.
  rewrite Forall_forall in E2.
  assert (FP : forall p, In p (map snd es') -> fresh_priv h (h ++ e) p).
  { intros p Hp. apply in_map_iff in Hp. destruct Hp as [x [X1 X2]]. subst. apply E2. auto. }
  destruct Ha as [Ha|[Ha|[p [Hp Ha]]]].
  - subst. lia.
  - apply FP in Ha. destruct Ha as [A _]. rewrite app_length in A. lia.
  - apply FP in Hp. destruct Hp as [A [f [nc [B C]]]].
    unfold links_at in Ha. rewrite hget_app in Ha. 2:{ rewrite app_length in *. lia. }
    rewrite B in Ha. simpl in Ha. destruct Ha as [Ha|[]]. subst. rewrite app_length in C. lia.
Qed.

(* a new connection whose tables live entirely in freshly allocated cells *)
Lemma alloc_step : forall s own e d' l',
  Inv s own ->
  (forall a, In a (reach_tables (st_heap s ++ e) (d', l')) -> length (st_heap s) <= a < length (st_heap s ++ e)) ->
  let s' := mkSt (st_heap s ++ e) (st_defs s) (st_conns s ++ [mkConn d' l']) in
  exists own', Inv s' own' /\ writes_only s s' own None.
Proof.
  intros. set (n := length (st_conns s)).
  exists (fun a => if (length (st_heap s) <=? a) && (a <? length (st_heap s ++ e)) then Some (inr n) else own a).
  destruct H as [I1 I2]. split.
  - split; unfold s'; cbn [st_heap st_defs st_conns].
    + intros a H. destruct (Nat.leb_spec (length (st_heap s)) a); destruct (Nat.ltb_spec a (length (st_heap s ++ e))); simpl; try lia.
      * apply I1. auto.
      * apply I1. rewrite app_length in H. lia.
    + intros o r R a Ha. fold s' in R.
      assert (OLD : forall o r, roots_of s o = Some r -> roots_of s' o = Some r).
      { intros o0 r0 R0. destruct o0; simpl in *; auto.
        destruct (nth_error (st_conns s) n0) eqn:N; try discriminate.
        rewrite nth_error_app1. rewrite N. auto. apply nth_error_Some. congruence. }
      destruct o as [k|i].
      * (* a definition *)
        simpl in R. assert (R' : roots_of s (inl k) = Some r) by auto.
        assert (F : forall a, In a (reach_tables (st_heap s) r) -> hget (st_heap s ++ e) a = hget (st_heap s) a).
        { intros. apply hget_app. eapply inv_lt; eauto. split; eauto. }
        rewrite (reach_tables_frame _ _ _ F) in Ha.
        assert (a < length (st_heap s)) by (eapply inv_lt; eauto; split; eauto).
        destruct (Nat.leb_spec (length (st_heap s)) a); try lia. simpl. apply (I2 (inl k) r); auto.
      * simpl in R. destruct (Nat.lt_ge_cases i n).
        -- rewrite nth_error_app1 in R; auto.
           assert (R' : roots_of s (inr i) = Some r) by (simpl; auto).
           assert (F : forall a, In a (reach_tables (st_heap s) r) -> hget (st_heap s ++ e) a = hget (st_heap s) a).
           { intros. apply hget_app. eapply inv_lt; eauto. split; eauto. }
           rewrite (reach_tables_frame _ _ _ F) in Ha.
           assert (a < length (st_heap s)) by (eapply inv_lt; eauto; split; eauto).
           destruct (Nat.leb_spec (length (st_heap s)) a); try lia. simpl. apply (I2 (inr i) r); auto.
        -- rewrite nth_error_app2 in R; auto. fold n in R.
           destruct (i - n) eqn:D.
           ++ simpl in R. inversion R. subst r. clear R. apply H0 in Ha.
              destruct (Nat.leb_spec (length (st_heap s)) a); destruct (Nat.ltb_spec a (length (st_heap s ++ e))); try lia.
              simpl. f_equal. f_equal. lia.
           ++ simpl in R. destruct n0; discriminate.
  - split; unfold s'; cbn [st_heap]. rewrite app_length. lia. intros. apply hget_app. auto.
Qed.

(* ---- Register: two fresh cells, one write to the connection's own dict ----------------------------------------- *)
Lemma register_step : forall s own i c es name f,
  Inv s own -> nth_error (st_conns s) i = Some c ->
  hget (st_heap s) (cn_privs c) = Some (ODict es) ->
  let h := st_heap s in
  let h2 := (h ++ [OList []]) ++ [OPriv f (length h)] in
  let s' := set_heap s (upd (cn_privs c) (ODict (es ++ [(name, length (h ++ [OList []]))])) h2) in
  exists own', Inv s' own' /\ writes_only s s' own (Some (inr i)).
Proof.
  intros. set (d := cn_privs c) in *. set (n0 := length h). set (n1 := length (h ++ [OList []])).
  assert (N1 : n1 = n0 + 1) by (unfold n1, n0; rewrite app_length; simpl; lia).
  assert (DL : d < n0) by (eapply hget_some_lt; eauto).
  assert (LEN : length (st_heap s') = n0 + 2).
  { unfold s'. simpl. rewrite length_upd. unfold h2. rewrite !app_length. simpl. fold n0. lia. }
  assert (OD : own d = Some (inr i)).
  { destruct H as [_ I2]. apply (I2 (inr i) (d, cn_fwc c)). simpl. rewrite H0. auto.
    apply in_reach_tables. left. cbn [fst]. apply in_reach. auto. }
  assert (G : forall a, a < n0 -> a <> d -> hget (st_heap s') a = hget h a).
  { intros. unfold s'. simpl. rewrite hget_upd_other; auto. unfold h2. rewrite !hget_app; auto.
    rewrite app_length. simpl. fold n0. lia. }
  exists (fun a => if (a =? n0) || (a =? n1) then Some (inr i) else own a).
  split.
  - pose proof H as HI. destruct H as [I1 I2]. split.
    + intros. rewrite LEN in H.
      destruct (Nat.eqb_spec a n0); destruct (Nat.eqb_spec a n1); simpl; try lia. apply I1. fold h. fold n0. lia.
    + intros o r R a Ha.
      assert (R0 : roots_of s o = Some r) by (destruct o; simpl in *; auto).
      destruct (match o with inr j => Nat.eqb j i | _ => false end) eqn:T.
      * (* the target connection *)
        destruct o as [k|j]; try discriminate. apply Nat.eqb_eq in T. subst j.
        simpl in R0. rewrite H0 in R0. inversion R0. subst r. clear R0.
        assert (OWN : forall x, In x (reach_tables h (d, cn_fwc c)) -> own x = Some (inr i)).
        { intros x Hx. apply (I2 (inr i) (d, cn_fwc c)); [simpl; rewrite H0; auto | exact Hx]. }
        assert (KEEP : forall x, own x = Some (inr i) ->
                  (if (x =? n0) || (x =? n1) then Some (inr i) else own x) = Some (inr i)).
        { intros. destruct ((x =? n0) || (x =? n1)); auto. }
        assert (LD : links_at (st_heap s') d = map snd es ++ [n1]).
        { unfold links_at, s'. simpl. rewrite hget_upd_same. simpl. rewrite map_app. auto.
          unfold h2. rewrite !app_length. simpl. fold n0. lia. }
        assert (LOLD : links_at h d = map snd es) by (unfold links_at; fold h in H1; rewrite H1; auto).
        assert (LN1 : links_at (st_heap s') n1 = [n0]).
        { unfold links_at, s'. simpl. rewrite hget_upd_other; try lia. unfold h2.
          fold n1. unfold n1. rewrite hget_alloc_new. auto. }
        apply in_reach_tables in Ha. cbn [fst snd] in Ha. fold d in Ha. destruct Ha as [Ha|Ha].
        2:{ subst a. apply KEEP. apply OWN. apply in_reach_tables. auto. }
        apply in_reach in Ha. rewrite LD in Ha.
        destruct Ha as [Ha|[Ha|[p [Hp Ha]]]].
        -- subst a. apply KEEP. auto.
        -- apply in_app_or in Ha. destruct Ha as [Ha|[Ha|[]]].
           ++ apply KEEP. apply OWN. apply in_reach_tables. left. cbn [fst]. apply in_reach. right. left. rewrite LOLD. auto.
           ++ subst a. rewrite Nat.eqb_refl. rewrite orb_true_r. auto.
        -- apply in_app_or in Hp. destruct Hp as [Hp|[Hp|[]]].
           ++ destruct (Nat.eq_dec p d).
              ** subst p. rewrite LD in Ha. apply in_app_or in Ha. destruct Ha as [Ha|[Ha|[]]].
                 --- apply KEEP. apply OWN. apply in_reach_tables. left. cbn [fst]. apply in_reach. right. left. rewrite LOLD. auto.
                 --- subst a. rewrite Nat.eqb_refl. rewrite orb_true_r. auto.
              ** assert (PO : own p = Some (inr i)).
                 { apply OWN. apply in_reach_tables. left. cbn [fst]. apply in_reach. right. left. rewrite LOLD. auto. }
                 assert (PL : p < n0).
                 { destruct (le_lt_dec n0 p); auto. rewrite I1 in PO. discriminate. auto. }
                 rewrite (links_at_eq h (st_heap s') p) in Ha. 2:{ apply G; auto. }
                 apply KEEP. apply OWN. apply in_reach_tables. left. cbn [fst]. apply in_reach. right. right.
                 exists p. rewrite LOLD. auto.
           ++ subst p. rewrite LN1 in Ha. destruct Ha as [Ha|[]]. subst a. rewrite Nat.eqb_refl. auto.
      * (* anybody else: untouched *)
        assert (NE : Some (inr i) <> Some o).
        { intro E. inversion E. subst o. rewrite Nat.eqb_refl in T. discriminate. }
        assert (F : forall x, In x (reach_tables h r) -> hget (st_heap s') x = hget h x).
        { intros. apply G. eapply inv_lt; eauto.
          intro. subst x. rewrite (I2 o r R0 d H) in OD. congruence. }
        assert (RR : roots_of s' o = Some r) by auto.
        rewrite (reach_tables_frame h (st_heap s') r F) in Ha.
        assert (a < n0) by (eapply inv_lt; eauto).
        destruct (Nat.eqb_spec a n0); destruct (Nat.eqb_spec a n1); simpl; try lia.
        apply (I2 o r); auto.
  - split. rewrite LEN. fold h. fold n0. lia.
    intros. apply G; auto. intro. subst. apply (H3 (inr i)); auto.
Qed.

Lemma new_conn_reach : forall h e1 d' e2 l',
  (forall a, In a (reach (h ++ e1) d') -> length h <= a < length (h ++ e1)) ->
  length (h ++ e1) <= l' < length ((h ++ e1) ++ e2) ->
  forall a, In a (reach_tables (h ++ (e1 ++ e2)) (d', l')) -> length h <= a < length (h ++ (e1 ++ e2)).
Proof.
  intros h e1 d' e2 l' D L a Ha. rewrite app_assoc in *. apply in_reach_tables in Ha. cbn [fst snd] in Ha.
  destruct Ha as [Ha|Ha].
  - rewrite (reach_frame (h ++ e1) ((h ++ e1) ++ e2) d') in Ha.
    + apply D in Ha. rewrite app_length. lia.
    + intros x Hx. apply hget_app. apply D in Hx. lia.
  - subst a. rewrite !app_length in *. lia.
Qed.

(* ---- every step ---------------------------------------------------------------------------------------------------- *)
Definition tgt (o : op) : option owner := match target o with Some i => Some (inr i) | None => None end.

Lemma assoc_in : forall k es a, assoc k es = Some a -> In a (map snd es).
Proof.
  induction es as [|[k' a'] r]; simpl; intros; try discriminate.
  destruct (beq k' k). inversion H; auto. right. auto.
Qed.

Lemma writes_only_refl : forall s own t, writes_only s s own t.
Proof. unfold writes_only. intros. split; auto. Qed.

Lemma step_inv : forall s own o,
  Inv s own ->
  exists own', Inv (fst (step s o)) own' /\ writes_only s (fst (step s o)) own (tgt o)
               /\ st_defs (fst (step s o)) = st_defs s
               /\ (forall j c, nth_error (st_conns s) j = Some c -> nth_error (st_conns (fst (step s o))) j = Some c).
Proof.
  intros s own o I.
  assert (SAME : exists own', Inv s own' /\ writes_only s s own (tgt o) /\ st_defs s = st_defs s /\
                 (forall j c, nth_error (st_conns s) j = Some c -> nth_error (st_conns s) j = Some c)).
  { exists own. split; [exact I|]. split; [apply writes_only_refl|]. split; auto. }
  destruct o as [k|k|i name f|i level pat|i level x|i x]; simpl.
  - (* New *)
    destruct (nth_error (st_defs s) k) as [[d l]|]; auto.
    destruct (deepcopy_dict (st_heap s) d) as [[h1 d']|] eqn:D; auto.
    destruct (copy_list h1 l) as [[h2 l']|] eqn:C; auto.
    apply deepcopy_dict_ext in D. destruct D as [e1 [D1 D2]]. subst h1.
    apply copy_list_ext in C. destruct C as [ll [C1 C2]]. subst h2 l'. simpl.
    rewrite <- app_assoc.
    destruct (alloc_step s own (e1 ++ [OList ll]) d' (length (st_heap s ++ e1))) as [own' [A B]]; auto.
    { apply new_conn_reach; auto. rewrite !app_length. simpl. lia. }
    exists own'. split; [exact A|]. split; [exact B|]. split; auto.
    intros. simpl. rewrite nth_error_app1; auto. apply nth_error_Some. congruence.
  - (* NewCommunity *)
    destruct (nth_error (st_defs s) k) as [[d l]|]; auto.
    destruct (deepcopy_dict (st_heap s) d) as [[h1 d']|] eqn:D; auto.
    destruct (copy_list h1 l) as [[h2 l']|] eqn:C; auto.
    apply deepcopy_dict_ext in D. destruct D as [e1 [D1 D2]]. subst h1.
    apply copy_list_ext in C. destruct C as [ll [C1 C2]]. subst h2 l'.
    destruct (hget ((st_heap s ++ e1) ++ [OList ll]) (length (st_heap s ++ e1))) as [[[|y ys]| |]|] eqn:HG; simpl.
    1:{ (* empty list: `or []` allocates another one *)
      replace (((st_heap s ++ e1) ++ [OList ll]) ++ [OList []]) with (st_heap s ++ (e1 ++ [OList ll; OList []]))
        by (rewrite <- !app_assoc; auto).
      destruct (alloc_step s own (e1 ++ [OList ll; OList []]) d' (length ((st_heap s ++ e1) ++ [OList ll]))) as [own' [A B]]; auto.
      { apply new_conn_reach; auto. rewrite !app_length. simpl. lia. }
      exists own'. split; [exact A|]. split; [exact B|]. split; auto.
      intros. simpl. rewrite nth_error_app1; auto. apply nth_error_Some. congruence. }
    all: rewrite <- app_assoc;
      destruct (alloc_step s own (e1 ++ [OList ll]) d' (length (st_heap s ++ e1))) as [own' [A B]]; auto;
      [ apply new_conn_reach; auto; rewrite !app_length; simpl; lia
      | exists own'; split; [exact A|]; split; [exact B|]; split; auto;
        intros; simpl; rewrite nth_error_app1; auto; apply nth_error_Some; congruence ].
  - (* Register *)
    destruct (nth_error (st_conns s) i) as [c|] eqn:N; auto.
    destruct (hget (st_heap s) (cn_privs c)) as [[| |es]|] eqn:HD; auto.
    destruct (assoc name es); auto. simpl.
    destruct (register_step s own i c es name f I N HD) as [own' [A B]].
    exists own'. split; [exact A|]. split; [exact B|]. split; auto.
  - (* SetPattern *)
    destruct (nth_error (st_conns s) i) as [c|] eqn:N; auto.
    destruct (hget (st_heap s) (cn_privs c)) as [[| |es]|] eqn:HD; auto.
    destruct (assoc level es) as [pa|] eqn:AS; auto.
    destruct (hget (st_heap s) pa) as [[|f nc|]|] eqn:HP; auto. simpl.
    destruct (inplace_step s own i c pa (OPriv f nc) (OPriv (with_pattern f pat) nc) I N HP) as [A B]; auto.
    { apply in_reach_tables. left. apply in_reach. right. left. unfold links_at. simpl. rewrite HD. simpl.
      eapply assoc_in; eauto. }
    exists own. split; [exact A|]. split; [exact B|]. split; auto.
  - (* AppendNC *)
    destruct (nth_error (st_conns s) i) as [c|] eqn:N; auto.
    destruct (hget (st_heap s) (cn_privs c)) as [[| |es]|] eqn:HD; auto.
    destruct (assoc level es) as [pa|] eqn:AS; auto.
    destruct (hget (st_heap s) pa) as [[|f nc|]|] eqn:HP; auto.
    destruct (hget (st_heap s) nc) as [[l| |]|] eqn:HL; auto. simpl.
    destruct (inplace_step s own i c nc (OList l) (OList (l ++ [x])) I N HL) as [A B]; auto.
    { apply in_reach_tables. left. apply in_reach. right. right. exists pa. split.
      - unfold links_at. simpl. rewrite HD. simpl. eapply assoc_in; eauto.
      - unfold links_at. rewrite HP. simpl. auto. }
    exists own. split; [exact A|]. split; [exact B|]. split; auto.
  - (* AppendFWC *)
    destruct (nth_error (st_conns s) i) as [c|] eqn:N; auto.
    destruct (hget (st_heap s) (cn_fwc c)) as [[l| |]|] eqn:HL; auto. simpl.
    destruct (inplace_step s own i c (cn_fwc c) (OList l) (OList (l ++ [x])) I N HL) as [A B]; auto.
    { apply in_reach_tables. auto. }
    exists own. split; [exact A|]. split; [exact B|]. split; auto.
Qed.

(* ---- the isolation theorems ------------------------------------------------------------------------------------------ *)
(* one step: the platform definitions and every connection other than the one operated on keep
   their identity (same record) and their value *)
Theorem step_isolated : forall s own o,
  Inv s own ->
  view_defs (fst (step s o)) = view_defs s /\
  (forall j, j < length (st_conns s) -> target o <> Some j -> view_conn (fst (step s o)) j = view_conn s j) /\
  exists own', Inv (fst (step s o)) own'.
Proof.
  intros. destruct (step_inv s own o H) as [own' [A [B [C D]]]]. split; [|split]; eauto.
  - unfold view_defs. rewrite C. apply map_ext_in. intros r Hin.
    apply In_nth_error in Hin. destruct Hin as [k Hk].
    apply view_tables_frame. apply (frame_other s _ own (tgt o) (inl k) r); auto.
    unfold tgt. destruct (target o); congruence.
  - intros j Hj T. unfold view_conn.
    destruct (nth_error (st_conns s) j) as [c|] eqn:N.
    2:{ apply nth_error_None in N. lia. }
    rewrite (D j c N). f_equal. apply view_tables_frame.
    apply (frame_other s _ own (tgt o) (inr j) (cn_privs c, cn_fwc c)); auto.
    + simpl. rewrite N. trivial.
    + unfold tgt. destruct (target o); congruence.
Qed.

Lemma conns_grow : forall s o, length (st_conns s) <= length (st_conns (fst (step s o))).
Proof.
  intros. destruct (le_lt_dec (length (st_conns s)) (length (st_conns (fst (step s o))))); auto.
  exfalso. destruct o; simpl in *;
  repeat match goal with
         | H : context[match ?x with _ => _ end] |- _ => destruct x; simpl in H; try rewrite app_length in H; simpl in H; try lia
         end.
Qed.

(* whole histories: the definitions never change ... *)
Theorem isolation_defs : forall ops s own, Inv s own -> view_defs (run s ops) = view_defs s.
Proof.
  induction ops as [|o r]; simpl; intros; auto.
  destruct (step_isolated s own o H) as [A [_ [own' I']]]. rewrite (IHr _ own' I'). auto.
Qed.

Lemma run_inv : forall ops s own, Inv s own -> exists own', Inv (run s ops) own'.
Proof.
  induction ops as [|o r]; simpl; intros; eauto.
  destruct (step_isolated s own o H) as [_ [_ [own' I']]]. eauto.
Qed.

(* ... in every state reachable by any interleaving, an operation on one connection leaves every
   other connection as it was ... *)
Theorem isolation_conns : forall ops s own o j,
  Inv s own -> j < length (st_conns (run s ops)) -> target o <> Some j ->
  view_conn (fst (step (run s ops) o)) j = view_conn (run s ops) j.
Proof.
  intros. destruct (run_inv ops s own H) as [own' I']. apply (step_isolated _ own' o I'); auto.
Qed.

(* ... hence a connection that is never operated on keeps its value through the whole history *)
Theorem isolation_untouched : forall ops s own j,
  Inv s own -> j < length (st_conns s) -> Forall (fun o => target o <> Some j) ops ->
  view_conn (run s ops) j = view_conn s j.
Proof.
  induction ops as [|o r]; simpl; intros; auto. inversion H1; subst.
  destruct (step_isolated s own o H) as [_ [B [own' I']]].
  rewrite (IHr _ own' j I'); auto. pose proof (conns_grow s o). lia.
Qed.

(* ---- initial states: the executable check implies the invariant ----------------------------------------------------------- *)
Fixpoint memb (a : nat) (l : list nat) : bool := match l with [] => false | x :: r => Nat.eqb a x || memb a r end.

Lemma memb_in : forall a l, memb a l = true <-> In a l.
Proof.
  induction l; simpl; split; intros; try discriminate; try contradiction.
  - apply orb_true_iff in H. destruct H. apply Nat.eqb_eq in H. auto. right. apply IHl. auto.
  - apply orb_true_iff. destruct H. left. subst. apply Nat.eqb_refl. right. apply IHl. auto.
Qed.

Fixpoint first_ix {A} (p : A -> bool) (l : list A) : option nat :=
  match l with
  | [] => None
  | x :: r => if p x then Some 0 else match first_ix p r with Some n => Some (S n) | None => None end
  end.

Lemma nodup_nat_spec : forall l, nodup_nat l = true -> NoDup l.
Proof.
  induction l; simpl; intros. constructor. apply andb_true_iff in H. destruct H.
  constructor; auto. intro F. apply negb_true_iff in H.
  assert (existsb (Nat.eqb a) l = true). { apply existsb_exists. exists a. split; auto. apply Nat.eqb_refl. }
  congruence.
Qed.

Lemma nodup_app_disj : forall (l1 l2 : list nat) a, NoDup (l1 ++ l2) -> In a l1 -> In a l2 -> False.
Proof.
  induction l1; simpl; intros; auto. inversion H; subst. destruct H0.
  - subst. apply H4. apply in_or_app. auto.
  - eapply IHl1; eauto.
Qed.

Lemma nodup_app_r : forall (l1 l2 : list nat), NoDup (l1 ++ l2) -> NoDup l2.
Proof. induction l1; simpl; intros; auto. inversion H; auto. Qed.

Lemma first_ix_flat : forall (f : addr * addr -> list nat) l k r a,
  NoDup (flat_map f l) -> nth_error l k = Some r -> In a (f r) ->
  first_ix (fun x => memb a (f x)) l = Some k.
Proof.
  induction l as [|x l']; intros; simpl in *. destruct k; discriminate.
  destruct k.
  - inversion H0; subst. assert (memb a (f r) = true) by (apply memb_in; auto). rewrite H2. auto.
  - simpl in H0. destruct (memb a (f x)) eqn:M.
    + apply memb_in in M. exfalso. eapply nodup_app_disj; eauto.
      apply in_flat_map. exists r. split; auto. eapply nth_error_In; eauto.
    + rewrite (IHl' k r a); auto. eapply nodup_app_r; eauto.
Qed.

Lemma first_ix_none_or_lt : forall (A : Type) (p : A -> bool) l n, first_ix p l = Some n ->
  exists x, nth_error l n = Some x /\ p x = true.
Proof.
  induction l; simpl; intros; try discriminate. destruct (p a) eqn:P.
  - inversion H. subst. simpl. eauto.
  - destruct (first_ix p l) eqn:F; try discriminate. inversion H. subst. simpl. apply IHl. auto.
Qed.

Theorem init_ok_inv : forall s, init_ok s = true -> exists own, Inv s own.
Proof.
  unfold init_ok. intros. repeat (apply andb_true_iff in H; destruct H as [H ?]).
  apply nodup_nat_spec in H. rewrite forallb_forall in H2.
  destruct (st_conns s) eqn:C; try discriminate.
  exists (fun a => match first_ix (fun x => memb a (reach_tables (st_heap s) x)) (st_defs s) with
                   | Some k => Some (inl k) | None => None end).
  split.
  - intros. destruct (first_ix _ (st_defs s)) eqn:F; auto.
    apply first_ix_none_or_lt in F. destruct F as [x [F1 F2]]. apply memb_in in F2.
    assert (In a (flat_map (reach_tables (st_heap s)) (st_defs s))).
    { apply in_flat_map. exists x. split; auto. eapply nth_error_In; eauto. }
    apply H2 in H4. apply Nat.ltb_lt in H4. lia.
  - intros o r R a Ha. destruct o as [k|i]; simpl in R.
    + rewrite (first_ix_flat _ _ k r a); auto.
    + rewrite C in R. destruct i; discriminate.
Qed.

(* the same theorems from the executable check of the initial state *)
Theorem isolation_defs_ok : forall s ops, init_ok s = true -> view_defs (run s ops) = view_defs s.
Proof. intros. destruct (init_ok_inv s H) as [own I]. eapply isolation_defs; eauto. Qed.

Theorem isolation_conns_ok : forall s ops o j, init_ok s = true ->
  j < length (st_conns (run s ops)) -> target o <> Some j ->
  view_conn (fst (step (run s ops) o)) j = view_conn (run s ops) j.
Proof. intros. destruct (init_ok_inv s H) as [own I]. eapply isolation_conns; eauto. Qed.

Theorem isolation_untouched_ok : forall s ops1 ops2 j, init_ok s = true ->
  j < length (st_conns (run s ops1)) -> Forall (fun o => target o <> Some j) ops2 ->
  view_conn (run (run s ops1) ops2) j = view_conn (run s ops1) j.
Proof.
  intros. destruct (init_ok_inv s H) as [own I]. destruct (run_inv ops1 s own I) as [own' I'].
  eapply isolation_untouched; eauto.
Qed.

(* ---- behaviour: whatever a connection answers as a function of its own tables (classify is one such
   function) is not changed by an operation on another connection, nor by any number of them ------------------ *)
Theorem isolation_answers_ok : forall (Q R : Type) (f : conn_view -> Q -> R) s ops o j q, init_ok s = true ->
  j < length (st_conns (run s ops)) -> target o <> Some j ->
  answer f (fst (step (run s ops) o)) j q = answer f (run s ops) j q.
Proof. intros. unfold answer. rewrite (isolation_conns_ok s ops o j); auto. Qed.

Theorem isolation_answers_untouched_ok : forall (Q R : Type) (f : conn_view -> Q -> R) s ops1 ops2 j q, init_ok s = true ->
  j < length (st_conns (run s ops1)) -> Forall (fun o => target o <> Some j) ops2 ->
  answer f (run (run s ops1) ops2) j q = answer f (run s ops1) j q.
Proof. intros. unfold answer. rewrite (isolation_untouched_ok s ops1 ops2 j); auto. Qed.

(* ---- the premises are satisfiable: a definition with two levels, two connections, a session ------------------------------------ *)
Local Open Scope N_scope.
Definition ex_defs : list tables :=
  [([([101], (mkPF [94;62] [101] [] [] [] false [], [[120]]));
     ([112], (mkPF [94;35] [112] [101] [100] [101] true [58], []))], [[37;32;69]])].

Example ex_init_ok : init_ok (init_state ex_defs) = true.
Proof. vm_compute. reflexivity. Qed.

Example ex_history :
  let s := run (init_state ex_defs)
             [New 0%nat; New 0%nat; Register 0%nat [115] (mkPF [94;115] [115] [112] [] [] false []);
              SetPattern 0%nat [101] [33]; AppendNC 0%nat [101] [121]; AppendFWC 0%nat [122]; New 0%nat] in
  view_conn s 1%nat = view_conn s 2%nat /\ view_conn s 0%nat <> view_conn s 1%nat /\
  Some (nth 0%nat (view_defs s) (None, None)) = view_conn s 1%nat.
Proof. vm_compute. repeat split; congruence. Qed.

(* two connections of one platform register differently named sessions with one pattern text: the same
   prompt is classified by each connection as ITS session, before and after the other one's registration
   (the matcher of the example is "the pattern occurs in the prompt") *)
Example ex_answers :
  let reg i n := Register i n (mkPF [40;115;41] n [112] [] [] false []) in
  let s1 := run (init_state ex_defs) [New 0%nat; New 0%nat; reg 0%nat [97]] in
  let s2 := fst (step s1 (reg 1%nat [98])) in
  answer (classify infixb) s1 0%nat [120;40;115;41;35] = Some (Some [[97]]) /\
  answer (classify infixb) s2 0%nat [120;40;115;41;35] = Some (Some [[97]]) /\
  answer (classify infixb) s2 1%nat [120;40;115;41;35] = Some (Some [[98]]) /\
  answer (classify infixb) s1 1%nat [120;40;115;41;35] = Some None.
Proof. vm_compute. repeat split; reflexivity. Qed.
