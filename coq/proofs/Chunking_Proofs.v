(* Chunking_Proofs.v — theorems about model/Chunking.v (C02). *)
From Coq Require Import Lia.
From Verif Require Import Bytes Regex RegexPrio Chunking.

(* ========================================================================================== *)
(* 0. small list facts                                                                         *)
(* ========================================================================================== *)
Lemma rm_cr_app a b : rm_cr (a ++ b) = rm_cr a ++ rm_cr b.
Proof. unfold rm_cr, remove_byte. apply filter_app. Qed.

Lemma rm_cr_concat cs : rm_cr (concat cs) = concat (map rm_cr cs).
Proof. induction cs; simpl; auto. rewrite rm_cr_app, IHcs. reflexivity. Qed.

Lemma rm_cr_cr a b : rm_cr (a ++ 13 :: b) = rm_cr (a ++ b).
Proof. rewrite !rm_cr_app. reflexivity. Qed.

(* ========================================================================================== *)
(* 1. one attempt of ANSI_ESCAPE_PATTERN: a match is decided by the bytes it consumes, a        *)
(*    failure by the bytes it has looked at                                                    *)
(* ========================================================================================== *)
Definition decided (f : bytes -> att) (x : bytes) : Prop :=
  match f x with
  | Matched r => exists m, x = m ++ r /\ forall y, f (m ++ y) = Matched y
  | Failed => forall y, f (x ++ y) = Failed
  | InProg => True
  end.

Lemma osc_decided x : decided osc x.
Proof.
  unfold decided. induction x as [|a x IH]; [exact I|].
  cbn [osc]. destruct (a =? 7) eqn:E7.
  - exists [a]. split; auto. intros y. cbn [app osc]. rewrite E7. reflexivity.
  - destruct (a =? 10) eqn:E10.
    + intros y. cbn [app osc]. rewrite E7, E10. reflexivity.
    + destruct (osc x) eqn:E; [| | exact I].
      * destruct IH as (m & -> & F). exists (a :: m). split; auto. intros y. cbn [app osc]. rewrite E7, E10. apply F.
      * intros y. cbn [app osc]. rewrite E7, E10. apply IH.
Qed.

Lemma csi_decided x : decided csi x.
Proof.
  unfold decided. induction x as [|a x IH]; [exact I|].
  cbn [csi]. destruct (is_fin a) eqn:E7.
  - exists [a]. split; auto. intros y. cbn [app csi]. rewrite E7. reflexivity.
  - destruct (a =? 10) eqn:E10.
    + intros y. cbn [app csi]. rewrite E7, E10. reflexivity.
    + destruct (csi x) eqn:E; [| | exact I].
      * destruct IH as (m & -> & F). exists (a :: m). split; auto. intros y. cbn [app csi]. rewrite E7, E10. apply F.
      * intros y. cbn [app csi]. rewrite E7, E10. apply IH.
Qed.

Lemma alts_decided x : decided alts x.
Proof.
  unfold decided. destruct x as [|c r]; [exact I|].
  cbn [alts]. destruct (is_cur c) eqn:Ec.
  { exists [c]. split; auto. intros y. cbn [app alts]. rewrite Ec. reflexivity. }
  destruct (c =? 93) eqn:E93.
  { destruct r as [|d r']; [exact I|]. destruct (is_digit d) eqn:Ed.
    - pose proof (osc_decided r') as H. unfold decided in H. destruct (osc r') eqn:E; [| | exact I].
      + destruct H as (m & -> & F). exists (c :: d :: m). split; auto. intros y.
        cbn [app alts]. rewrite Ec, E93, Ed. apply F.
      + intros y. cbn [app alts]. rewrite Ec, E93, Ed. apply H.
    - intros y. cbn [app alts]. rewrite Ec, E93, Ed. reflexivity. }
  destruct (c =? 91) eqn:E91.
  - pose proof (csi_decided r) as H. unfold decided in H. destruct (csi r) eqn:E; [| | exact I].
    + destruct H as (m & -> & F). exists (c :: m). split; auto. intros y.
      cbn [app alts]. rewrite Ec, E93, E91. apply F.
    + intros y. cbn [app alts]. rewrite Ec, E93, E91. apply H.
  - intros y. cbn [app alts]. rewrite Ec, E93, E91. reflexivity.
Qed.

Lemma alts_ws c r : is_ws c = true -> alts (c :: r) = Failed.
Proof.
  intros H. cbn [alts].
  assert (is_cur c = false /\ (c =? 93) = false /\ (c =? 91) = false) as (A & B & C).
  { unfold is_ws in H. unfold is_cur.
    destruct (c =? 32) eqn:E32.
    - apply N.eqb_eq in E32. subst c. repeat split; reflexivity.
    - cbn [orb] in H. apply andb_prop in H. destruct H as [H1 H2].
      apply N.leb_le in H1, H2.
      repeat split; repeat (apply orb_false_intro); apply N.eqb_neq; lia. }
  rewrite A, B, C. reflexivity.
Qed.

Lemma after_pfx_decided x : decided after_pfx x.
Proof.
  unfold decided. destruct x as [|c r]; [exact I|].
  cbn [after_pfx]. destruct (is_ws c) eqn:Ew.
  - pose proof (alts_decided r) as H. unfold decided in H. destruct (alts r) eqn:E; [| | exact I].
    + destruct H as (m & -> & F). exists (c :: m). split; auto. intros y.
      cbn [app after_pfx]. rewrite Ew. apply F.
    + intros y. cbn [app after_pfx]. rewrite Ew. apply H.
  - pose proof (alts_decided (c :: r)) as H. unfold decided in H.
    destruct (alts (c :: r)) eqn:E; [| | exact I].
    + destruct H as (m & Hm & F). destruct m as [|c' m'].
      * exfalso. specialize (F []). cbn in F. discriminate.
      * cbn [app] in Hm. injection Hm as <- ->. exists (c :: m'). split; auto. intros y.
        cbn [app after_pfx]. rewrite Ew. apply (F y).
    + intros y. cbn [app after_pfx]. rewrite Ew. apply (H y).
Qed.

Lemma attempt_decided c r : decided attempt (c :: r).
Proof.
  unfold decided. cbn [attempt]. destruct (is_pfx c) eqn:Ep.
  - pose proof (after_pfx_decided r) as H. unfold decided in H. destruct (after_pfx r) eqn:E; [| | exact I].
    + destruct H as (m & -> & F). exists (c :: m). split; auto. intros y.
      cbn [app attempt]. rewrite Ep. apply F.
    + intros y. cbn [app attempt]. rewrite Ep. apply H.
  - intros y. cbn [app attempt]. rewrite Ep. reflexivity.
Qed.

Lemma attempt_matched s rest :
  attempt s = Matched rest ->
  exists m, s = m ++ rest /\ (0 < length m)%nat /\ forall y, attempt (m ++ y) = Matched y.
Proof.
  destruct s as [|c r]; [discriminate|]. intros H.
  pose proof (attempt_decided c r) as D. unfold decided in D. rewrite H in D.
  destruct D as (m & Hm & F). exists m. repeat split; auto.
  destruct m; [|cbn; lia]. specialize (F []). cbn in F. discriminate.
Qed.

Lemma attempt_matched_len s rest : attempt s = Matched rest -> (length rest < length s)%nat.
Proof.
  intros H. destruct (attempt_matched _ _ H) as (m & -> & L & _). rewrite app_length. lia.
Qed.

Lemma attempt_matched_app s rest t : attempt s = Matched rest -> attempt (s ++ t) = Matched (rest ++ t).
Proof.
  intros H. destruct (attempt_matched _ _ H) as (m & -> & _ & F). rewrite <- app_assoc. apply F.
Qed.

Lemma attempt_failed_app s t : s <> [] -> attempt s = Failed -> attempt (s ++ t) = Failed.
Proof.
  destruct s as [|c r]; [congruence|]. intros _ H.
  pose proof (attempt_decided c r) as D. unfold decided in D. rewrite H in D. apply D.
Qed.

(* a prefix of a string on which the attempt does not match does not match either *)
Lemma attempt_prefix_nomatch p t :
  (forall r, attempt (p ++ t) <> Matched r) -> forall r, attempt p <> Matched r.
Proof.
  intros H r E. apply (H (r ++ t)). apply attempt_matched_app. exact E.
Qed.

(* ========================================================================================== *)
(* 2. unfolding the fuelled walks                                                              *)
(* ========================================================================================== *)
Lemma strip_from_fuel f1 : forall f2 s, (length s < f1)%nat -> (length s < f2)%nat ->
  strip_from s f1 = strip_from s f2.
Proof.
  induction f1 as [|f1 IH]; intros f2 s H1 H2; [lia|].
  destruct f2 as [|f2]; [lia|]. cbn [strip_from].
  destruct s as [|c r]; auto.
  destruct (attempt (c :: r)) eqn:E.
  - apply attempt_matched_len in E. apply IH; cbn [length] in *; lia.
  - f_equal. apply IH; cbn [length] in *; lia.
  - f_equal. apply IH; cbn [length] in *; lia.
Qed.

Lemma strip_nil : strip [] = [].
Proof. reflexivity. Qed.

Lemma strip_cons c r :
  strip (c :: r) = match attempt (c :: r) with Matched rest => strip rest | _ => c :: strip r end.
Proof.
  unfold strip.
  change (strip_from (c :: r) (S (length (c :: r)))) with
    (match attempt (c :: r) with
     | Matched rest => strip_from rest (length (c :: r))
     | _ => c :: strip_from r (length (c :: r)) end).
  destruct (attempt (c :: r)) eqn:E.
  - apply attempt_matched_len in E. apply strip_from_fuel; cbn [length] in *; lia.
  - reflexivity.
  - reflexivity.
Qed.

Lemma scanh_from_fuel n f1 : forall f2 s, (length s < f1)%nat -> (length s < f2)%nat ->
  scanh_from n s f1 = scanh_from n s f2.
Proof.
  induction f1 as [|f1 IH]; intros f2 s H1 H2; [lia|].
  destruct f2 as [|f2]; [lia|]. cbn [scanh_from].
  destruct s as [|c r]; auto.
  destruct (attempt (c :: r)) eqn:E.
  - apply attempt_matched_len in E. apply IH; cbn [length] in *; lia.
  - rewrite (IH f2 r); cbn [length] in *; auto; lia.
  - rewrite (IH f2 r); cbn [length] in *; auto; lia.
Qed.

Lemma scanh_cons n c r :
  scanh n (c :: r) =
  match attempt (c :: r) with
  | Matched rest => scanh n rest
  | _ => if inL n (c :: r) then ([], c :: r) else let (a, h) := scanh n r in (c :: a, h)
  end.
Proof.
  unfold scanh.
  change (scanh_from n (c :: r) (S (length (c :: r)))) with
    (match attempt (c :: r) with
     | Matched rest => scanh_from n rest (length (c :: r))
     | _ => if inL n (c :: r) then ([], c :: r)
            else let (a, h) := scanh_from n r (length (c :: r)) in (c :: a, h) end).
  destruct (attempt (c :: r)) eqn:E.
  - apply attempt_matched_len in E. apply scanh_from_fuel; cbn [length] in *; lia.
  - reflexivity.
  - reflexivity.
Qed.

Lemma hold_from_fuel n f1 : forall f2 s, (length s < f1)%nat -> (length s < f2)%nat ->
  hold_from n s f1 = hold_from n s f2.
Proof.
  induction f1 as [|f1 IH]; intros f2 s H1 H2; [lia|].
  destruct f2 as [|f2]; [lia|]. cbn [hold_from].
  destruct s as [|c r]; auto.
  destruct (attempt (c :: r)) eqn:E.
  - apply attempt_matched_len in E. rewrite (IH f2 rest); cbn [length] in *; auto; lia.
  - rewrite (IH f2 r); cbn [length] in *; auto; lia.
  - rewrite (IH f2 r); cbn [length] in *; auto; lia.
Qed.

Lemma hold_back_cons n c r :
  hold_back n (c :: r) =
  match attempt (c :: r) with
  | Matched rest =>
      let (a, h) := hold_back n rest in (firstn (length (c :: r) - length rest) (c :: r) ++ a, h)
  | _ => if inL n (c :: r) then ([], c :: r) else let (a, h) := hold_back n r in (c :: a, h)
  end.
Proof.
  unfold hold_back.
  change (hold_from n (c :: r) (S (length (c :: r)))) with
    (match attempt (c :: r) with
     | Matched rest =>
         let (a, h) := hold_from n rest (length (c :: r)) in
         (firstn (length (c :: r) - length rest) (c :: r) ++ a, h)
     | _ => if inL n (c :: r) then ([], c :: r)
            else let (a, h) := hold_from n r (length (c :: r)) in (c :: a, h) end).
  destruct (attempt (c :: r)) eqn:E.
  - apply attempt_matched_len in E.
    rewrite (hold_from_fuel n (length (c :: r)) (S (length rest)) rest); cbn [length] in *; auto; lia.
  - reflexivity.
  - reflexivity.
Qed.

Lemma len_ind (P : bytes -> Prop) :
  (forall s, (forall t, (length t < length s)%nat -> P t) -> P s) -> forall s, P s.
Proof.
  intros H s. remember (length s) as k eqn:Hk. revert s Hk.
  induction k as [k IH] using lt_wf_ind. intros s ->. apply H. intros t Ht. apply (IH (length t)); auto.
Qed.

Lemma firstn_consumed (m rest : bytes) : firstn (length (m ++ rest) - length rest) (m ++ rest) = m.
Proof.
  rewrite app_length. replace (length m + length rest - length rest)%nat with (length m + 0)%nat by lia.
  rewrite firstn_app_2. cbn. apply app_nil_r.
Qed.

(* passed on ++ held back = the buffer *)
Lemma hold_back_split n s : fst (hold_back n s) ++ snd (hold_back n s) = s.
Proof.
  induction s as [s IH] using len_ind. destruct s as [|c r]; [reflexivity|].
  rewrite hold_back_cons. destruct (attempt (c :: r)) eqn:E.
  - pose proof (attempt_matched_len _ _ E) as L. specialize (IH rest L).
    destruct (attempt_matched _ _ E) as (m & Hm & _ & _).
    destruct (hold_back n rest) as [a h]. cbn [fst snd] in *.
    rewrite Hm at 1 2. rewrite firstn_consumed. rewrite <- app_assoc, IH. auto.
  - destruct (inL n (c :: r)); [reflexivity|].
    specialize (IH r ltac:(cbn; lia)). destruct (hold_back n r) as [a h]. cbn [fst snd] in *. cbn. f_equal. exact IH.
  - destruct (inL n (c :: r)); [reflexivity|].
    specialize (IH r ltac:(cbn; lia)). destruct (hold_back n r) as [a h]. cbn [fst snd] in *. cbn. f_equal. exact IH.
Qed.

(* the two-pass code (hold back, then strip what is passed on) = the one-pass walk *)
Lemma hold_scanh n s :
  strip (fst (hold_back n s)) = fst (scanh n s) /\ snd (hold_back n s) = snd (scanh n s).
Proof.
  induction s as [s IH] using len_ind. destruct s as [|c r]; [split; reflexivity|].
  pose proof (hold_back_split n (c :: r)) as SP.
  rewrite hold_back_cons in *. rewrite scanh_cons.
  assert (NM : (forall x, attempt (c :: r) <> Matched x) ->
          (if inL n (c :: r) then ([], c :: r) else let (a, h) := hold_back n r in (c :: a, h)) =
          (if inL n (c :: r) then (@nil N, c :: r) else let (a, h) := hold_back n r in (c :: a, h)) ->
          strip (fst (if inL n (c :: r) then ([], c :: r) else let (a, h) := hold_back n r in (c :: a, h))) =
          fst (if inL n (c :: r) then ([], c :: r) else let (a, h) := scanh n r in (c :: a, h)) /\
          snd (if inL n (c :: r) then ([], c :: r) else let (a, h) := hold_back n r in (c :: a, h)) =
          snd (if inL n (c :: r) then ([], c :: r) else let (a, h) := scanh n r in (c :: a, h))).
  { intros NMa _. destruct (inL n (c :: r)); [split; reflexivity|].
    destruct (IH r ltac:(cbn; lia)) as [I1 I2].
    pose proof (hold_back_split n r) as SPr.
    destruct (hold_back n r) as [a h]. destruct (scanh n r) as [a' h']. cbn [fst snd] in *.
    split; auto. rewrite strip_cons.
    assert (forall x, attempt (c :: a) <> Matched x) as NMp.
    { apply (attempt_prefix_nomatch (c :: a) h). cbn [app]. rewrite SPr. exact NMa. }
    destruct (attempt (c :: a)) eqn:Ea; [exfalso; eapply NMp; eauto | |]; rewrite I1; reflexivity. }
  destruct (attempt (c :: r)) eqn:E.
  - pose proof (attempt_matched_len _ _ E) as L. destruct (IH rest L) as [I1 I2].
    destruct (attempt_matched _ _ E) as (m & Hm & Lm & F).
    destruct (hold_back n rest) as [a h]. cbn [fst snd] in *.
    split; auto. rewrite Hm at 1 2. rewrite firstn_consumed.
    destruct m as [|c' m']; [cbn in Lm; lia|].
    cbn [app]. rewrite strip_cons. change (c' :: m' ++ a) with ((c' :: m') ++ a). rewrite F. exact I1.
  - apply NM; auto. intros x; discriminate.
  - apply NM; auto. intros x; discriminate.
Qed.

(* ========================================================================================== *)
(* 3. the language of held-back starts is inside "attempt still in progress"                   *)
(* ========================================================================================== *)
Lemma all_le_osc n : forall x, all_le par_osc n x = true -> osc x = InProg.
Proof.
  induction n as [|n IH]; intros [|c r]; cbn; auto; try discriminate.
  unfold par_osc. intros H. apply andb_prop in H. destruct H as [H1 H2]. apply andb_prop in H1.
  destruct H1 as [A B]. apply negb_true_iff in A, B. rewrite A, B. auto.
Qed.

Lemma all_le_csi n : forall x, all_le par_csi n x = true -> csi x = InProg.
Proof.
  induction n as [|n IH]; intros [|c r]; cbn; auto; try discriminate.
  unfold par_csi. intros H. apply andb_prop in H. destruct H as [H1 H2]. apply andb_prop in H1.
  destruct H1 as [A B]. apply negb_true_iff in A, B. rewrite A, B. auto.
Qed.

Lemma inL_alts_inprog n x : inL_alts n x = true -> alts x = InProg.
Proof.
  destruct x as [|c r]; cbn; auto.
  destruct (c =? 93) eqn:E93.
  { apply N.eqb_eq in E93. subst c. cbn. destruct r as [|d r']; auto.
    intros H. apply andb_prop in H. destruct H as [A B]. rewrite A. eapply all_le_osc; eauto. }
  destruct (c =? 91) eqn:E91; [|discriminate].
  apply N.eqb_eq in E91. subst c. cbn. apply all_le_csi.
Qed.

Lemma inL_inprog n s : inL n s = true -> attempt s = InProg.
Proof.
  destruct s as [|c r]; cbn; [discriminate|].
  intros H. apply andb_prop in H. destruct H as [A B]. apply N.eqb_eq in A. subst c. cbn.
  destruct r as [|w r']; auto. cbn [after_pfx].
  destruct (is_ws w); apply (inL_alts_inprog n); exact B.
Qed.

(* ========================================================================================== *)
(* 4. well-bounded streams                                                                     *)
(* ========================================================================================== *)
Lemma in_inits p : forall x, In p (inits x) <-> exists t, x = p ++ t.
Proof.
  intros x. revert p. induction x as [|c r IH]; intros p; cbn.
  - split.
    + intros [<-|[]]. exists []. reflexivity.
    + intros (t & H). symmetry in H. apply app_eq_nil in H. left. symmetry. apply H.
  - split.
    + intros [<-|H]. { exists (c :: r). reflexivity. }
      apply in_map_iff in H. destruct H as (q & <- & Hq). apply IH in Hq. destruct Hq as (t & ->).
      exists t. reflexivity.
    + intros (t & H). destruct p as [|c' p']; [left; reflexivity|]. right.
      cbn in H. injection H as <- ->. apply in_map. apply IH. exists t. reflexivity.
Qed.

Lemma wb_tail n c r : wb n (c :: r) = true -> wb n r = true.
Proof. cbn [wb]. intros H. apply andb_prop in H. apply H. Qed.

Lemma wb_suffix n a : forall b, wb n (a ++ b) = true -> wb n b = true.
Proof. induction a as [|c a IH]; intros b H; auto. apply IH. eapply wb_tail. exact H. Qed.

Lemma wb_head n s : wb n s = true -> wb_at n s = true.
Proof. destruct s; cbn [wb]; intros H; apply andb_prop in H; apply H. Qed.

Lemma wb_inprog n s t : wb n (s ++ t) = true -> attempt s = InProg -> inL n s = true.
Proof.
  intros W E. apply wb_head in W. unfold wb_at in W. rewrite forallb_forall in W.
  specialize (W s). rewrite E in W. apply W. apply in_inits. exists t. reflexivity.
Qed.

(* a well-bounded stream contains no 8-bit prefix byte (0x9B / 0x9D) *)
Lemma wb_no_c1 n s : wb n s = true -> forall c, In c s -> is_pfx c = true -> c = 27.
Proof.
  induction s as [|a s IH]; intros W c Hc P; [destruct Hc|]. destruct Hc as [<-|Hc].
  - assert (inL n [a] = true) as H.
    { apply (wb_inprog n [a] s); auto. cbn. rewrite P. reflexivity. }
    cbn in H. apply andb_prop in H. apply N.eqb_eq. apply H.
  - apply IH; auto. eapply wb_tail; eauto.
Qed.

(* ========================================================================================== *)
(* 5. the walk is a stream function: reading s, then t with the held part in front = reading s++t *)
(* ========================================================================================== *)
Lemma scanh_app n t : forall s : bytes, wb n (s ++ t) = true ->
  scanh n (s ++ t) = let (v, h) := scanh n s in let (v2, h2) := scanh n (h ++ t) in (v ++ v2, h2).
Proof.
  intros s. induction s as [s IH] using len_ind. intros W. destruct s as [|c r].
  { cbn [app]. change (scanh n []) with (@nil N, @nil N). cbn [app]. destruct (scanh n t); reflexivity. }
  destruct (attempt (c :: r)) eqn:E.
  - rewrite (scanh_cons n c r), E. cbn [app]. rewrite (scanh_cons n c (r ++ t)).
    change (c :: r ++ t) with ((c :: r) ++ t) in *.
    rewrite (attempt_matched_app _ _ t E).
    apply IH. { eapply attempt_matched_len; eauto. }
    destruct (attempt_matched _ _ E) as (m & Hm & _ & _). rewrite Hm, <- app_assoc in W.
    eapply wb_suffix; eauto.
  - rewrite (scanh_cons n c r), E. cbn [app]. rewrite (scanh_cons n c (r ++ t)).
    change (c :: r ++ t) with ((c :: r) ++ t) in *.
    rewrite (attempt_failed_app (c :: r) t ltac:(discriminate) E).
    assert (inL n (c :: r) = false) as F1.
    { destruct (inL n (c :: r)) eqn:F; auto. apply inL_inprog in F. congruence. }
    assert (inL n ((c :: r) ++ t) = false) as F2.
    { destruct (inL n ((c :: r) ++ t)) eqn:F; auto. apply inL_inprog in F.
      rewrite (attempt_failed_app (c :: r) t ltac:(discriminate) E) in F. discriminate. }
    rewrite F1, F2.
    rewrite (IH r ltac:(cbn; lia) (wb_tail _ _ _ W)).
    destruct (scanh n r) as [v h]. destruct (scanh n (h ++ t)) as [v2 h2]. reflexivity.
  - rewrite (scanh_cons n c r), E, (wb_inprog n (c :: r) t W E).
    destruct (scanh n ((c :: r) ++ t)); reflexivity.
Qed.

Lemma scanh_split n (s : bytes) : exists m, s = m ++ snd (scanh n s).
Proof.
  induction s as [s IH] using len_ind. destruct s as [|c r]; [exists []; reflexivity|].
  rewrite scanh_cons. destruct (attempt (c :: r)) eqn:E.
  - destruct (attempt_matched _ _ E) as (m & Hm & _ & _).
    destruct (IH rest (attempt_matched_len _ _ E)) as (m' & Hm'). exists (m ++ m').
    rewrite <- app_assoc, <- Hm'. exact Hm.
  - destruct (inL n (c :: r)); [exists []; reflexivity|].
    destruct (IH r ltac:(cbn; lia)) as (m' & Hm'). destruct (scanh n r) as [a h]. cbn [snd] in *.
    exists (c :: m'). cbn. f_equal. exact Hm'.
  - destruct (inL n (c :: r)); [exists []; reflexivity|].
    destruct (IH r ltac:(cbn; lia)) as (m' & Hm'). destruct (scanh n r) as [a h]. cbn [snd] in *.
    exists (c :: m'). cbn. f_equal. exact Hm'.
Qed.

(* ========================================================================================== *)
(* 6. read() over a chunk list = the walk over the concatenated stream                          *)
(* ========================================================================================== *)
Definition held_ok (n : nat) (h : bytes) : Prop := h = [] \/ inL n h = true.

Lemma scanh_held n (h : bytes) : held_ok n h -> scanh n h = ([], h).
Proof.
  intros [->|H]; [reflexivity|]. destruct h as [|c r]; [reflexivity|].
  rewrite scanh_cons, (inL_inprog _ _ H), H. reflexivity.
Qed.

Lemma scanh_held_ok n (s : bytes) : held_ok n (snd (scanh n s)).
Proof.
  induction s as [s IH] using len_ind. destruct s as [|c r]; [left; reflexivity|].
  rewrite scanh_cons. destruct (attempt (c :: r)) eqn:E.
  - apply IH. eapply attempt_matched_len; eauto.
  - destruct (inL n (c :: r)) eqn:F; [right; exact F|].
    specialize (IH r ltac:(cbn; lia)). destruct (scanh n r). exact IH.
  - destruct (inL n (c :: r)) eqn:F; [right; exact F|].
    specialize (IH r ltac:(cbn; lia)). destruct (scanh n r). exact IH.
Qed.

Lemma strip_noprefix (a : bytes) : (forall c, In c a -> is_pfx c = false) -> strip a = a.
Proof.
  induction a as [|c r IH]; intros H; [reflexivity|].
  rewrite strip_cons. cbn [attempt]. rewrite (H c (or_introl eq_refl)). f_equal.
  apply IH. intros x Hx. apply H. right. exact Hx.
Qed.

Lemma mem_false_notin c (a : bytes) : mem c a = false -> ~ In c a.
Proof.
  unfold mem. intros H Hin. assert (existsb (N.eqb c) a = true); [|congruence].
  apply existsb_exists. exists c. split; auto. apply N.eqb_refl.
Qed.

Lemma read_step_scanh n h c t :
  wb n (h ++ rm_cr c ++ t) = true ->
  read_step n h c = (snd (scanh n (h ++ rm_cr c)), fst (scanh n (h ++ rm_cr c))).
Proof.
  intros W. unfold read_step.
  pose proof (hold_scanh n (h ++ rm_cr c)) as [H1 H2].
  pose proof (hold_back_split n (h ++ rm_cr c)) as SP.
  destruct (hold_back n (h ++ rm_cr c)) as [a h']. cbn [fst snd] in *.
  rewrite <- H2. f_equal. rewrite <- H1.
  destruct (mem 27 a) eqn:M; [reflexivity|].
  symmetry. apply strip_noprefix. intros x Hx.
  destruct (is_pfx x) eqn:P; auto. exfalso.
  assert (x = 27) as ->.
  { apply (wb_no_c1 n _ W); auto. rewrite app_assoc, <- SP. apply in_or_app. left. apply in_or_app. left. exact Hx. }
  apply (mem_false_notin _ _ M). exact Hx.
Qed.

Theorem reads_stream n : forall cs h,
  held_ok n h -> wb n (h ++ rm_cr (concat cs)) = true ->
  concat (snd (reads n h cs)) = fst (scanh n (h ++ rm_cr (concat cs))) /\
  fst (reads n h cs) = snd (scanh n (h ++ rm_cr (concat cs))).
Proof.
  induction cs as [|c r IH]; intros h Hh W.
  - cbn [reads concat fst snd]. unfold rm_cr, remove_byte. cbn [filter]. rewrite app_nil_r.
    rewrite (scanh_held n h Hh). split; reflexivity.
  - cbn [reads concat] in *. rewrite rm_cr_app in *.
    rewrite (read_step_scanh n h c (rm_cr (concat r)) W).
    rewrite app_assoc in *.
    pose proof (scanh_app n (rm_cr (concat r)) (h ++ rm_cr c) W) as A.
    destruct (scanh_split n (h ++ rm_cr c)) as (m & Hm).
    pose proof (scanh_held_ok n (h ++ rm_cr c)) as Hh'.
    destruct (scanh n (h ++ rm_cr c)) as [v h'] eqn:S1. cbn [fst snd] in *.
    assert (wb n (h' ++ rm_cr (concat r)) = true) as W'.
    { rewrite Hm, <- app_assoc in W. eapply wb_suffix; eauto. }
    destruct (IH h' Hh' W') as [I1 I2].
    destruct (reads n h' r) as [hf ps]. cbn [fst snd concat] in *.
    rewrite A. destruct (scanh n (h' ++ rm_cr (concat r))) as [v2 h2]. cbn [fst snd] in *.
    split; congruence.
Qed.

(* chunk independence and CR invariance of read(): what becomes visible and what stays held
   depend only on the stream with its CRs removed *)
Theorem reads_chunk_cr_independent n h cs1 cs2 :
  held_ok n h -> rm_cr (concat cs1) = rm_cr (concat cs2) ->
  wb n (h ++ rm_cr (concat cs1)) = true ->
  concat (snd (reads n h cs1)) = concat (snd (reads n h cs2)) /\
  fst (reads n h cs1) = fst (reads n h cs2).
Proof.
  intros Hh E W.
  destruct (reads_stream n cs1 h Hh W) as [A1 A2].
  rewrite E in W. destruct (reads_stream n cs2 h Hh W) as [B1 B2].
  rewrite E in *. split; congruence.
Qed.

Lemma vis_scanh n h P : vis n h P = fst (scanh n (h ++ rm_cr P)).
Proof. unfold vis. apply hold_scanh. Qed.
Lemma held_scanh n h P : held n h P = snd (scanh n (h ++ rm_cr P)).
Proof. unfold held. apply hold_scanh. Qed.

Lemma wb_at_nil n : wb_at n [] = true.
Proof. reflexivity. Qed.

Lemma wb_app_l n (a : bytes) : forall b, wb n (a ++ b) = true -> wb n a = true.
Proof.
  induction a as [|c a IH]; intros b W; [reflexivity|].
  cbn [app wb] in *. apply andb_prop in W. destruct W as [W1 W2].
  rewrite (IH b W2), andb_true_r.
  unfold wb_at in *. rewrite forallb_forall in *. intros p Hp. apply W1.
  apply in_inits in Hp. destruct Hp as (t & Ht). apply in_inits. exists (t ++ b).
  change (c :: a ++ b) with ((c :: a) ++ b). rewrite Ht, app_assoc. reflexivity.
Qed.

Lemma vis_app n h c P :
  wb n (h ++ rm_cr (c ++ P)) = true ->
  vis n h (c ++ P) = vis n h c ++ vis n (held n h c) P /\
  held n h (c ++ P) = held n (held n h c) P.
Proof.
  intros W. rewrite !vis_scanh, !held_scanh. rewrite rm_cr_app, app_assoc in *.
  rewrite (scanh_app n (rm_cr P) (h ++ rm_cr c) W).
  destruct (scanh n (h ++ rm_cr c)) as [v h']. cbn [fst snd].
  destruct (scanh n (h' ++ rm_cr P)) as [v2 h2]. split; reflexivity.
Qed.

Lemma vis_nil n h : held_ok n h -> vis n h [] = [] /\ held n h [] = h.
Proof.
  intros Hh. rewrite vis_scanh, held_scanh. unfold rm_cr, remove_byte. cbn [filter].
  rewrite app_nil_r, (scanh_held n h Hh). split; reflexivity.
Qed.

Lemma held_held_ok n h P : held_ok n (held n h P).
Proof. rewrite held_scanh. apply scanh_held_ok. Qed.

Lemma wb_held_rest n h c t :
  wb n (h ++ rm_cr (c ++ t)) = true -> wb n (held n h c ++ rm_cr t) = true.
Proof.
  intros W. rewrite rm_cr_app, app_assoc in W. rewrite held_scanh.
  destruct (scanh_split n (h ++ rm_cr c)) as (m & Hm). rewrite Hm, <- app_assoc in W.
  eapply wb_suffix; eauto.
Qed.

Lemma wb_prefix_stream n h P t : wb n (h ++ rm_cr (P ++ t)) = true -> wb n (h ++ rm_cr P) = true.
Proof. rewrite rm_cr_app, app_assoc. apply wb_app_l. Qed.

Lemma read_step_vis n h c t :
  wb n (h ++ rm_cr (c ++ t)) = true -> read_step n h c = (held n h c, vis n h c).
Proof.
  intros W. rewrite rm_cr_app in W. rewrite (read_step_scanh n h c _ W), vis_scanh, held_scanh. reflexivity.
Qed.

(* ========================================================================================== *)
(* 7. the accumulate-and-match loop                                                            *)
(* ========================================================================================== *)
(* canonical form: whatever the chunking, the loop returns the accumulated buffer at a chunk
   boundary where Q holds — a function of the stream prefix read so far — or blocks with all read *)
Theorem rloop_canonical n Q : forall cs h acc,
  held_ok n h -> wb n (h ++ rm_cr (concat cs)) = true ->
  match rloop n Q h acc cs with
  | LDone a h' rest =>
      exists pre, cs = pre ++ rest /\ pre <> [] /\ a = acc ++ vis n h (concat pre) /\
                  h' = held n h (concat pre) /\ Q a = true
  | LBlocks a h' => a = acc ++ vis n h (concat cs) /\ h' = held n h (concat cs)
  end.
Proof.
  induction cs as [|c r IH]; intros h acc Hh W.
  - cbn [rloop concat]. destruct (vis_nil n h Hh) as [-> ->]. rewrite app_nil_r. split; reflexivity.
  - cbn [rloop concat] in *. rewrite (read_step_vis n h c _ W).
    destruct (Q (acc ++ vis n h c)) eqn:EQ.
    + exists [c]. cbn [concat app]. rewrite app_nil_r. repeat split; auto. discriminate.
    + pose proof (IH (held n h c) (acc ++ vis n h c) (held_held_ok n h c) (wb_held_rest n h c _ W)) as I.
      destruct (vis_app n h c (concat r) W) as [V1 V2].
      destruct (rloop n Q (held n h c) (acc ++ vis n h c) r) as [a h' rest|a h'].
      * destruct I as (pre & -> & Hpre & -> & -> & Qa). exists (c :: pre).
        assert (wb n (h ++ rm_cr (c ++ concat pre)) = true) as W2.
        { rewrite concat_app, app_assoc in W. eapply wb_prefix_stream; eauto. }
        destruct (vis_app n h c (concat pre) W2) as [U1 U2].
        cbn [concat app]. rewrite U1, U2, app_assoc. repeat split; auto. discriminate.
      * destruct I as [-> ->]. rewrite V1, V2, app_assoc. split; reflexivity.
Qed.

Definition nonempty (c : bytes) : Prop := c <> [].

Lemma concat_nonempty (cs : list bytes) : Forall nonempty cs -> cs <> [] -> concat cs <> [].
Proof.
  intros F H. destruct cs as [|c r]; [congruence|]. inversion F; subst. cbn.
  destruct c; [unfold nonempty in *; congruence|discriminate].
Qed.

(* decisive stream: Q holds when everything has been read and at no earlier non-empty point.
   Then EVERY chunking returns the same buffer, leaves the same held state and nothing unread. *)
Theorem rloop_decisive n Q : forall cs h acc,
  held_ok n h -> wb n (h ++ rm_cr (concat cs)) = true ->
  Forall nonempty cs -> cs <> [] ->
  (forall P t, concat cs = P ++ t -> P <> [] -> t <> [] -> Q (acc ++ vis n h P) = false) ->
  Q (acc ++ vis n h (concat cs)) = true ->
  rloop n Q h acc cs = LDone (acc ++ vis n h (concat cs)) (held n h (concat cs)) [].
Proof.
  induction cs as [|c r IH]; intros h acc Hh W F NE Hq Hfin; [congruence|].
  inversion F as [|? ? Fc Fr]; subst.
  cbn [rloop concat] in *. rewrite (read_step_vis n h c _ W).
  destruct r as [|c2 r'].
  - cbn [concat] in *. rewrite app_nil_r in *. rewrite Hfin. reflexivity.
  - assert (concat (c2 :: r') <> []) as NE2 by (apply concat_nonempty; auto; discriminate).
    rewrite (Hq c (concat (c2 :: r')) eq_refl Fc NE2).
    destruct (vis_app n h c (concat (c2 :: r')) W) as [V1 V2].
    rewrite V1, V2, app_assoc in *.
    apply IH; auto.
    + apply held_held_ok.
    + apply (wb_held_rest n h c _ W).
    + discriminate.
    + intros P t HP NP Nt.
      assert (wb n (h ++ rm_cr (c ++ P)) = true) as W2.
      { rewrite HP, app_assoc in W. eapply wb_prefix_stream; eauto. }
      destruct (vis_app n h c P W2) as [U1 _].
      rewrite <- app_assoc, <- U1. apply (Hq (c ++ P) t).
      * rewrite HP, app_assoc. reflexivity.
      * destruct c; [unfold nonempty in Fc; congruence|discriminate].
      * exact Nt.
Qed.

(* Q never holds at a non-empty prefix: every chunking blocks after reading everything *)
Theorem rloop_never n Q : forall cs h acc,
  held_ok n h -> wb n (h ++ rm_cr (concat cs)) = true ->
  Forall nonempty cs ->
  (forall P t, concat cs = P ++ t -> P <> [] -> Q (acc ++ vis n h P) = false) ->
  rloop n Q h acc cs = LBlocks (acc ++ vis n h (concat cs)) (held n h (concat cs)).
Proof.
  induction cs as [|c r IH]; intros h acc Hh W F Hq.
  - cbn [rloop concat]. destruct (vis_nil n h Hh) as [-> ->]. rewrite app_nil_r. reflexivity.
  - inversion F as [|? ? Fc Fr]; subst.
    cbn [rloop concat] in *. rewrite (read_step_vis n h c _ W).
    rewrite (Hq c (concat r) eq_refl Fc).
    destruct (vis_app n h c (concat r) W) as [V1 V2].
    rewrite V1, V2, app_assoc.
    apply IH; auto.
    + apply held_held_ok.
    + apply (wb_held_rest n h c _ W).
    + intros P t HP NP.
      assert (wb n (h ++ rm_cr (c ++ P)) = true) as W2.
      { rewrite HP, app_assoc in W. eapply wb_prefix_stream; eauto. }
      destruct (vis_app n h c P W2) as [U1 _].
      rewrite <- app_assoc, <- U1. apply (Hq (c ++ P) t).
      * rewrite HP, app_assoc. reflexivity.
      * destruct c; [unfold nonempty in Fc; congruence|discriminate].
Qed.

(* chunk independence of one loop (results, held state, completion), for every pair of chunkings *)
Theorem rloop_chunk_independent n Q h acc cs1 cs2 :
  held_ok n h -> concat cs1 = concat cs2 -> wb n (h ++ rm_cr (concat cs1)) = true ->
  Forall nonempty cs1 -> Forall nonempty cs2 ->
  (forall P t, concat cs1 = P ++ t -> P <> [] -> t <> [] -> Q (acc ++ vis n h P) = false) ->
  rloop n Q h acc cs1 = rloop n Q h acc cs2.
Proof.
  intros Hh E W F1 F2 Hq.
  destruct (Q (acc ++ vis n h (concat cs1))) eqn:Hfin.
  - destruct cs1 as [|c1 r1].
    + cbn in E. destruct cs2 as [|c2 r2]; [reflexivity|]. exfalso.
      symmetry in E. revert E. apply concat_nonempty; auto. discriminate.
    + assert (cs2 <> []) as N2.
      { intros ->. revert E. change (@concat N []) with (@nil N). apply concat_nonempty; auto. discriminate. }
      rewrite (rloop_decisive n Q (c1 :: r1) h acc Hh W F1 ltac:(discriminate) Hq Hfin).
      rewrite E in *. rewrite (rloop_decisive n Q cs2 h acc Hh W F2 N2 Hq Hfin). reflexivity.
  - assert (forall P t, concat cs1 = P ++ t -> P <> [] -> Q (acc ++ vis n h P) = false) as Hq'.
    { intros P t HP NP. destruct t as [|x t']; [|apply (Hq P (x :: t')); auto; discriminate].
      rewrite app_nil_r in HP. rewrite <- HP. exact Hfin. }
    rewrite (rloop_never n Q cs1 h acc Hh W F1 Hq').
    rewrite E in *. rewrite (rloop_never n Q cs2 h acc Hh W F2 Hq'). reflexivity.
Qed.

(* monotone predicates (the echo tests): completion never depends on the chunking *)
Definition monotone (Q : bytes -> bool) : Prop := forall a x, Q a = true -> Q (a ++ x) = true.

Definition completes (r : lres) : bool := match r with LDone _ _ _ => true | LBlocks _ _ => false end.

Lemma rloop_mono_completes n Q : monotone Q -> forall cs h acc,
  held_ok n h -> wb n (h ++ rm_cr (concat cs)) = true -> cs <> [] ->
  completes (rloop n Q h acc cs) = Q (acc ++ vis n h (concat cs)).
Proof.
  intros M. induction cs as [|c r IH]; intros h acc Hh W NE; [congruence|].
  cbn [rloop concat] in *. rewrite (read_step_vis n h c _ W).
  destruct (vis_app n h c (concat r) W) as [V1 V2]. rewrite V1, app_assoc.
  destruct (Q (acc ++ vis n h c)) eqn:EQ.
  - cbn. symmetry. apply M. exact EQ.
  - destruct r as [|c2 r'].
    + cbn [rloop concat completes]. destruct (vis_nil n _ (held_held_ok n h c)) as [-> _].
      rewrite app_nil_r. auto.
    + apply IH; [apply held_held_ok | apply (wb_held_rest n h c _ W) | discriminate].
Qed.

Theorem rloop_mono_chunk_independent n Q h acc cs1 cs2 :
  monotone Q -> held_ok n h -> concat cs1 = concat cs2 ->
  wb n (h ++ rm_cr (concat cs1)) = true -> cs1 <> [] -> cs2 <> [] ->
  completes (rloop n Q h acc cs1) = completes (rloop n Q h acc cs2).
Proof.
  intros M Hh E W N1 N2.
  rewrite (rloop_mono_completes n Q M cs1 h acc Hh W N1).
  rewrite E in *. rewrite (rloop_mono_completes n Q M cs2 h acc Hh W N2). reflexivity.
Qed.

(* ========================================================================================== *)
(* 8. programs against a device under a read schedule                                          *)
(* ========================================================================================== *)
Lemma take_spec sched x (p0 : bytes) c rest s' :
  take sched (x :: p0) = (c, rest, s') -> c ++ rest = x :: p0 /\ c <> [].
Proof.
  unfold take. destruct sched as [|k s2].
  - intros [= <- <- <-]. rewrite app_nil_r. split; [reflexivity|discriminate].
  - destruct k as [|k].
    + intros [= <- <- <-]. rewrite app_nil_r. split; [reflexivity|discriminate].
    + intros [= <- <- <-]. split; [apply (firstn_skipn (S k) (x :: p0))|]. cbn. discriminate.
Qed.

Lemma run_until_rloop n Q : forall fuel h acc pend sched,
  (length pend <= fuel)%nat ->
  exists cs, concat cs = pend /\ Forall nonempty cs /\ (pend <> [] -> cs <> []) /\
    match run_until fuel n Q h acc pend sched with
    | UDone a h' pend' s' => exists rest, rloop n Q h acc cs = LDone a h' rest /\ concat rest = pend'
    | UBlocks a h' => rloop n Q h acc cs = LBlocks a h'
    end.
Proof.
  induction fuel as [|f IH]; intros h acc pend sched L.
  - destruct pend; [|cbn in L; lia]. exists []. repeat split; auto. 
  - destruct pend as [|x p0].
    { exists []. repeat split; auto. }
    cbn [run_until].
    destruct (take sched (x :: p0)) as [[c rest] s'] eqn:T.
    destruct (take_spec _ _ _ _ _ _ T) as [Hc Nc].
    assert (length rest <= f)%nat as L'.
    { assert (length (c ++ rest) = length (x :: p0)) as E by (rewrite Hc; reflexivity).
      rewrite app_length in E. destruct c; [congruence|]. cbn [length] in *. lia. }
    destruct (read_step n h c) as [h' p] eqn:R.
    destruct (IH h' (acc ++ p) rest s' L') as (cs & C1 & C2 & C3 & C4).
    exists (c :: cs). cbn [concat rloop]. rewrite R, C1, Hc.
    repeat split; auto; try discriminate.
    destruct (Q (acc ++ p)) eqn:EQ.
    + exists cs. split; auto.
    + exact C4.
Qed.

Lemma quiet_before_spec n Q h acc pend :
  quiet_before n Q h acc pend = true ->
  forall P t, pend = P ++ t -> P <> [] -> t <> [] -> Q (acc ++ vis n h P) = false.
Proof.
  unfold quiet_before. rewrite forallb_forall. intros H P t E NP Nt.
  specialize (H P). destruct P as [|c P']; [congruence|].
  assert (Nat.eqb (length (c :: P')) (length pend) = false) as NL.
  { apply Nat.eqb_neq. rewrite E, app_length. destruct t; [congruence|]. cbn [length]. lia. }
  rewrite NL in H. cbn [orb] in H. apply negb_true_iff. apply H.
  apply in_inits. exists t. exact E.
Qed.

Section ExecProofs.
  Variable D : Type.
  Variable feed : D -> bytes -> D * bytes.

  (* under the side condition, the run of a program — result, write log, device state, what is
     left unread and held, completion — is the same for EVERY read schedule *)
  Theorem exec_tidy n : forall p d pend h sched ws,
    held_ok n h -> tidy D feed n p d pend h = true ->
    exec D feed n p d pend h sched ws = exec D feed n p d pend h [] ws.
  Proof.
    induction p as [r|e|b k IH|Q acc k IH]; intros d pend h sched ws Hh T.
    - reflexivity.
    - reflexivity.
    - cbn [exec tidy] in *. destruct (feed d b) as [d' resp]. apply IH; auto.
    - cbn [exec tidy] in *.
      destruct pend as [|x p0]; [reflexivity|].
      apply andb_prop in T. destruct T as [T T3]. apply andb_prop in T. destruct T as [W T2].
      pose proof (quiet_before_spec _ _ _ _ _ T2) as Hq.
      set (pend := x :: p0) in *.
      assert (forall s, exists cs, concat cs = pend /\ Forall nonempty cs /\ cs <> [] /\
                match run_until (length pend) n Q h acc pend s with
                | UDone a h' pend' s' => exists rest, rloop n Q h acc cs = LDone a h' rest /\ concat rest = pend'
                | UBlocks a h' => rloop n Q h acc cs = LBlocks a h'
                end) as RU.
      { intros s. destruct (run_until_rloop n Q (length pend) h acc pend s (le_n _)) as (cs & C1 & C2 & C3 & C4).
        exists cs. repeat split; auto. apply C3. discriminate. }
      unfold Qat in T3.
      destruct (Q (acc ++ vis n h pend)) eqn:Hfin.
      + (* decisive *)
        assert (forall s, exists s', run_until (length pend) n Q h acc pend s =
                  UDone (acc ++ vis n h pend) (held n h pend) [] s') as RD.
        { intros s. destruct (RU s) as (cs & C1 & C2 & C3 & C4).
          rewrite <- C1 in W, Hq, Hfin.
          pose proof (rloop_decisive n Q cs h acc Hh W C2 C3 Hq Hfin) as RL.
          rewrite C1 in RL.
          destruct (run_until (length pend) n Q h acc pend s) as [a h' pend' s'|a h'].
          - destruct C4 as (rest & C4 & C5). rewrite RL in C4. injection C4 as <- <- <-.
            cbn in C5. subst pend'. exists s'. reflexivity.
          - rewrite RL in C4. discriminate. }
        destruct (RD sched) as (s1 & ->). destruct (RD []) as (s2 & ->).
        rewrite (IH _ d [] (held n h pend) s1 ws (held_held_ok n h pend) T3).
        rewrite (IH _ d [] (held n h pend) s2 ws (held_held_ok n h pend) T3). reflexivity.
      + (* never *)
        assert (forall P t, pend = P ++ t -> P <> [] -> Q (acc ++ vis n h P) = false) as Hq'.
        { intros P t HP NP. destruct t as [|y t']; [|apply (Hq P (y :: t')); auto; discriminate].
          rewrite app_nil_r in HP. rewrite <- HP. exact Hfin. }
        assert (forall s, run_until (length pend) n Q h acc pend s =
                  UBlocks (acc ++ vis n h pend) (held n h pend)) as RB.
        { intros s. destruct (RU s) as (cs & C1 & C2 & C3 & C4).
          rewrite <- C1 in W, Hq'.
          pose proof (rloop_never n Q cs h acc Hh W C2 Hq') as RL. rewrite C1 in RL.
          destruct (run_until (length pend) n Q h acc pend s) as [a h' pend' s'|a h'].
          - destruct C4 as (rest & C4 & C5). rewrite RL in C4. discriminate.
          - rewrite RL in C4. injection C4 as <- <-. reflexivity. }
        rewrite (RB sched), (RB []). reflexivity.
  Qed.

  Corollary exec_schedule_independent n p d pend h s1 s2 ws :
    held_ok n h -> tidy D feed n p d pend h = true ->
    exec D feed n p d pend h s1 ws = exec D feed n p d pend h s2 ws.
  Proof.
    intros Hh T. rewrite (exec_tidy n p d pend h s1 ws Hh T), (exec_tidy n p d pend h s2 ws Hh T). reflexivity.
  Qed.
End ExecProofs.

(* ========================================================================================== *)
(* 9. rough matching = subsequence; the echo tests are monotone                                 *)
(* ========================================================================================== *)
Lemma rough_iter_subseqb : forall o i, rough_iter i o = subseqb i o.
Proof.
  induction o as [|y o IH]; intros [|c i]; cbn; auto.
  destruct (c =? y); auto. rewrite <- IH. reflexivity.
Qed.

Lemma subseqb_weaken : forall o,
  (forall y i, subseqb i o = true -> subseqb i (y :: o) = true) /\
  (forall c i, subseqb (c :: i) o = true -> subseqb i o = true).
Proof.
  induction o as [|z o [IH1 IH2]].
  - split.
    + intros y [|c i] H; [reflexivity|discriminate].
    + intros c i H. discriminate.
  - assert (forall c i, subseqb (c :: i) (z :: o) = true -> subseqb i (z :: o) = true) as T.
    { intros c i H. cbn [subseqb] in H. destruct (c =? z).
      - apply IH1. exact H.
      - apply IH1. eapply IH2. exact H. }
    split; [|exact T].
    intros y [|c i] H; [reflexivity|].
    change (subseqb (c :: i) (y :: z :: o)) with
      (if c =? y then subseqb i (z :: o) else subseqb (c :: i) (z :: o)).
    destruct (c =? y); [|exact H]. eapply T. exact H.
Qed.

Lemma subseqb_cons_r y o i : subseqb i o = true -> subseqb i (y :: o) = true.
Proof. apply subseqb_weaken. Qed.

Lemma prefixb_subseqb : forall p s, prefixb p s = true -> subseqb p s = true.
Proof.
  induction p as [|x p IH]; intros [|y s] H; cbn in *; auto; try discriminate.
  apply andb_prop in H. destruct H as [A B]. rewrite A. apply IH. exact B.
Qed.

Lemma infixb_subseqb p : forall s, infixb p s = true -> subseqb p s = true.
Proof.
  induction s as [|y s IH]; intros H.
  - cbn in H. rewrite orb_false_r in H. apply prefixb_subseqb. exact H.
  - cbn [infixb] in H. apply orb_prop in H. destruct H as [H|H].
    + apply prefixb_subseqb. exact H.
    + apply subseqb_cons_r. apply IH. exact H.
Qed.

Lemma subseqb_len : forall o i, subseqb i o = true -> (length i <= length o)%nat.
Proof.
  induction o as [|y o IH]; intros [|c i] H; cbn in *; try lia; try discriminate.
  destruct (c =? y).
  - apply IH in H. lia.
  - apply IH in H. cbn in H. lia.
Qed.

Theorem roughly_spec i o : roughly i o = subseqb i o.
Proof.
  unfold roughly. destruct (infixb i o) eqn:E.
  - symmetry. apply infixb_subseqb. exact E.
  - destruct (Nat.ltb (length o) (length i)) eqn:L.
    + apply Nat.ltb_lt in L. destruct (subseqb i o) eqn:S; auto. apply subseqb_len in S. lia.
    + apply rough_iter_subseqb.
Qed.

Lemma subseqb_subseq : forall o i, subseqb i o = true <-> subseq i o.
Proof.
  induction o as [|y o IH]; intros i.
  - destruct i; cbn; split; intros H; try constructor; try discriminate. inversion H.
  - destruct i as [|c i]; [split; intros; [constructor|reflexivity]|].
    cbn [subseqb]. destruct (c =? y) eqn:E.
    + apply N.eqb_eq in E. subst y. split; intros H.
      * constructor. apply IH. exact H.
      * apply IH. inversion H; subst; auto.
        (* skipped c although equal: subseq (c::i) o -> subseq i o *)
        clear -H2. remember (c :: i) as l. revert c i Heql.
        induction H2; intros; try discriminate.
        -- injection Heql as -> ->. constructor. exact H2.
        -- constructor. eapply IHsubseq; eauto.
    + apply N.eqb_neq in E. split; intros H.
      * constructor. apply IH. exact H.
      * apply IH. inversion H; subst; auto. congruence.
Qed.

Theorem roughly_subseq i o : roughly i o = true <-> subseq i o.
Proof. rewrite roughly_spec. apply subseqb_subseq. Qed.

Lemma subseqb_app_r x : forall a i, subseqb i a = true -> subseqb i (a ++ x) = true.
Proof.
  induction a as [|y a IH]; intros [|c i] H; cbn in *; auto; try discriminate.
  - destruct x; reflexivity.
  - destruct (c =? y); apply IH; exact H.
Qed.

Lemma prefixb_app_r x : forall p a, prefixb p a = true -> prefixb p (a ++ x) = true.
Proof.
  induction p as [|c p IH]; intros [|y a] H; cbn in *; auto; try discriminate.
  apply andb_prop in H. destruct H as [A B]. rewrite A. apply IH. exact B.
Qed.

Lemma infixb_app_r p x : forall a, infixb p a = true -> infixb p (a ++ x) = true.
Proof.
  induction a as [|y a IH]; intros H.
  - cbn in H. rewrite orb_false_r in H. destruct p; [destruct x; reflexivity|discriminate].
  - cbn [infixb app] in *. apply orb_prop in H. destruct H as [H|H].
    + pose proof (prefixb_app_r x _ _ H) as H'. cbn [app] in H'. rewrite H'. reflexivity.
    + rewrite (IH H). apply orb_true_r.
Qed.

Theorem roughly_monotone i : monotone (roughly i).
Proof. intros a x H. rewrite roughly_spec in *. apply subseqb_app_r. exact H. Qed.

Theorem Q_rough_monotone pin : monotone (Q_rough pin).
Proof.
  intros a x H. unfold Q_rough, lower in *. rewrite map_app. apply roughly_monotone. exact H.
Qed.

Theorem Q_strict_monotone pin : monotone (Q_strict pin).
Proof.
  intros a x H. unfold Q_strict, squash_ws, remove_byte, lower in *.
  rewrite map_app, !filter_app. apply infixb_app_r. exact H.
Qed.

Theorem Q_echo_monotone c inp : monotone (Q_echo c inp).
Proof. unfold Q_echo. destruct (c_rough c); [apply Q_rough_monotone|apply Q_strict_monotone]. Qed.

(* ========================================================================================== *)
(* 10. decorated streams: stripping removes exactly the inserted sequences                      *)
(* ========================================================================================== *)
Lemma csi_run p f rest :
  forallb par_csi p = true -> is_fin f = true -> csi (p ++ f :: rest) = Matched rest.
Proof.
  induction p as [|c p IH]; intros H F; cbn [app csi].
  - rewrite F. reflexivity.
  - cbn [forallb] in H. apply andb_prop in H. destruct H as [A B].
    unfold par_csi in A. apply andb_prop in A. destruct A as [A1 A2]. apply negb_true_iff in A1, A2.
    rewrite A1, A2. apply IH; auto.
Qed.

Lemma osc_run t rest : forallb par_osc t = true -> osc (t ++ 7 :: rest) = Matched rest.
Proof.
  induction t as [|c t IH]; intros H; cbn [app osc].
  - reflexivity.
  - cbn [forallb] in H. apply andb_prop in H. destruct H as [A B].
    unfold par_osc in A. apply andb_prop in A. destruct A as [A1 A2]. apply negb_true_iff in A1, A2.
    rewrite A1, A2. apply IH; auto.
Qed.

Lemma is_cur_cases c : is_cur c = true -> c = 55 \/ c = 56 \/ c = 77 \/ c = 69.
Proof.
  unfold is_cur. intros H. repeat (apply orb_prop in H; destruct H as [H|H]); apply N.eqb_eq in H; auto.
Qed.

Lemma forallb_and {A} (f g : A -> bool) l :
  forallb (fun c => f c && g c) l = true -> forallb f l = true /\ forallb g l = true.
Proof.
  induction l as [|x l IH]; cbn; auto. intros H. apply andb_prop in H. destruct H as [H1 H2].
  apply andb_prop in H1. destruct H1 as [Hf Hg]. destruct (IH H2) as [C D]. rewrite Hf, Hg, C, D. auto.
Qed.

Lemma seq_attempt n q rest : seq_ok n q = true -> attempt (seq_bytes q ++ rest) = Matched rest.
Proof.
  destruct q as [p f|d t|c]; cbn [seq_ok seq_bytes]; intros H.
  - apply andb_prop in H. destruct H as [H L]. apply andb_prop in H. destruct H as [P F].
    apply forallb_and in P. destruct P as [P _].
    cbn [app]. change (attempt (27 :: 91 :: (p ++ [f]) ++ rest)) with (csi ((p ++ [f]) ++ rest)).
    rewrite <- app_assoc. apply csi_run; auto.
  - apply andb_prop in H. destruct H as [H L]. apply andb_prop in H. destruct H as [Dg P].
    apply forallb_and in P. destruct P as [P _].
    cbn [app].
    change (attempt (27 :: 93 :: d :: (t ++ [7]) ++ rest)) with
      (if is_digit d then osc ((t ++ [7]) ++ rest) else Failed).
    rewrite Dg, <- app_assoc. apply osc_run; auto.
  - destruct (is_cur_cases c H) as [ -> | [ -> | [ -> | -> ] ] ]; reflexivity.
Qed.

Theorem strip_decorated n ts : forallb (tok_ok n) ts = true -> strip (stream ts) = plain ts.
Proof.
  induction ts as [|t ts IH]; intros H; [reflexivity|].
  cbn [forallb] in H. apply andb_prop in H. destruct H as [A B].
  unfold stream, plain in *. cbn [map concat].
  destruct t as [c|q]; cbn [tok_ok tok_bytes tok_plain] in *.
  - cbn [app]. rewrite strip_cons. cbn [attempt].
    unfold plain_byte in A. apply negb_true_iff in A. rewrite A. f_equal. apply IH; auto.
  - pose proof (seq_attempt n q (concat (map tok_bytes ts)) A) as M.
    destruct (seq_bytes q ++ concat (map tok_bytes ts)) as [|c r] eqn:E.
    { destruct q; discriminate. }
    rewrite strip_cons, M. cbn [app]. apply IH; auto.
Qed.

(* ---- a decorated stream is well-bounded: every sequence has at most n parameter bytes ---- *)
Lemma wb_of_suffixes n (s : bytes) : (forall a b, s = a ++ b -> wb_at n b = true) -> wb n s = true.
Proof.
  induction s as [|c r IH]; intros H.
  - reflexivity.
  - cbn [wb]. rewrite (H [] (c :: r) eq_refl). cbn [andb]. apply IH.
    intros a b E. apply (H (c :: a) b). rewrite E. reflexivity.
Qed.

Lemma wb_at_plain n c r : is_pfx c = false -> wb_at n (c :: r) = true.
Proof.
  intros P. unfold wb_at. rewrite forallb_forall. intros p Hp. apply in_inits in Hp.
  destruct Hp as (t & Ht). destruct p as [|c' p']; [reflexivity|].
  cbn in Ht. injection Ht as <- _. cbn [attempt]. rewrite P. reflexivity.
Qed.

Lemma all_le_of n P (x : bytes) : forallb P x = true -> (length x <= n)%nat -> all_le P n x = true.
Proof.
  revert x. induction n as [|n IH]; intros [|c r] H L; cbn in *; auto; try lia.
  apply andb_prop in H. destruct H as [A B]. rewrite A. apply IH; auto. lia.
Qed.

Lemma forallb_prefix {A} (f : A -> bool) (p t : list A) : forallb f (p ++ t) = true -> forallb f p = true.
Proof. rewrite forallb_app. intros H. apply andb_prop in H. apply H. Qed.

Lemma prefix_app_cases (p x rest : bytes) : (exists t, x ++ rest = p ++ t) ->
  (exists t, x = p ++ t /\ t <> []) \/ (exists y, p = x ++ y).
Proof.
  intros (t & E). apply app_eq_app in E. destruct E as (l & [[E1 E2]|[E1 E2]]).
  - destruct l as [|a l]; [right; exists []; rewrite app_nil_r in *; auto|].
    left. exists (a :: l). split; auto. discriminate.
  - right. exists l. exact E1.
Qed.

(* every proper prefix of a well-formed sequence that is "in progress" is a start that is held back *)
Lemma seq_prefix_ok n q p t :
  seq_ok n q = true -> seq_bytes q = p ++ t -> t <> [] ->
  match attempt p with InProg => inL n p | _ => true end = true.
Proof.
  intros H E Nt. destruct p as [|a p]; [reflexivity|].
  destruct q as [ps f|d tx|c]; cbn [seq_ok seq_bytes] in *.
  - apply andb_prop in H. destruct H as [H L]. apply andb_prop in H. destruct H as [P F].
    apply forallb_and in P. destruct P as [P _]. apply Nat.leb_le in L.
    cbn [app] in E. injection E as <- E. destruct p as [|b p]; [reflexivity|].
    injection E as <- E.
    assert (exists t', ps = p ++ t') as (t' & ->).
    { apply app_eq_app in E. destruct E as (l & [[E1 E2]|[E1 E2]]).
      - exists l. exact E1.
      - destruct l as [|x l]; [exists []; rewrite app_nil_r in *; auto|].
        exfalso. destruct l; [|destruct l; discriminate]. cbn in E2. injection E2 as _ E2. subst t. congruence. }
    assert (all_le par_csi n p = true) as AL.
    { apply all_le_of; [eapply forallb_prefix; eauto|]. rewrite app_length in L. lia. }
    assert (inL n (27 :: 91 :: p) = true) as IL by exact AL.
    rewrite IL. destruct (attempt (27 :: 91 :: p)); reflexivity.
  - apply andb_prop in H. destruct H as [H L]. apply andb_prop in H. destruct H as [Dg P].
    apply forallb_and in P. destruct P as [P _]. apply Nat.leb_le in L.
    cbn [app] in E. injection E as <- E. destruct p as [|b p]; [reflexivity|].
    injection E as <- E. destruct p as [|b p]; [reflexivity|].
    injection E as <- E.
    assert (exists t', tx = p ++ t') as (t' & ->).
    { apply app_eq_app in E. destruct E as (l & [[E1 E2]|[E1 E2]]).
      - exists l. exact E1.
      - destruct l as [|x l]; [exists []; rewrite app_nil_r in *; auto|].
        exfalso. destruct l; [|destruct l; discriminate]. cbn in E2. injection E2 as _ E2. subst t. congruence. }
    assert (all_le par_osc n p = true) as AL.
    { apply all_le_of; [eapply forallb_prefix; eauto|]. rewrite app_length in L. lia. }
    assert (inL n (27 :: 93 :: d :: p) = true) as IL.
    { cbn [inL inL_alts]. change (27 =? 27) with true. change (is_ws 93) with false.
      change (93 =? 93) with true. cbn [andb]. rewrite Dg, AL. reflexivity. }
    rewrite IL. destruct (attempt (27 :: 93 :: d :: p)); reflexivity.
  - cbn [app] in E. injection E as <- E. destruct p as [|b p]; [reflexivity|].
    injection E as <- E. destruct p; [|discriminate]. cbn in E. subst t. congruence.
Qed.

Lemma wb_at_seq n q rest : seq_ok n q = true -> wb_at n (seq_bytes q ++ rest) = true.
Proof.
  intros H. unfold wb_at. rewrite forallb_forall. intros p Hp. apply in_inits in Hp.
  destruct (prefix_app_cases p (seq_bytes q) rest Hp) as [(t & E & Nt)|(y & ->)].
  - eapply seq_prefix_ok; eauto.
  - rewrite (seq_attempt n q y H). reflexivity.
Qed.

Lemma seq_tail_plain n q : seq_ok n q = true ->
  forall a b, seq_bytes q = a ++ b -> a <> [] -> b = [] \/ exists c r, b = c :: r /\ is_pfx c = false.
Proof.
  intros H a b E Na.
  assert (forallb plain_byte (tl (seq_bytes q)) = true) as T.
  { destruct q as [ps f|d tx|c]; cbn [seq_ok seq_bytes tl] in *.
    - apply andb_prop in H. destruct H as [H L]. apply andb_prop in H. destruct H as [P F].
      apply forallb_and in P. destruct P as [_ P]. cbn [forallb]. rewrite forallb_app, P. cbn.
      unfold plain_byte, is_pfx, is_fin in *. apply andb_prop in F. destruct F as [F1 F2].
      apply N.leb_le in F1, F2. rewrite andb_true_r. apply negb_true_iff.
      repeat (apply orb_false_intro); apply N.eqb_neq; lia.
    - apply andb_prop in H. destruct H as [H L]. apply andb_prop in H. destruct H as [Dg P].
      apply forallb_and in P. destruct P as [_ P]. cbn [forallb]. rewrite forallb_app, P. cbn.
      unfold plain_byte, is_pfx, is_digit in *. apply andb_prop in Dg. destruct Dg as [F1 F2].
      apply N.leb_le in F1, F2. rewrite andb_true_r. apply negb_true_iff.
      repeat (apply orb_false_intro); apply N.eqb_neq; lia.
    - destruct (is_cur_cases c H) as [ -> | [ -> | [ -> | -> ] ] ]; reflexivity. }
  destruct a as [|x a]; [congruence|].
  destruct (seq_bytes q) as [|z s]; [discriminate|]. cbn [tl] in T. injection E as -> ->.
  rewrite forallb_app in T. apply andb_prop in T. destruct T as [_ T].
  destruct b as [|c r]; [left; reflexivity|right]. exists c, r. split; auto.
  cbn [forallb] in T. apply andb_prop in T. destruct T as [T _]. apply negb_true_iff. exact T.
Qed.

Lemma stream_suffix n : forall ts a b,
  forallb (tok_ok n) ts = true -> stream ts = a ++ b ->
  b = [] \/ (exists c r, b = c :: r /\ is_pfx c = false) \/
  (exists q rest, seq_ok n q = true /\ b = seq_bytes q ++ rest).
Proof.
  induction ts as [|t ts IH]; intros a b H E.
  - left. unfold stream in E. cbn in E. symmetry in E. apply app_eq_nil in E. apply E.
  - cbn [forallb] in H. apply andb_prop in H. destruct H as [A B].
    unfold stream in *. cbn [map concat] in E.
    apply app_eq_app in E. destruct E as (l & [[E1 E2]|[E1 E2]]); [|eapply IH; eauto].
    + (* tok_bytes t = a ++ l, b = l ++ rest *)
      destruct l as [|x l].
      { cbn in E2. subst b. apply (IH [] _ B). reflexivity. }
      destruct t as [c|q]; cbn [tok_ok tok_bytes] in *.
      * destruct a as [|y a]; [|destruct a; discriminate].
        cbn in E1. injection E1 as <- <-. right. left. exists c, (concat (map tok_bytes ts)).
        split; [rewrite E2; reflexivity|]. apply negb_true_iff. exact A.
      * destruct a as [|y a].
        -- cbn in E1. subst b. right. right. exists q, (concat (map tok_bytes ts)). split; auto.
           rewrite E1. reflexivity.
        -- destruct (seq_tail_plain n q A (y :: a) (x :: l) E1 ltac:(discriminate)) as [F|(c & r & F1 & F2)];
             [discriminate|].
           injection F1 as -> ->. right. left. exists c, (r ++ concat (map tok_bytes ts)).
           split; [rewrite E2; reflexivity | exact F2].
Qed.

Theorem wb_decorated n ts : forallb (tok_ok n) ts = true -> wb n (stream ts) = true.
Proof.
  intros H. apply wb_of_suffixes. intros a b E.
  destruct (stream_suffix n ts a b H E) as [->|[(c & r & -> & P)|(q & rest & Q & ->)]].
  - reflexivity.
  - apply wb_at_plain. exact P.
  - apply wb_at_seq. exact Q.
Qed.

Lemma scanh_decorated n ts : forallb (tok_ok n) ts = true -> scanh n (stream ts) = (plain ts, []).
Proof.
  induction ts as [|t ts IH]; intros H; [reflexivity|].
  cbn [forallb] in H. apply andb_prop in H. destruct H as [A B].
  unfold stream, plain in *. cbn [map concat].
  destruct t as [c|q]; cbn [tok_ok tok_bytes tok_plain] in *.
  - cbn [app]. rewrite scanh_cons. cbn [attempt].
    unfold plain_byte in A. apply negb_true_iff in A. rewrite A.
    assert (inL n (c :: concat (map tok_bytes ts)) = false) as F.
    { cbn [inL]. unfold is_pfx in A. apply orb_false_elim in A. destruct A as [A _].
      apply orb_false_elim in A. destruct A as [A _]. rewrite A. reflexivity. }
    rewrite F, (IH B). reflexivity.
  - pose proof (seq_attempt n q (concat (map tok_bytes ts)) A) as M.
    destruct (seq_bytes q ++ concat (map tok_bytes ts)) as [|c r] eqn:E.
    { destruct q; discriminate. }
    rewrite scanh_cons, M. cbn [app]. apply IH; auto.
Qed.

(* THE READ LAYER OF C02: a stream of text (no ESC / C1 byte) decorated with well-formed CSI / SGR /
   OSC-title / ESC 7,8,M,E sequences of at most n parameter bytes at any character boundary, with
   CRs inserted anywhere, cut into reads ANYWHERE (inside a sequence included): the concatenation of
   what read() returns is exactly the text, and nothing stays held back. *)
Theorem reads_decorated n ts cs :
  forallb (tok_ok n) ts = true -> rm_cr (concat cs) = stream ts ->
  concat (snd (reads n [] cs)) = plain ts /\ fst (reads n [] cs) = [].
Proof.
  intros H E.
  assert (wb n ([] ++ rm_cr (concat cs)) = true) as W.
  { cbn [app]. rewrite E. apply wb_decorated. exact H. }
  destruct (reads_stream n cs [] (or_introl eq_refl) W) as [A B].
  cbn [app] in *. rewrite E, (scanh_decorated n ts H) in *. split; assumption.
Qed.

(* ========================================================================================== *)
(* 11. refutations: the full statements without the side conditions, and the superseded code    *)
(* ========================================================================================== *)
(* the unconditional statement "per-read stripping = whole-stream stripping" *)
Definition reads_full (n : nat) : Prop :=
  forall cs1 cs2, concat cs1 = concat cs2 ->
    concat (snd (reads n [] cs1)) = concat (snd (reads n [] cs2)).

(* an 8-bit CSI (0x9B) sequence is stripped only when the same read also contains an ESC *)
Theorem reads_full_refuted_c1 : ~ reads_full 64.
Proof.
  intros H. specialize (H [[155; 91; 48; 109; 120; 27; 55]] [[155; 91; 48; 109; 120]; [27; 55]] eq_refl).
  vm_compute in H. discriminate.
Qed.

(* a sequence with more parameter bytes than the hold-back bound, cut beyond the bound *)
Theorem reads_full_refuted_bound : ~ reads_full 64.
Proof.
  intros H.
  specialize (H [27 :: 91 :: repeat 49 70 ++ [109; 120]] [27 :: 91 :: repeat 49 70; [109; 120]] eq_refl).
  vm_compute in H. discriminate.
Qed.

(* the pinned read(): stripping per chunk, no carry-over *)
Theorem old_read_refuted :
  exists cs1 cs2, concat cs1 = concat cs2 /\
    concat (map read_step_old cs1) <> concat (map read_step_old cs2).
Proof. exists [[27; 91; 48; 109; 104; 105]], [[27; 91]; [48; 109; 104; 105]]. split; [reflexivity|]. vm_compute. discriminate. Qed.

(* the first repair (hold back the leftmost possible start): b ESC [ 7 ESC [ x *)
Theorem leftmost_hold_refuted :
  exists ts cs1 cs2, forallb (tok_ok 64) ts = false /\ wb 64 (concat cs1) = true /\ concat cs1 = concat cs2 /\
    concat (snd (reads_with (read_step_leftmost 64) [] cs1)) <> concat (snd (reads_with (read_step_leftmost 64) [] cs2)) /\
    concat (snd (reads 64 [] cs1)) = concat (snd (reads 64 [] cs2)).
Proof.
  exists [TChar 98; TSeq (SCsi [55; 27] 91); TChar 120],
         [[98; 27; 91; 55; 27; 91; 120]], [[98; 27; 91; 55; 27; 91]; [120]].
  repeat split; try reflexivity. vm_compute. discriminate.
Qed.

(* the pinned rough test: true on a partial echo *)
Theorem roughly_old_refuted : exists i o, roughly_old i o = true /\ ~ subseq i o.
Proof.
  exists [115; 104; 111; 119], [115; 104]. split; [reflexivity|].
  intros H. apply subseqb_subseq in H. discriminate.
Qed.

(* one loop, unconditionally: false — a predicate that holds at a proper prefix of the stream and
   not at its end (a prompt-like line prefix) returns early under one chunking and blocks under another *)
Definition rloop_full (n : nat) : Prop :=
  forall Q cs1 cs2, concat cs1 = concat cs2 -> Forall nonempty cs1 -> Forall nonempty cs2 ->
    completes (rloop n Q [] [] cs1) = completes (rloop n Q [] [] cs2).

Theorem rloop_full_refuted : ~ rloop_full 64.
Proof.
  intros H.
  specialize (H (fun acc => beq acc [97; 35]) [[97; 35]; [98]] [[97; 35; 98]] eq_refl).
  assert (completes (rloop 64 (fun acc => beq acc [97; 35]) [] [] [[97; 35]; [98]]) =
          completes (rloop 64 (fun acc => beq acc [97; 35]) [] [] [[97; 35; 98]])) as E.
  { apply H; repeat constructor; discriminate. }
  vm_compute in E. discriminate.
Qed.

(* ========================================================================================== *)
(* 12. non-vacuity: the premises of the theorems above are satisfiable by non-trivial states     *)
(* ========================================================================================== *)
(* comms_prompt_pattern default  ^[a-z0-9.\-@()/:]{1,32}[#>$]$  (re.M | re.I), as gen/regex.py translates it *)
Definition ex_prompt : re :=
  Cat Bol (Cat (Rep (Cls [(40, 41); (45, 58); (64, 90); (97, 122)]) 1%nat (Some 32%nat) true)
               (Cat (Cls [(35, 36); (62, 62)]) Eol)).
Definition ex_cfg (rough : bool) : cfg := mkCfg 64 1000 ex_prompt [10] rough.

(* "sh" ESC[0m "ow" CR LF ESC]0;t BEL "r1#"  — SGR inside the echo, an OSC title before the prompt *)
Definition ex_toks : list tok :=
  [TChar 115; TChar 104; TSeq (SCsi [48] 109); TChar 111; TChar 119; TChar 10;
   TSeq (SOsc 48 [59; 116]); TSeq (SCur 55); TChar 114; TChar 49; TChar 35].

Example ex_decorated_premises :
  forallb (tok_ok 64) ex_toks = true /\
  (* a chunking with cuts inside both sequences and a CR inserted *)
  rm_cr (concat [[115; 104; 27]; [91; 48]; [109; 111; 119; 13; 10; 27; 93; 48; 59]; [116; 7; 27]; [55; 114; 49; 35]]) = stream ex_toks /\
  plain ex_toks = [115; 104; 111; 119; 10; 114; 49; 35].
Proof. repeat split; reflexivity. Qed.

Example ex_decorated_conclusion :
  concat (snd (reads 64 [] [[115; 104; 27]; [91; 48]; [109; 111; 119; 13; 10; 27; 93; 48; 59]; [116; 7; 27]; [55; 114; 49; 35]]))
  = [115; 104; 111; 119; 10; 114; 49; 35].
Proof. apply (reads_decorated 64 ex_toks); reflexivity. Qed.

(* a decisive loop: the prompt test through the search window on  LF "out" LF "r1#" *)
Example ex_decisive :
  let S := [10; 111; 117; 116; 10; 114; 49; 35] in
  let Q := Q_prompt 1000 ex_prompt in
  wb 64 ([] ++ rm_cr S) = true /\
  quiet_before 64 Q [] [] S = true /\ Q ([] ++ vis 64 [] S) = true.
Proof. vm_compute. repeat split; reflexivity. Qed.

(* send_input "show" against a scripted device (echo, then CR LF out CR LF r1#): tidy, hence the same
   outcome under every schedule; the outcome is the expected one *)
Definition ex_dev : list bytes := [[115; 104; 111; 119]; [13; 10; 111; 117; 116; 13; 10; 114; 49; 35]].
Definition ex_prog (rough : bool) : prog := p_send_input (ex_cfg rough) [115; 104; 111; 119] true false false.

Example ex_tidy : tidy (list bytes) script_feed 64 (ex_prog false) ex_dev [] [] = true
               /\ tidy (list bytes) script_feed 64 (ex_prog true) ex_dev [] [] = true.
Proof. vm_compute. split; reflexivity. Qed.

Example ex_outcome :
  exec (list bytes) script_feed 64 (ex_prog false) ex_dev [] [] [1; 2; 1; 3]%nat [] =
  Done (list bytes) [[10; 111; 117; 116; 10; 114; 49; 35]; [111; 117; 116]] [] [] []
       [[115; 104; 111; 119]; [10]].
Proof. vm_compute. reflexivity. Qed.

Example ex_all_schedules s1 s2 :
  exec (list bytes) script_feed 64 (ex_prog true) ex_dev [] [] s1 [] =
  exec (list bytes) script_feed 64 (ex_prog true) ex_dev [] [] s2 [].
Proof. apply exec_schedule_independent; [left; reflexivity | apply ex_tidy]. Qed.

(* get_prompt and an interaction are tidy on their scripted devices too *)
Example ex_tidy_get_prompt :
  tidy (list bytes) script_feed 64 (p_get_prompt (ex_cfg false)) [[13; 10; 114; 49; 35]] [] [] = true.
Proof. vm_compute. reflexivity. Qed.

(* rough matching: extras interleaved before the last character of the echo *)
Example ex_rough_extras :
  Q_rough (proc_input [115; 104; 111; 119]) [115; 8; 32; 115; 104; 72; 111; 42; 119] = true /\
  Q_rough (proc_input [115; 104; 111; 119]) [115; 8; 32; 115; 104; 72; 111; 42] = false.
Proof. split; reflexivity. Qed.

(* ========================================================================================== *)
(* 13. the hand-written walk IS re.sub(ANSI_ESCAPE_PATTERN, b"") as the priority engine runs it   *)
(* ========================================================================================== *)
Definition cs_pfx : cset := [(27, 27); (155, 155); (157, 157)].
Definition cs_ws : cset := [(9, 13); (32, 32)].
Definition cs_cur : cset := [(55, 56); (69, 69); (77, 77)].
Definition cs_dot : cset := [(0, 9); (11, 255)].
Definition cs_fin : cset := [(64, 126)].
Definition re_dots : re := Rep (Cls cs_dot) 0%nat None false.
Definition re_a1 : re := Cls cs_cur.
Definition re_a2 : re := Cat (Cat (Cls [(93, 93)]) (Cls [(48, 57)])) (Cat re_dots (Cls [(7, 7)])).
Definition re_a3 : re := Cat (Cls [(91, 91)]) (Cat re_dots (Cls cs_fin)).
Definition re_a4 : re := Cat (Cls [(91, 91)]) (Cat re_dots (Cat (Cls [(48, 57); (59, 59)]) (Cls [(109, 109)]))).
Definition re_alts : re := Alt re_a1 (Alt re_a2 (Alt re_a3 re_a4)).
Definition re_optws : re := Rep (Cls cs_ws) 0%nat (Some 1%nat) true.
Definition ansi_re : re := Cat (Cls cs_pfx) (Cat re_optws re_alts).

(* the repeat loop of the engine, named *)
Definition rep_go (a : re) (mn : nat) (mx : option nat) (g : bool) (k : cursor -> option cursor) :=
  fix go (fuel : nat) (i : nat) (c : cursor) {struct fuel} : option cursor :=
    match fuel with
    | O => None
    | S f =>
        let more (_ : unit) :=
          if under i mx
          then m a c (fun e => if Nat.ltb (length (snd e)) (length (snd c)) || Nat.ltb i mn
                               then go f (S i) e else None)
          else None in
        let stop (_ : unit) := if Nat.leb mn i then k c else None in
        if g then match more tt with Some e => Some e | None => stop tt end
        else match stop tt with Some e => Some e | None => more tt end
    end.

Lemma m_rep a mn mx g c k :
  m (Rep a mn mx g) c k = rep_go a mn mx g k (S (length (snd c)) + mn)%nat O c.
Proof. reflexivity. Qed.

Lemma m_cls s b x r k : m (Cls s) (b, x :: r) k = if cmem x s then k (x =? 10, r) else None.
Proof. reflexivity. Qed.
Lemma m_cls_nil s b k : m (Cls s) (b, []) k = None.
Proof. reflexivity. Qed.

(* lazy .*? followed by k *)
Fixpoint lazy_star (k : cursor -> option cursor) (b : bool) (s : bytes) : option cursor :=
  match k (b, s) with
  | Some e => Some e
  | None => match s with
            | x :: r => if cmem x cs_dot then lazy_star k (x =? 10) r else None
            | [] => None
            end
  end.

Lemma lazy_go k : forall s f i b, (length s < f)%nat ->
  rep_go (Cls cs_dot) 0 None false k f i (b, s) = lazy_star k b s.
Proof.
  induction s as [|x r IH]; intros f i b L; (destruct f as [|f]; [cbn in L; lia|]).
  - cbn [rep_go lazy_star Nat.leb]. unfold bytes. destruct (k (b, [])); reflexivity.
  - cbn [rep_go lazy_star Nat.leb under]. unfold bytes. destruct (k (b, x :: r)); [reflexivity|].
    rewrite m_cls. destruct (cmem x cs_dot); [|reflexivity].
    cbn [snd length]. replace (Nat.ltb (length r) (S (length r))) with true by (symmetry; apply Nat.ltb_lt; lia).
    cbn [orb]. apply IH. cbn in L. lia.
Qed.

Lemma m_dots b s k : m re_dots (b, s) k = lazy_star k b s.
Proof. unfold re_dots. rewrite m_rep. apply lazy_go. cbn. lia. Qed.

(* greedy (\s)? followed by k *)
Lemma m_optws b s k :
  m re_optws (b, s) k =
  match s with
  | x :: r => if cmem x cs_ws
              then match k (x =? 10, r) with Some e => Some e | None => k (b, s) end
              else k (b, s)
  | [] => k (b, s)
  end.
Proof.
  unfold re_optws. rewrite m_rep. destruct s as [|x r].
  - cbn. unfold bytes. destruct (k (b, [])); reflexivity.
  - cbn [snd length]. replace (S (S (length r)) + 0)%nat with (S (S (length r))) by lia.
    cbn [rep_go]. change (under 0 (Some 1%nat)) with true. change (under 1 (Some 1%nat)) with false.
    change (Nat.leb 0 0) with true. change (Nat.leb 0 1) with true. cbv iota.
    unfold bytes. rewrite m_cls.
    destruct (cmem x cs_ws); [|reflexivity].
    cbn [snd length]. replace (Nat.ltb (length r) (S (length r))) with true by (symmetry; apply Nat.ltb_lt; lia).
    cbn [orb]. destruct (k (x =? 10, r)); reflexivity.
Qed.

Ltac bool_N :=
  repeat match goal with
         | |- context [?a <=? ?b] => destruct (N.leb_spec a b)
         | |- context [?a =? ?b] => destruct (N.eqb_spec a b)
         end; cbn; try reflexivity; try lia.

Lemma cm_ws x : cmem x cs_ws = is_ws x.
Proof. unfold cmem, cs_ws, is_ws. cbn [existsb fst snd]. bool_N. Qed.
Lemma cm_fin x : cmem x cs_fin = is_fin x.
Proof. unfold cmem, cs_fin, is_fin. cbn [existsb fst snd]. bool_N. Qed.
Lemma cm_cur x : cmem x cs_cur = is_cur x.
Proof. unfold cmem, cs_cur, is_cur. cbn [existsb fst snd]. bool_N. Qed.
Lemma cm_pfx x : cmem x cs_pfx = is_pfx x.
Proof. unfold cmem, cs_pfx, is_pfx. cbn [existsb fst snd]. bool_N. Qed.
Lemma cm_digit x : cmem x [(48, 57)] = is_digit x.
Proof. unfold cmem, is_digit. cbn [existsb fst snd]. bool_N. Qed.
Lemma cm_one a x : cmem x [(a, a)] = (x =? a).
Proof. unfold cmem. cbn [existsb fst snd]. bool_N. Qed.
Lemma cm_dot x : is_byte x = true -> cmem x cs_dot = negb (x =? 10).
Proof. unfold is_byte. intros H. apply N.ltb_lt in H. unfold cmem, cs_dot. cbn [existsb fst snd]. bool_N. Qed.

(* engine result vs walk result *)
Definition same (o : option cursor) (a : att) : Prop :=
  match a with Matched r => exists b', o = Some (b', r) | _ => o = None end.

Definition k_id : cursor -> option cursor := fun e => Some e.
Definition k_bel : cursor -> option cursor := fun c => m (Cls [(7, 7)]) c k_id.
Definition k_fin : cursor -> option cursor := fun c => m (Cls cs_fin) c k_id.
Definition k_sgr : cursor -> option cursor :=
  fun c => m (Cat (Cls [(48, 57); (59, 59)]) (Cls [(109, 109)])) c k_id.

Lemma lazy_osc : forall s b, all_bytes s = true -> same (lazy_star k_bel b s) (osc s).
Proof.
  induction s as [|x r IH]; intros b H; [reflexivity|].
  cbn [all_bytes forallb] in H. apply andb_prop in H. destruct H as [Hx Hr].
  cbn [lazy_star osc]. unfold k_bel at 1. unfold bytes. rewrite m_cls, cm_one.
  destruct (x =? 7) eqn:E7; [exists (x =? 10); reflexivity|].
  rewrite (cm_dot x Hx). destruct (x =? 10); cbn [negb]; [reflexivity|]. apply IH. exact Hr.
Qed.

Lemma lazy_csi : forall s b, all_bytes s = true -> same (lazy_star k_fin b s) (csi s).
Proof.
  induction s as [|x r IH]; intros b H; [reflexivity|].
  cbn [all_bytes forallb] in H. apply andb_prop in H. destruct H as [Hx Hr].
  cbn [lazy_star csi]. unfold k_fin at 1. unfold bytes. rewrite m_cls, cm_fin.
  destruct (is_fin x) eqn:E7; [exists (x =? 10); reflexivity|].
  rewrite (cm_dot x Hx). destruct (x =? 10); cbn [negb]; [reflexivity|]. apply IH. exact Hr.
Qed.

(* the SGR alternative can only match where the CSI alternative already has *)
Lemma sgr_dead : forall s b, lazy_star k_fin b s = None -> lazy_star k_sgr b s = None.
Proof.
  induction s as [|x r IH]; intros b H; [reflexivity|].
  cbn [lazy_star] in *. unfold k_fin in H at 1. unfold bytes in *. rewrite m_cls in H.
  destruct (cmem x cs_fin) eqn:F; [discriminate|].
  assert (k_sgr (b, x :: r) = None) as K.
  { unfold k_sgr. cbn [m snd]. destruct (cmem x [(48, 57); (59, 59)]) eqn:D; [|reflexivity].
    destruct r as [|y r']; [reflexivity|]. rewrite cm_one. destruct (y =? 109) eqn:Ey; [|reflexivity].
    exfalso. apply N.eqb_eq in Ey. subst y.
    (* then the CSI alternative matches at y *)
    assert (cmem x cs_dot = true) as Dx.
    { unfold cmem, cs_dot in *. cbn [existsb fst snd] in *. revert D. bool_N; intros; congruence. }
    rewrite Dx in H. cbn [lazy_star] in H. unfold k_fin in H at 1. rewrite m_cls in H.
    change (cmem 109 cs_fin) with true in H. discriminate. }
  rewrite K. destruct (cmem x cs_dot); [|reflexivity]. apply IH. exact H.
Qed.

Lemma m_cat a b c k : m (Cat a b) c k = m a c (fun c' => m b c' k).
Proof. reflexivity. Qed.
Lemma m_alt a b c k : m (Alt a b) c k = match m a c k with Some e => Some e | None => m b c k end.
Proof. reflexivity. Qed.

Lemma m_a2 b x r : m re_a2 (b, x :: r) k_id =
  if x =? 93 then match r with
                  | [] => None
                  | d :: r' => if is_digit d then lazy_star k_bel (d =? 10) r' else None
                  end
  else None.
Proof.
  unfold re_a2. rewrite !m_cat, m_cls, cm_one. destruct (x =? 93); [|reflexivity].
  destruct r as [|d r']; [reflexivity|]. rewrite m_cls, cm_digit. destruct (is_digit d); [|reflexivity].
  rewrite m_cat, m_dots. reflexivity.
Qed.

Lemma m_a3 b x r : m re_a3 (b, x :: r) k_id = if x =? 91 then lazy_star k_fin (x =? 10) r else None.
Proof.
  unfold re_a3. rewrite m_cat, m_cls, cm_one. destruct (x =? 91); [|reflexivity].
  rewrite m_cat, m_dots. reflexivity.
Qed.

Lemma m_a4 b x r : m re_a4 (b, x :: r) k_id = if x =? 91 then lazy_star k_sgr (x =? 10) r else None.
Proof.
  unfold re_a4. rewrite m_cat, m_cls, cm_one. destruct (x =? 91); [|reflexivity].
  rewrite m_cat, m_dots. reflexivity.
Qed.

Lemma m_alts b s : all_bytes s = true -> same (m re_alts (b, s) k_id) (alts s).
Proof.
  intros H. destruct s as [|x r]; [reflexivity|].
  cbn [all_bytes forallb] in H. apply andb_prop in H. destruct H as [Hx Hr].
  unfold re_alts. rewrite !m_alt. unfold re_a1. rewrite m_cls, cm_cur, m_a2, m_a3, m_a4.
  cbn [alts]. destruct (is_cur x) eqn:Ec; [exists (x =? 10); reflexivity|].
  destruct (x =? 93) eqn:E93.
  - apply N.eqb_eq in E93. subst x. change (93 =? 91) with false. cbv iota.
    destruct r as [|d r']; [reflexivity|].
    cbn [all_bytes forallb] in Hr. apply andb_prop in Hr. destruct Hr as [Hd Hr'].
    destruct (is_digit d); [|reflexivity].
    pose proof (lazy_osc r' (d =? 10) Hr') as L. destruct (osc r') as [rest| |]; cbn [same] in *.
    + destruct L as (b' & ->). exists b'. reflexivity.
    + rewrite L. reflexivity.
    + rewrite L. reflexivity.
  - destruct (x =? 91) eqn:E91; [|reflexivity].
    pose proof (lazy_csi r (x =? 10) Hr) as L. destruct (csi r) as [rest| |]; cbn [same] in *.
    + destruct L as (b' & ->). exists b'. reflexivity.
    + rewrite (sgr_dead _ _ L), L. reflexivity.
    + rewrite (sgr_dead _ _ L), L. reflexivity.
Qed.

Lemma m_alts_ws b x r : is_ws x = true -> m re_alts (b, x :: r) k_id = None.
Proof.
  intros W. unfold re_alts. rewrite !m_alt. unfold re_a1. rewrite m_cls, cm_cur, m_a2, m_a3, m_a4.
  pose proof (alts_ws x r W) as A. cbn [alts] in A.
  destruct (is_cur x); [discriminate|].
  destruct (x =? 93) eqn:E93.
  { apply N.eqb_eq in E93. subst x. discriminate. }
  destruct (x =? 91) eqn:E91; [|reflexivity].
  apply N.eqb_eq in E91. subst x. discriminate.
Qed.

Theorem match_at_ansi b s : all_bytes s = true -> same (match_at ansi_re (b, s)) (attempt s).
Proof.
  intros H. unfold match_at, ansi_re. fold k_id.
  destruct s as [|x r]; [reflexivity|].
  cbn [all_bytes forallb] in H. apply andb_prop in H. destruct H as [Hx Hr].
  rewrite m_cat, m_cls, cm_pfx. cbn [attempt]. destruct (is_pfx x); [|reflexivity].
  rewrite m_cat, m_optws. fold k_id.
  destruct r as [|w r'].
  - cbn [after_pfx]. reflexivity.
  - cbn [after_pfx]. rewrite cm_ws. destruct (is_ws w) eqn:W.
    + cbn [all_bytes forallb] in Hr. apply andb_prop in Hr. destruct Hr as [Hw Hr'].
      pose proof (m_alts (w =? 10) r' Hr') as L.
      change (fun c' : cursor => m re_alts c' (fun e => Some e)) with (fun c' : cursor => m re_alts c' k_id).
      cbv beta. unfold bytes in *.
      destruct (alts r') as [rest| |]; cbn [same] in *.
      * destruct L as (b' & ->). exists b'. reflexivity.
      * rewrite L. apply m_alts_ws. exact W.
      * rewrite L. apply m_alts_ws. exact W.
    + apply (m_alts (x =? 10) (w :: r') Hr).
Qed.

Lemma sub_all_from_ansi : forall fuel b s, all_bytes s = true ->
  sub_all_from ansi_re (b, s) fuel = strip_from s fuel.
Proof.
  induction fuel as [|f IH]; intros b s H; [reflexivity|].
  cbn [sub_all_from strip_from].
  pose proof (match_at_ansi b s H) as MA.
  destruct s as [|x r].
  - cbn [attempt same] in MA. rewrite MA. reflexivity.
  - destruct (attempt (x :: r)) as [rest| |] eqn:E; cbn [same] in MA.
    + destruct MA as (b' & ->). cbn [snd].
      pose proof (attempt_matched_len _ _ E) as L. apply Nat.ltb_lt in L. rewrite L.
      apply IH. destruct (attempt_matched _ _ E) as (mm & Hm & _ & _).
      unfold all_bytes in *. rewrite Hm, forallb_app in H. apply andb_prop in H. apply H.
    + rewrite MA. cbn [snd]. f_equal. apply IH.
      cbn [all_bytes forallb] in H. apply andb_prop in H. apply H.
    + rewrite MA. cbn [snd]. f_equal. apply IH.
      cbn [all_bytes forallb] in H. apply andb_prop in H. apply H.
Qed.

(* _strip_ansi: the model's [strip] is re.sub(ANSI_ESCAPE_PATTERN, b"", s) of the priority engine,
   for the pattern AST [ansi_re] (props/C02.v checks on every run that the pattern translated from
   the current source IS [ansi_re]) *)
Theorem strip_is_sub_all s : all_bytes s = true -> sub_all ansi_re s = strip s.
Proof. intros H. unfold sub_all, strip. apply sub_all_from_ansi. exact H. Qed.

(* ========================================================================================== *)
(* 14. one loop, end to end: chunking, CRs and decoration together                               *)
(* ========================================================================================== *)
Lemma stream_app a b : stream (a ++ b) = stream a ++ stream b.
Proof. unfold stream. rewrite map_app, concat_app. reflexivity. Qed.
Lemma plain_app a b : plain (a ++ b) = plain a ++ plain b.
Proof. unfold plain. rewrite map_app, concat_app. reflexivity. Qed.

Lemma vis_decorated_prefix n ts x y :
  forallb (tok_ok n) ts = true -> stream ts = x ++ y -> exists v2, plain ts = fst (scanh n x) ++ v2.
Proof.
  intros H E. pose proof (wb_decorated n ts H) as W. rewrite E in W.
  pose proof (scanh_app n y x W) as A. rewrite <- E, (scanh_decorated n ts H) in A.
  destruct (scanh n x) as [v h]. destruct (scanh n (h ++ y)) as [v2 h2].
  injection A as A _. exists v2. exact A.
Qed.

Lemma split_last (P t r : bytes) c : P ++ t = r ++ [c] -> t <> [] -> exists t', t = t' ++ [c] /\ r = P ++ t'.
Proof.
  intros E Nt. destruct (exists_last Nt) as (t' & z & ->).
  rewrite app_assoc in E. apply app_inj_tail in E. destruct E as [E ->]. exists t'. auto.
Qed.

(* The text T = plain ts, decorated in any way (ts), ending in a character; CRs anywhere but not
   after the last character; cut into reads anywhere.  If Q holds on acc ++ T and on no proper prefix
   of it, the loop returns exactly acc ++ T under EVERY chunking, nothing is left unread or held. *)
Theorem rloop_decorated n Q ts' c cs raw' acc :
  let ts := ts' ++ [TChar c] in
  forallb (tok_ok n) ts = true -> c <> 13 ->
  concat cs = raw' ++ [c] -> rm_cr raw' = stream ts' -> Forall nonempty cs ->
  (forall T1 T2, plain ts = T1 ++ T2 -> T2 <> [] -> Q (acc ++ T1) = false) ->
  Q (acc ++ plain ts) = true ->
  rloop n Q [] acc cs = LDone (acc ++ plain ts) [] [].
Proof.
  intros ts H Nc E R F Hq Hfin.
  assert (rm_cr (concat cs) = stream ts) as ER.
  { rewrite E, rm_cr_app, R. unfold ts. rewrite stream_app. f_equal.
    unfold rm_cr, remove_byte, stream. cbn. destruct (c =? 13) eqn:E13; [apply N.eqb_eq in E13; congruence|reflexivity]. }
  assert (wb n ([] ++ rm_cr (concat cs)) = true) as W.
  { cbn [app]. rewrite ER. apply wb_decorated. exact H. }
  assert (vis n [] (concat cs) = plain ts /\ held n [] (concat cs) = []) as [V1 V2].
  { rewrite vis_scanh, held_scanh. cbn [app]. rewrite ER, (scanh_decorated n ts H). split; reflexivity. }
  assert (cs <> []) as NE.
  { intros ->. cbn in E. destruct raw'; discriminate. }
  assert (rloop n Q [] acc cs = LDone (acc ++ vis n [] (concat cs)) (held n [] (concat cs)) []) as RD;
    [|rewrite V1, V2 in RD; exact RD].
  apply rloop_decisive; auto.
  - left. reflexivity.
  - intros P t EP NP Nt. rewrite E in EP.
    destruct (split_last P t raw' c (eq_sym EP) Nt) as (t' & -> & ->).
    assert (forallb (tok_ok n) ts' = true) as H'.
    { unfold ts in H. rewrite forallb_app in H. apply andb_prop in H. apply H. }
    rewrite rm_cr_app in R. symmetry in R.
    destruct (vis_decorated_prefix n ts' _ _ H' R) as (v2 & Ev).
    rewrite vis_scanh. cbn [app].
    apply (Hq (fst (scanh n (rm_cr P))) (v2 ++ [c])).
    + unfold ts. rewrite plain_app, Ev, <- app_assoc. reflexivity.
    + destruct v2; discriminate.
  - rewrite V1. exact Hfin.
Qed.

(* hence: two decorations / CR placements / chunkings of the same text give the same loop result *)
Corollary rloop_decoration_independent n Q acc c tsa tsb csa csb rawa rawb :
  forallb (tok_ok n) (tsa ++ [TChar c]) = true -> forallb (tok_ok n) (tsb ++ [TChar c]) = true ->
  plain tsa = plain tsb -> c <> 13 ->
  concat csa = rawa ++ [c] -> rm_cr rawa = stream tsa -> Forall nonempty csa ->
  concat csb = rawb ++ [c] -> rm_cr rawb = stream tsb -> Forall nonempty csb ->
  (forall T1 T2, plain (tsa ++ [TChar c]) = T1 ++ T2 -> T2 <> [] -> Q (acc ++ T1) = false) ->
  Q (acc ++ plain (tsa ++ [TChar c])) = true ->
  rloop n Q [] acc csa = rloop n Q [] acc csb.
Proof.
  intros Ha Hb EP Nc Ea Ra Fa Eb Rb Fb Hq Hfin.
  rewrite (rloop_decorated n Q tsa c csa rawa acc Ha Nc Ea Ra Fa Hq Hfin).
  assert (plain (tsb ++ [TChar c]) = plain (tsa ++ [TChar c])) as EE by (rewrite !plain_app, EP; reflexivity).
  rewrite (rloop_decorated n Q tsb c csb rawb acc Hb Nc Eb Rb Fb); rewrite ?EE; auto.
Qed.

(* ========================================================================================== *)
(* 15. the language of held-back starts IS ANSI_ESCAPE_PARTIAL_PATTERN (matched up to the end)   *)
(* ========================================================================================== *)
Definition cs_oscp : cset := [(0, 6); (8, 9); (11, 255)].
Definition cs_csip : cset := [(0, 9); (11, 63); (127, 255)].
Definition re_d64 : re := Cat (Cls [(48, 57)]) (Rep (Cls cs_oscp) 0%nat (Some 64%nat) true).
Definition re_g1 : re := Cat (Cls [(93, 93)]) (Rep re_d64 0%nat (Some 1%nat) true).
Definition re_g2 : re := Cat (Cls [(91, 91)]) (Rep (Cls cs_csip) 0%nat (Some 64%nat) true).
Definition re_g : re := Alt re_g1 re_g2.
Definition partial_re : re := Cat (Cls [(27, 27)]) (Cat re_optws (Rep re_g 0%nat (Some 1%nat) true)).

(* \Z : the match must reach the end of the buffer *)
Definition k_end : cursor -> option cursor := fun e => match snd e with [] => Some e | _ => None end.
Definition is_some {A} (o : option A) : bool := match o with Some _ => true | None => false end.
Definition full (r : re) (b : bool) (s : bytes) : bool := is_some (m r (b, s) k_end).

Lemma m_ext : forall r c k1 k2, (forall e, k1 e = k2 e) -> m r c k1 = m r c k2.
Proof.
  induction r as [| | | |s|a IHa b IHb|a IHa b IHb|a IHa mn mx g]; intros c k1 k2 H.
  - reflexivity.
  - cbn. apply H.
  - cbn. rewrite H. reflexivity.
  - cbn. destruct (snd c); rewrite ?H; reflexivity.
  - cbn. destruct (snd c); [reflexivity|]. rewrite H. reflexivity.
  - rewrite !m_cat. apply IHa. intros e. apply IHb. exact H.
  - rewrite !m_alt. rewrite (IHa c k1 k2 H), (IHb c k1 k2 H). reflexivity.
  - rewrite !m_rep. generalize (S (length (snd c)) + mn)%nat as fuel. generalize O as i. revert c.
    intros c i fuel. revert c i. induction fuel as [|f IHf]; intros c i; [reflexivity|].
    cbn [rep_go].
    assert (m a c (fun e => if Nat.ltb (length (snd e)) (length (snd c)) || Nat.ltb i mn
                            then rep_go a mn mx g k1 f (S i) e else None) =
            m a c (fun e => if Nat.ltb (length (snd e)) (length (snd c)) || Nat.ltb i mn
                            then rep_go a mn mx g k2 f (S i) e else None)) as E.
    { apply IHa. intros e. destruct (Nat.ltb (length (snd e)) (length (snd c)) || Nat.ltb i mn); auto. }
    rewrite E, (H c). reflexivity.
Qed.

(* greedy bounded repeat of a class, then end of buffer *)
Lemma rep_cls_end cs n : forall s f i b, (length s < f)%nat -> (i <= n)%nat ->
  is_some (rep_go (Cls cs) 0 (Some n) true k_end f i (b, s)) = all_le (fun x => cmem x cs) (n - i) s.
Proof.
  induction s as [|x r IH]; intros f i b L Li; (destruct f as [|f]; [cbn in L; lia|]).
  - cbn [rep_go]. change (Nat.leb 0 i) with true. unfold bytes. rewrite m_cls_nil.
    destruct (under i (Some n)); cbn; destruct (n - i)%nat; reflexivity.
  - cbn [rep_go]. change (Nat.leb 0 i) with true. unfold bytes. rewrite m_cls.
    cbn [under]. destruct (Nat.ltb i n) eqn:Lt.
    + apply Nat.ltb_lt in Lt. replace (n - i)%nat with (S (n - S i)) by lia. cbn [all_le].
      destruct (cmem x cs); [|reflexivity].
      cbn [snd length]. replace (Nat.ltb (length r) (S (length r))) with true by (symmetry; apply Nat.ltb_lt; lia).
      cbn [orb andb]. rewrite <- (IH f (S i) (x =? 10)) by (cbn in L; lia).
      destruct (rep_go (Cls cs) 0 (Some n) true k_end f (S i) (x =? 10, r)); reflexivity.
    + apply Nat.ltb_ge in Lt. replace (n - i)%nat with O by lia. reflexivity.
Qed.

Lemma m_rep_cls_end cs n b s :
  is_some (m (Rep (Cls cs) 0 (Some n) true) (b, s) k_end) = all_le (fun x => cmem x cs) n s.
Proof.
  rewrite m_rep. cbn [snd]. rewrite (rep_cls_end cs n s _ O b); [rewrite Nat.sub_0_r; reflexivity| lia | lia].
Qed.

(* an optional group (needs at least one byte), then end of buffer *)
Lemma rep_go_opt_1 a k f e : rep_go a 0 (Some 1%nat) true k (S f) 1 e = k e.
Proof. cbn [rep_go under Nat.ltb Nat.leb]. reflexivity. Qed.

Lemma m_opt_end a b s :
  (forall b' k, m a (b', []) k = None) ->
  is_some (m (Rep a 0 (Some 1%nat) true) (b, s) k_end) =
  match s with [] => true | _ => is_some (m a (b, s) k_end) end.
Proof.
  intros Hnil. rewrite m_rep. destruct s as [|x r].
  - cbn [snd length Nat.add rep_go]. change (under 0 (Some 1%nat)) with true. cbv iota.
    unfold bytes. rewrite Hnil. reflexivity.
  - cbn [snd length]. remember (S (length r)) as f1 eqn:Ef.
    replace (S f1 + 0)%nat with (S f1) by lia.
    cbn [rep_go]. change (under 0 (Some 1%nat)) with true. change (Nat.leb 0 0) with true. cbv iota.
    assert (m a (b, x :: r)
              (fun e => if Nat.ltb (length (snd e)) (length (snd (b, x :: r))) || Nat.ltb 0 0
                        then rep_go a 0 (Some 1%nat) true k_end f1 1 e else None) = m a (b, x :: r) k_end) as E.
    { apply m_ext. intros e. subst f1. rewrite rep_go_opt_1. unfold k_end.
      destruct (snd e) as [|y l] eqn:Es; cbn [snd length]; [reflexivity|].
      match goal with |- (if ?c then _ else _) = _ => destruct c end; reflexivity. }
    unfold bytes in *. rewrite E.
    destruct (m a (b, x :: r) k_end); reflexivity.
Qed.

Lemma cm_oscp x : is_byte x = true -> cmem x cs_oscp = par_osc x.
Proof. unfold is_byte. intros H. apply N.ltb_lt in H. unfold cmem, cs_oscp, par_osc. cbn [existsb fst snd]. bool_N. Qed.
Lemma cm_csip x : is_byte x = true -> cmem x cs_csip = par_csi x.
Proof. unfold is_byte. intros H. apply N.ltb_lt in H. unfold cmem, cs_csip, par_csi, is_fin. cbn [existsb fst snd]. bool_N. Qed.

Lemma all_le_ext (P Q : N -> bool) n : forall s, all_bytes s = true ->
  (forall x, is_byte x = true -> P x = Q x) -> all_le P n s = all_le Q n s.
Proof.
  induction n as [|n IH]; intros [|x r] H E; cbn [all_le]; auto.
  cbn [all_bytes forallb] in H. apply andb_prop in H. destruct H as [Hx Hr].
  rewrite (E x Hx), (IH r Hr E). reflexivity.
Qed.

Lemma is_some_alt {A} (o1 o2 : option A) :
  is_some (match o1 with Some e => Some e | None => o2 end) = is_some o1 || is_some o2.
Proof. destruct o1; reflexivity. Qed.

Lemma d64_nil b k : m re_d64 (b, []) k = None.
Proof. reflexivity. Qed.
Lemma g_nil b k : m re_g (b, []) k = None.
Proof. reflexivity. Qed.

Lemma full_d64 b s : all_bytes s = true ->
  is_some (m re_d64 (b, s) k_end) = match s with [] => false | d :: y => is_digit d && all_le par_osc 64 y end.
Proof.
  intros H. destruct s as [|d y]; [reflexivity|].
  cbn [all_bytes forallb] in H. apply andb_prop in H. destruct H as [Hd Hy].
  unfold re_d64. rewrite m_cat, m_cls, cm_digit. destruct (is_digit d); [|reflexivity].
  rewrite m_rep_cls_end. cbn [andb]. apply all_le_ext; auto. intros x Hx. apply cm_oscp. exact Hx.
Qed.

Lemma inL_alts_ws n w r : is_ws w = true -> inL_alts n (w :: r) = false.
Proof.
  intros W. pose proof (alts_ws w r W) as A. cbn [alts] in A. cbn [inL_alts].
  destruct (w =? 93) eqn:E93.
  { apply N.eqb_eq in E93. subst w. discriminate. }
  destruct (w =? 91) eqn:E91; [|reflexivity].
  apply N.eqb_eq in E91. subst w. discriminate.
Qed.

Lemma full_g b s : all_bytes s = true ->
  is_some (m re_g (b, s) k_end) = match s with [] => false | _ => inL_alts 64 s end.
Proof.
  intros H. destruct s as [|c y]; [reflexivity|].
  cbn [all_bytes forallb] in H. apply andb_prop in H. destruct H as [Hc Hy].
  unfold re_g. rewrite m_alt, is_some_alt. unfold re_g1, re_g2. rewrite !m_cat, !m_cls, !cm_one.
  cbn [inL_alts]. destruct (c =? 93) eqn:E93.
  - apply N.eqb_eq in E93. subst c. change (93 =? 91) with false. cbn [is_some]. rewrite orb_false_r.
    rewrite (m_opt_end re_d64 _ y d64_nil). destruct y as [|d y']; [reflexivity|].
    apply (full_d64 _ (d :: y') Hy).
  - cbn [is_some orb]. destruct (c =? 91); [|reflexivity].
    rewrite m_rep_cls_end. apply all_le_ext; auto. intros x Hx. apply cm_csip. exact Hx.
Qed.

Lemma full_optg b s : all_bytes s = true ->
  is_some (m (Rep re_g 0%nat (Some 1%nat) true) (b, s) k_end) = inL_alts 64 s.
Proof.
  intros H. rewrite (m_opt_end re_g b s g_nil). destruct s as [|c y]; [reflexivity|].
  apply (full_g b (c :: y) H).
Qed.

(* ANSI_ESCAPE_PARTIAL_PATTERN matches a buffer up to its end exactly when the model holds it back *)
Theorem full_partial b s : all_bytes s = true -> full partial_re b s = inL 64 s.
Proof.
  intros H. unfold full, partial_re. destruct s as [|x r]; [reflexivity|].
  cbn [all_bytes forallb] in H. apply andb_prop in H. destruct H as [Hx Hr].
  rewrite m_cat, m_cls, cm_one. cbn [inL]. destruct (x =? 27); [|reflexivity]. cbn [andb].
  rewrite m_cat, m_optws. destruct r as [|w r'].
  - apply (full_optg _ [] eq_refl).
  - rewrite cm_ws. destruct (is_ws w) eqn:W.
    + cbn [all_bytes forallb] in Hr. apply andb_prop in Hr. destruct Hr as [Hw Hr'].
      rewrite is_some_alt, (full_optg _ r' Hr').
      assert (all_bytes (w :: r') = true) as Hwr by (cbn [all_bytes forallb]; rewrite Hw; exact Hr').
      rewrite (full_optg _ (w :: r') Hwr), (inL_alts_ws 64 w r' W). apply orb_false_r.
    + apply (full_optg _ (w :: r') Hr).
Qed.

(* ========================================================================================== *)
(* 16. the benign residue: a predicate that holds from a prefix P0 of the stream on               *)
(* ========================================================================================== *)
Lemma rloop_blocks_false n Q : forall cs h acc a h',
  cs <> [] -> rloop n Q h acc cs = LBlocks a h' -> Q a = false.
Proof.
  induction cs as [|c r IH]; intros h acc a h' NE H; [congruence|].
  cbn [rloop] in H. destruct (read_step n h c) as [h1 p]. destruct (Q (acc ++ p)) eqn:EQ; [discriminate|].
  destruct r as [|c2 r'].
  - cbn [rloop] in H. injection H as <- <-. exact EQ.
  - eapply IH; [discriminate|exact H].
Qed.

(* If the predicate is false before P0 and true from P0 on (e.g. the prompt pattern `...#\s?$` from the
   `#` on, with only the optional blank after it), EVERY chunking completes, returns the buffer of a
   prefix that contains P0, and leaves unread only a part of what follows P0. *)
Theorem rloop_residue n Q cs h acc P0 T0 :
  held_ok n h -> wb n (h ++ rm_cr (concat cs)) = true -> Forall nonempty cs -> cs <> [] ->
  concat cs = P0 ++ T0 ->
  (forall P t, concat cs = P ++ t -> P <> [] -> (length P < length P0)%nat -> Q (acc ++ vis n h P) = false) ->
  (forall P t, concat cs = P ++ t -> (length P0 <= length P)%nat -> Q (acc ++ vis n h P) = true) ->
  exists pre rest, cs = pre ++ rest /\
    rloop n Q h acc cs = LDone (acc ++ vis n h (concat pre)) (held n h (concat pre)) rest /\
    (length P0 <= length (concat pre))%nat.
Proof.
  intros Hh W F NE E Hlo Hhi.
  pose proof (rloop_canonical n Q cs h acc Hh W) as C.
  destruct (rloop n Q h acc cs) as [a h' rest|a h'] eqn:R.
  - destruct C as (pre & -> & Npre & -> & -> & Qa). exists pre, rest. repeat split; auto.
    destruct (Nat.le_gt_cases (length P0) (length (concat pre))) as [L|L]; auto. exfalso.
    rewrite concat_app in Hlo.
    assert (concat pre <> []) as NP.
    { apply concat_nonempty; auto. apply Forall_app in F. apply F. }
    rewrite (Hlo (concat pre) (concat rest) eq_refl NP L) in Qa. discriminate.
  - exfalso. destruct C as [-> ->].
    pose proof (rloop_blocks_false n Q cs h acc _ _ NE R) as Qf.
    rewrite (Hhi (concat cs) [] (eq_sym (app_nil_r _))) in Qf; [discriminate|].
    rewrite E, app_length. lia.
Qed.
