(* Telnet_Proofs.v — the Telnet transports deliver exactly the application data and the right
   replies for every stream of the negotiation grammar and EVERY segmentation into recv() results. *)
From Verif Require Import Bytes Telnet.
From Coq Require Import Lia.

(* ---------- the byte-wise automaton the handler is supposed to be ---------- *)
Record ast := mkA { a_cb : bytes; a_out : bytes; a_snt : list bytes; a_n : nat }.

Definition astep (counting : bool) (a : ast) (c : N) : ast :=
  match a_cb a with
  | [] => if negb (c =? IAC) then mkA [] (a_out a ++ [c]) (a_snt a) (a_n a)
          else mkA [c] (a_out a) (a_snt a) (a_n a)
  | [x] => if is_verb c then mkA [x; c] (a_out a) (a_snt a) (a_n a) else a
  | [_; cmd] =>
      mkA [] (a_out a)
          (match reply cmd c with Some r => a_snt a ++ [r] | None => a_snt a end)
          (if counting then S (a_n a) else a_n a)
  | _ => a
  end.

Definition afold (counting : bool) (s : bytes) (a : ast) : ast := fold_left (astep counting) s a.

Lemma afold_app counting s1 s2 a :
  afold counting (s1 ++ s2) a = afold counting s2 (afold counting s1 a).
Proof. unfold afold. apply fold_left_app. Qed.

Lemma resp_astep counting cb c st :
  resp counting cb c st =
  let a := astep counting (mkA cb (cooked st) (sent st) (counter st)) c in
  (a_cb a, mkT (raw st) (a_out a) (cbuf st) (a_n a) (eof st) (a_snt a)).
Proof.
  unfold resp, astep; cbn [a_cb a_out a_snt a_n].
  destruct cb as [|x [|y [|z w]]]; cbn.
  - destruct (c =? IAC); cbn; destruct st; reflexivity.
  - destruct (is_verb c); cbn; destruct st; reflexivity.
  - reflexivity.
  - destruct st; reflexivity.
Qed.

Lemma resp_all_afold counting s : forall cb st,
  resp_all counting cb s st =
  let a := afold counting s (mkA cb (cooked st) (sent st) (counter st)) in
  (a_cb a, mkT (raw st) (a_out a) (cbuf st) (a_n a) (eof st) (a_snt a)).
Proof.
  induction s as [|c s IH]; intros cb st.
  - cbn. destruct st; reflexivity.
  - cbn [resp_all]. rewrite resp_astep. cbv zeta beta iota.
    rewrite IH. cbn [cooked sent counter raw cbuf eof afold fold_left].
    destruct (astep counting (mkA cb (cooked st) (sent st) (counter st)) c); reflexivity.
Qed.

(* data without IAC, no command being assembled: the automaton just copies *)
Lemma afold_data counting d : forall a,
  a_cb a = [] -> forallb (fun c => negb (c =? IAC)) d = true ->
  afold counting d a = mkA [] (a_out a ++ d) (a_snt a) (a_n a).
Proof.
  induction d as [|c d IH]; intros a Hcb Hd.
  - cbn. rewrite app_nil_r. destruct a; cbn in *; subst; reflexivity.
  - cbn in Hd. apply andb_prop in Hd as [Hc Hd].
    cbn [afold fold_left]. unfold astep at 2. rewrite Hcb, Hc.
    change (fold_left (astep counting) d ?x) with (afold counting d x).
    rewrite IH by (auto). cbn. rewrite <- app_assoc. reflexivity.
Qed.

Lemma find_byte_split c s i :
  find_byte c s = Some i ->
  forallb (fun x => negb (x =? c)) (firstn i s) = true /\ s = firstn i s ++ skipn i s.
Proof.
  revert i; induction s as [|x s IH]; intros i H; cbn in H; [discriminate|].
  destruct (x =? c) eqn:E.
  - inversion H; subst. cbn. auto.
  - destruct (find_byte c s) eqn:F; [|discriminate]. inversion H; subst.
    destruct (IH n eq_refl) as [A B]. cbn. rewrite E. cbn. split; [exact A|]. f_equal. exact B.
Qed.

Lemma find_byte_none c s :
  find_byte c s = None -> forallb (fun x => negb (x =? c)) s = true.
Proof.
  induction s as [|x s IH]; cbn; intros H; [reflexivity|].
  destruct (x =? c); [discriminate|]. cbn.
  destruct (find_byte c s); [discriminate|]. auto.
Qed.

(* _handle_control_chars with the persistent buffer IS the byte-wise automaton *)
Lemma handle_afold counting st :
  cooked st = [] ->
  handle true counting st =
  let a := afold counting (raw st) (mkA (cbuf st) [] (sent st) (counter st)) in
  mkT [] (a_out a) (a_cb a) (a_n a) (eof st) (a_snt a).
Proof.
  intros Hc. unfold handle. cbn [negb orb].
  destruct (cbuf st) as [|x cb'] eqn:Ecb.
  - destruct (find_byte IAC (raw st)) as [i|] eqn:F.
    + destruct (find_byte_split _ _ _ F) as [Hd Hs].
      rewrite resp_all_afold. cbn [cooked sent counter raw cbuf eof]. cbv zeta.
      remember (firstn i (raw st)) as p eqn:Ep. remember (skipn i (raw st)) as q eqn:Eq.
      rewrite Hs. rewrite afold_app.
      rewrite (afold_data counting p) by (cbn; auto).
      cbn [a_out a_snt a_n app]. reflexivity.
    + pose proof (find_byte_none _ _ F) as Hd.
      cbv zeta. rewrite afold_data by (cbn; auto). cbn. reflexivity.
  - rewrite resp_all_afold. cbn [cooked sent counter raw cbuf eof]. cbv zeta.
    rewrite Hc. reflexivity.
Qed.

(* ---------- the grammar invariant along an arbitrary cut ---------- *)
(* [G counting limit cb n r]: with command prefix [cb] assembled and [n] commands answered, the
   rest of the stream [r] completes the pending command and continues with a token stream, and
   (sync transport) the total number of commands stays within the limit. *)
Definition pend (cb : bytes) : nat := match cb with [] => 0%nat | _ => 1%nat end.

Inductive G (counting : bool) (limit : nat) : bytes -> nat -> bytes -> Prop :=
| G0 ts n : toks_ok ts = true -> (counting = true -> (n + ncmds ts <= limit)%nat) ->
            G counting limit [] n (stream ts)
| G1 ts n v o : toks_ok ts = true -> is_verb v = true ->
            (counting = true -> (n + 1 + ncmds ts <= limit)%nat) ->
            G counting limit [IAC] n (v :: o :: stream ts)
| G2 ts n v o : toks_ok ts = true ->
            (counting = true -> (n + 1 + ncmds ts <= limit)%nat) ->
            G counting limit [IAC; v] n (o :: stream ts).

Lemma ncmds_cons_data d ts : ncmds (Data d :: ts) = ncmds ts.
Proof. reflexivity. Qed.
Lemma ncmds_cons_cmd v o ts : ncmds (Cmd v o :: ts) = S (ncmds ts).
Proof. reflexivity. Qed.

(* drop leading empty Data tokens; the first byte of the stream then comes from the head token *)
Lemma G_step counting limit cb n c r a :
  G counting limit cb n (c :: r) -> a_cb a = cb -> a_n a = n ->
  let a' := astep counting a c in
  G counting limit (a_cb a') (a_n a') r /\
  (* what one step does to the output, in terms of the grammar *)
  True.
Proof.
  intros HG Hcb Hn. cbv zeta. split; [|exact I].
  remember (c :: r) as s eqn:Es. revert Es.
  destruct HG as [ts n Hok Hlim | ts n v o Hok Hv Hlim | ts n v o Hok Hlim]; intros Es.
  - (* no command pending: look at the token stream *)
    revert Es Hok Hlim. induction ts as [|t ts IH]; intros Es Hok Hlim; [discriminate|].
    destruct t as [d|v o].
    + destruct d as [|x d].
      * cbn in Es. cbn in Hok. apply IH; auto.
      * cbn in Es. inversion Es; subst x r. clear Es.
        cbn in Hok. apply andb_prop in Hok as [Hd Hok]. apply andb_prop in Hd as [Hx Hd].
        unfold astep. rewrite Hcb, Hx. cbn [a_cb a_n].
        change (d ++ flat_map tok_bytes ts) with (stream (Data d :: ts)).
        apply G0. { cbn. rewrite Hd, Hok. reflexivity. }
        intros Hc. specialize (Hlim Hc). rewrite ncmds_cons_data in *. lia.
    + cbn in Es. inversion Es; subst c r. clear Es.
      cbn in Hok. apply andb_prop in Hok as [Hv Hok].
      unfold astep. rewrite Hcb. cbn [a_cb a_n]. change (negb (IAC =? IAC)) with false. cbn iota.
      cbn [a_cb a_n]. apply G1; auto.
      intros Hc. specialize (Hlim Hc). rewrite ncmds_cons_cmd in Hlim. lia.
  - inversion Es; subst c r. clear Es.
    unfold astep. rewrite Hcb, Hv. cbn [a_cb a_n]. apply G2; auto. rewrite Hn; exact Hlim.
  - inversion Es; subst c r. clear Es.
    unfold astep. rewrite Hcb. cbn [a_cb a_n].
    apply G0; auto. intros Hc. specialize (Hlim Hc). rewrite Hc. lia.
Qed.

Lemma G_afold counting limit c : forall cb n r a,
  G counting limit cb n (c ++ r) -> a_cb a = cb -> a_n a = n ->
  let a' := afold counting c a in G counting limit (a_cb a') (a_n a') r.
Proof.
  induction c as [|x c IH]; intros cb n r a HG Hcb Hn; cbv zeta.
  - cbn. subst. exact HG.
  - cbn [afold fold_left]. change (fold_left (astep counting) c ?y) with (afold counting c y).
    cbn [app] in HG.
    destruct (G_step _ _ _ _ _ _ a HG Hcb Hn) as [HG' _].
    eapply IH; [exact HG'|reflexivity|reflexivity].
Qed.

(* at the limit, nothing is pending and no IAC is to come *)
Lemma G_at_limit limit cb n r :
  G true limit cb n r -> (limit <= n)%nat ->
  cb = [] /\ forallb (fun c => negb (c =? IAC)) r = true.
Proof.
  intros HG Hn. destruct HG as [ts n Hok Hlim | ts n v o Hok Hv Hlim | ts n v o Hok Hlim];
    try (specialize (Hlim eq_refl); lia).
  split; [reflexivity|]. specialize (Hlim eq_refl).
  assert (Hz : ncmds ts = 0%nat) by lia. clear Hlim Hn.
  induction ts as [|t ts IH]; [reflexivity|].
  destruct t as [d|v o]; [|rewrite ncmds_cons_cmd in Hz; discriminate].
  cbn in Hok. apply andb_prop in Hok as [Hd Hok].
  cbn. rewrite forallb_app, Hd. cbn. apply IH; auto.
Qed.

Lemma forallb_app_l {A} (f : A -> bool) a b : forallb f (a ++ b) = true -> forallb f a = true.
Proof. rewrite forallb_app. intros H. apply andb_prop in H as [H _]. exact H. Qed.
Lemma forallb_app_r {A} (f : A -> bool) a b : forallb f (a ++ b) = true -> forallb f b = true.
Proof. rewrite forallb_app. intros H. apply andb_prop in H as [_ H]. exact H. Qed.

Lemma astep_n_noncounting a c : a_n (astep false a c) = a_n a.
Proof.
  unfold astep. destruct (a_cb a) as [|x [|y [|z w]]]; cbn.
  - destruct (c =? IAC); reflexivity.
  - destruct (is_verb c); reflexivity.
  - reflexivity.
  - reflexivity.
Qed.

Lemma afold_n_noncounting s : forall a, a_n (afold false s a) = a_n a.
Proof.
  induction s as [|c s IH]; intros a; [reflexivity|].
  cbn [afold fold_left]. change (fold_left (astep false) s ?y) with (afold false s y).
  rewrite IH. apply astep_n_noncounting.
Qed.

Definition A (st : tstate) : ast := mkA (cbuf st) [] (sent st) (counter st).
Definition T (a : ast) (e : bool) : tstate := mkT [] (a_out a) (a_cb a) (a_n a) e (a_snt a).

(* the invariant between two recv results *)
Definition Inv (counting : bool) (limit : nat) (st : tstate) (r : bytes) : Prop :=
  raw st = [] /\ G counting limit (cbuf st) (counter st) r /\
  (counting = false -> (counter st < limit)%nat).

(* one recv result through the loop body = the automaton over that chunk *)
Lemma feed_afold counting limit st chunk r :
  cooked st = [] -> Inv counting limit st (chunk ++ r) ->
  let a := afold counting chunk (A st) in
  feed true counting limit st chunk = T a (match chunk with [] => true | _ => false end)
  /\ Inv counting limit (T a false) r.
Proof.
  intros Hc (Hr & HG & Hnc). cbv zeta. split.
  2:{ unfold Inv, T; cbn [raw cbuf counter]. split; [reflexivity|]. split.
      - eapply G_afold; [exact HG|reflexivity|reflexivity].
      - intros E. subst counting. unfold A. rewrite afold_n_noncounting. cbn. auto. }
  unfold feed, T, A. destruct (Nat.ltb (counter st) limit) eqn:El.
  - rewrite handle_afold by (cbn; exact Hc). cbn [raw cbuf sent counter eof].
    rewrite Hr. reflexivity.
  - apply Nat.ltb_ge in El.
    destruct counting.
    + destruct (G_at_limit _ _ _ _ HG El) as [Hcb Hd].
      rewrite afold_data; [|cbn; exact Hcb|eapply forallb_app_l; exact Hd].
      cbn [a_out a_cb a_n a_snt app]. rewrite Hr, Hc, Hcb. reflexivity.
    + specialize (Hnc eq_refl). lia.
Qed.

(* output is append-only: the automaton's result does not depend on what was already cooked *)
Lemma astep_out counting a c o :
  astep counting (mkA (a_cb a) (o ++ a_out a) (a_snt a) (a_n a)) c =
  let a' := astep counting a c in mkA (a_cb a') (o ++ a_out a') (a_snt a') (a_n a').
Proof.
  destruct a as [cb out snt n]. unfold astep; cbn [a_cb a_out a_snt a_n].
  destruct cb as [|x [|y [|z w]]]; cbn.
  - destruct (c =? IAC); cbn; rewrite ?app_assoc; reflexivity.
  - destruct (is_verb c); reflexivity.
  - reflexivity.
  - reflexivity.
Qed.

Lemma afold_out counting s : forall a o,
  afold counting s (mkA (a_cb a) (o ++ a_out a) (a_snt a) (a_n a)) =
  let a' := afold counting s a in mkA (a_cb a') (o ++ a_out a') (a_snt a') (a_n a').
Proof.
  induction s as [|c s IH]; intros a o; cbv zeta.
  - reflexivity.
  - cbn [afold fold_left]. change (fold_left (astep counting) s ?y) with (afold counting s y).
    rewrite astep_out. cbv zeta. rewrite IH. reflexivity.
Qed.

Lemma afold_restart counting s a :
  afold counting s a =
  let a' := afold counting s (mkA (a_cb a) [] (a_snt a) (a_n a)) in
  mkA (a_cb a') (a_out a ++ a_out a') (a_snt a') (a_n a').
Proof.
  pose proof (afold_out counting s (mkA (a_cb a) [] (a_snt a) (a_n a)) (a_out a)) as H.
  cbn [a_cb a_out a_snt a_n] in H. rewrite app_nil_r in H.
  destruct a; exact H.
Qed.

Lemma A_T a e : a_out a = [] -> A (T a e) = a.
Proof. destruct a as [cb out snt n]; cbn; intros ->; reflexivity. Qed.

Definition nonempty (c : bytes) : Prop := c <> [].

(* read(): consumes recv results until something is cooked *)
Lemma read_spec counting limit : forall chunks st r,
  cooked st = [] -> eof st = false -> Forall nonempty chunks ->
  Inv counting limit st (concat chunks ++ r) ->
  match read true counting limit st chunks with
  | (Starved, st', rest) =>
      rest = [] /\ let a := afold counting (concat chunks) (A st) in
      a_out a = [] /\ st' = T a false
  | (Got b, st', rest) =>
      exists used, chunks = used ++ rest /\ used <> [] /\
      let a := afold counting (concat used) (A st) in
      b = remove_byte NUL (a_out a) /\
      st' = T (mkA (a_cb a) [] (a_snt a) (a_n a)) false /\
      Inv counting limit st' (concat rest ++ r)
  end.
Proof.
  induction chunks as [|c chunks IH]; intros st r Hc He Hne HI.
  - cbn [read]. rewrite Hc, He. split; [reflexivity|]. cbn.
    destruct HI as (Hr & _ & _). split; [reflexivity|].
    unfold T, A; cbn. destruct st; cbn in *; subst; reflexivity.
  - cbn [read]. rewrite Hc, He.
    inversion Hne as [|? ? Hc0 Hne']; subst.
    cbn [concat] in HI. rewrite <- app_assoc in HI.
    destruct (feed_afold counting limit st c _ Hc HI) as [Ef HI'].
    cbv zeta in Ef, HI'. rewrite Ef.
    assert (Ee : match c with [] => true | _ :: _ => false end = false)
      by (destruct c; [exfalso; apply Hc0; reflexivity|reflexivity]).
    rewrite Ee.
    destruct (a_out (afold counting c (A st))) as [|o1 os] eqn:Eo.
    + (* nothing cooked by this chunk: the loop goes round again *)
      specialize (IH (T (afold counting c (A st)) false) r).
      assert (Hc' : cooked (T (afold counting c (A st)) false) = []) by (cbn; exact Eo).
      specialize (IH Hc' eq_refl Hne' HI').
      assert (EA : A (T (afold counting c (A st)) false) = afold counting c (A st))
        by (apply A_T; exact Eo).
      rewrite EA in IH.
      destruct (read true counting limit (T (afold counting c (A st)) false) chunks)
        as [[[b|] st'] rest].
      * destruct IH as (used & E1 & E2 & E3). exists (c :: used).
        split; [cbn; rewrite E1; reflexivity|]. split; [discriminate|].
        cbn [concat]. rewrite afold_app. exact E3.
      * destruct IH as (E1 & E2). split; [exact E1|].
        cbn [concat]. rewrite afold_app. exact E2.
    + (* something cooked: read() returns *)
      destruct chunks as [|c2 chunks'] eqn:Ech.
      * cbn [read T cooked eof]. rewrite Eo.
        exists [c]. split; [reflexivity|]. split; [discriminate|].
        cbn [concat]. rewrite app_nil_r. cbv zeta. rewrite Eo.
        split; [reflexivity|]. split; [reflexivity|]. exact HI'.
      * cbn [read T cooked eof]. rewrite Eo.
        exists [c]. split; [reflexivity|]. split; [discriminate|].
        cbn [concat]. rewrite app_nil_r. cbv zeta. rewrite Eo.
        split; [reflexivity|]. split; [reflexivity|]. exact HI'.
Qed.

Lemma remove_byte_app c a b : remove_byte c (a ++ b) = remove_byte c a ++ remove_byte c b.
Proof. unfold remove_byte. apply filter_app. Qed.

(* a whole session: every read() until the socket starves *)
Lemma session_spec counting limit : forall fuel chunks st r,
  (length chunks < fuel)%nat -> cooked st = [] -> eof st = false -> Forall nonempty chunks ->
  Inv counting limit st (concat chunks ++ r) ->
  let a := afold counting (concat chunks) (A st) in
  concat (fst (session true counting limit fuel st chunks)) = remove_byte NUL (a_out a) /\
  sent (snd (session true counting limit fuel st chunks)) = a_snt a.
Proof.
  induction fuel as [|f IH]; intros chunks st r Hf Hc He Hne HI; [lia|].
  cbv zeta. cbn [session].
  pose proof (read_spec counting limit chunks st r Hc He Hne HI) as HR.
  destruct (read true counting limit st chunks) as [[[b|] st'] rest].
  - destruct HR as (used & E1 & E2 & E3 & E4 & E5).
    assert (Ee : eof st' = false) by (rewrite E4; reflexivity).
    rewrite Ee.
    assert (Hlen : (length rest < f)%nat).
    { rewrite E1 in Hf. rewrite app_length in Hf. destruct used; [congruence|]. cbn in Hf. lia. }
    assert (Hne' : Forall nonempty rest).
    { rewrite E1 in Hne. apply Forall_app in Hne. tauto. }
    assert (Hc' : cooked st' = []) by (rewrite E4; reflexivity).
    specialize (IH rest st' r Hlen Hc' Ee Hne' E5). cbv zeta in IH.
    destruct (session true counting limit f st' rest) as [bs st''].
    cbn [fst snd concat] in *.
    destruct IH as [I1 I2].
    rewrite E1, concat_app, afold_app.
    rewrite afold_restart. cbv zeta. cbn [a_out a_snt].
    assert (EA : A st' = mkA (a_cb (afold counting (concat used) (A st))) []
                           (a_snt (afold counting (concat used) (A st)))
                           (a_n (afold counting (concat used) (A st))))
      by (rewrite E4; reflexivity).
    rewrite EA in I1, I2.
    rewrite remove_byte_app, I1, I2, E3. split; reflexivity.
  - destruct HR as (E1 & E2 & E3). cbn [fst snd concat].
    rewrite E2, E3. split; reflexivity.
Qed.

(* ---------- what the automaton computes on a stream of the grammar ---------- *)
Definition tok_reply_l (t : tok) : list bytes :=
  match t with Data _ => [] | Cmd v o => match reply v o with Some r => [r] | None => [] end end.

Lemma concat_tok_reply_l ts : concat (flat_map tok_reply_l ts) = spec_replies ts.
Proof.
  unfold spec_replies. induction ts as [|t ts IH]; [reflexivity|].
  cbn [flat_map]. rewrite concat_app, IH. f_equal.
  destruct t as [d|v o]; cbn; [reflexivity|]. destruct (reply v o); cbn; rewrite ?app_nil_r; reflexivity.
Qed.

Lemma afold_stream counting ts : forall a, a_cb a = [] -> toks_ok ts = true ->
  afold counting (stream ts) a =
  mkA [] (a_out a ++ flat_map tok_data ts) (a_snt a ++ flat_map tok_reply_l ts)
      (if counting then a_n a + ncmds ts else a_n a)%nat.
Proof.
  induction ts as [|t ts IH]; intros a Hcb Hok.
  - cbn. rewrite !app_nil_r. destruct a; cbn in *; subst.
    destruct counting; rewrite ?Nat.add_0_r; reflexivity.
  - cbn in Hok. apply andb_prop in Hok as [Ht Hok].
    unfold stream. cbn [flat_map]. rewrite afold_app.
    destruct t as [d|v o].
    + cbn [tok_bytes]. cbn [tok_ok] in Ht. rewrite (afold_data counting d a) by auto.
      fold (stream ts). rewrite IH by auto. cbn [a_out a_snt a_n tok_data tok_reply_l app].
      rewrite app_assoc. rewrite ncmds_cons_data. reflexivity.
    + cbn [tok_bytes tok_ok] in *.
      cbn [afold fold_left]. unfold astep at 3. rewrite Hcb.
      change (negb (IAC =? IAC)) with false. cbn iota.
      unfold astep at 2. cbn [a_cb]. rewrite Ht.
      unfold astep at 1. cbn [a_cb a_out a_snt a_n].
      fold (stream ts). change (fold_left (astep counting) (stream ts) ?y) with (afold counting (stream ts) y).
      rewrite IH by auto. cbn [a_out a_snt a_n tok_data tok_reply_l app].
      rewrite ncmds_cons_cmd.
      destruct (reply v o); destruct counting; cbn [app]; rewrite <- ?app_assoc; cbn [app];
        rewrite ?app_nil_r; f_equal; lia.
Qed.

(* ---------- the property ---------- *)
Theorem negotiation_invisible counting limit ts chunks :
  toks_ok ts = true -> (0 < limit)%nat -> (counting = true -> (ncmds ts <= limit)%nat) ->
  Forall nonempty chunks -> concat chunks = stream ts ->
  run true counting limit chunks = (spec_data ts, spec_replies ts).
Proof.
  intros Hok Hl Hn Hne Hs. unfold run.
  assert (HI : Inv counting limit t_init (concat chunks ++ [])).
  { rewrite app_nil_r, Hs. split; [reflexivity|]. split.
    - apply G0; auto.
    - intros _. exact Hl. }
  pose proof (session_spec counting limit (S (length chunks)) chunks t_init []
                (Nat.lt_succ_diag_r _) eq_refl eq_refl Hne HI) as [S1 S2].
  cbv zeta in S1, S2.
  destruct (session true counting limit (S (length chunks)) t_init chunks) as [outs st].
  cbn [fst snd] in S1, S2. rewrite S1, S2, Hs.
  rewrite afold_stream by auto. cbn [a_out a_snt A t_init cbuf sent counter app].
  rewrite concat_tok_reply_l. reflexivity.
Qed.

Corollary seg_independent counting limit ts chunks1 chunks2 :
  toks_ok ts = true -> (0 < limit)%nat -> (counting = true -> (ncmds ts <= limit)%nat) ->
  Forall nonempty chunks1 -> Forall nonempty chunks2 ->
  concat chunks1 = stream ts -> concat chunks2 = stream ts ->
  run true counting limit chunks1 = run true counting limit chunks2.
Proof.
  intros. rewrite (negotiation_invisible counting limit ts chunks1) by auto.
  rewrite (negotiation_invisible counting limit ts chunks2) by auto. reflexivity.
Qed.

Corollary sync_eq_async limit ts chunks1 chunks2 :
  toks_ok ts = true -> (0 < limit)%nat -> (ncmds ts <= limit)%nat ->
  Forall nonempty chunks1 -> Forall nonempty chunks2 ->
  concat chunks1 = stream ts -> concat chunks2 = stream ts ->
  run true true limit chunks1 = run true false limit chunks2.
Proof.
  intros. rewrite (negotiation_invisible true limit ts chunks1) by auto.
  rewrite (negotiation_invisible false limit ts chunks2) by (auto; discriminate). reflexivity.
Qed.

(* ---------- several sessions on one transport object ---------- *)
Lemma run_sessions_single persist counting limit st chunks :
  run_sessions persist true counting limit st [chunks] = [run persist counting limit chunks].
Proof.
  cbn [run_sessions]. unfold run. change (reopen true st) with t_init.
  destruct (session persist counting limit (S (length chunks)) t_init chunks). reflexivity.
Qed.

(* every session of a history is negotiated like a first session: whatever state [st] the earlier
   sessions left behind, whatever their streams and segmentations were *)
Theorem sessions_invisible counting limit tss ss st :
  (0 < limit)%nat -> Forall2 (session_ok counting limit) tss ss ->
  run_sessions true true counting limit st ss = map (fun ts => (spec_data ts, spec_replies ts)) tss.
Proof.
  intros Hl H. revert st.
  induction H as [|ts chunks tss ss (Hok & Hn & Hne & Hs) _ IH]; intro st.
  - reflexivity.
  - cbn [run_sessions map].
    pose proof (negotiation_invisible counting limit ts chunks Hok Hl Hn Hne Hs) as R.
    unfold run in R. change (reopen true st) with t_init.
    destruct (session true counting limit (S (length chunks)) t_init chunks) as [outs st'].
    rewrite R. f_equal. apply IH.
Qed.

(* an open() that keeps the negotiation state of the previous session does NOT have the property:
   after a session that answered [limit] commands the next session's commands are delivered as
   data and never answered (sync); a session that stopped inside a command swallows the first
   bytes of the next one (both transports) *)
Theorem sessions_refuted_when_negotiation_state_survives :
  (exists tss ss, Forall2 (session_ok true 10) tss ss /\
     run_sessions true false true 10 t_init ss <> map (fun ts => (spec_data ts, spec_replies ts)) tss) /\
  (exists ts1 tail ts2 c2, session_ok false 10 ts2 c2 /\ toks_ok ts1 = true /\
     (run_sessions true true false 10 t_init [[stream ts1 ++ tail]; c2]
       = [(spec_data ts1, spec_replies ts1); (spec_data ts2, spec_replies ts2)]) /\
     (run_sessions true false false 10 t_init [[stream ts1 ++ tail]; c2]
       <> [(spec_data ts1, spec_replies ts1); (spec_data ts2, spec_replies ts2)])).
Proof.
  split.
  - exists [[Cmd DO 1; Cmd DO 3; Cmd WILL 1; Cmd WILL 3; Cmd DO 24; Cmd DO 31; Cmd DO 32; Cmd DO 33;
             Cmd DO 34; Cmd DO 39; Data [58]]; [Cmd DO 1; Data [58]]],
           [[stream [Cmd DO 1; Cmd DO 3; Cmd WILL 1; Cmd WILL 3; Cmd DO 24; Cmd DO 31; Cmd DO 32;
                     Cmd DO 33; Cmd DO 34; Cmd DO 39; Data [58]]]; [[255; 253]; [1; 58]]].
    split.
    + repeat constructor; try discriminate; cbn; lia.
    + vm_compute. discriminate.
  - exists [Data [97]], [255; 253], [Data [98]; Cmd WILL 1; Data [58]], [[98; 255]; [251; 1; 58]].
    split; [|split; [reflexivity|split]].
    + repeat constructor; try discriminate.
    + vm_compute. reflexivity.
    + vm_compute. discriminate.
Qed.

(* The handler of the pinned commit (control buffer local to one call) does NOT have the
   property: a command cut after its first byte leaks into the data and is never answered. *)
Theorem seg_independent_refuted_for_local_control_buf :
  exists ts chunks, toks_ok ts = true /\ (ncmds ts <= 10)%nat /\ Forall nonempty chunks /\
    concat chunks = stream ts /\ run false true 10 chunks <> (spec_data ts, spec_replies ts).
Proof.
  exists [Cmd DO 1; Data [108; 111]], [[255]; [253; 1; 108; 111]].
  split; [reflexivity|]. split; [cbn; lia|]. split.
  { repeat constructor; discriminate. }
  split; [reflexivity|]. vm_compute. discriminate.
Qed.

(* non-vacuity: a concrete 3-command stream, cut inside two commands, meets every hypothesis *)
Example negotiation_invisible_example :
  let ts := [Cmd DO 3; Cmd WILL 1; Data [108; 0; 111]; Cmd DONT 24; Data [58]] in
  let chunks := [[255]; [253; 3; 255; 251]; [1; 108; 0]; [111; 255; 254; 24; 58]] in
  toks_ok ts = true /\ (ncmds ts <= 10)%nat /\ Forall nonempty chunks /\
  concat chunks = stream ts /\
  run true true 10 chunks = ([108; 111; 58], [255; 251; 3; 255; 253; 1; 255; 252; 24]).
Proof.
  cbv zeta. split; [reflexivity|]. split; [cbn; lia|]. split.
  { repeat constructor; discriminate. }
  split; [reflexivity|]. vm_compute. reflexivity.
Qed.
