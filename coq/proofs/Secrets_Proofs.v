(* Secrets_Proofs.v — C12: theorems about model/Secrets.v.

   sinks_ok_sound                  what [sinks_ok table = true] means for every row of a sink table
   sinks_ok_outside_sound          the same for the rows outside a region (the region of a listed finding)
   no_secret_in_observables        (T1) for ALL operation lists and ALL histories (any pattern answers, chunks,
                                   disconnects, timeouts, blocking reads; repaired or unrepaired code): if the secrets
                                   do not occur in the non-secret inputs and the device does not print them, no log
                                   record, channel-log write, exception message, repr or str contains a secret atom
   secrets_typed_only_when_asked   (T2, repaired code) every write that carries a secret atom answers the prompt
                                   that was just matched (password / passphrase pattern, the expected response
                                   of the previous interact event)
   no_secret_causal_device         (T3, repaired code) with a CAUSAL device (whatever secret atom it prints is
                                   the echo of something typed when it was not asked for) nothing observable
                                   contains a secret atom — no assumption on what the device prints otherwise
   unrepaired_refuted              the unrepaired send_inputs_interact falsifies T2 and T3 (vm_compute witness:
                                   `enable` granted without a password prompt)
   resp_observers_ok               str() / raise_for_status() of ANY Response show nothing of its channel input; repr()
                                   is secret-free when host, channel_input and failed_when_contains are
   resp_repr_refuted               repr() of EVERY response secret-free: false (interaction with a hidden input)
   construct_premises_satisfiable  T1's premises hold of factory constructions (OpConstruct) whose configuration carries
                                   all three credentials; a record of the MERGED arguments would not be obs_ok  *)
From Coq Require Import String Lia.
From Verif Require Import Bytes Secrets.

(* ------------------------------------------------------------------------------------------- *)
(* Part 1 — the sink table decision                                                              *)
(* ------------------------------------------------------------------------------------------- *)
Lemma str_in_In : forall s l, str_in s l = true <-> In s l.
Proof.
  intros s l. unfold str_in. rewrite existsb_exists. split.
  - intros [x [Hin Heq]]. apply String.eqb_eq in Heq. subst. exact Hin.
  - intros Hin. exists s. split; [exact Hin | apply String.eqb_refl].
Qed.

Theorem sinks_ok_sound : forall table,
  sinks_ok table = true ->
  forall s, In s table -> forall id gs, In (id, gs) (s_flows s) -> In id secret_idents ->
  exists g, In g gs /\ In g redaction_guards.
Proof.
  intros table H s Hs id gs Hf Hid.
  unfold sinks_ok in H. rewrite forallb_forall in H. specialize (H s Hs).
  unfold sink_ok in H. rewrite forallb_forall in H. specialize (H (id, gs) Hf).
  unfold flow_ok in H. cbn [fst snd] in H.
  apply str_in_In in Hid. rewrite Hid in H. cbn [negb orb] in H.
  apply existsb_exists in H. destruct H as [g [Hg Hr]]. exists g. split; [exact Hg|].
  apply str_in_In. exact Hr.
Qed.

(* the same outside a region (the region of a listed finding) *)
Theorem sinks_ok_outside_sound : forall region table,
  sinks_ok (outside region table) = true ->
  forall s, In s table -> region s = false ->
  forall id gs, In (id, gs) (s_flows s) -> In id secret_idents ->
  exists g, In g gs /\ In g redaction_guards.
Proof.
  intros region table H s Hs Hr. apply (sinks_ok_sound (outside region table) H).
  unfold outside. apply filter_In. split; [exact Hs | rewrite Hr; reflexivity].
Qed.

Theorem bad_sinks_complete : forall table, bad_sinks table = [] -> sinks_ok table = true.
Proof.
  induction table as [|s r IH]; simpl; intros H; [reflexivity|].
  destruct (sink_ok s) eqn:E; simpl in *; [apply IH; exact H | discriminate].
Qed.

(* ------------------------------------------------------------------------------------------- *)
(* Part 2 — observables                                                                          *)
(* ------------------------------------------------------------------------------------------- *)
Definition tr_ok (t : list obs) : Prop := forallb obs_ok t = true.
Definition tr_wok (t : list obs) : Prop := forallb write_ok t = true.

Lemma pub_app : forall a b, pub (a ++ b) = pub a && pub b.
Proof. intros. unfold pub. apply forallb_app. Qed.

Lemma tr_ok_app : forall a b, tr_ok (a ++ b) <-> tr_ok a /\ tr_ok b.
Proof. intros. unfold tr_ok. rewrite forallb_app, andb_true_iff. tauto. Qed.

Lemma tr_wok_app : forall a b, tr_wok (a ++ b) <-> tr_wok a /\ tr_wok b.
Proof. intros. unfold tr_wok. rewrite forallb_app, andb_true_iff. tauto. Qed.

Lemma tr_ok_nil : tr_ok []. Proof. reflexivity. Qed.
Lemma tr_wok_nil : tr_wok []. Proof. reflexivity. Qed.

Lemma rd_ok : forall d, pub d = true -> tr_ok (rd d).
Proof. intros d H. unfold tr_ok, rd. simpl. rewrite H. reflexivity. Qed.

Lemma rd_wok : forall d, tr_wok (rd d).
Proof. reflexivity. Qed.

Lemma w_ok : forall ci r a, (r = true \/ pub ci = true) -> tr_ok (w ci r a).
Proof.
  intros ci r a [H|H]; unfold tr_ok, w; simpl.
  - subst. reflexivity.
  - destruct r; simpl; [reflexivity | rewrite H; reflexivity].
Qed.

Lemma w_wok : forall ci r a, (a = true \/ pub ci = true) -> tr_wok (w ci r a).
Proof.
  intros ci r a [H|H]; unfold tr_wok, w; simpl.
  - subst. reflexivity.
  - destruct a; [reflexivity | rewrite H; reflexivity].
Qed.

Lemma send_ret_ok : tr_ok send_ret. Proof. reflexivity. Qed.
Lemma send_ret_wok : tr_wok send_ret. Proof. reflexivity. Qed.
Lemma timed_out_ok : tr_ok timed_out. Proof. reflexivity. Qed.
Lemma timed_out_wok : tr_wok timed_out. Proof. reflexivity. Qed.
Lemma afl_ok : tr_ok auth_failed_literal. Proof. reflexivity. Qed.
Lemma afl_wok : tr_wok auth_failed_literal. Proof. reflexivity. Qed.

Lemma hist_pub_cons : forall e h, hist_pub (e :: h) = true <-> rev_pub e = true /\ hist_pub h = true.
Proof. intros. unfold hist_pub. simpl. rewrite andb_true_iff. tauto. Qed.

Opaque rd w send_ret timed_out auth_failed_literal.

#[local] Hint Resolve tr_ok_nil tr_wok_nil send_ret_ok send_ret_wok timed_out_ok timed_out_wok afl_ok afl_wok
  rd_wok : c12.

Lemma cons_ok : forall o t, obs_ok o = true -> tr_ok t -> tr_ok (o :: t).
Proof. intros o t H1 H2. unfold tr_ok in *. simpl. rewrite H1, H2. reflexivity. Qed.
Lemma cons_wok : forall o t, write_ok o = true -> tr_wok t -> tr_wok (o :: t).
Proof. intros o t H1 H2. unfold tr_wok in *. simpl. rewrite H1, H2. reflexivity. Qed.

Lemma cons_app_ok : forall o a b, tr_ok (o :: a) -> tr_ok b -> tr_ok (o :: a ++ b).
Proof. intros o a b H1 H2. change (tr_ok ((o :: a) ++ b)). apply tr_ok_app. auto. Qed.
Lemma cons_app_wok : forall o a b, tr_wok (o :: a) -> tr_wok b -> tr_wok (o :: a ++ b).
Proof. intros o a b H1 H2. change (tr_wok ((o :: a) ++ b)). apply tr_wok_app. auto. Qed.

Ltac ok :=
  repeat first
    [ assumption
    | apply tr_ok_nil | apply tr_wok_nil
    | apply send_ret_ok | apply send_ret_wok | apply timed_out_ok | apply timed_out_wok
    | apply afl_ok | apply afl_wok | apply rd_wok
    | apply rd_ok; assumption
    | apply w_ok; solve [auto]
    | apply w_wok; solve [auto]
    | apply tr_ok_app; split
    | apply tr_wok_app; split
    | eapply cons_app_ok; [eassumption | ]
    | eapply cons_app_wok; [eassumption | ]
    | match goal with
      | |- tr_ok (if ?b then _ else _) => destruct b
      | |- tr_wok (if ?b then _ else _) => destruct b
      end ].
Ltac fin3 := split; [ok | split; [ok | try assumption; try reflexivity]].
Ltac fin2 := split; [ok | try assumption; try reflexivity].
Ltac inv E := inversion E; subst; clear E.

(* ---- the read loops ---- *)
Lemma read_until_ok : forall sel h t s f h',
  hist_pub h = true -> read_until sel h = (t, s, f, h') -> tr_ok t /\ tr_wok t /\ hist_pub h' = true.
Proof.
  intros sel h. induction h as [|e h IH]; intros t s f h' Hh E; simpl in E.
  - inv E. fin3.
  - apply hist_pub_cons in Hh. destruct Hh as [He Hh]. destruct e as [d fl| | |].
    + simpl in He. destruct (sel fl).
      * inv E. fin3.
      * destruct (read_until sel h) as [[[t1 s1] f1] h1] eqn:E1. inv E.
        destruct (IH _ _ _ _ Hh eq_refl) as [A [B C]]. fin3.
    + inv E. split; [reflexivity | split; [reflexivity | assumption]].
    + inv E. fin3.
    + inv E. fin3.
Qed.

Lemma read_until_sel : forall sel h t f h', read_until sel h = (t, SOk, f, h') -> sel f = true.
Proof.
  intros sel h. induction h as [|e h IH]; intros t f h' E; simpl in E; [discriminate|].
  destruct e as [d fl| | |]; try discriminate.
  destruct (sel fl) eqn:S.
  - inversion E; subst. exact S.
  - destruct (read_until sel h) as [[[t1 s1] f1] h1] eqn:E1. inversion E; subst. eapply IH. reflexivity.
Qed.

(* ---- get_prompt, send_input ---- *)
Lemma get_prompt_ok : forall h t s h',
  hist_pub h = true -> m_get_prompt h = (t, s, h') -> tr_ok t /\ tr_wok t /\ hist_pub h' = true.
Proof.
  intros h t s h' Hh E. unfold m_get_prompt in E.
  destruct (read_until f_prompt h) as [[[t1 s1] f1] h1] eqn:E1. inv E.
  destruct (read_until_ok _ _ _ _ _ _ Hh E1) as [A [B C]]. fin3.
Qed.

Lemma send_input_ok : forall ci sk h t s h',
  pub ci = true -> hist_pub h = true -> m_send_input ci sk h = (t, s, h') ->
  tr_ok t /\ tr_wok t /\ hist_pub h' = true.
Proof.
  intros ci sk h t s h' Hc Hh E. unfold m_send_input in E.
  assert (H0 : tr_ok (OInfo ci :: w ci false false)) by (apply cons_ok; [exact Hc | ok]).
  assert (H0w : tr_wok (OInfo ci :: w ci false false)) by (apply cons_wok; [reflexivity | ok]).
  destruct (if sk then ([], SOk, f0, h) else read_until f_input h) as [[[t1 s1] f1] h1] eqn:E1.
  assert (H1 : tr_ok t1 /\ tr_wok t1 /\ hist_pub h1 = true).
  { destruct sk; [inv E1; fin3 | eapply read_until_ok; eauto]. }
  destruct H1 as [A1 [B1 C1]].
  destruct s1.
  - destruct (read_until f_prompt h1) as [[[t2 s2] f2] h2] eqn:E2. inv E.
    destruct (read_until_ok _ _ _ _ _ _ C1 E2) as [A2 [B2 C2]]. fin3.
  - inv E. fin3.
  - inv E. fin3.
Qed.

(* ---- send_inputs_interact ---- *)
Lemma interact_head_ok : forall e asked, ev_wf e = true ->
  tr_ok (OInfo ((if e_hidden e then [] else e_in e) ++ e_resp e) :: w (e_in e) (e_hidden e) asked).
Proof.
  intros e asked H. unfold ev_wf in H. apply andb_true_iff in H. destruct H as [Hr Hi].
  apply cons_ok.
  - simpl. rewrite pub_app, Hr. destruct (e_hidden e); simpl in *; [reflexivity | rewrite Hi; reflexivity].
  - apply w_ok. destruct (e_hidden e); simpl in Hi; auto.
Qed.

(* T1 for the interaction: repaired or not, any completion setting, any [asked] *)
Lemma interact_ok : forall fixd complete evs asked h t s h',
  forallb ev_wf evs = true -> hist_pub h = true -> m_interact fixd complete asked evs h = (t, s, h') ->
  tr_ok t /\ hist_pub h' = true.
Proof.
  intros fixd complete evs. induction evs as [|e evs IH]; intros asked h t s h' Hw Hh E; simpl in E.
  - inv E. fin2.
  - simpl in Hw. apply andb_true_iff in Hw. destruct Hw as [He Hw].
    pose proof (interact_head_ok e asked He) as H0.
    destruct (if e_resp_ne e && negb (e_hidden e) && e_in_ne e then read_until f_input h else ([], SOk, f0, h))
      as [[[t1 s1] f1] h1] eqn:E1.
    assert (H1 : tr_ok t1 /\ hist_pub h1 = true).
    { destruct (e_resp_ne e && negb (e_hidden e) && e_in_ne e).
      - destruct (read_until_ok _ _ _ _ _ _ Hh E1) as [A [_ C]]. auto.
      - inv E1. fin2. }
    destruct H1 as [A1 C1].
    destruct s1.
    + destruct (read_until (fun f => f_expect f || complete && f_complete f) h1) as [[[t2 s2] f2] h2] eqn:E2.
      destruct (read_until_ok _ _ _ _ _ _ C1 E2) as [A2 [_ C2]].
      destruct s2.
      * destruct (fixd && complete && negb (f_expect f2)).
        -- inv E. fin2.
        -- destruct (m_interact fixd complete (f_expect f2) evs h2) as [[t3 s3] h3] eqn:E3.
           inv E. destruct (IH _ _ _ _ _ Hw C2 E3) as [A3 C3]. fin2.
      * inv E. fin2.
      * inv E. fin2.
    + inv E. fin2.
    + inv E. fin2.
Qed.

(* T2 for the interaction, repaired code, ANY history: an input is typed unasked only if it is public *)
Lemma read_until_wok_any : forall sel h t s f h', read_until sel h = (t, s, f, h') -> tr_wok t.
Proof.
  intros sel h. induction h as [|e h IH]; intros t s f h' E; simpl in E.
  - inv E. ok.
  - destruct e as [d fl| | |]; try (inv E; ok; reflexivity).
    destruct (sel fl).
    + inv E. ok.
    + destruct (read_until sel h) as [[[t1 s1] f1] h1] eqn:E1. inv E.
      pose proof (IH _ _ _ _ eq_refl). ok.
Qed.

Lemma interact_wok_any : forall complete evs asked h t s h',
  forallb ev_wf evs = true ->
  (asked = false -> match evs with e :: _ => pub (e_in e) = true | [] => True end) ->
  m_interact true complete asked evs h = (t, s, h') -> tr_wok t.
Proof.
  intros complete evs. induction evs as [|e evs IH]; intros asked h t s h' Hw Hfirst E; simpl in E.
  - inv E. ok.
  - simpl in Hw. apply andb_true_iff in Hw. destruct Hw as [He Hw].
    assert (H0 : tr_wok (OInfo ((if e_hidden e then [] else e_in e) ++ e_resp e) :: w (e_in e) (e_hidden e) asked)).
    { apply cons_wok; [reflexivity|]. apply w_wok. destruct asked; auto. }
    destruct (if e_resp_ne e && negb (e_hidden e) && e_in_ne e then read_until f_input h else ([], SOk, f0, h))
      as [[[t1 s1] f1] h1] eqn:E1.
    assert (B1 : tr_wok t1).
    { destruct (e_resp_ne e && negb (e_hidden e) && e_in_ne e).
      - eapply read_until_wok_any; eauto.
      - inv E1. ok. }
    destruct s1.
    + destruct (read_until (fun f => f_expect f || complete && f_complete f) h1) as [[[t2 s2] f2] h2] eqn:E2.
      pose proof (read_until_wok_any _ _ _ _ _ _ E2) as B2.
      destruct s2.
      * pose proof (read_until_sel _ _ _ _ _ E2) as Hsel. simpl in Hsel.
        destruct (f_expect f2) eqn:Fe.
        -- (* the expected response was seen: the next input is asked for *)
           simpl in E. rewrite andb_false_r in E.
           destruct (m_interact true complete true evs h2) as [[t3 s3] h3] eqn:E3.
           inv E.
           assert (A3 : tr_wok t3). { eapply IH; eauto. intros; discriminate. }
           ok.
        -- (* only a completion pattern matched: the interaction ends, nothing more is typed *)
           simpl in Hsel. apply andb_true_iff in Hsel. destruct Hsel as [Hc _]. rewrite Hc in E. simpl in E.
           inv E. ok.
      * inv E. ok.
      * inv E. ok.
    + inv E. ok.
    + inv E. ok.
Qed.

(* ---- _escalate ---- *)
Lemma escalate_ok : forall fixd a b s2 c d e ne h t s h',
  pub a = true -> pub b = true -> pub c = true -> pub d = true -> pub e = true ->
  hist_pub h = true -> m_escalate fixd a b s2 c d e ne h = (t, s, h') -> tr_ok t /\ hist_pub h' = true.
Proof.
  intros fixd a b s2 c d e ne h t s h' Ha Hb Hc Hd He Hh E. unfold m_escalate in E.
  destruct (m_interact fixd true false
              [mkEv a b false true true; mkEv s2 c true ne true] h) as [[t1 s1] h1] eqn:E1.
  assert (Hw : forallb ev_wf [mkEv a b false true true; mkEv s2 c true ne true] = true).
  { simpl. unfold ev_wf. simpl. rewrite Ha, Hb, Hc. reflexivity. }
  destruct (interact_ok _ _ _ _ _ _ _ _ Hw Hh E1) as [A C].
  destruct s1; try (inv E; fin2; fail).
  destruct (ends_in_timeout t1); inv E; [|fin2].
  split; [|assumption]. apply tr_ok_app; split; [assumption|].
  unfold tr_ok. simpl. rewrite pub_app, Hd, He. reflexivity.
Qed.

Lemma escalate_wok_any : forall a b s2 c d e ne h t s h',
  pub a = true -> pub b = true -> pub c = true ->
  m_escalate true a b s2 c d e ne h = (t, s, h') -> tr_wok t.
Proof.
  intros a b s2 c d e ne h t s h' Ha Hb Hc E. unfold m_escalate in E.
  destruct (m_interact true true false
              [mkEv a b false true true; mkEv s2 c true ne true] h) as [[t1 s1] h1] eqn:E1.
  assert (Hw : forallb ev_wf [mkEv a b false true true; mkEv s2 c true ne true] = true).
  { simpl. unfold ev_wf. simpl. rewrite Ha, Hb, Hc. reflexivity. }
  assert (A : tr_wok t1). { eapply interact_wok_any; [exact Hw | intros _; exact Ha | exact E1]. }
  destruct s1; try (inv E; ok; fail).
  destruct (ends_in_timeout t1); inv E; [|ok].
  apply tr_wok_app; split; [assumption | reflexivity].
Qed.

(* ---- in-channel logins ---- *)
Lemma login_telnet_ok : forall user pw h uc pc t s h',
  pub user = true -> hist_pub h = true -> m_login_telnet user pw uc pc h = (t, s, h') ->
  tr_ok t /\ hist_pub h' = true.
Proof.
  intros user pw h. induction h as [|ev h IH]; intros uc pc t s h' Hu Hh E; cbn [m_login_telnet] in E.
  - inv E. fin2.
  - apply hist_pub_cons in Hh. destruct Hh as [He Hh]. destruct ev as [d f| | |].
    + simpl in He.
      destruct (f_user f && (2 <=? uc)%nat); [inv E; fin2|].
      destruct (f_pass f && (2 <=? pc)%nat); [inv E; fin2|].
      destruct (f_prompt f); [inv E; fin2|].
      destruct (m_login_telnet user pw (if f_user f then S uc else uc) (if f_pass f then S pc else pc) h)
        as [[t3 s3] h3] eqn:E3.
      inv E. destruct (IH _ _ _ _ _ Hu Hh E3) as [A C]. fin2.
    + destruct (m_login_telnet user pw uc pc h) as [[t3 s3] h3] eqn:E3. inv E.
      destruct (IH _ _ _ _ _ Hu Hh E3) as [A C]. fin2.
    + inv E. fin2.
    + inv E. fin2.
Qed.

Lemma login_telnet_wok_any : forall user pw h uc pc t s h',
  pub user = true -> m_login_telnet user pw uc pc h = (t, s, h') -> tr_wok t.
Proof.
  intros user pw h. induction h as [|ev h IH]; intros uc pc t s h' Hu E; cbn [m_login_telnet] in E.
  - inv E. ok.
  - destruct ev as [d f| | |].
    + destruct (f_user f && (2 <=? uc)%nat); [inv E; ok|].
      destruct (f_pass f && (2 <=? pc)%nat); [inv E; ok|].
      destruct (f_prompt f); [inv E; ok|].
      destruct (m_login_telnet user pw (if f_user f then S uc else uc) (if f_pass f then S pc else pc) h)
        as [[t3 s3] h3] eqn:E3.
      inv E. pose proof (IH _ _ _ _ _ Hu E3) as B. ok.
    + destruct (m_login_telnet user pw uc pc h) as [[t3 s3] h3] eqn:E3. inv E.
      pose proof (IH _ _ _ _ _ Hu E3) as B. ok.
    + inv E. ok.
    + inv E. ok.
Qed.

Lemma login_ssh_ok : forall handler pw ph h abuf pc phc t s h',
  pub abuf = true -> hist_pub h = true -> m_login_ssh handler pw ph abuf pc phc h = (t, s, h') ->
  tr_ok t /\ hist_pub h' = true.
Proof.
  intros handler pw ph h. induction h as [|ev h IH]; intros abuf pc phc t s h' Hab Hh E; cbn [m_login_ssh] in E.
  - inv E. fin2.
  - apply hist_pub_cons in Hh. destruct Hh as [He Hh]. destruct ev as [d f| | |].
    + simpl in He.
      assert (Hab' : pub (abuf ++ d) = true) by (rewrite pub_app, Hab, He; reflexivity).
      destruct (handler && f_denied f).
      { inv E. split; [|assumption]. apply tr_ok_app; split; [ok|].
        unfold tr_ok. simpl. rewrite Hab'. reflexivity. }
      destruct (f_pass f && (2 <=? pc)%nat); [inv E; fin2|].
      destruct (f_phrase f && (2 <=? phc)%nat); [inv E; fin2|].
      destruct (f_prompt f); [inv E; fin2|].
      match type of E with context[m_login_ssh handler pw ph ?x ?y ?z h] =>
        assert (Hab2 : pub x = true)
          by (destruct (f_phrase f); [reflexivity|]; destruct (f_pass f); [reflexivity | exact Hab']);
        destruct (m_login_ssh handler pw ph x y z h) as [[t3 s3] h3] eqn:E3
      end.
      inv E. destruct (IH _ _ _ _ _ _ Hab2 Hh E3) as [A C]. fin2.
    + inv E. split; [reflexivity | assumption].
    + inv E. fin2.
    + inv E. fin2.
Qed.

Lemma login_ssh_wok_any : forall handler pw ph h abuf pc phc t s h',
  m_login_ssh handler pw ph abuf pc phc h = (t, s, h') -> tr_wok t.
Proof.
  intros handler pw ph h. induction h as [|ev h IH]; intros abuf pc phc t s h' E; cbn [m_login_ssh] in E.
  - inv E. ok.
  - destruct ev as [d f| | |]; try (inv E; ok; reflexivity).
    destruct (handler && f_denied f).
    { inv E. apply tr_wok_app; split; [ok | reflexivity]. }
    destruct (f_pass f && (2 <=? pc)%nat); [inv E; ok|].
    destruct (f_phrase f && (2 <=? phc)%nat); [inv E; ok|].
    destruct (f_prompt f); [inv E; ok|].
    match type of E with context[m_login_ssh handler pw ph ?x ?y ?z h] =>
      destruct (m_login_ssh handler pw ph x y z h) as [[t3 s3] h3] eqn:E3
    end.
    inv E. pose proof (IH _ _ _ _ _ _ E3) as B. ok.
Qed.

(* ---- one operation ---- *)
Lemma run_op_ok : forall fixd o h t s h',
  op_wf o = true -> hist_pub h = true -> run_op fixd o h = (t, s, h') -> tr_ok t /\ hist_pub h' = true.
Proof.
  intros fixd o h t s h' Hw Hh E. destruct o; simpl in *.
  - eapply login_telnet_ok; eauto.
  - eapply login_ssh_ok; eauto. reflexivity.
  - destruct (get_prompt_ok _ _ _ _ Hh E) as [A [_ C]]. auto.
  - destruct (send_input_ok _ _ _ _ _ _ Hw Hh E) as [A [_ C]]. auto.
  - eapply interact_ok; eauto.
  - repeat (apply andb_true_iff in Hw; destruct Hw as [Hw ?]).
    eapply (escalate_ok fixd esc_cmd esc_prompt sec2 pat prev name sec2_ne); eassumption.
  - inv E. split; auto. unfold conf_pub in Hw.
    repeat (apply andb_true_iff in Hw; destruct Hw as [Hw ?]).
    unfold tr_ok, m_repr. simpl. rewrite !pub_app, Hw, H, H0, H1. reflexivity.
  - inv E. split; auto. unfold conf_pub in Hw.
    repeat (apply andb_true_iff in Hw; destruct Hw as [Hw ?]).
    unfold tr_ok, m_str. simpl. rewrite Hw. reflexivity.
  - inv E. split; auto.
    repeat (apply andb_true_iff in Hw; destruct Hw as [Hw ?]).
    unfold tr_ok, m_resp_repr. simpl. rewrite !pub_app, Hw, H, H0. reflexivity.
  - inv E. split; auto.
  - unfold m_resp_raise in E. destruct (r_failed r); inv E; split; auto.
  - inv E. split; auto. unfold tr_ok, m_assign. destruct cred; simpl in *; [reflexivity | rewrite Hw; reflexivity].
  - inv E. split; auto. unfold tr_ok, m_construct. destruct community; simpl in *; [rewrite Hw; reflexivity | reflexivity].
Qed.

Lemma run_op_wok_any : forall o h t s h',
  op_wf o = true -> op_wf_first o = true -> run_op true o h = (t, s, h') -> tr_wok t.
Proof.
  intros o h t s h' Hw Hf E. destruct o; simpl in *.
  - eapply login_telnet_wok_any; eauto.
  - eapply login_ssh_wok_any; eauto.
  - unfold m_get_prompt in E. destruct (read_until f_prompt h) as [[[t1 s1] f1] h1] eqn:E1. inv E.
    pose proof (read_until_wok_any _ _ _ _ _ _ E1). ok.
  - unfold m_send_input in E.
    assert (H0w : tr_wok (OInfo ci :: w ci false false)) by (apply cons_wok; [reflexivity | ok]).
    destruct (if skip_echo then ([], SOk, f0, h) else read_until f_input h) as [[[t1 s1] f1] h1] eqn:E1.
    assert (B1 : tr_wok t1).
    { destruct skip_echo; [inv E1; ok | eapply read_until_wok_any; eauto]. }
    destruct s1.
    + destruct (read_until f_prompt h1) as [[[t2 s2] f2] h2] eqn:E2. inv E.
      pose proof (read_until_wok_any _ _ _ _ _ _ E2). ok.
    + inv E. ok.
    + inv E. ok.
  - eapply interact_wok_any; eauto. intros _. destruct evs; auto.
  - repeat (apply andb_true_iff in Hw; destruct Hw as [Hw ?]).
    eapply (escalate_wok_any esc_cmd esc_prompt sec2 pat prev name sec2_ne); eassumption.
  - inv E. reflexivity.
  - inv E. reflexivity.
  - inv E. reflexivity.
  - inv E. reflexivity.
  - unfold m_resp_raise in E. destruct (r_failed r); inv E; reflexivity.
  - inv E. unfold m_assign. destruct cred; reflexivity.
  - inv E. reflexivity.
Qed.

(* T1 *)
Theorem no_secret_in_observables : forall fixd ops h t s,
  forallb op_wf ops = true -> hist_pub h = true -> run_ops fixd ops h = (t, s) ->
  forall o, In o t -> obs_ok o = true.
Proof.
  intros fixd ops. induction ops as [|o ops IH]; intros h t s Hw Hh E; simpl in E.
  - inversion E; subst. intros o [].
  - simpl in Hw. apply andb_true_iff in Hw. destruct Hw as [Ho Hw].
    destruct (run_op fixd o h) as [[t1 s1] h1] eqn:E1.
    destruct (run_op_ok _ _ _ _ _ _ Ho Hh E1) as [A C].
    assert (Hall : tr_ok t).
    { destruct s1.
      - destruct (run_ops fixd ops h1) as [t2 s2] eqn:E2. inversion E; subst.
        apply tr_ok_app; split; auto. unfold tr_ok. apply forallb_forall. eapply IH; eauto.
      - inversion E; subst. exact A.
      - inversion E; subst. exact A. }
    unfold tr_ok in Hall. rewrite forallb_forall in Hall. exact Hall.
Qed.

(* T2: what is typed does not depend on what the device prints beyond the pattern answers, so this holds for
   EVERY history — no assumption on the device *)
Theorem secrets_typed_only_when_asked : forall ops h t s,
  forallb op_wf ops = true -> forallb op_wf_first ops = true ->
  run_ops true ops h = (t, s) ->
  forall m, In (OWrite m false) t -> pub m = true.
Proof.
  intros ops. induction ops as [|o ops IH]; intros h t s Hw Hf E m Hin; simpl in E.
  - inversion E; subst. destruct Hin.
  - simpl in Hw, Hf. apply andb_true_iff in Hw. destruct Hw as [Ho Hw].
    apply andb_true_iff in Hf. destruct Hf as [Hfo Hf].
    destruct (run_op true o h) as [[t1 s1] h1] eqn:E1.
    pose proof (run_op_wok_any _ _ _ _ _ Ho Hfo E1) as B.
    assert (Hhere : In (OWrite m false) t1 -> pub m = true).
    { intros Hi. unfold tr_wok in B. rewrite forallb_forall in B. apply (B _ Hi). }
    destruct s1.
    + destruct (run_ops true ops h1) as [t2 s2] eqn:E2. inversion E; subst.
      apply in_app_or in Hin. destruct Hin as [Hi|Hi]; [auto | eapply IH; eauto].
    + inversion E; subst. auto.
    + inversion E; subst. auto.
Qed.

Lemma unasked_atoms_pub : forall t, (forall m, In (OWrite m false) t -> pub m = true) -> pub (unasked_atoms t) = true.
Proof.
  induction t as [|o t IH]; intros H; [reflexivity|].
  unfold unasked_atoms in *. simpl. rewrite pub_app. rewrite IH by (intros; apply H; right; assumption).
  rewrite andb_true_r. destruct o; try reflexivity. destruct asked; [reflexivity|]. apply H. left. reflexivity.
Qed.

Lemma hist_pub_atoms : forall h, pub (atoms_of_hist h) = true -> hist_pub h = true.
Proof.
  induction h as [|e h IH]; intros H; [reflexivity|].
  unfold atoms_of_hist in H. simpl in H. rewrite pub_app in H. apply andb_true_iff in H. destruct H as [H1 H2].
  apply hist_pub_cons. split; [|apply IH; exact H2]. destruct e; simpl; auto.
Qed.

Lemma pub_forall : forall m, pub m = true <-> (forall a, In a m -> is_pub a = true).
Proof. intros. unfold pub. apply forallb_forall. Qed.

(* T3: the device may print anything public and may echo whatever was typed when it was not asking *)
Theorem no_secret_causal_device : forall ops h t s,
  forallb op_wf ops = true -> forallb op_wf_first ops = true ->
  run_ops true ops h = (t, s) ->
  (forall a, In a (atoms_of_hist h) -> is_pub a = false -> In a (unasked_atoms t)) ->
  forall o, In o t -> obs_ok o = true.
Proof.
  intros ops h t s Hw Hf E Hcausal.
  assert (Hu : pub (unasked_atoms t) = true).
  { apply unasked_atoms_pub. eapply secrets_typed_only_when_asked; eauto. }
  assert (Hh : hist_pub h = true).
  { apply hist_pub_atoms. apply pub_forall. intros a Ha.
    destruct (is_pub a) eqn:Ea; [reflexivity|].
    specialize (Hcausal a Ha Ea). rewrite pub_forall in Hu. rewrite (Hu a Hcausal) in Ea. discriminate. }
  eapply no_secret_in_observables; eauto.
Qed.

Transparent rd w send_ret timed_out auth_failed_literal.

(* ---- the unrepaired code: `enable` granted without a password prompt ------------------------- *)
Definition fl_input : flags := mkF false false false false false false true false false.
Definition fl_complete : flags := mkF false false false false true false false false true.
Definition fl_prompt : flags := mkF false false false false true false false false false.
Definition fl_expect : flags := mkF false false false false false false false true false.

(* enable; auth_secondary = [Sec 7]; the device echoes `enable`, prints the privileged prompt (a completion
   pattern, not the password prompt), then echoes whatever is typed next *)
Definition w_ops : list op := [OpEscalate [Pub 1] [Pub 2] [Sec 7] [Pub 3] [Pub 4] [Pub 5] true].
Definition w_hist : list rev :=
  [RData [Pub 1] fl_input; RData [Pub 6] fl_complete; RData [Sec 7; Pub 6] fl_complete].

Definition C12_typed_only_when_asked (fixd : bool) : Prop :=
  forall ops h t s, forallb op_wf ops = true -> forallb op_wf_first ops = true ->
    run_ops fixd ops h = (t, s) -> forall m, In (OWrite m false) t -> pub m = true.
Definition C12_causal (fixd : bool) : Prop :=
  forall ops h t s, forallb op_wf ops = true -> forallb op_wf_first ops = true ->
    run_ops fixd ops h = (t, s) ->
    (forall a, In a (atoms_of_hist h) -> is_pub a = false -> In a (unasked_atoms t)) ->
    forall o, In o t -> obs_ok o = true.

Theorem unrepaired_refuted : ~ C12_typed_only_when_asked false /\ ~ C12_causal false.
Proof.
  split; intros H.
  - specialize (H w_ops w_hist _ _ eq_refl eq_refl eq_refl [Sec 7]).
    assert (Hin : In (OWrite [Sec 7] false) (fst (run_ops false w_ops w_hist))) by (vm_compute; tauto).
    specialize (H Hin). vm_compute in H. discriminate.
  - specialize (H w_ops w_hist _ _ eq_refl eq_refl eq_refl).
    assert (Hc : forall a, In a (atoms_of_hist w_hist) -> is_pub a = false ->
                           In a (unasked_atoms (fst (run_ops false w_ops w_hist)))).
    { vm_compute. intros a Ha Hp. destruct Ha as [Ha|[Ha|[Ha|[Ha|[]]]]]; subst; try discriminate. tauto. }
    specialize (H Hc (OLog [Sec 7; Pub 6])).
    assert (Hin : In (OLog [Sec 7; Pub 6]) (fst (run_ops false w_ops w_hist))) by (vm_compute; tauto).
    specialize (H Hin). vm_compute in H. discriminate.
Qed.

Theorem repaired_full : C12_typed_only_when_asked true /\ C12_causal true.
Proof.
  split.
  - unfold C12_typed_only_when_asked. intros. eapply secrets_typed_only_when_asked; eauto.
  - unfold C12_causal. intros. eapply no_secret_causal_device; eauto.
Qed.

(* on the witness the repaired code ends the interaction: nothing secret is typed or logged *)
Example repaired_on_witness :
  forallb obs_ok (fst (run_ops true w_ops w_hist)) = true /\
  unasked_atoms (fst (run_ops true w_ops w_hist)) = [Pub 1].
Proof. vm_compute. split; reflexivity. Qed.

(* the premises are satisfiable by runs that do type secrets: a telnet login with a rejected first password,
   then an escalation where the device asks for the secondary password *)
Definition ex_ops : list op :=
  [OpLoginTelnet [Pub 10] [Sec 1];
   OpEscalate [Pub 1] [Pub 2] [Sec 2] [Pub 3] [Pub 4] [Pub 5] true;
   OpSendInput [Pub 8] false;
   OpRepr (mkConf [Pub 20] [Pub 10] [] [Pub 21] [Sec 1] [Sec 3] [Sec 2])].
Definition fl_user : flags := mkF false true false false false false false false false.
Definition fl_pass : flags := mkF false false true false false false false false false.
Definition ex_hist : list rev :=
  [RData [Pub 30] fl_user; RData [Pub 31] fl_pass; RData [Pub 32] fl_pass; RData [Pub 6] fl_prompt;
   RData [Pub 1] fl_input; RData [Pub 2] fl_expect; RData [Pub 6] fl_complete;
   RData [Pub 8] fl_input; RData [Pub 9; Pub 6] fl_prompt].

Example premises_satisfiable :
  forallb op_wf ex_ops = true /\ forallb op_wf_first ex_ops = true /\ hist_pub ex_hist = true /\
  snd (run_ops true ex_ops ex_hist) = SOk /\
  (* the secrets are really typed: twice the password, once the secondary password, all asked for *)
  filter (fun o => match o with OWrite m _ => negb (pub m) | _ => false end) (fst (run_ops true ex_ops ex_hist))
    = [OWrite [Sec 1] true; OWrite [Sec 1] true; OWrite [Sec 2] true] /\
  forallb obs_ok (fst (run_ops true ex_ops ex_hist)) = true.
Proof. vm_compute. repeat split; reflexivity. Qed.

(* failing paths: third password prompt, permission denied (message copies the buffer), disconnect, timeout,
   blocking read — each a constructor, none a default *)
Example failing_paths :
  snd (run_ops true [OpLoginTelnet [Pub 10] [Sec 1]]
         [RData [] fl_pass; RData [] fl_pass; RData [] fl_pass]) = SRaised /\
  run_ops true [OpLoginSsh true [Sec 1] [Sec 3]]
         [RData [Pub 40] fl_pass; RData [Pub 41] (mkF false false false false false true false false false)]
    = ([OLog [Pub 40]; OChan [Pub 40]; OLog []; OWrite [Sec 1] true; OLog []; OWrite [] false;
        OLog [Pub 41]; OChan [Pub 41]; OInfo [Pub 41]; OExc E_AUTH [Pub 41]], SRaised) /\
  snd (run_ops true [OpSendInput [Pub 8] false] [RData [Pub 8] fl_input; RConnErr]) = SRaised /\
  snd (run_ops true [OpEscalate [Pub 1] [Pub 2] [Sec 2] [Pub 3] [Pub 4] [Pub 5] true]
         [RData [Pub 1] fl_input; RData [Pub 2] fl_expect; RTimeout]) = SRaised /\
  snd (run_ops true [OpGetPrompt] [RData [Pub 1] f0]) = SBlocks.
Proof. vm_compute. repeat split; reflexivity. Qed.

(* the write record shows the payload exactly when the write is not redacted *)
Theorem write_record_redacted : forall ci r a,
  w ci r a = [OLog (if r then [] else ci); OWrite ci a].
Proof. reflexivity. Qed.

(* ---- the Response objects handed to the user (scrapli/response.py) ---- *)
(* full statement: repr() of EVERY response is free of secrets when host and failed_when_contains are *)
Definition C12_resp_repr_full : Prop :=
  forall r, pub (r_host r) = true -> pub (r_fwc r) = true -> forallb obs_ok (m_resp_repr r) = true.

(* FALSE: the response of a send_interactive with a hidden input (channel_input = the join of all inputs);
   known finding C12-response-repr-hidden-input *)
Theorem resp_repr_refuted : ~ C12_resp_repr_full.
Proof.
  intros H. specialize (H (mkResp [Pub 0] [Pub 1; Sec 0] [] true) eq_refl eq_refl).
  vm_compute in H. discriminate.
Qed.

(* str() and raise_for_status() of EVERY response (whatever its channel_input holds), repr() outside the finding's
   region: nothing secret *)
Theorem resp_observers_ok : forall r,
  forallb obs_ok (m_resp_str r) = true /\ forallb obs_ok (fst (m_resp_raise r)) = true /\
  (pub (r_host r) = true -> pub (r_input r) = true -> pub (r_fwc r) = true -> forallb obs_ok (m_resp_repr r) = true).
Proof.
  intros r. split; [reflexivity|]. split.
  - unfold m_resp_raise. destruct (r_failed r); reflexivity.
  - intros A B C. unfold m_resp_repr. simpl. rewrite !pub_app, A, B, C. reflexivity.
Qed.

(* non-trivial instance: a failed response of an interaction with a hidden input is looked at (str, raise_for_status),
   then the response of a plain command (repr): T1's premises hold, the failure is raised, nothing secret shows *)
Example resp_premises_satisfiable :
  let ops := [OpRespStr (mkResp [Pub 0] [Pub 1; Sec 0] [Pub 2] true); OpRespRepr (mkResp [Pub 0] [Pub 3] [Pub 2] false);
              OpRespRaise (mkResp [Pub 0] [Pub 1; Sec 0] [Pub 2] true)] in
  forallb op_wf ops = true /\ run_ops true ops [] = ([ORepr []; ORepr [Pub 0; Pub 3; Pub 2]; OExc E_CMDFAIL []], SRaised).
Proof. vm_compute. split; reflexivity. Qed.

(* non-trivial instance with credential rotation on an existing driver: a refused telnet login with the old password
   (the device asks three times), the password and the enable secret are reassigned ([OpAssign true]: nothing observable),
   a prompt pattern is reassigned ([OpAssign false]: its setter logs the public value), the login with the new password
   succeeds: T1's premises hold, both passwords are typed (only when asked for), nothing secret shows *)
Example assign_premises_satisfiable :
  let fp := mkF false false true false false false false false false in
  let fq := mkF false false false false true false false false false in
  let ops1 := [OpLoginTelnet [Pub 10] [Sec 1]] in
  let ops2 := [OpAssign true [Sec 4]; OpAssign true [Sec 5]; OpAssign false [Pub 7]; OpLoginTelnet [Pub 10] [Sec 4]] in
  let h1 := [RData [Pub 1] fp; RData [Pub 1] fp; RData [Pub 1] fp] in
  let h2 := [RData [Pub 1] fp; RData [Pub 2] fq] in
  forallb op_wf (ops1 ++ ops2) = true /\ forallb op_wf_first (ops1 ++ ops2) = true /\
  hist_pub (h1 ++ h2) = true /\
  snd (run_ops true ops1 h1) = SRaised /\ snd (run_ops true ops2 h2) = SOk /\
  In (OWrite [Sec 1] true) (fst (run_ops true ops1 h1)) /\ In (OWrite [Sec 4] true) (fst (run_ops true ops2 h2)) /\
  In (OInfo [Pub 7]) (fst (run_ops true ops2 h2)) /\
  forallb obs_ok (fst (run_ops true ops1 h1) ++ fst (run_ops true ops2 h2)) = true.
Proof. vm_compute. repeat split; tauto. Qed.

(* non-trivial instance with the factory: a driver for a community platform is constructed with all three credentials
   in its configuration ([OpConstruct true]: the record shows the platform's own arguments, nothing of the configuration),
   a core-platform one likewise ([OpConstruct false]: the class only), then repr() of the driver; T1's premises hold and
   nothing secret shows — while a record that printed the MERGED arguments would not be [obs_ok] (the configuration is
   NOT required to be public by [op_wf]) *)
Example construct_premises_satisfiable :
  let c := mkConf [Pub 20] [Pub 10] [] [Pub 21] [Sec 1] [Sec 3] [Sec 2] in
  let ops := [OpConstruct true [Pub 30; Pub 31] c; OpConstruct false [] c; OpRepr c] in
  forallb op_wf ops = true /\ forallb op_wf_first ops = true /\
  run_ops true ops [] = ([OInfo [Pub 30; Pub 31]; OInfo []; ORepr [Pub 20; Pub 10; Pub 21]], SOk) /\
  forallb obs_ok (fst (run_ops true ops [])) = true /\
  obs_ok (OInfo ([Pub 30; Pub 31] ++ c_pw c ++ c_ph c ++ c_sec2 c)) = false.
Proof. vm_compute. repeat split; reflexivity. Qed.
