(* Lock_Proofs.v — theorems about model/Lock.v (C19). *)
From Verif Require Import Bytes Lock.
From Coq Require Import Lia.
Open Scope nat_scope.

(* ------------------------------------------------------------------------------------------ *)
(* small list facts                                                                            *)
(* ------------------------------------------------------------------------------------------ *)
Lemma lk_beq_eq : forall a b, beq a b = true -> a = b.
Proof.
  induction a as [|x a IH]; destruct b as [|y b]; simpl; intros H; try discriminate; auto.
  apply andb_true_iff in H. destruct H as [H1 H2]. apply N.eqb_eq in H1. subst. f_equal. auto.
Qed.

Lemma lk_beq_refl : forall a, beq a a = true.
Proof. induction a; simpl; auto. rewrite N.eqb_refl. auto. Qed.

Lemma forallb_app_true {A} (f : A -> bool) a b :
  forallb f (a ++ b) = true <-> forallb f a = true /\ forallb f b = true.
Proof. rewrite forallb_app. apply andb_true_iff. Qed.

Lemma nth_error_upd_same {A} : forall (l : list A) n x y, nth_error l n = Some y -> nth_error (upd n x l) n = Some x.
Proof. induction l; destruct n; simpl; intros; try discriminate; eauto. Qed.

Lemma nth_error_upd_other {A} : forall (l : list A) n m x, n <> m -> nth_error (upd n x l) m = nth_error l m.
Proof.
  induction l; destruct n; destruct m; simpl; intros; auto; try congruence.
Qed.

Lemma upd_length {A} : forall (l : list A) n x, length (upd n x l) = length l.
Proof. induction l; destruct n; simpl; intros; auto. Qed.

Lemma nth_error_upd {A} : forall (l : list A) n m x y,
  nth_error (upd n x l) m = Some y -> (n = m /\ y = x) \/ (n <> m /\ nth_error l m = Some y).
Proof.
  intros. destruct (Nat.eq_dec n m).
  - subst. left. split; auto.
    destruct (nth_error l m) eqn:E.
    + erewrite nth_error_upd_same in H; eauto. congruence.
    + assert (nth_error (upd m x l) m = None).
      { apply nth_error_None. rewrite upd_length. apply nth_error_None. auto. }
      congruence.
  - right. split; auto. rewrite nth_error_upd_other in H; auto.
Qed.

(* ------------------------------------------------------------------------------------------ *)
(* A. every path of a guarded, single-section operation is one block                           *)
(* ------------------------------------------------------------------------------------------ *)
Lemma blocks_app : forall k1 t1 k2 t2, blocks k1 t1 -> blocks k2 t2 -> blocks (k1 + k2) (t1 ++ t2).
Proof.
  induction 1; intros; simpl; auto.
  rewrite <- app_assoc. simpl. constructor; auto.
Qed.

(* inside a lock section (no nested section): only transport events *)
Lemma inside_all_io : forall m s t md, exec m s t md -> guarded true s = true -> forallb is_io t = true.
Proof.
  induction 1; simpl; intros G; auto;
    try (apply andb_true_iff in G; destruct G as [G1 G2]);
    try (apply forallb_app_true; split; auto); auto; try discriminate.
Qed.

Lemma nsec_loop_le1 : forall b, nsec (SLoop b) <= 1 -> nsec b = 0 /\ nsec (SLoop b) = 0.
Proof. intros b. simpl. destruct (nsec b); intros; split; auto; lia. Qed.

Lemma outside_blocks : forall s t md, exec cm_on s t md -> guarded false s = true -> nsec s <= 1 ->
  exists k, blocks k t /\ k <= nsec s.
Proof.
  induction 1; intros G N; simpl in G;
    try (apply andb_true_iff in G; destruct G as [G1 G2]);
    try discriminate;
    try (exists 0; split; [constructor | lia]).
  - (* seq_n *) simpl in N.
    destruct IHexec1 as [k1 [B1 L1]]; auto; try lia.
    destruct IHexec2 as [k2 [B2 L2]]; auto; try lia.
    exists (k1 + k2). split. apply blocks_app; auto. simpl; lia.
  - (* seq_stop *) simpl in N. destruct IHexec as [k1 [B1 L1]]; auto; try lia.
    exists k1. split; auto. simpl; lia.
  - (* alt_l *) simpl in N. destruct IHexec as [k1 [B1 L1]]; auto; try lia.
    exists k1. split; auto. simpl; lia.
  - simpl in N. destruct IHexec as [k1 [B1 L1]]; auto; try lia.
    exists k1. split; auto. simpl; lia.
  - (* loop_iter *) destruct (nsec_loop_le1 _ N) as [Z1 Z2].
    destruct IHexec1 as [k1 [B1 L1]]; auto; try lia.
    destruct IHexec2 as [k2 [B2 L2]]; auto.
    exists (k1 + k2). split. apply blocks_app; auto. lia.
  - (* loop_break *) destruct (nsec_loop_le1 _ N) as [Z1 Z2].
    destruct IHexec as [k1 [B1 L1]]; auto; try lia. exists k1; split; auto; lia.
  - destruct (nsec_loop_le1 _ N) as [Z1 Z2].
    destruct IHexec as [k1 [B1 L1]]; auto; try lia. exists k1; split; auto; lia.
  - (* try_pass *) simpl in N. destruct IHexec as [k1 [B1 L1]]; auto; try lia.
    exists k1. split; auto. simpl; lia.
  - simpl in N.
    destruct IHexec1 as [k1 [B1 L1]]; auto; try lia.
    destruct IHexec2 as [k2 [B2 L2]]; auto; try lia.
    exists (k1 + k2). split. apply blocks_app; auto. simpl; lia.
  - (* finally *) simpl in N.
    destruct IHexec1 as [k1 [B1 L1]]; auto; try lia.
    destruct IHexec2 as [k2 [B2 L2]]; auto; try lia.
    exists (k1 + k2). split. apply blocks_app; auto. simpl; lia.
  - (* lock *) exists 1. split; [| simpl; lia].
    assert (A : forallb is_io t = true) by (eapply inside_all_io; eauto).
    replace (cm_pre cm_on ++ t ++ cm_post cm_on md) with (LAcq :: t ++ LRel :: []).
    + constructor; auto. constructor.
    + destruct md; reflexivity.
  - (* call *) simpl in N. destruct IHexec as [k1 [B1 L1]]; auto.
    exists k1. split; auto.
Qed.

Theorem guarded_paths_one_block : forall s t md,
  wf s = true -> exec cm_on s t md -> one_block t.
Proof.
  intros s t md W E. unfold wf in W. apply andb_true_iff in W. destruct W as [G N].
  apply Nat.leb_le in N.
  destruct (outside_blocks _ _ _ E G N) as [k [B L]].
  inversion B; subst.
  - left; auto.
  - right. assert (k0 = 0) by lia. subst. inversion H0; subst. exists ios. split; auto.
Qed.

Lemma cm_eqb_eq : forall a b, cm_eqb a b = true -> a = b.
Proof.
  assert (L : forall x y, lev_eqb x y = true -> x = y).
  { destruct x, y; simpl; intros; try discriminate; auto. apply Nat.eqb_eq in H. subst; auto. }
  assert (LL : forall x y, levs_eqb x y = true -> x = y).
  { induction x; destruct y; simpl; intros; try discriminate; auto.
    apply andb_true_iff in H. destruct H. f_equal; auto. }
  destruct a, b. unfold cm_eqb. simpl. intros H.
  apply andb_true_iff in H. destruct H as [H H4].
  apply andb_true_iff in H. destruct H as [H H3]. apply andb_true_iff in H. destruct H as [H1 H2].
  f_equal; auto.
Qed.

Lemma cm_good_on : forall c, cm_good c = true -> cm_eval true c = cm_on /\ cm_eval false c = cm_off.
Proof.
  intros c H. unfold cm_good in H.
  repeat (apply andb_true_iff in H; destruct H as [H ?]).
  split; apply cm_eqb_eq; auto.
Qed.

(* the statement used by props/C19.v: generated context manager + generated operation *)
Theorem op_paths_one_block : forall c s t md,
  cm_good c = true -> wf s = true -> exec (cm_eval true c) s t md -> one_block t.
Proof.
  intros c s t md G W E. destruct (cm_good_on _ G) as [H _]. rewrite H in E.
  eapply guarded_paths_one_block; eauto.
Qed.

Fixpoint count_acq (t : list lev) : nat :=
  match t with [] => 0 | LAcq :: r => S (count_acq r) | _ :: r => count_acq r end.
Fixpoint count_rel (t : list lev) : nat :=
  match t with [] => 0 | LRel :: r => S (count_rel r) | _ :: r => count_rel r end.

Lemma count_io : forall ios, forallb is_io ios = true -> count_acq ios = 0 /\ count_rel ios = 0.
Proof.
  induction ios as [|x r IH]; simpl; auto. destruct x; simpl; try discriminate. auto.
Qed.

Lemma count_acq_app : forall a b, count_acq (a ++ b) = count_acq a + count_acq b.
Proof. induction a as [|x a IH]; simpl; auto. destruct x; simpl; intros; rewrite ?IH; auto. Qed.
Lemma count_rel_app : forall a b, count_rel (a ++ b) = count_rel a + count_rel b.
Proof. induction a as [|x a IH]; simpl; auto. destruct x; simpl; intros; rewrite ?IH; auto. Qed.

(* every exit — normal, return, exception, cancellation — leaves the lock released *)
Theorem op_paths_balanced : forall c s t md,
  cm_good c = true -> wf s = true -> exec (cm_eval true c) s t md -> count_acq t = count_rel t.
Proof.
  intros. destruct (op_paths_one_block _ _ _ _ H H0 H1) as [E | [ios [A E]]]; subst; auto.
  simpl. rewrite count_acq_app, count_rel_app. destruct (count_io _ A) as [-> ->]. reflexivity.
Qed.

(* ---- the lock off ---- *)
Lemma off_all_io : forall s t md, exec cm_off s t md -> forallb is_io t = true.
Proof.
  induction 1; simpl; auto; try (apply forallb_app_true; split; auto).
  - destruct md; reflexivity.
Qed.

Lemma off_erase : forall m s t md, exec cm_off s t md -> exec m (erase s) t md.
Proof.
  induction 1; try (simpl; econstructor; eauto; fail).
  - replace (cm_pre cm_off ++ t ++ cm_post cm_off md) with t; auto.
    destruct md; simpl; rewrite app_nil_r; auto.
  - discriminate.
Qed.

Theorem disabled_paths : forall c s t md,
  cm_good c = true -> exec (cm_eval false c) s t md ->
  forallb is_io t = true /\ exec cm_on (erase s) t md.
Proof.
  intros c s t md G E. destruct (cm_good_on _ G) as [_ H]. rewrite H in E. split.
  - eapply off_all_io; eauto.
  - eapply off_erase; eauto.
Qed.

Lemma forallb_rev {A} (f : A -> bool) : forall l, forallb f (rev l) = forallb f l.
Proof.
  induction l; simpl; auto. rewrite forallb_app. simpl. rewrite IHl. rewrite andb_true_r. apply andb_comm.
Qed.

Lemma one_block_b : forall t, one_block t -> one_blockb t = true.
Proof.
  intros t [E | [ios [A E]]]; subst; simpl; auto.
  rewrite rev_app_distr. simpl. rewrite forallb_rev. auto.
Qed.

(* sensitivity of the well-formedness test: what it rejects really has a bad path *)
Example unguarded_read_has_bad_path :
  let s := SSeq (SLock (SIo 1)) (SIo 0) in
  wf s = false /\ exists t md, exec cm_on s t md /\ ~ one_block t.
Proof.
  split; [reflexivity|].
  exists [LAcq; LIo 1; LRel; LIo 0], MN. split.
  - change [LAcq; LIo 1; LRel; LIo 0] with ((cm_pre cm_on ++ [LIo 1] ++ cm_post cm_on MN) ++ [LIo 0]).
    eapply ex_seq_n; constructor. constructor.
  - intros H. apply one_block_b in H. discriminate.
Qed.

Example two_sections_has_bad_path :
  let s := SSeq (SLock (SIo 1)) (SLock (SIo 0)) in
  wf s = false /\ exists t md, exec cm_on s t md /\ ~ one_block t.
Proof.
  split; [reflexivity|].
  exists [LAcq; LIo 1; LRel; LAcq; LIo 0; LRel], MN. split.
  - change [LAcq; LIo 1; LRel; LAcq; LIo 0; LRel]
      with ((cm_pre cm_on ++ [LIo 1] ++ cm_post cm_on MN) ++ (cm_pre cm_on ++ [LIo 0] ++ cm_post cm_on MN)).
    eapply ex_seq_n; constructor; constructor.
  - intros H. apply one_block_b in H. discriminate.
Qed.

(* a context manager that does not protect the release leaves the lock held after an exception *)
Example cm_scrapli_good : cm_good cm_scrapli = true.
Proof. reflexivity. Qed.

Example cm_no_finally_bad :
  cm_good cm_no_finally = false /\
  exec (cm_eval true cm_no_finally) (SLock (SIo 0)) [LAcq; LIo 0] MX.
Proof.
  split; [reflexivity|].
  change [LAcq; LIo 0] with (cm_pre (cm_eval true cm_no_finally) ++ [LIo 0] ++ cm_post (cm_eval true cm_no_finally) MX).
  constructor. constructor.
Qed.

Example cm_acquire_in_try_bad :
  cm_good cm_acquire_in_try = false /\
  exec (cm_eval true cm_acquire_in_try) (SLock (SIo 0)) [LRel] MX.
Proof.
  split; [reflexivity|].
  change [LRel] with (cm_cancel (cm_eval true cm_acquire_in_try)). constructor. reflexivity.
Qed.

Example try_finally_cm_good : cm_good (CIfLock (CSeq [CAcq; CTryFinally CYield CRel]) CYield) = true.
Proof. reflexivity. Qed.

(* ------------------------------------------------------------------------------------------ *)
(* B. raw interleaving of N paths                                                              *)
(* ------------------------------------------------------------------------------------------ *)
Definition inside_p (p : list lev) : Prop := exists ios, forallb is_io ios = true /\ p = ios ++ [LRel].

Definition rinv (cf : rcfg) : Prop :=
  (forall c, r_lock cf = Some c -> exists p, nth_error (r_rest cf) c = Some p) /\
  forall c p, nth_error (r_rest cf) c = Some p ->
    (r_lock cf = Some c -> inside_p p) /\ (r_lock cf <> Some c -> one_block p).

Lemma rinv_init : forall ps, Forall one_block ps -> rinv (rinit ps).
Proof.
  intros ps F. split; simpl.
  - intros; discriminate.
  - intros c p H. split; [intros; discriminate|]. intros _.
    rewrite Forall_forall in F. apply F. eapply nth_error_In; eauto.
Qed.

Lemma one_block_head : forall l p, one_block (l :: p) -> l = LAcq /\ inside_p p.
Proof.
  intros l p [H | [ios [A H]]]; try discriminate. inversion H; subst. split; auto. exists ios; auto.
Qed.

Lemma inside_head : forall l p, inside_p (l :: p) ->
  (l = LRel /\ p = []) \/ (exists k, l = LIo k /\ inside_p p).
Proof.
  intros l p [ios [A H]]. destruct ios as [|x ios]; simpl in *.
  - inversion H; subst. left; auto.
  - inversion H; subst. apply andb_true_iff in A. destruct A as [A1 A2].
    destruct x; try discriminate. right. exists k. split; auto. exists ios; auto.
Qed.

Lemma rstep_inv : forall cf c l cf', rinv cf -> rstep cf (c, l) cf' ->
  rinv cf' /\ match l with LAcq => r_lock cf = None | _ => r_lock cf = Some c end.
Proof.
  intros cf c l cf' [I0 I] S. inversion S; subst; simpl.
  - (* acquire *)
    destruct (I _ _ H2) as [_ O]. rewrite H4 in O.
    destruct (one_block_head _ _ (O ltac:(discriminate))) as [_ IN].
    split; auto. split; simpl.
    + intros c0 E. inversion E; subst. exists p. eapply nth_error_upd_same; eauto.
    + intros c0 p0 N. apply nth_error_upd in N. destruct N as [[E1 E2] | [NE N]]; subst.
      * split; auto. intros X; congruence.
      * destruct (I _ _ N) as [_ O2]. split.
        -- intros E; inversion E; congruence.
        -- intros _. apply O2. rewrite H4. discriminate.
  - (* release *)
    destruct (I _ _ H3) as [IN O].
    assert (L : r_lock cf = Some c).
    { destruct (r_lock cf) as [o|] eqn:E.
      - destruct (Nat.eq_dec o c); [subst; auto|].
        assert (X : Some o <> Some c) by congruence.
        destruct (one_block_head _ _ (O X)). discriminate.
      - assert (X : @None nat <> Some c) by discriminate.
        destruct (one_block_head _ _ (O X)). discriminate. }
    split; auto.
    destruct (inside_head _ _ (IN L)) as [[_ E] | [k [E _]]]; try discriminate. subst p.
    split; simpl.
    + intros; discriminate.
    + intros c0 p0 N. split; [intros; discriminate|]. intros _.
      apply nth_error_upd in N. destruct N as [[E1 E2] | [NE N]]; subst.
      * left; auto.
      * destruct (I _ _ N) as [_ O2]. apply O2. rewrite L. congruence.
  - (* transport event *)
    destruct (I _ _ H3) as [IN O].
    assert (L : r_lock cf = Some c).
    { destruct (r_lock cf) as [o|] eqn:E.
      - destruct (Nat.eq_dec o c); [subst; auto|].
        assert (X : Some o <> Some c) by congruence.
        destruct (one_block_head _ _ (O X)). discriminate.
      - assert (X : @None nat <> Some c) by discriminate.
        destruct (one_block_head _ _ (O X)). discriminate. }
    split; auto.
    destruct (inside_head _ _ (IN L)) as [[E _] | [k' [E IN']]]; try discriminate.
    split; simpl.
    + intros c0 E0. rewrite L in E0. inversion E0; subst. exists p. eapply nth_error_upd_same; eauto.
    + intros c0 p0 N. apply nth_error_upd in N. destruct N as [[E1 E2] | [NE N]]; subst.
      * split; auto. intros X; congruence.
      * destruct (I _ _ N) as [IN2 O2]. split; auto.
Qed.

Lemma rrun_inv : forall ps tr cf, Forall one_block ps -> rrun (rinit ps) tr cf -> rinv cf.
Proof.
  intros ps tr cf F R. remember (rinit ps) as c0. induction R; subst.
  - apply rinv_init; auto.
  - destruct e as [c l]. eapply rstep_inv; eauto.
Qed.

Lemma tscan_app : forall a b o, tscan o (a ++ b) = match tscan o a with Some o' => tscan o' b | None => None end.
Proof.
  induction a as [|[c l] a IH]; simpl; intros; auto.
  destruct l; destruct o as [o|]; auto; try (destruct (Nat.eqb o c); auto).
Qed.

(* mutual exclusion for every interleaving of one-block paths, any number of callers *)
Theorem raw_exclusive : forall ps tr cf, Forall one_block ps -> rrun (rinit ps) tr cf ->
  tscan None tr = Some (r_lock cf).
Proof.
  intros ps tr cf F R. remember (rinit ps) as c0. induction R; subst.
  - reflexivity.
  - specialize (IHR eq_refl). rewrite tscan_app, IHR.
    assert (I : rinv c1) by (eapply rrun_inv; eauto).
    destruct e as [c l]. destruct (rstep_inv _ _ _ _ I H) as [_ L].
    inversion H; subst; simpl in *.
    + rewrite L. reflexivity.
    + rewrite L. rewrite Nat.eqb_refl. reflexivity.
    + rewrite L. rewrite Nat.eqb_refl. reflexivity.
Qed.

(* the same as the property reads: whenever a transport event of caller c happens, the lock is held
   by c (the scan of what came before ends with owner c) *)
Corollary raw_io_only_by_owner : forall ps tr cf pre c k post,
  Forall one_block ps -> rrun (rinit ps) tr cf -> tr = pre ++ (c, LIo k) :: post ->
  tscan None pre = Some (Some c).
Proof.
  intros ps tr cf pre c k post F R E. pose proof (raw_exclusive _ _ _ F R) as S. subst tr.
  rewrite tscan_app in S. destruct (tscan None pre) as [[x|]|] eqn:Q; simpl in S; try discriminate.
  destruct (Nat.eqb x c) eqn:Q2; try discriminate. apply Nat.eqb_eq in Q2. subst. reflexivity.
Qed.

Lemma not_all_nil : forall (l : list (list lev)), ~ Forall (fun p => p = []) l ->
  exists c x p, nth_error l c = Some (x :: p).
Proof.
  induction l as [|a l IH]; intros H.
  - exfalso. apply H. constructor.
  - destruct a as [|x p].
    + destruct IH as [c [x [p E]]].
      * intros F. apply H. constructor; auto.
      * exists (S c), x, p. auto.
    + exists 0, x, p. auto.
Qed.

(* no deadlock: as long as some caller has something left to do, some caller can step *)
Theorem raw_progress : forall ps tr cf, Forall one_block ps -> rrun (rinit ps) tr cf ->
  ~ rdone cf -> exists e cf', rstep cf e cf'.
Proof.
  intros ps tr cf F R ND. destruct (rrun_inv _ _ _ F R) as [I0 I].
  destruct (r_lock cf) as [h|] eqn:L.
  - destruct (I0 _ eq_refl) as [p N]. destruct (I _ _ N) as [IN _].
    destruct (IN eq_refl) as [ios [A E]]. subst p.
    destruct ios as [|x ios]; simpl in N.
    + eexists; eexists. eapply rs_rel; eauto.
    + simpl in A. apply andb_true_iff in A. destruct A as [A _]. destruct x; try discriminate.
      eexists; eexists. eapply rs_io; eauto.
  - destruct (not_all_nil _ ND) as [c [x [p N]]].
    destruct (I _ _ N) as [_ O].
    assert (X : @None nat <> Some c) by discriminate.
    destruct (one_block_head _ _ (O X)) as [E _]. subst x.
    eexists; eexists. eapply rs_acq; eauto.
Qed.

(* when every caller is through, the lock is free *)
Theorem raw_complete_free : forall ps tr cf, Forall one_block ps -> rrun (rinit ps) tr cf ->
  rdone cf -> r_lock cf = None.
Proof.
  intros ps tr cf F R Dn. destruct (rrun_inv _ _ _ F R) as [I0 I].
  destruct (r_lock cf) as [h|] eqn:L; auto.
  destruct (I0 _ eq_refl) as [p N]. destruct (I _ _ N) as [IN _].
  destruct (IN eq_refl) as [ios [A E]].
  unfold rdone in Dn. rewrite Forall_forall in Dn. apply nth_error_In in N. apply Dn in N. subst.
  destruct ios; discriminate.
Qed.

(* executable replay is sound for the relation *)
Lemma lev_eqb_eq : forall a b, lev_eqb a b = true -> a = b.
Proof. destruct a, b; simpl; intros; try discriminate; auto. apply Nat.eqb_eq in H; subst; auto. Qed.

Lemma rstep_fn_sound : forall cf e cf', rstep_fn cf e = Some cf' -> rstep cf e cf'.
Proof.
  intros cf [c l] cf' H. unfold rstep_fn in H.
  destruct (nth_error (r_rest cf) c) as [[|h p]|] eqn:N; try discriminate.
  destruct (lev_eqb h l) eqn:Q; try discriminate. apply lev_eqb_eq in Q. subst h.
  destruct l.
  - destruct (r_lock cf) eqn:L; try discriminate. inversion H; subst. constructor; auto.
  - inversion H; subst. econstructor; eauto.
  - inversion H; subst. econstructor; eauto.
Qed.

Lemma rrun_cons : forall c0 e c1 tr c2, rstep c0 e c1 -> rrun c1 tr c2 -> rrun c0 (e :: tr) c2.
Proof.
  intros c0 e c1 tr c2 S R. induction R.
  - change [e] with ([] ++ [e]). econstructor; [constructor | auto].
  - change (e :: tr ++ [e0]) with ((e :: tr) ++ [e0]). econstructor; eauto.
Qed.

Lemma rreplay_sound : forall tr cf cf', rreplay cf tr = Some cf' -> rrun cf tr cf'.
Proof.
  induction tr as [|e tr IH]; simpl; intros cf cf' H.
  - inversion H; subst. constructor.
  - destruct (rstep_fn cf e) eqn:S; try discriminate. eapply rrun_cons; eauto. apply rstep_fn_sound; auto.
Qed.

(* why well-formedness matters: a path with a transport event outside its lock section does
   interleave with another caller's section *)
Example unguarded_interleaves :
  exists tr cf, rrun (rinit [[LAcq; LIo 1; LRel; LIo 0]; [LAcq; LIo 1; LIo 0; LRel]]) tr cf /\
                tscan None tr = None.
Proof.
  exists [(0, LAcq); (0, LIo 1); (0, LRel); (1, LAcq); (1, LIo 1); (0, LIo 0)].
  eexists. split; [apply rreplay_sound; reflexivity | reflexivity].
Qed.

(* non-vacuity of raw_exclusive: two one-block callers, a complete interleaving *)
Example raw_exclusive_nonvacuous :
  let ps := [[LAcq; LIo 1; LIo 0; LRel]; [LAcq; LIo 1; LRel]; []] in
  Forall one_block ps /\
  exists tr cf, rrun (rinit ps) tr cf /\ rdone cf /\ length tr = 7.
Proof.
  split.
  - constructor; [right; exists [LIo 1; LIo 0]; auto|].
    constructor; [right; exists [LIo 1]; auto|].
    constructor; [left; auto | constructor].
  - exists [(1, LAcq); (1, LIo 1); (1, LRel); (0, LAcq); (0, LIo 1); (0, LIo 0); (0, LRel)].
    eexists. split; [apply rreplay_sound; reflexivity|]. split; [repeat constructor | reflexivity].
Qed.

(* ------------------------------------------------------------------------------------------ *)
(* C. reactive callers over a device, with failures                                            *)
(* ------------------------------------------------------------------------------------------ *)
Lemma scan_app : forall a b o, scan o (a ++ b) = match scan o a with Some o' => scan o' b | None => None end.
Proof.
  induction a as [|e a IH]; simpl; intros; auto.
  destruct e; destruct o as [o|]; auto; try (destruct (Nat.eqb o c); auto).
Qed.

Lemma wire_app : forall a b, wire (a ++ b) = wire a ++ wire b.
Proof. intros. unfold wire. apply filter_app. Qed.

Lemma acq_order_app : forall a b, acq_order (a ++ b) = acq_order a ++ acq_order b.
Proof. induction a as [|e a IH]; simpl; intros; auto. destruct e; simpl; rewrite ?IH; auto. Qed.

(* the scan accepts => the property as it reads *)
Lemma scan_hold : forall mid post c o,
  scan (Some c) (mid ++ post) = Some o ->
  forallb (fun e => negb (is_release_of c e)) mid = true ->
  forall e, In e mid -> is_wire e = true -> ev_caller e = c.
Proof.
  induction mid as [|x mid IH]; simpl; intros post c o S NR e IN W; [contradiction|].
  apply andb_true_iff in NR. destruct NR as [NR1 NR2].
  destruct x; simpl in S, NR1.
  - discriminate.
  - destruct (Nat.eqb c c0) eqn:Q; try discriminate. apply Nat.eqb_eq in Q. subst c0.
    destruct IN as [<- | IN]; simpl; auto. eapply IH; eauto.
  - destruct (Nat.eqb c c0) eqn:Q; try discriminate. apply Nat.eqb_eq in Q. subst c0.
    destruct IN as [<- | IN]; simpl; auto. eapply IH; eauto.
  - destruct (Nat.eqb c c0) eqn:Q; discriminate.
  - destruct (Nat.eqb c c0) eqn:Q; discriminate.
  - destruct IN as [<- | IN]; [simpl in W; discriminate|]. eapply IH; eauto.
Qed.

Lemma scan_exclusive : forall tr o, scan None tr = Some o -> exclusive tr.
Proof.
  intros tr o S pre c mid post E NR e IN W. subst tr.
  rewrite scan_app in S. destruct (scan None pre) as [o1|] eqn:P; try discriminate.
  simpl in S. destruct o1; try discriminate.
  eapply scan_hold; eauto.
Qed.

Lemma NoDup_app_snoc {A} : forall (l : list A) x, NoDup l -> ~ In x l -> NoDup (l ++ [x]).
Proof.
  induction l as [|a l IH]; simpl; intros x ND NI.
  - constructor; auto.
  - inversion ND; subst. constructor.
    + intros IN. apply in_app_or in IN. destruct IN as [IN | IN]; auto.
      destruct IN as [IN | IN]; [subst; apply NI; auto | destruct IN].
    + apply IH; auto.
Qed.

Section ReactiveProofs.
  Variables D St R : Type.
  Variable next : St -> action R.
  Variable on_write : St -> St.
  Variable on_read : St -> bytes -> St.
  Variable dwrite : D -> bytes -> D.
  Variable dread : D -> option (bytes * D).

  Local Notation cfgT := (config D St R).
  Local Notation stepR := (step D St R next on_write on_read dwrite dread).
  Local Notation runR := (run D St R next on_write on_read dwrite dread).
  Local Notation op_runR := (op_run D St R next on_write on_read dwrite dread).
  Local Notation op_partR := (op_part D St R next on_write on_read dwrite dread).
  Local Notation seq_runR := (seq_run D St R next on_write on_read dwrite dread).
  Local Notation initR := (init D St R).
  Local Notation all_finishedR := (all_finished D St R).

  (* the lock is held exactly by the caller that is inside its operation *)
  Definition holder_inv (cf : cfgT) : Prop :=
    forall c, (exists s, nth_error (sts cf) c = Some (Holding s)) <-> lock cf = Some c.

  Lemma holder_init : forall d ss, holder_inv (initR d ss).
  Proof.
    intros d ss c. unfold init; simpl. split.
    - intros [s H]. rewrite nth_error_map in H. destruct (nth_error ss c); simpl in H; discriminate.
    - discriminate.
  Qed.

  Lemma holder_step : forall cf e cf', holder_inv cf -> stepR true cf e cf' -> holder_inv cf'.
  Proof.
    intros cf e cf' I S c'. inversion S; subst; simpl.
    - (* acquire *)
      specialize (H0 eq_refl). split.
      + intros [s0 N]. apply nth_error_upd in N. destruct N as [[E _] | [NE N]]; [subst; auto|].
        assert (X : lock cf = Some c') by (apply I; eauto). congruence.
      + intros E. inversion E; subst. exists s. eapply nth_error_upd_same; eauto.
    - (* write *)
      split.
      + intros [s0 N]. apply nth_error_upd in N. destruct N as [[E _] | [NE N]].
        * subst. apply I. eauto.
        * apply I. eauto.
      + intros E. apply I in E. destruct E as [s0 N]. destruct (Nat.eq_dec c c').
        * subst. eexists. eapply nth_error_upd_same; eauto.
        * exists s0. rewrite nth_error_upd_other; auto.
    - (* read *)
      split.
      + intros [s0 N]. apply nth_error_upd in N. destruct N as [[E _] | [NE N]].
        * subst. apply I. eauto.
        * apply I. eauto.
      + intros E. apply I in E. destruct E as [s0 N]. destruct (Nat.eq_dec c c').
        * subst. eexists. eapply nth_error_upd_same; eauto.
        * exists s0. rewrite nth_error_upd_other; auto.
    - (* done *)
      split; [| discriminate].
      intros [s0 N]. apply nth_error_upd in N. destruct N as [[E X] | [NE N]]; [discriminate|].
      assert (L1 : lock cf = Some c') by (apply I; eauto).
      assert (L2 : lock cf = Some c) by (apply I; eauto). congruence.
    - (* fault *)
      split; [| discriminate].
      intros [s0 N]. apply nth_error_upd in N. destruct N as [[E X] | [NE N]]; [discriminate|].
      assert (L1 : lock cf = Some c') by (apply I; eauto).
      assert (L2 : lock cf = Some c) by (apply I; eauto). congruence.
    - (* give up *)
      split.
      + intros [s0 N]. apply nth_error_upd in N. destruct N as [[E X] | [NE N]]; [discriminate|].
        apply I. eauto.
      + intros E. apply I in E. destruct E as [s0 N]. destruct (Nat.eq_dec c c').
        * subst. congruence.
        * exists s0. rewrite nth_error_upd_other; auto.
  Qed.

  Lemma holder_run : forall d ss tr cf, runR true (initR d ss) tr cf -> holder_inv cf.
  Proof.
    intros d ss tr cf H. remember (initR d ss) as c0. induction H; subst.
    - apply holder_init.
    - eapply holder_step; eauto.
  Qed.

  (* ---- mutual exclusion ---- *)
  Lemma scan_run : forall d ss tr cf, runR true (initR d ss) tr cf -> scan None tr = Some (lock cf).
  Proof.
    intros d ss tr cf H. remember (initR d ss) as c0. induction H; subst.
    - reflexivity.
    - specialize (IHrun eq_refl). rewrite scan_app, IHrun.
      pose proof (holder_run _ _ _ _ H) as I.
      inversion H0; subst; simpl.
      + rewrite (H2 eq_refl). reflexivity.
      + assert (L : lock c1 = Some c) by (apply I; eauto). rewrite L, Nat.eqb_refl. reflexivity.
      + assert (L : lock c1 = Some c) by (apply I; eauto). rewrite L, Nat.eqb_refl. reflexivity.
      + assert (L : lock c1 = Some c) by (apply I; eauto). rewrite L, Nat.eqb_refl. reflexivity.
      + assert (L : lock c1 = Some c) by (apply I; eauto). rewrite L, Nat.eqb_refl. reflexivity.
      + reflexivity.
  Qed.

  Theorem mutual_exclusion : forall d ss tr cf,
    runR true (initR d ss) tr cf -> exclusive tr /\ scan None tr = Some (lock cf).
  Proof.
    intros. pose proof (scan_run _ _ _ _ H). split; auto. eapply scan_exclusive; eauto.
  Qed.

  (* ---- serialisability ---- *)
  Lemma op_part_run : forall c d s tr d1 s1, op_partR c d s tr d1 s1 ->
    forall tl d2 o, op_runR c d1 s1 tl d2 o -> op_runR c d s (tr ++ tl) d2 o.
  Proof.
    induction 1; intros tl d2' o RR; simpl; auto.
    - rewrite <- app_assoc. simpl. apply IHop_part. econstructor; eauto.
    - rewrite <- app_assoc. simpl. apply IHop_part. econstructor; eauto.
  Qed.

  Definition ser_inv (d0 : D) (ss : list St) (tr : list ev) (cf : cfgT) : Prop :=
    exists order w dmid,
      seq_runR ss d0 order w dmid /\
      NoDup (map fst order) /\
      (forall c o, In (c, o) order -> nth_error (sts cf) c = Some (Finished o)) /\
      (forall c o, nth_error (sts cf) c = Some (Finished o) -> In (c, o) order \/ o = OGaveUp) /\
      (forall c s, nth_error (sts cf) c = Some (Waiting s) -> nth_error ss c = Some s) /\
      acq_order tr = map fst order ++ (match lock cf with Some c => [c] | None => [] end) /\
      match lock cf with
      | None => wire tr = w /\ dmid = dev cf
      | Some c => exists s0 blk s, nth_error ss c = Some s0 /\ op_partR c dmid s0 blk (dev cf) s /\
                                   nth_error (sts cf) c = Some (Holding s) /\ wire tr = w ++ EAcq c :: blk
      end.

  Lemma ser_init : forall d ss, ser_inv d ss [] (initR d ss).
  Proof.
    intros d ss. exists [], [], d. unfold init; simpl. repeat split; auto.
    - constructor.
    - constructor.
    - intros c o [].
    - intros c o H. rewrite nth_error_map in H. destruct (nth_error ss c); simpl in H; discriminate.
    - intros c s H. rewrite nth_error_map in H. destruct (nth_error ss c); simpl in H; inversion H; auto.
  Qed.

  Lemma in_order_fst : forall (order : list (nat * outcome R)) c, In c (map fst order) -> exists o, In (c, o) order.
  Proof.
    intros order c H. apply in_map_iff in H. destruct H as [[c' o] [E IN]]. simpl in E. subst. eauto.
  Qed.

  Lemma ser_step : forall d0 ss tr cf e cf',
    holder_inv cf -> ser_inv d0 ss tr cf -> stepR true cf e cf' -> ser_inv d0 ss (tr ++ [e]) cf'.
  Proof.
    intros d0 ss tr cf e cf' HI [order [w [dmid [SQ [ND [FIN [FIN2 [WT [AO LK]]]]]]]]] S.
    inversion S; subst; simpl in *.
    - (* acquire *)
      specialize (H0 eq_refl). rewrite H0 in *. destruct LK as [LW LD]. subst dmid.
      exists order, w, (dev cf). simpl. repeat split; auto.
      + intros c0 o IN. pose proof (FIN _ _ IN) as N.
        destruct (Nat.eq_dec c c0); [subst; congruence|]. rewrite nth_error_upd_other; auto.
      + intros c0 o N. apply nth_error_upd in N. destruct N as [[_ X] | [_ N]]; [discriminate | auto].
      + intros c0 s0 N. apply nth_error_upd in N. destruct N as [[_ X] | [_ N]]; [discriminate | auto].
      + rewrite acq_order_app, AO. simpl. rewrite app_nil_r. reflexivity.
      + exists s, [], s. repeat split; auto.
        * constructor.
        * eapply nth_error_upd_same; eauto.
        * rewrite wire_app. simpl. rewrite LW. reflexivity.
    - (* write *)
      assert (L : lock cf = Some c) by (apply HI; eauto). rewrite L in *.
      destruct LK as [s0 [blk [s1 [N0 [OP [N1 LW]]]]]].
      assert (s1 = s) by congruence. subst s1.
      exists order, w, dmid. simpl. repeat split; auto.
      + intros c0 o IN. pose proof (FIN _ _ IN) as N.
        destruct (Nat.eq_dec c c0); [subst; congruence|]. rewrite nth_error_upd_other; auto.
      + intros c0 o N. apply nth_error_upd in N. destruct N as [[_ X] | [_ N]]; [discriminate | auto].
      + intros c0 s2 N. apply nth_error_upd in N. destruct N as [[_ X] | [_ N]]; [discriminate | auto].
      + rewrite acq_order_app, AO. simpl. rewrite app_nil_r. reflexivity.
      + exists s0, (blk ++ [EWr c b]), (on_write s). repeat split; auto.
        * econstructor; eauto.
        * eapply nth_error_upd_same; eauto.
        * rewrite wire_app. simpl. rewrite LW. rewrite <- app_assoc. reflexivity.
    - (* read *)
      assert (L : lock cf = Some c) by (apply HI; eauto). rewrite L in *.
      destruct LK as [s0 [blk [s1 [N0 [OP [N1 LW]]]]]].
      assert (s1 = s) by congruence. subst s1.
      exists order, w, dmid. simpl. repeat split; auto.
      + intros c0 o IN. pose proof (FIN _ _ IN) as N.
        destruct (Nat.eq_dec c c0); [subst; congruence|]. rewrite nth_error_upd_other; auto.
      + intros c0 o N. apply nth_error_upd in N. destruct N as [[_ X] | [_ N]]; [discriminate | auto].
      + intros c0 s2 N. apply nth_error_upd in N. destruct N as [[_ X] | [_ N]]; [discriminate | auto].
      + rewrite acq_order_app, AO. simpl. rewrite app_nil_r. reflexivity.
      + exists s0, (blk ++ [ERd c b]), (on_read s b). repeat split; auto.
        * econstructor; eauto.
        * eapply nth_error_upd_same; eauto.
        * rewrite wire_app. simpl. rewrite LW. rewrite <- app_assoc. reflexivity.
    - (* done *)
      assert (L : lock cf = Some c) by (apply HI; eauto). rewrite L in *.
      destruct LK as [s0 [blk [s1 [N0 [OP [N1 LW]]]]]].
      assert (s1 = s) by congruence. subst s1.
      assert (NI : ~ In c (map fst order)).
      { intros IN. apply in_order_fst in IN. destruct IN as [o IN]. apply FIN in IN. congruence. }
      exists (order ++ [(c, OOk r)]), (w ++ EAcq c :: (blk ++ [ERel c])), (dev cf). simpl. repeat split; auto.
      + econstructor; eauto. eapply op_part_run; eauto. constructor; auto.
      + rewrite map_app. simpl. apply NoDup_app_snoc; auto.
      + intros c0 o IN. apply in_app_or in IN. destruct IN as [IN | [IN | []]].
        * pose proof (FIN _ _ IN) as N. destruct (Nat.eq_dec c c0); [subst; congruence|].
          rewrite nth_error_upd_other; auto.
        * inversion IN; subst. eapply nth_error_upd_same; eauto.
      + intros c0 o N. apply nth_error_upd in N. destruct N as [[E X] | [_ N]].
        * inversion X; subst. left. apply in_or_app. right. left; auto.
        * destruct (FIN2 _ _ N); auto. left. apply in_or_app; auto.
      + intros c0 s2 N. apply nth_error_upd in N. destruct N as [[_ X] | [_ N]]; [discriminate | auto].
      + rewrite acq_order_app, AO, map_app. simpl. rewrite app_nil_r. reflexivity.
      + rewrite wire_app. simpl. rewrite LW. rewrite <- app_assoc. reflexivity.
    - (* fault *)
      assert (L : lock cf = Some c) by (apply HI; eauto). rewrite L in *.
      destruct LK as [s0 [blk [s1 [N0 [OP [N1 LW]]]]]].
      assert (s1 = s) by congruence. subst s1.
      assert (NI : ~ In c (map fst order)).
      { intros IN. apply in_order_fst in IN. destruct IN as [o IN]. apply FIN in IN. congruence. }
      exists (order ++ [(c, OFailed)]), (w ++ EAcq c :: (blk ++ [EFault c])), (dev cf). simpl. repeat split; auto.
      + econstructor; eauto. eapply op_part_run; eauto. constructor; auto.
      + rewrite map_app. simpl. apply NoDup_app_snoc; auto.
      + intros c0 o IN. apply in_app_or in IN. destruct IN as [IN | [IN | []]].
        * pose proof (FIN _ _ IN) as N. destruct (Nat.eq_dec c c0); [subst; congruence|].
          rewrite nth_error_upd_other; auto.
        * inversion IN; subst. eapply nth_error_upd_same; eauto.
      + intros c0 o N. apply nth_error_upd in N. destruct N as [[E X] | [_ N]].
        * inversion X; subst. left. apply in_or_app. right. left; auto.
        * destruct (FIN2 _ _ N); auto. left. apply in_or_app; auto.
      + intros c0 s2 N. apply nth_error_upd in N. destruct N as [[_ X] | [_ N]]; [discriminate | auto].
      + rewrite acq_order_app, AO, map_app. simpl. rewrite app_nil_r. reflexivity.
      + rewrite wire_app. simpl. rewrite LW. rewrite <- app_assoc. reflexivity.
    - (* give up *)
      exists order, w, dmid. simpl. repeat split; auto.
      + intros c0 o IN. pose proof (FIN _ _ IN) as N.
        destruct (Nat.eq_dec c c0); [subst; congruence|]. rewrite nth_error_upd_other; auto.
      + intros c0 o N. apply nth_error_upd in N. destruct N as [[_ X] | [_ N]].
        * inversion X; subst. right; auto.
        * auto.
      + intros c0 s2 N. apply nth_error_upd in N. destruct N as [[_ X] | [_ N]]; [discriminate | auto].
      + rewrite acq_order_app, AO. simpl. rewrite app_nil_r. reflexivity.
      + destruct (lock cf) as [h|] eqn:L.
        * destruct LK as [s0 [blk [s1 [N0 [OP [N1 LW]]]]]].
          exists s0, blk, s1. repeat split; auto.
          -- destruct (Nat.eq_dec c h); [subst; congruence|]. rewrite nth_error_upd_other; auto.
          -- rewrite wire_app. simpl. rewrite app_nil_r. auto.
        * destruct LK as [LW LD]. split; auto. rewrite wire_app. simpl. rewrite app_nil_r. auto.
  Qed.

  Lemma ser_run : forall d ss tr cf, runR true (initR d ss) tr cf -> ser_inv d ss tr cf.
  Proof.
    intros d ss tr cf H. remember (initR d ss) as c0. induction H; subst.
    - apply ser_init.
    - eapply ser_step; eauto. eapply holder_run; eauto.
  Qed.

  Lemma all_finished_no_holder : forall (cf : cfgT) c s,
    all_finishedR cf -> nth_error (sts cf) c = Some (Holding s) -> False.
  Proof.
    intros cf c s F N. unfold all_finished in F. rewrite forallb_forall in F.
    apply nth_error_In in N. apply F in N. discriminate.
  Qed.

  (* every complete run, for every schedule and every placement of failures, IS a sequential run:
     its wire trace is the concatenation of whole operations in acquisition order, the device ends
     where the sequential run leaves it, and every caller's outcome is the outcome of its own whole
     operation run from the device state the previous operations left *)
  Theorem serialisable : forall d ss tr cf,
    runR true (initR d ss) tr cf -> all_finishedR cf ->
    exists order,
      seq_runR ss d order (wire tr) (dev cf) /\
      map fst order = acq_order tr /\ NoDup (map fst order) /\
      (forall c o, In (c, o) order -> nth_error (sts cf) c = Some (Finished o)) /\
      (forall c o, nth_error (sts cf) c = Some (Finished o) -> In (c, o) order \/ o = OGaveUp).
  Proof.
    intros d ss tr cf H F.
    destruct (ser_run _ _ _ _ H) as [order [w [dmid [SQ [ND [FIN [FIN2 [WT [AO LK]]]]]]]]].
    destruct (lock cf) as [h|] eqn:L.
    - exfalso. destruct LK as [s0 [blk [s1 [N0 [OP [N1 LW]]]]]]. eapply all_finished_no_holder; eauto.
    - destruct LK as [LW LD]. subst. exists order. rewrite app_nil_r in AO. repeat split; auto.
  Qed.

  (* a whole operation that did not fail is a function of the device state it starts from *)
  Lemma op_run_ok_det : forall c d s t1 d1 r1, op_runR c d s t1 d1 (OOk r1) ->
    forall t2 d2 r2, op_runR c d s t2 d2 (OOk r2) -> t1 = t2 /\ d1 = d2 /\ r1 = r2.
  Proof.
    intros c d s t1 d1 r1 H. remember (OOk r1) as o1. revert r1 Heqo1.
    induction H; intros r1 E t2 d2 r2 H2; try discriminate.
    - inversion E; subst. inversion H2; subst;
        repeat match goal with
               | A : next ?s = _, B : next ?s = _ |- _ => rewrite A in B; inversion B; clear B; subst
               end; auto.
    - inversion H2; subst;
        repeat match goal with
               | A : next ?s = _, B : next ?s = _ |- _ => rewrite A in B; inversion B; clear B; subst
               end.
      edestruct IHop_run as [A1 [B1 C1]]; [reflexivity | eassumption |]. subst. auto.
    - inversion H2; subst;
        repeat match goal with
               | A : next ?s = _, B : next ?s = _ |- _ => rewrite A in B; inversion B; clear B; subst
               end.
      match goal with A : dread ?d = _, B : dread ?d = _ |- _ => rewrite A in B; inversion B; clear B; subst end.
      edestruct IHop_run as [A1 [B1 C1]]; [reflexivity | eassumption |]. subst. auto.
  Qed.

  (* so, without failures, the acquisition order alone determines the wire trace, the final device
     and every caller's result: they do not depend on the schedule *)
  Lemma seq_run_det : forall ss d o1 w1 d1, seq_runR ss d o1 w1 d1 ->
    forall o2 w2 d2, seq_runR ss d o2 w2 d2 -> map fst o1 = map fst o2 ->
    (forall c o, In (c, o) o1 -> exists r, o = OOk r) ->
    (forall c o, In (c, o) o2 -> exists r, o = OOk r) ->
    o1 = o2 /\ w1 = w2 /\ d1 = d2.
  Proof.
    induction 1; intros o2 w2 d2' H2 M A1 A2.
    - inversion H2; subst; auto.
      rewrite map_app in M. simpl in M. destruct (map fst order); discriminate.
    - inversion H2; subst.
      + rewrite map_app in M. simpl in M. destruct (map fst order); discriminate.
      + rewrite !map_app in M. simpl in M. apply app_inj_tail in M. destruct M as [M1 M2]. subst c0.
        destruct (IHseq_run _ _ _ H3 M1) as [E1 [E2 E3]].
        * intros c' o' IN. eapply A1. apply in_or_app; eauto.
        * intros c' o' IN. eapply A2. apply in_or_app; eauto.
        * subst. assert (s0 = s) by congruence. subst s0.
          destruct (A1 c o) as [r1 ->]; [apply in_or_app; right; left; auto|].
          destruct (A2 c o0) as [r2 ->]; [apply in_or_app; right; left; auto|].
          destruct (op_run_ok_det _ _ _ _ _ _ H1 _ _ _ H5) as [X [Y Z]]. subst. auto.
  Qed.

  Theorem schedule_independent : forall d ss tr1 cf1 tr2 cf2,
    runR true (initR d ss) tr1 cf1 -> all_finishedR cf1 ->
    runR true (initR d ss) tr2 cf2 -> all_finishedR cf2 ->
    acq_order tr1 = acq_order tr2 ->
    (forall c o, nth_error (sts cf1) c = Some (Finished o) -> exists r, o = OOk r) ->
    (forall c o, nth_error (sts cf2) c = Some (Finished o) -> exists r, o = OOk r) ->
    wire tr1 = wire tr2 /\ dev cf1 = dev cf2 /\
    forall c o, nth_error (sts cf1) c = Some (Finished o) -> nth_error (sts cf2) c = Some (Finished o).
  Proof.
    intros d ss tr1 cf1 tr2 cf2 R1 F1 R2 F2 AO OK1 OK2.
    destruct (serialisable _ _ _ _ R1 F1) as [o1 [S1 [M1 [_ [I1 J1]]]]].
    destruct (serialisable _ _ _ _ R2 F2) as [o2 [S2 [M2 [_ [I2 J2]]]]].
    destruct (seq_run_det _ _ _ _ _ S1 _ _ _ S2) as [E1 [E2 E3]].
    - congruence.
    - intros c o IN. eapply OK1. eauto.
    - intros c o IN. eapply OK2. eauto.
    - subst. repeat split; auto. intros c o N.
      destruct (J1 _ _ N) as [IN | ->]; auto.
      destruct (OK1 _ _ N) as [r X]. discriminate.
  Qed.

  (* ---- the lock is released whatever the outcome; the next caller proceeds; no deadlock ---- *)
  Theorem lock_free_when_idle : forall d ss tr cf,
    runR true (initR d ss) tr cf ->
    (forall c s, nth_error (sts cf) c <> Some (Holding s)) -> lock cf = None.
  Proof.
    intros d ss tr cf H NH. pose proof (holder_run _ _ _ _ H) as I.
    destruct (lock cf) as [h|] eqn:L; auto.
    apply I in L. destruct L as [s N]. exfalso. eapply NH; eauto.
  Qed.

  Theorem lock_released : forall d ss tr cf e cf' c,
    runR true (initR d ss) tr cf -> stepR true cf e cf' -> (e = ERel c \/ e = EFault c) ->
    lock cf' = None /\
    forall c' s, nth_error (sts cf') c' = Some (Waiting s) -> exists cf'', stepR true cf' (EAcq c') cf''.
  Proof.
    intros d ss tr cf e cf' c H S E.
    assert (L : lock cf' = None) by (destruct E; subst; inversion S; subst; reflexivity).
    split; auto. intros c' s N. eexists. econstructor; eauto.
  Qed.

  Theorem all_finished_lock_free : forall d ss tr cf,
    runR true (initR d ss) tr cf -> all_finishedR cf -> lock cf = None.
  Proof.
    intros. eapply lock_free_when_idle; eauto. intros c s N. eapply all_finished_no_holder; eauto.
  Qed.

  Lemma not_all_finished : forall (l : list (status St R)), forallb (finishedb St R) l <> true ->
    exists c, (exists s, nth_error l c = Some (Waiting s)) \/ (exists s, nth_error l c = Some (Holding s)).
  Proof.
    induction l as [|a l IH]; simpl; intros H; [congruence|].
    destruct a; simpl in H.
    - exists 0. left. exists s. reflexivity.
    - exists 0. right. exists s. reflexivity.
    - destruct (IH H) as [c X]. exists (S c). auto.
  Qed.

  (* no deadlock: while some caller is not through, some caller can take a step of its own (not a
     failure), unless the lock holder waits for a device that has nothing to say — the one situation
     the operation timeout exists for, and then the failure step frees the lock (lock_released) *)
  Theorem progress : forall d ss tr cf,
    runR true (initR d ss) tr cf -> ~ all_finishedR cf ->
    (exists e cf', stepR true cf e cf' /\ (forall c, e <> EFault c) /\ (forall c, e <> EGiveUp c)) \/
    (exists h s, lock cf = Some h /\ nth_error (sts cf) h = Some (Holding s) /\
                 next s = ARead /\ dread (dev cf) = None).
  Proof.
    intros d ss tr cf H NF. pose proof (holder_run _ _ _ _ H) as I.
    destruct (lock cf) as [h|] eqn:L.
    - destruct (proj2 (I h) L) as [s N].
      destruct (next s) as [b | | r] eqn:NX.
      + left. eexists; eexists. split; [eapply s_wr; eauto|]. split; intros; discriminate.
      + destruct (dread (dev cf)) as [[b d']|] eqn:RD.
        * left. eexists; eexists. split; [eapply s_rd; eauto|]. split; intros; discriminate.
        * right. exists h, s. auto.
      + left. eexists; eexists. split; [eapply s_done; eauto|]. split; intros; discriminate.
    - destruct (not_all_finished _ NF) as [c [[s N] | [s N]]].
      + left. eexists; eexists. split; [eapply s_acq; eauto|]. split; intros; discriminate.
      + assert (X : lock cf = Some c) by (apply I; eauto). congruence.
  Qed.

  (* ---- a timed-out operation never blocks the next one: where the timeout ends the operation ---- *)
  Theorem timeout_unblocks_partial :
    timeout_unblocks D St R next on_write on_read dwrite dread TEnds.
  Proof.
    intros d ss tr cf h s c' s' H L NH NX RD NW. simpl.
    eexists. eapply s_acq; simpl; eauto.
    rewrite nth_error_upd_other; eauto. intros E. subst. congruence.
  Qed.

  (* ---- the lock off ---- *)
  Lemma disabled_lock_none : forall d ss tr cf, runR false (initR d ss) tr cf -> lock cf = None.
  Proof.
    intros d ss tr cf H. remember (initR d ss) as c0. induction H; subst; auto.
    specialize (IHrun eq_refl). inversion H0; subst; simpl; auto.
  Qed.

  Theorem disabled_is_noop : forall d ss tr cf,
    runR false (initR d ss) tr cf ->
    lock cf = None /\
    (forall c s, nth_error (sts cf) c = Some (Waiting s) -> exists cf', stepR false cf (EAcq c) cf') /\
    (forall e cf', stepR false cf e cf' -> lock cf' = None).
  Proof.
    intros d ss tr cf H. pose proof (disabled_lock_none _ _ _ _ H) as L. split; auto. split.
    - intros c s N. eexists. econstructor; eauto; discriminate.
    - intros e cf' S. inversion S; subst; simpl; auto.
  Qed.

  (* ---- the executable step function is the relation ---- *)
  Lemma step_fn_sound : forall en cf e cf',
    step_fn D St R next on_write on_read dwrite dread en cf e = Some cf' -> stepR en cf e cf'.
  Proof.
    intros en cf e cf' H. destruct e; simpl in H.
    - destruct (nth_error (sts cf) c) as [[s|s|o]|] eqn:N; try discriminate.
      destruct en.
      + destruct (lock cf) eqn:L; try discriminate. inversion H; subst.
        replace (Some c) with (set_lock true (Some c) (lock cf)) by reflexivity.
        econstructor; eauto.
      + inversion H; subst.
        replace (lock cf) with (set_lock false (Some c) (lock cf)) at 1 by reflexivity.
        econstructor; eauto. discriminate.
    - destruct (nth_error (sts cf) c) as [[s|s|o]|] eqn:N; try discriminate.
      destruct (next s) eqn:NX; try discriminate.
      destruct (beq b b0) eqn:Q; try discriminate. apply lk_beq_eq in Q. subst b0.
      inversion H; subst. econstructor; eauto.
    - destruct (nth_error (sts cf) c) as [[s|s|o]|] eqn:N; try discriminate.
      destruct (next s) eqn:NX; try discriminate.
      destruct (dread (dev cf)) as [[b' d']|] eqn:RD; try discriminate.
      destruct (beq b b') eqn:Q; try discriminate. apply lk_beq_eq in Q. subst b'.
      inversion H; subst. econstructor; eauto.
    - destruct (nth_error (sts cf) c) as [[s|s|o]|] eqn:N; try discriminate.
      destruct (next s) eqn:NX; try discriminate.
      inversion H; subst. econstructor; eauto.
    - destruct (nth_error (sts cf) c) as [[s|s|o]|] eqn:N; try discriminate.
      inversion H; subst. econstructor; eauto.
    - destruct (nth_error (sts cf) c) as [[s|s|o]|] eqn:N; try discriminate.
      inversion H; subst. econstructor; eauto.
  Qed.

  Lemma step_fn_complete : forall en cf e cf',
    stepR en cf e cf' -> step_fn D St R next on_write on_read dwrite dread en cf e = Some cf'.
  Proof.
    intros en cf e cf' S. inversion S; subst; simpl; rewrite H; auto.
    - destruct en; simpl; auto. rewrite (H0 eq_refl). reflexivity.
    - rewrite H0, lk_beq_refl. reflexivity.
    - rewrite H0, H1, lk_beq_refl. reflexivity.
    - rewrite H0. reflexivity.
  Qed.

  Lemma run_cons : forall en c0 e c1 tr c2, stepR en c0 e c1 -> runR en c1 tr c2 -> runR en c0 (e :: tr) c2.
  Proof.
    intros en c0 e c1 tr c2 S RR. induction RR.
    - change [e] with ([] ++ [e]). econstructor; [constructor | auto].
    - change (e :: tr ++ [e0]) with ((e :: tr) ++ [e0]). econstructor; eauto.
  Qed.

  Lemma replay_sound : forall en tr cf cf',
    replay D St R next on_write on_read dwrite dread en cf tr = Some cf' -> runR en cf tr cf'.
  Proof.
    induction tr as [|e tr IH]; simpl; intros cf cf' H.
    - inversion H; subst. constructor.
    - destruct (step_fn D St R next on_write on_read dwrite dread en cf e) eqn:S; try discriminate.
      eapply run_cons; eauto. apply step_fn_sound; auto.
  Qed.

  Lemma run_app_inv : forall en c0 tr c2, runR en c0 tr c2 ->
    forall e tl, tr = e :: tl -> exists c1, stepR en c0 e c1 /\ runR en c1 tl c2.
  Proof.
    induction 1; intros e0 tl E; [discriminate|].
    destruct tr as [|x tr'].
    - simpl in E. inversion E; subst. inversion H; subst; [| destruct tr; discriminate].
      exists c2. split; auto. constructor.
    - simpl in E. inversion E; subst.
      destruct (IHrun _ _ eq_refl) as [cm [S RR]]. exists cm. split; auto. econstructor; eauto.
  Qed.

  Lemma replay_complete : forall en tr cf cf', runR en cf tr cf' ->
    replay D St R next on_write on_read dwrite dread en cf tr = Some cf'.
  Proof.
    induction tr as [|e tr IH]; intros cf cf' H.
    - inversion H; subst; auto. destruct tr; discriminate.
    - destruct (run_app_inv _ _ _ _ H _ _ eq_refl) as [c1 [S RR]].
      simpl. rewrite (step_fn_complete _ _ _ _ S). apply IH; auto.
  Qed.
End ReactiveProofs.

(* ------------------------------------------------------------------------------------------ *)
(* bridge A <-> C: in every complete run each caller's own view is one block — the form that      *)
(* guarded_paths_one_block proves for every path of every well-formed operation                   *)
(* ------------------------------------------------------------------------------------------ *)
Section Bridge.
  Variables D St R : Type.
  Variable next : St -> action R.
  Variable on_write : St -> St.
  Variable on_read : St -> bytes -> St.
  Variable dwrite : D -> bytes -> D.
  Variable dread : D -> option (bytes * D).
  Local Notation runR := (run D St R next on_write on_read dwrite dread).
  Local Notation op_runR := (op_run D St R next on_write on_read dwrite dread).
  Local Notation seq_runR := (seq_run D St R next on_write on_read dwrite dread).

  Definition of_caller (c : nat) (e : ev) : bool := Nat.eqb (ev_caller e) c.

  Lemma op_run_view : forall c d s blk d' o, op_runR c d s blk d' o ->
    (exists ios, forallb is_io ios = true /\ map to_lev (filter (of_caller c) blk) = ios ++ [LRel]) /\
    (forall c', c' <> c -> filter (of_caller c') blk = []) /\
    forallb is_wire blk = true.
  Proof.
    induction 1.
    - split; [| split]; simpl; auto.
      + exists []. unfold of_caller. simpl. rewrite Nat.eqb_refl. auto.
      + intros c' NE. unfold of_caller. simpl. destruct (Nat.eqb c c') eqn:Q; auto.
        apply Nat.eqb_eq in Q. congruence.
    - split; [| split]; simpl; auto.
      + exists []. unfold of_caller. simpl. rewrite Nat.eqb_refl. auto.
      + intros c' NE. unfold of_caller. simpl. destruct (Nat.eqb c c') eqn:Q; auto.
        apply Nat.eqb_eq in Q. congruence.
    - destruct IHop_run as [[ios [A E]] [O W]]. split; [| split]; simpl; auto.
      + exists (LIo 1 :: ios). unfold of_caller at 1. simpl. rewrite Nat.eqb_refl. simpl. rewrite E. auto.
      + intros c' NE. unfold of_caller at 1. simpl. destruct (Nat.eqb c c') eqn:Q; auto.
        apply Nat.eqb_eq in Q. congruence.
    - destruct IHop_run as [[ios [A E]] [O W]]. split; [| split]; simpl; auto.
      + exists (LIo 0 :: ios). unfold of_caller at 1. simpl. rewrite Nat.eqb_refl. simpl. rewrite E. auto.
      + intros c' NE. unfold of_caller at 1. simpl. destruct (Nat.eqb c c') eqn:Q; auto.
        apply Nat.eqb_eq in Q. congruence.
  Qed.

  Lemma seq_run_callers : forall ss d order w d', seq_runR ss d order w d' ->
    forall c, ~ In c (map fst order) -> filter (of_caller c) w = [].
  Proof.
    induction 1; intros c' NI; auto.
    rewrite map_app in NI. simpl in NI.
    assert (N1 : ~ In c' (map fst order)) by (intros X; apply NI; apply in_or_app; auto).
    assert (N2 : c' <> c) by (intros X; apply NI; apply in_or_app; right; left; auto).
    rewrite filter_app. rewrite IHseq_run; auto. simpl.
    unfold of_caller at 1. simpl. destruct (Nat.eqb c c') eqn:Q; [apply Nat.eqb_eq in Q; congruence|].
    destruct (op_run_view _ _ _ _ _ _ H1) as [_ [O _]]. apply O; auto.
  Qed.

  Lemma seq_run_view : forall ss d order w d', seq_runR ss d order w d' -> NoDup (map fst order) ->
    forall c, one_block (map to_lev (filter (of_caller c) w)) /\ forallb is_wire w = true.
  Proof.
    induction 1; intros ND c'.
    - split; auto. left; auto.
    - rewrite map_app in ND. simpl in ND.
      assert (ND1 : NoDup (map fst order)).
      { clear -ND. induction (map fst order); simpl in *; [constructor|]. inversion ND; subst. constructor; auto.
        intros X. apply H1. apply in_or_app; auto. }
      assert (NI : ~ In c (map fst order)).
      { clear -ND. induction (map fst order); simpl in *; auto. inversion ND; subst.
        intros [X | X]; [subst; apply H1; apply in_or_app; right; left; auto | apply IHl; auto]. }
      destruct (IHseq_run ND1 c') as [OB W]. destruct (op_run_view _ _ _ _ _ _ H1) as [[ios [A E]] [O WB]].
      split.
      + rewrite filter_app. simpl. unfold of_caller at 2. simpl.
        destruct (Nat.eqb c c') eqn:Q.
        * apply Nat.eqb_eq in Q. subst c'. rewrite (seq_run_callers _ _ _ _ _ H _ NI). simpl.
          rewrite E. right. exists ios. auto.
        * apply Nat.eqb_neq in Q. rewrite (O c'); auto. rewrite app_nil_r. auto.
      + rewrite forallb_app. rewrite W. simpl. auto.
  Qed.

  Lemma filter_andb {A} (f g : A -> bool) : forall l, filter (fun x => f x && g x) l = filter g (filter f l).
  Proof.
    induction l as [|a l IH]; simpl; auto. destruct (f a); simpl; auto. destruct (g a); simpl; rewrite IH; auto.
  Qed.

  Theorem caller_view_one_block : forall d ss tr cf c,
    runR true (init D St R d ss) tr cf -> all_finished D St R cf -> one_block (caller_view c tr).
  Proof.
    intros d ss tr cf c H F.
    destruct (serialisable _ _ _ _ _ _ _ _ _ _ _ _ H F) as [order [SQ [_ [ND _]]]].
    unfold caller_view.
    replace (filter (fun e => is_wire e && Nat.eqb (ev_caller e) c) tr) with (filter (of_caller c) (wire tr)).
    - apply (seq_run_view _ _ _ _ _ SQ ND c).
    - unfold wire. symmetry. apply (filter_andb is_wire (of_caller c)).
  Qed.

  Lemma op_run_own : forall c d s blk d' o, op_runR c d s blk d' o -> filter (of_caller c) blk = blk.
  Proof.
    induction 1; simpl; unfold of_caller at 1; simpl; rewrite Nat.eqb_refl; try rewrite IHop_run; auto.
  Qed.

  Lemma flat_map_ext_in {A B} (f g : A -> list B) : forall l, (forall x, In x l -> f x = g x) -> flat_map f l = flat_map g l.
  Proof.
    induction l as [|a l IH]; simpl; intros H; auto. rewrite H by auto. rewrite IH; auto.
  Qed.

  Lemma seq_run_serial : forall ss d order w d', seq_runR ss d order w d' -> NoDup (map fst order) ->
    w = flat_map (fun c => filter (of_caller c) w) (map fst order).
  Proof.
    induction 1; intros ND; auto.
    rewrite map_app in ND. simpl in ND.
    assert (ND1 : NoDup (map fst order)).
    { clear -ND. induction (map fst order); simpl in *; [constructor|]. inversion ND; subst. constructor; auto.
      intros X. apply H1. apply in_or_app; auto. }
    assert (NI : ~ In c (map fst order)).
    { clear -ND. induction (map fst order); simpl in *; auto. inversion ND; subst.
      intros [X | X]; [subst; apply H1; apply in_or_app; right; left; auto | apply IHl; auto]. }
    destruct (op_run_view _ _ _ _ _ _ H1) as [_ [O _]].
    rewrite map_app, flat_map_app. simpl. rewrite app_nil_r.
    f_equal.
    - rewrite (IHseq_run ND1) at 1. apply flat_map_ext_in. intros c0 IN.
      assert (NE : c0 <> c) by (intros X; subst; contradiction).
      assert (E : of_caller c0 (EAcq c) = false).
      { unfold of_caller. simpl. apply Nat.eqb_neq. auto. }
      rewrite filter_app. simpl. rewrite E. rewrite (O c0) by auto. rewrite app_nil_r. reflexivity.
    - assert (E : of_caller c (EAcq c) = true) by (unfold of_caller; simpl; apply Nat.eqb_refl).
      rewrite filter_app. rewrite (seq_run_callers _ _ _ _ _ H _ NI). simpl.
      rewrite E. rewrite (op_run_own _ _ _ _ _ _ H1). reflexivity.
  Qed.

  (* the property as it reads: the wire trace of a complete run is the concatenation of the callers'
     own blocks, in the order in which they acquired the lock *)
  Theorem serial_form : forall d ss tr cf,
    runR true (init D St R d ss) tr cf -> all_finished D St R cf ->
    wire tr = flat_map (fun c => block_of c tr) (acq_order tr).
  Proof.
    intros d ss tr cf H F.
    destruct (serialisable _ _ _ _ _ _ _ _ _ _ _ _ H F) as [order [SQ [AO [ND _]]]].
    rewrite <- AO. rewrite (seq_run_serial _ _ _ _ _ SQ ND) at 1.
    apply flat_map_ext_in. intros c _. unfold block_of, wire. symmetry.
    apply (filter_andb is_wire (of_caller c)).
  Qed.
End Bridge.

(* ------------------------------------------------------------------------------------------ *)
(* the script instance used by the correspondence run                                           *)
(* ------------------------------------------------------------------------------------------ *)
Definition sc_run := run (list bytes) script unit sc_next sc_on_write sc_on_read q_write q_read.

(* what the executable check accepts is a complete trace of the model, with the lock free at the
   end, that passes the exclusion scan *)
Theorem check_run_sound : forall en scripts tr, check_run en scripts tr = true ->
  exists cf, sc_run en (sc_init (reads_of tr) scripts) tr cf /\
             all_finished (list bytes) script unit cf /\ lock cf = None /\
             (en = true -> scan None tr = Some None).
Proof.
  intros en scripts tr H. unfold check_run in H.
  destruct (sc_replay en (sc_init (reads_of tr) scripts) tr) as [cf|] eqn:RP; try discriminate.
  apply andb_true_iff in H. destruct H as [H H3]. apply andb_true_iff in H. destruct H as [H1 H2].
  exists cf. split; [| split; [| split]].
  - apply replay_sound. exact RP.
  - exact H1.
  - destruct (lock cf); [discriminate | reflexivity].
  - intros E. subst en. apply andb_true_iff in H3. destruct H3 as [H3 _].
    apply andb_true_iff in H3. destruct H3 as [H3 _]. unfold scanb in H3.
    destruct (scan None tr) as [[x|]|]; try discriminate. reflexivity.
Qed.

(* and every complete trace of the model passes the scan the check applies *)
Theorem model_traces_scan : forall reads scripts tr cf,
  sc_run true (sc_init reads scripts) tr cf -> all_finished (list bytes) script unit cf -> scanb tr = true.
Proof.
  intros reads scripts tr cf H F. unfold scanb.
  destruct (mutual_exclusion _ _ _ _ _ _ _ _ _ _ _ _ H) as [_ S]. rewrite S.
  rewrite (all_finished_lock_free _ _ _ _ _ _ _ _ _ _ _ _ H F). reflexivity.
Qed.

Lemma ev_eqb_refl : forall e, ev_eqb e e = true.
Proof. destruct e; simpl; rewrite ?Nat.eqb_refl, ?lk_beq_refl; auto. Qed.
Lemma evs_eqb_refl : forall l, evs_eqb l l = true.
Proof. induction l; simpl; auto. rewrite ev_eqb_refl. auto. Qed.

Theorem model_traces_serial : forall reads scripts tr cf,
  sc_run true (sc_init reads scripts) tr cf -> all_finished (list bytes) script unit cf -> serialb tr = true.
Proof.
  intros reads scripts tr cf H F. unfold serialb.
  rewrite <- (serial_form _ _ _ _ _ _ _ _ _ _ _ _ H F). apply evs_eqb_refl.
Qed.

(* non-vacuity: three callers, one of them fails in the middle of its operation, one gives up *)
Example check_run_example :
  check_run true
    [[IW [115%N]; IR [115%N]; IW [10%N]; IR [111%N; 107%N]]; [IW [10%N]; IR [35%N]]; [IW [120%N]]]
    [EAcq 1; EGiveUp 2; EWr 1 [10%N]; ERd 1 [35%N]; ERel 1; EAcq 0; EWr 0 [115%N]; ERd 0 [115%N]; EFault 0] = true.
Proof. vm_compute. reflexivity. Qed.

Example check_run_rejects_interleaving :
  check_run true
    [[IW [115%N]; IR [115%N]]; [IW [10%N]; IR [35%N]]]
    [EAcq 1; EWr 1 [10%N]; EAcq 0; EWr 0 [115%N]; ERd 1 [35%N]; ERel 1; ERd 0 [115%N]; ERel 0] = false.
Proof. vm_compute. reflexivity. Qed.

Example check_run_rejects_leaked_lock :
  check_run true [[IW [115%N]; IR [115%N]]; [IW [10%N]]] [EAcq 0; EWr 0 [115%N]; EGiveUp 1] = false.
Proof. vm_compute. reflexivity. Qed.

(* with the lock off the same interleaving is a trace of the model: the exclusion statement is
   really about the lock *)
Example disabled_interleaves :
  exists tr cf, sc_run false (sc_init [[35%N]; [115%N]] [[IW [115%N]; IR [115%N]]; [IW [10%N]; IR [35%N]]]) tr cf /\
                all_finished (list bytes) script unit cf /\ scan None tr = None.
Proof.
  exists [EAcq 1; EWr 1 [10%N]; EAcq 0; EWr 0 [115%N]; ERd 1 [35%N]; ERel 1; ERd 0 [115%N]; ERel 0].
  eexists. split; [apply replay_sound; vm_compute; reflexivity|]. split; reflexivity.
Qed.

(* the full statement — for every timeout mechanism — is false: with the thread pool and
   NO_TERMINATE_ON_TIMEOUT nothing ends the stalled operation, the lock stays with it *)
Definition timeout_unblocks_full : Prop :=
  forall (D St R : Type) next on_write on_read dwrite dread eff,
    timeout_unblocks D St R next on_write on_read dwrite dread eff.

Theorem timeout_unblocks_refuted : ~ timeout_unblocks_full.
Proof.
  intros F.
  specialize (F (list bytes) script unit sc_next sc_on_write sc_on_read q_write q_read TContinues).
  unfold timeout_unblocks in F.
  (* caller 0 holds the lock and reads from a device that has nothing to say; caller 1 waits *)
  assert (RR : sc_run true (sc_init [] [[IR [35%N]]; [IW [10%N]]]) [EAcq 0]
                 (mkCfg (Some 0) [] [Holding [IR [35%N]]; Waiting [IW [10%N]]])).
  { apply replay_sound. reflexivity. }
  destruct (F [] [[IR [35%N]]; [IW [10%N]]] [EAcq 0] _ 0 [IR [35%N]] 1 [IW [10%N]] RR
              eq_refl eq_refl eq_refl eq_refl eq_refl) as [cf'' S].
  unfold after_timeout in S. inversion S; subst. simpl in *.
  match goal with X : true = true -> Some 0 = None |- _ => specialize (X eq_refl); discriminate end.
Qed.

Example timeout_unblocks_partial_nonvacuous :
  exists tr cf, sc_run true (sc_init [] [[IR [35%N]]; [IW [10%N]]]) tr cf /\ lock cf = Some 0 /\
                nth_error (sts cf) 0 = Some (Holding [IR [35%N]]) /\ q_read (dev cf) = None /\
                nth_error (sts cf) 1 = Some (Waiting [IW [10%N]]).
Proof.
  exists [EAcq 0]. eexists. split; [apply replay_sound; reflexivity|]. repeat split; reflexivity.
Qed.

(* non-vacuity of serialisable / lock_released: a complete run with a failure exists *)
Example serialisable_nonvacuous :
  exists tr cf, sc_run true (sc_init [[35%N]; [115%N]] [[IW [115%N]; IR [115%N]]; [IW [10%N]; IR [35%N]]; []]) tr cf /\
                all_finished (list bytes) script unit cf /\ length tr = 9.
Proof.
  exists [EAcq 1; EWr 1 [10%N]; ERd 1 [35%N]; ERel 1; EAcq 2; EFault 2; EAcq 0; EWr 0 [115%N]; EFault 0].
  eexists. split; [apply replay_sound; vm_compute; reflexivity|]. split; reflexivity.
Qed.

(* ------------------------------------------------------------------------------------------ *)
(* the statements props/C19.v instantiates with the generated context manager and operations     *)
(* ------------------------------------------------------------------------------------------ *)
Theorem ops_one_block : forall c ops, cm_good c = true -> forallb wf ops = true ->
  forall s t md, In s ops -> exec (cm_eval true c) s t md -> one_block t /\ count_acq t = count_rel t.
Proof.
  intros c ops G W s t md IN E. rewrite forallb_forall in W. split.
  - eapply op_paths_one_block; eauto.
  - eapply op_paths_balanced; eauto.
Qed.

Theorem ops_disabled : forall c (ops : list shape), cm_good c = true ->
  forall s t md, In s ops -> exec (cm_eval false c) s t md ->
  forallb is_io t = true /\ exec cm_on (erase s) t md.
Proof. intros. eapply disabled_paths; eauto. Qed.

(* N callers (any N), each running any path (of any length) of any of the operations, under every
   interleaving: mutual exclusion, the lock free once all are through, and no deadlock *)
Theorem shape_interleaving : forall c ops, cm_good c = true -> forallb wf ops = true ->
  forall ps, Forall (fun p => exists s md, In s ops /\ exec (cm_eval true c) s p md) ps ->
  forall tr cf, rrun (rinit ps) tr cf ->
    tscan None tr = Some (r_lock cf) /\
    (forall pre k x post, tr = pre ++ (k, LIo x) :: post -> tscan None pre = Some (Some k)) /\
    (rdone cf -> r_lock cf = None) /\
    (~ rdone cf -> exists e cf', rstep cf e cf').
Proof.
  intros c ops G W ps F tr cf RR.
  assert (OB : Forall one_block ps).
  { rewrite Forall_forall in *. intros p IN. destruct (F _ IN) as [s [md [I E]]].
    eapply ops_one_block; eauto. }
  split; [| split; [| split]].
  - eapply raw_exclusive; eauto.
  - intros. eapply raw_io_only_by_owner; eauto.
  - eapply raw_complete_free; eauto.
  - eapply raw_progress; eauto.
Qed.

(* ------------------------------------------------------------------------------------------ *)
(* D. lock identity across re-opens                                                            *)
(* ------------------------------------------------------------------------------------------ *)
Definition count_hold (l : list ost) : nat := length (filter is_hold l).
Definition hold1 (s : ost) : nat := if is_hold s then 1 else 0.
Definition gen0 (s : ost) : Prop := match s with OWait g | OHold g => g = 0 | _ => True end.

Lemma count_hold_upd : forall l c s s', nth_error l c = Some s ->
  count_hold (upd c s' l) + hold1 s = count_hold l + hold1 s'.
Proof.
  induction l as [|x l IH]; intros c s s' H.
  - destruct c; discriminate.
  - destruct c as [|c]; simpl in H.
    + inversion H; subst. unfold count_hold, hold1. simpl.
      destruct (is_hold s), (is_hold s'); simpl; lia.
    + specialize (IH c s s' H). unfold count_hold in *. simpl.
      destruct (is_hold x); simpl; lia.
Qed.

Lemma gen0_upd : forall l c s', Forall gen0 l -> gen0 s' -> Forall gen0 (upd c s' l).
Proof.
  induction l as [|x l IH]; intros c s' F G; simpl.
  - destruct c; constructor.
  - inversion F; subst. destruct c; constructor; auto.
Qed.

Lemma no_holder_count : forall l, Forall gen0 l -> existsb (holds_obj 0) l = false -> count_hold l = 0.
Proof.
  induction l as [|x l IH]; intros F E; [reflexivity|].
  inversion F; subst. simpl in E. apply Bool.orb_false_iff in E. destruct E as [E1 E2].
  unfold count_hold in *. simpl. destruct x; simpl in *; auto.
  subst. discriminate.
Qed.

Lemma nth_gen0 : forall l c s, Forall gen0 l -> nth_error l c = Some s -> gen0 s.
Proof. intros l c s F H. rewrite Forall_forall in F. apply F. eapply nth_error_In; eauto. Qed.

Definition oinv (cf : ocfg) : Prop := o_cur cf = 0 /\ Forall gen0 (o_sts cf) /\ count_hold (o_sts cf) <= 1.

Lemma oinit_inv : forall n, oinv (oinit n).
Proof.
  intro n. unfold oinv, oinit. simpl. split; [reflexivity|]. split.
  - induction n; simpl; constructor; simpl; auto.
  - induction n; simpl; auto.
Qed.

Lemma ostep_inv : forall cf e cf', oinv cf -> ostep_fn false cf e = Some cf' -> oinv cf'.
Proof.
  intros cf e cf' [C [G H]] S. destruct e as [c|c|c|c|c|]; simpl in S.
  - destruct (nth_error (o_sts cf) c) as [[| | |]|] eqn:N; try discriminate. inversion S; subst; clear S.
    unfold oinv; simpl. split; [assumption|]. split.
    + apply gen0_upd; auto.
    + pose proof (count_hold_upd _ _ _ (OWait (o_cur cf)) N) as K. unfold hold1 in K; simpl in K. lia.
  - destruct (nth_error (o_sts cf) c) as [[|g|g|]|] eqn:N; try discriminate.
    destruct (existsb (holds_obj g) (o_sts cf)) eqn:X; try discriminate. inversion S; subst; clear S.
    pose proof (nth_gen0 _ _ _ G N) as G0. simpl in G0. subst g.
    unfold oinv; simpl. split; [assumption|]. split.
    + apply gen0_upd; simpl; auto.
    + pose proof (count_hold_upd _ _ _ (OHold 0) N) as K. unfold hold1 in K; simpl in K.
      rewrite (no_holder_count _ G X) in K. lia.
  - destruct (nth_error (o_sts cf) c) as [[| | |]|]; try discriminate. inversion S; subst. repeat split; assumption.
  - destruct (nth_error (o_sts cf) c) as [[| |g|]|] eqn:N; try discriminate. inversion S; subst; clear S.
    unfold oinv; simpl. split; [assumption|]. split.
    + apply gen0_upd; simpl; auto.
    + pose proof (count_hold_upd _ _ _ OEnded N) as K. unfold hold1 in K; simpl in K. lia.
  - destruct (nth_error (o_sts cf) c) as [[| | |]|] eqn:N; try discriminate. inversion S; subst; clear S.
    unfold oinv; simpl. split; [assumption|]. split.
    + apply gen0_upd; simpl; auto.
    + pose proof (count_hold_upd _ _ _ OIdle N) as K. unfold hold1 in K; simpl in K. lia.
  - inversion S; subst. repeat split; assumption.
Qed.

Lemma oreplay_inv : forall tr cf cf', oinv cf -> oreplay false cf tr = Some cf' -> oinv cf'.
Proof.
  induction tr as [|e tr IH]; intros cf cf' I R; simpl in R.
  - inversion R; subst; assumption.
  - destruct (ostep_fn false cf e) as [c1|] eqn:S; try discriminate.
    eapply IH; [eapply ostep_inv; eauto | eassumption].
Qed.

Lemma oreplay_app : forall rc tr1 tr2 cf cf', oreplay rc cf (tr1 ++ tr2) = Some cf' ->
  exists c1, oreplay rc cf tr1 = Some c1 /\ oreplay rc c1 tr2 = Some cf'.
Proof.
  induction tr1 as [|e tr1 IH]; intros tr2 cf cf' R; simpl in *.
  - eexists; split; [reflexivity | assumption].
  - destruct (ostep_fn rc cf e) as [c1|]; try discriminate. apply IH; assumption.
Qed.

(* open() leaves the lock object alone (rebinds = false): at most one holder in every reachable
   configuration — through any number of re-opens, failures and retries, for any number of callers *)
Theorem reopen_exclusive : forall rebinds, rebinds = false ->
  forall n tr cf, oreplay rebinds (oinit n) tr = Some cf -> holders cf <= 1.
Proof.
  intros rb E n tr cf R. subst rb.
  destruct (oreplay_inv _ _ _ (oinit_inv n) R) as [_ [_ H]]. exact H.
Qed.

(* ... and a transport event of c happens only while c is that one holder *)
Theorem reopen_io_by_holder : forall rebinds, rebinds = false ->
  forall n pre c post cf, oreplay rebinds (oinit n) (pre ++ OIo c :: post) = Some cf ->
  exists cf' g, oreplay rebinds (oinit n) pre = Some cf' /\ nth_error (o_sts cf') c = Some (OHold g) /\
                holders cf' = 1.
Proof.
  intros rb E n pre c post cf R. subst rb.
  destruct (oreplay_app _ _ _ _ _ R) as [c1 [R1 R2]]. simpl in R2.
  destruct (nth_error (o_sts c1) c) as [[| |g|]|] eqn:N; try discriminate.
  exists c1, g. split; [assumption|]. split; [exact N|].
  destruct (oreplay_inv _ _ _ (oinit_inv n) R1) as [_ [_ H]].
  pose proof (count_hold_upd _ _ _ OEnded N) as K. unfold hold1 in K; simpl in K.
  unfold holders. unfold count_hold in *. lia.
Qed.

(* the premise is satisfiable by a non-trivial run: a failure, a re-open, a retry with a caller queued *)
Example reopen_exclusive_nonvacuous :
  exists cf, oreplay false (oinit 2)
               [OOpen; OArrive 0; OAcq 0; OIo 0; OArrive 1; ORel 0; OOpen; OAgain 0; OArrive 0; OAcq 1; OIo 1; ORel 1; OAcq 0; OIo 0]
             = Some cf /\ holders cf = 1.
Proof. eexists. split; reflexivity. Qed.

(* a lock object recreated by open(): the caller queued on the old object and the retry on the new
   one hold "the" channel lock at the same time, and both touch the transport *)
Theorem reopen_exclusive_refuted : ~ reopen_exclusive_full.
Proof.
  intro F.
  specialize (F true 2 [OArrive 0; OAcq 0; OIo 0; OArrive 1; ORel 0; OOpen; OAgain 0; OArrive 0; OAcq 0; OAcq 1; OIo 0; OIo 1]
                (mkO 1 [OHold 1; OHold 0]) eq_refl).
  unfold holders in F. simpl in F. lia.
Qed.

(* the form props/C19.v instantiates with the generated `gen_lock_rebound_*` *)
Theorem reopen_mutual_exclusion : forall rebinds, rebinds = false ->
  forall n tr cf, oreplay rebinds (oinit n) tr = Some cf ->
  holders cf <= 1 /\
  forall pre c post, tr = pre ++ OIo c :: post ->
    exists cf' g, oreplay rebinds (oinit n) pre = Some cf' /\
                  nth_error (o_sts cf') c = Some (OHold g) /\ holders cf' = 1.
Proof.
  intros rb E n tr cf R. split.
  - eapply reopen_exclusive; eauto.
  - intros pre c post T. subst tr. eapply reopen_io_by_holder; eauto.
Qed.
