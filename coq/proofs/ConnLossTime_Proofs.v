(* ConnLossTime_Proofs.v — theorems about coq/model/ConnLossTime.v (C08): the read-for-a-duration loop
   (_read_until_prompt_or_time) never turns a lost connection into a normal end of output.
   Over an arbitrary configuration [c] passing [cfg_ok] and a table [ts] passing [rtime_ok]; props/C08.v instantiates
   them with what is generated from the source tree. *)
From Coq Require Import Lia.
From Verif Require Import Bytes ConnLoss ConnLoss_Proofs ConnLossTime.

(* the check alone: whatever read() raises for a lost / closed connection in whichever round leaves the loop raised,
   as a scrapli exception, for every matcher, every buffer and however much time is left *)
Theorem read_time_raises : forall c tr ts m fuel buf st e rs x st1 e1 rs1,
  rtime_ok c ts = true ->
  t_read c tr st e rs = (XExc x, st1, e1, rs1) -> In x loss_classes ->
  exists y, read_time c tr ts m fuel buf st e rs = LStop (ORaised y) st1 e1 rs1 /\ scrapli c y = true.
Proof.
  intros c tr ts m fuel buf st e rs x st1 e1 rs1 Hok Hr Hx.
  unfold rtime_ok in Hok. apply andb_prop in Hok. destruct Hok as [Hl _].
  rewrite forallb_forall in Hl. specialize (Hl x Hx).
  destruct (chain c ts x) as [y| |] eqn:Ec; simpl in Hl; try discriminate.
  exists y. split; [|exact Hl].
  destruct fuel; simpl; rewrite Hr, Ec; reflexivity.
Qed.

Section WithCfg.
Variable c : cfg.
Hypothesis Hok : cfg_ok c = true.
Variable ts : list table.
Hypothesis Hts : rtime_ok c ts = true.

(* a scrapli class is one of the five *)
Lemma scr_cases : forall x, scrapli c x = true -> In x loss_classes \/ x = STimeout.
Proof.
  intros x Hx.
  assert (Hraw : forall y, In y raw_classes -> scrapli c y = false) by (apply ok_raw; exact Hok).
  destruct x; try (left; simpl; tauto); try (right; reflexivity);
    exfalso; rewrite Hraw in Hx; try discriminate; simpl; tauto.
Qed.

(* what the table makes of a scrapli exception: raised as a scrapli exception, or (a timeout only) swallowed *)
Lemma rtime_chain : forall x, scrapli c x = true ->
  match chain c ts x with FRaised y => scrapli c y = true | _ => x = STimeout end.
Proof.
  intros x Hx. pose proof Hts as H. unfold rtime_ok in H. apply andb_prop in H. destruct H as [Hl Ht].
  rewrite forallb_forall in Hl.
  destruct (scr_cases x Hx) as [Hin|E].
  - specialize (Hl x Hin). destruct (chain c ts x); simpl in Hl; try discriminate. exact Hl.
  - subst x. destruct (chain c ts STimeout); simpl in Ht; auto.
Qed.

(* one read() call *)
Lemma t_read_spec : forall tr st e rs r st' e' rs',
  inv tr st -> env_ok tr e = true -> rs_ok tr rs = true ->
  t_read c tr st e rs = (r, st', e', rs') ->
  xgood c r /\ inv tr st' /\ env_ok tr e' = true /\ rs_ok tr rs' = true /\ mono st st' /\
  (attached st = false -> r = XExc SNotOpened).
Proof.
  intros tr st e rs r st' e' rs' Hinv He Hrs H. unfold t_read in H.
  pose proof (t_read_pre_spec c Hok tr st e Hinv He) as Hpre.
  destruct (t_read_pre c tr st e) as [r0 st1 e1|st1 e1].
  - inversion H; subst. destruct Hpre as [[y [Hy Hs]] [Hi [He1 [Hat [Hmo [Hna _]]]]]]. subst r.
    split; [exact Hs|]. split; [exact Hi|]. split; [exact He1|]. split; [exact Hrs|]. split; [exact Hmo|].
    intro Ha. destruct (Hna Ha) as [E _]. exact E.
  - destruct Hpre as [Es [He1 [Hrl Hat]]]. subst st1.
    destruct rs as [|v rs0].
    + destruct (t_read_step c tr st e1 RBlock) as [[r0 st2] e2] eqn:Es. inversion H; subst.
      destruct (t_read_step_spec c Hok tr st e1 RBlock r st' e' Hinv He1 eq_refl I Es) as [Hp He2].
      pose proof (step_post_mono c _ _ _ _ _ Hp) as Hmo.
      destruct Hp as [Hg [Hi _]].
      split; [exact Hg|]. split; [exact Hi|]. split; [exact He2|]. split; [reflexivity|]. split; [exact Hmo|].
      intro Ha. congruence.
    + destruct (rs_ok_tail _ _ _ Hrs) as [Hv Hrs'].
      destruct (t_read_step c tr st e1 v) as [[r0 st2] e2] eqn:Es. inversion H; subst.
      assert (Hd : match v with RData _ => rlost st = false | _ => True end) by (destruct v; auto).
      destruct (t_read_step_spec c Hok _ _ _ _ _ _ _ Hinv He1 Hv Hd Es) as [Hp He2].
      pose proof (step_post_mono c _ _ _ _ _ Hp) as Hmo.
      destruct Hp as [Hg [Hi _]].
      split; [exact Hg|]. split; [exact Hi|]. split; [exact He2|]. split; [exact Hrs'|]. split; [exact Hmo|].
      intro Ha. congruence.
Qed.

Definition rt_post (tr : transport) (st : tst) (r : lres) : Prop :=
  common c tr st r /\
  (forall a b d, r <> LEmpty a b d) /\ (forall a b d, r <> LSpin a b d) /\
  (attached st = false -> exists y st' e' rs', r = LStop (ORaised y) st' e' rs' /\ scrapli c y = true).

Lemma rt_final : forall tr st r st1 e1 rs1,
  lres_state r = (st1, e1, rs1) -> inv tr st1 -> env_ok tr e1 = true -> rs_ok tr rs1 = true -> mono st st1 ->
  match r with
  | LNext _ _ _ | LBlock _ _ _ => attached st = true
  | LStop o _ _ _ => exists y, o = ORaised y /\ scrapli c y = true
  | _ => False
  end -> rt_post tr st r.
Proof.
  intros tr st r st1 e1 rs1 E Hi He Hrs Hmo H. unfold rt_post.
  split.
  { eapply common_intro; eauto. destruct r; auto. }
  split; [intros a b d N; subst r; exact H|]. split; [intros a b d N; subst r; exact H|].
  intro Ha. destruct r as [a b d|o a b d|a b d|a b d|a b d]; try congruence; try contradiction.
  destruct H as [y [Ey Hy]]. subst o. exists y, a, b, d. auto.
Qed.

(* the loop, for every transport, matcher, buffer, amount of time left and every history of low-level events within
   the library contract: it is left normally, in a blocked read (the timeout's business), or in a ScrapliException
   subclass -- never a raw exception, never by retrying for ever ([LSpin]) or reading nothing for ever ([LEmpty]) --;
   the state it leaves is one the theorems of ConnLoss_Proofs apply to; on a detached transport it raises a scrapli
   exception at once *)
Theorem read_time_spec : forall tr m fuel buf st e rs,
  inv tr st -> env_ok tr e = true -> rs_ok tr rs = true ->
  rt_post tr st (read_time c tr ts m fuel buf st e rs).
Proof.
  intros tr m fuel. induction fuel as [|k IH]; intros buf st e rs Hinv He Hrs; simpl;
    destruct (t_read c tr st e rs) as [[[r0 st1] e1] rs1] eqn:Er;
    destruct (t_read_spec _ _ _ _ _ _ _ _ Hinv He Hrs Er) as [Hg [Hi [He1 [Hrs1 [Hmo Hna]]]]];
    assert (Hat : forall b, r0 = XBytes b \/ r0 = XBlock -> attached st = true)
      by (intros b0 [E|E]; destruct (attached st) eqn:Ea; auto; specialize (Hna eq_refl); congruence).
  - destruct r0 as [b|x|].
    + eapply rt_final; try reflexivity; auto. apply (Hat b). auto.
    + simpl in Hg. pose proof (rtime_chain x Hg) as Hc.
      destruct (chain c ts x) as [y| |] eqn:Ec.
      * eapply rt_final; try reflexivity; auto. exists y. auto.
      * eapply rt_final; try reflexivity; auto. destruct (attached st) eqn:Ea; auto. specialize (Hna eq_refl). congruence.
      * eapply rt_final; try reflexivity; auto. destruct (attached st) eqn:Ea; auto. specialize (Hna eq_refl). congruence.
    + eapply rt_final; try reflexivity; auto. apply (Hat []). auto.
  - assert (Hrec : forall buf', attached st = true ->
                     rt_post tr st (read_time c tr ts m k buf' st1 e1 rs1)).
    { intros buf' Ha. destruct (IH buf' st1 e1 rs1 Hi He1 Hrs1) as [Hc' [Hne [Hns _]]].
      split; [eapply common_mono; eauto|]. split; [exact Hne|]. split; [exact Hns|].
      intro Ha'. congruence. }
    destruct r0 as [b|x|].
    + destruct (m (buf ++ b)).
      * eapply rt_final; try reflexivity; auto. apply (Hat b). auto.
      * apply Hrec. apply (Hat b). auto.
    + simpl in Hg. pose proof (rtime_chain x Hg) as Hc.
      destruct (chain c ts x) as [y| |] eqn:Ec.
      * eapply rt_final; try reflexivity; auto. exists y. auto.
      * apply Hrec. destruct (attached st) eqn:Ea; auto. specialize (Hna eq_refl). congruence.
      * apply Hrec. destruct (attached st) eqn:Ea; auto. specialize (Hna eq_refl). congruence.
    + eapply rt_final; try reflexivity; auto. apply (Hat []). auto.
Qed.

(* a connection whose read side is gone for good (doomed: detached, EOF seen, a sticky error), with the transport's
   first answer to that a loss class: the loop raises -- whatever the matcher, the buffer, the time left.  (Which
   class read() raises on a doomed connection is a matter of the generated read tables: props/C08.v computes it on the
   generated configuration, C08_example_read_for_duration.) *)
Theorem read_time_doomed : forall tr m fuel buf st e rs,
  (forall r st1 e1 rs1, t_read c tr st e rs = (r, st1, e1, rs1) -> exists x, r = XExc x /\ In x loss_classes) ->
  exists y st' e' rs', read_time c tr ts m fuel buf st e rs = LStop (ORaised y) st' e' rs' /\ scrapli c y = true.
Proof.
  intros tr m fuel buf st e rs H.
  destruct (t_read c tr st e rs) as [[[r0 st1] e1] rs1] eqn:Er.
  destruct (H _ _ _ _ eq_refl) as [x [E Hx]]. subst r0.
  destruct (read_time_raises c tr ts m fuel buf st e rs x st1 e1 rs1 Hts Er Hx) as [y [Ey Hy]].
  exists y, st1, e1, rs1. auto.
Qed.

End WithCfg.
