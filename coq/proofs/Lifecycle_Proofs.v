(* Lifecycle_Proofs.v — close() and context-manager exit always release the connection:
   for every program accepted by the abstract interpreter [lifecycle_ok] (in particular the programs
   generated from the current source), every history, every hook and every device outcome. *)
From Verif Require Import Bytes Telnet Telnet_Proofs Lifecycle.
From Coq Require Import Lia.

(* ---------- concretisation of the abstract values ---------- *)
Definition g (x : abs) (c : conn) : Prop :=
  (fst x = true -> t_open c = false) /\ (snd x = true -> log_open c = false).
Definition go (x : option abs) (c : conn) : Prop :=
  match x with None => False | Some y => g y c end.

Lemma g_bot c : g bot c.
Proof. split; cbn; discriminate. Qed.

Lemma go_ajoin_l x y c : go x c -> go (ajoin x y) c.
Proof.
  destruct x as [[a b]|]; cbn; [|contradiction].
  destruct y as [[a' b']|]; cbn; [|tauto].
  intros [H1 H2]; split; cbn in *; intros H; apply andb_prop in H as [? ?]; auto.
Qed.

Lemma go_ajoin_r x y c : go y c -> go (ajoin x y) c.
Proof.
  destruct y as [[a' b']|]; cbn; [|contradiction].
  destruct x as [[a b]|]; cbn; [|tauto].
  intros [H1 H2]; split; cbn in *; intros H; apply andb_prop in H as [? ?]; auto.
Qed.

Lemma aclosed_go x c : aclosed x = true -> go x c -> released c.
Proof.
  destruct x as [[a b]|]; cbn; [|contradiction].
  intros H [H1 H2]. apply andb_prop in H as [? ?]. subst. split; auto.
Qed.

(* what "the abstract function describes the concrete one" means *)
Definition sound_at (f : env -> conn -> conn * res) (af : abs -> option abs * option abs) : Prop :=
  forall x e c c' r, g x c -> f e c = (c', r) ->
    match r with Normal => go (fst (af x)) c' | Raised _ => go (snd (af x)) c' end.

Section AI.
  Context {A : Type}.
  Variable sem : A -> env -> conn -> conn * res.
  Variable asem : A -> abs -> option abs * option abs.
  Hypothesis atom_sound : forall a, sound_at (sem a) (asem a).

  Lemma ai_sound : forall s, sound_at (exec sem s) (ai asem s).
  Proof.
    induction s as [a| |s1 IH1 s2 IH2|b IHb f IHf|b IHb h IHh]; intros x e c c' r G E.
    - exact (atom_sound a x e c c' r G E).
    - cbn in E. inversion E; subst. cbn. exact G.
    - cbn [exec] in E. destruct (exec sem s1 e c) as [c1 r1] eqn:E1.
      pose proof (IH1 x e c c1 r1 G E1) as H1. cbn [ai].
      destruct (ai asem s1 x) as [n1 rr1]. cbn [fst snd] in H1.
      destruct r1 as [|x1].
      + destruct n1 as [y|]; [|contradiction].
        pose proof (IH2 y e c1 c' r H1 E) as H2.
        destruct (ai asem s2 y) as [n2 rr2]. cbn [fst snd] in *.
        destruct r; [exact H2|apply go_ajoin_r; exact H2].
      + inversion E; subst. destruct n1 as [y|]; cbn [fst snd].
        * destruct (ai asem s2 y) as [n2 rr2]. cbn [fst snd]. apply go_ajoin_l. exact H1.
        * exact H1.
    - cbn [exec] in E. destruct (exec sem b e c) as [c1 r1] eqn:E1.
      destruct (exec sem f e c1) as [c2 r2] eqn:E2.
      pose proof (IHb x e c c1 r1 G E1) as H1. cbn [ai].
      destruct (ai asem b x) as [n1 rr1]. cbn [fst snd] in H1.
      destruct r1 as [|x1].
      + destruct n1 as [y|]; [|contradiction].
        pose proof (IHf y e c1 c2 r2 H1 E2) as H2.
        destruct r2 as [|x2]; inversion E; subst; cbn [fst snd].
        * exact H2.
        * apply go_ajoin_l. exact H2.
      + destruct rr1 as [y|]; [|contradiction].
        pose proof (IHf y e c1 c2 r2 H1 E2) as H2.
        destruct r2 as [|x2]; inversion E; subst; cbn [fst snd].
        * apply go_ajoin_r, go_ajoin_r. exact H2.
        * apply go_ajoin_r, go_ajoin_l. exact H2.
    - cbn [exec] in E. destruct (exec sem b e c) as [c1 r1] eqn:E1.
      pose proof (IHb x e c c1 r1 G E1) as H1. cbn [ai].
      destruct (ai asem b x) as [n1 rr1]. cbn [fst snd] in H1.
      destruct r1 as [|x1].
      + inversion E; subst. destruct rr1 as [y|]; cbn [fst snd].
        * destruct (ai asem h y) as [nh rh]. cbn [fst snd]. apply go_ajoin_l. exact H1.
        * exact H1.
      + destruct rr1 as [y|]; [|contradiction].
        pose proof (IHh y e c1 c' r H1 E) as H2.
        destruct (ai asem h y) as [nh rh]. cbn [fst snd] in *.
        destruct r; [apply go_ajoin_r; exact H2|exact H2].
  Qed.
End AI.

(* ---------- the atoms ---------- *)
Lemma run_step_g s x c c' r : g x c -> run_step s c = (c', r) -> g x c'.
Proof.
  intros [G1 G2] E. unfold run_step in E.
  destruct s as [t|t|t|e0|t].
  4: { inversion E; subst; split; assumption. }
  all: destruct (t_open c) eqn:T; cbn in E; inversion E; subst; split; cbn; rewrite ?T; auto;
       intros H; specialize (G1 H); discriminate.
Qed.

Lemma run_steps_g ss : forall x c c' r, g x c -> run_steps ss c = (c', r) -> g x c'.
Proof.
  induction ss as [|s ss IH]; intros x c c' r G E; cbn in E.
  - inversion E; subst; exact G.
  - destruct (run_step s c) as [c1 r1] eqn:E1.
    pose proof (run_step_g _ _ _ _ _ G E1) as G1.
    destruct r1; [eapply IH; eauto|inversion E; subst; exact G1].
Qed.

Lemma run_hook_g h x c c' r : g x c -> run_hook h c = (c', r) -> g x c'.
Proof.
  destruct h as [ss|]; cbn; [apply run_steps_g|intros G E; inversion E; subst; exact G].
Qed.

Lemma steps_sound (f : env -> conn -> conn * res) :
  (forall x e c c' r, g x c -> f e c = (c', r) -> g x c') ->
  sound_at f (fun x => (Some x, Some x)).
Proof. intros H x e c c' r G E. destruct r; cbn; eapply H; eauto. Qed.

Lemma matom_sound rs a : sound_at (msem rs a) (masem a).
Proof.
  destruct a; try (apply steps_sound; intros x e c c' r G E; cbn in E;
                   first [eapply run_steps_g; eassumption|eapply run_hook_g; eassumption]).
  - (* ATOpen *) intros x e c c' r [G1 G2] E. cbn in E.
    destruct (e_topen e); inversion E; subst; cbn; split; cbn; auto; discriminate.
  - (* ACOpen *) intros x e c c' r [G1 G2] E. cbn in E.
    destruct (e_logcfg e); [destruct (e_copen e)|]; inversion E; subst; cbn; split; cbn; auto; discriminate.
  - (* ATClose *) intros x e c c' r [G1 G2] E. cbn in E. inversion E; subst. cbn. split; cbn; auto.
  - (* ACClose *) intros x e c c' r [G1 G2] E. cbn in E. inversion E; subst. cbn. split; cbn; auto.
Qed.

Lemma catom_sound P a : sound_at (csem P a) (casem P a).
Proof.
  destruct a.
  - exact (ai_sound _ _ (matom_sound (p_resets P)) (p_open P)).
  - exact (ai_sound _ _ (matom_sound (p_resets P)) (p_close P)).
  - intros x e c c' r [G1 G2] E. cbn in E. inversion E; subst. cbn. split; cbn; auto.
  - intros x e c c' r [G1 G2] E. cbn in E. inversion E; subst. cbn. split; cbn; auto.
  - intros x e c c' r G E. cbn in E. inversion E; subst. cbn. exact G.
Qed.

Lemma lifecycle_ok_parts P :
  lifecycle_ok P = true -> close_ok P = true /\ with_ok P = true /\ no_open_atoms (p_close P) = true.
Proof.
  unfold lifecycle_ok. intros H. apply andb_prop in H as [H H3]. apply andb_prop in H as [H1 H2]. auto.
Qed.

(* ---------- close() releases, returning or raising ---------- *)
Lemma close_releases_ck P : close_ok P = true -> forall e c, released (fst (do_close P e c)).
Proof.
  intros OK e c. unfold close_ok in OK.
  destruct (do_close P e c) as [c' r] eqn:E. cbn [fst].
  pose proof (ai_sound _ _ (matom_sound (p_resets P)) (p_close P) bot e c c' r (g_bot c) E) as H.
  destruct (ai masem (p_close P) bot) as [n rr]. apply andb_prop in OK as [On Or]. cbn [fst snd] in H.
  destruct r; [exact (aclosed_go _ _ On H)|exact (aclosed_go _ _ Or H)].
Qed.

Theorem close_releases P :
  lifecycle_ok P = true -> forall e c, released (fst (do_close P e c)).
Proof. intros H. apply close_releases_ck. apply lifecycle_ok_parts in H. tauto. Qed.

(* ---------- every exit of a with-block releases ---------- *)
Lemma with_releases_ck P : with_ok P = true -> forall e body c, released (fst (with_block P e body c)).
Proof.
  intros OK e body c. unfold with_ok in OK. apply andb_prop in OK as [Oen Oex].
  unfold with_block.
  destruct (exec (csem P) (p_enter P) e c) as [c1 r1] eqn:E1.
  pose proof (ai_sound _ _ (catom_sound P) (p_enter P) bot e c c1 r1 (g_bot c) E1) as H1.
  destruct r1 as [|x1].
  - destruct (run_steps body c1) as [c2 rb].
    destruct (exec (csem P) (p_exit P) e c2) as [c3 r3] eqn:E3.
    pose proof (ai_sound _ _ (catom_sound P) (p_exit P) bot e c2 c3 r3 (g_bot c2) E3) as H3.
    destruct (ai (casem P) (p_exit P) bot) as [n rr]. apply andb_prop in Oex as [On Or]. cbn [fst snd] in H3.
    destruct r3; cbn [fst]; [exact (aclosed_go _ _ On H3)|exact (aclosed_go _ _ Or H3)].
  - cbn [fst]. exact (aclosed_go _ _ Oen H1).
Qed.

Theorem with_releases P :
  lifecycle_ok P = true -> forall e body c, released (fst (with_block P e body c)).
Proof. intros H. apply with_releases_ck. apply lifecycle_ok_parts in H. tauto. Qed.

(* ---------- histories ---------- *)
Lemma run_hist_app P h1 : forall h2 c, run_hist P (h1 ++ h2) c = run_hist P h2 (run_hist P h1 c).
Proof. induction h1 as [|o h1 IH]; intros h2 c; cbn; [reflexivity|apply IH]. Qed.

Theorem op_releases P :
  lifecycle_ok P = true -> forall o c, closing o = true -> released (fst (run_op P o c)).
Proof.
  intros OK o c Hc. destruct o; cbn in Hc; try discriminate; cbn [run_op].
  - apply close_releases; assumption.
  - apply with_releases; assumption.
Qed.

(* after ANY history, from ANY state, right after a close() or a with-block nothing is held *)
Theorem history_releases P :
  lifecycle_ok P = true ->
  forall (h : list op) (o : op) (c0 : conn), closing o = true -> released (run_hist P (h ++ [o]) c0).
Proof.
  intros OK h o c0 Hc. rewrite run_hist_app. cbn [run_hist]. apply op_releases; assumption.
Qed.

(* ---------- close() on a closed connection ---------- *)
Lemma conn_eta c : mkC (t_open c) (log_open c) (tn c) = c.
Proof. destruct c; reflexivity. Qed.

Lemma run_steps_closed ss c :
  t_open c = false ->
  run_steps ss c = (c, match ss with
                       | [] => Normal
                       | SFail x :: _ => Raised x
                       | _ :: _ => Raised ENotOpened
                       end).
Proof.
  intros T. destruct ss as [|s ss]; [reflexivity|].
  cbn [run_steps]. unfold run_step. destruct s; rewrite ?T; reflexivity.
Qed.

Lemma exec_closed_id rs p :
  no_open_atoms p = true -> forall e c, released c -> fst (exec (msem rs) p e c) = c.
Proof.
  induction p as [a| |s1 IH1 s2 IH2|b IHb f IHf|b IHb h IHh]; intros N e c R; cbn [no_open_atoms] in N.
  - destruct R as [T Lg]. destruct a; try discriminate; cbn [exec msem].
    + unfold run_hook. destruct (e_on_close e) as [ss|]; [rewrite run_steps_closed by exact T|]; reflexivity.
    + cbn [fst]. rewrite <- T. apply conn_eta.
    + cbn [fst]. rewrite <- Lg. apply conn_eta.
  - reflexivity.
  - apply andb_prop in N as [N1 N2]. cbn [exec].
    pose proof (IH1 N1 e c R) as H1. destruct (exec (msem rs) s1 e c) as [c1 r1]. cbn [fst] in H1. subst c1.
    destruct r1; [apply IH2; assumption|reflexivity].
  - apply andb_prop in N as [N1 N2]. cbn [exec].
    pose proof (IHb N1 e c R) as H1. destruct (exec (msem rs) b e c) as [c1 r1]. cbn [fst] in H1. subst c1.
    pose proof (IHf N2 e c R) as H2. destruct (exec (msem rs) f e c) as [c2 r2]. cbn [fst] in H2. subst c2.
    destruct r2; reflexivity.
  - apply andb_prop in N as [N1 N2]. cbn [exec].
    pose proof (IHb N1 e c R) as H1. destruct (exec (msem rs) b e c) as [c1 r1]. cbn [fst] in H1. subst c1.
    destruct r1; [reflexivity|apply IHh; assumption].
Qed.

(* close() can be called repeatedly: whatever the first close met, a further close (with any hook,
   any device behaviour) leaves the connection exactly as it was — released *)
Theorem close_idempotent P :
  lifecycle_ok P = true ->
  forall e1 e2 c, let c1 := fst (do_close P e1 c) in
                  released c1 /\ fst (do_close P e2 c1) = c1.
Proof.
  intros OK e1 e2 c c1. pose proof (close_releases P OK e1 c) as R. split; [exact R|].
  apply lifecycle_ok_parts in OK as (_ & _ & N). apply exec_closed_id; assumption.
Qed.

(* what the further close() returns, for the code as it is: nothing to say when there is no hook;
   a hook that starts by talking to the device (all default platform hooks) raises
   ScrapliConnectionNotOpened; a hook that raises by itself raises that *)
Theorem second_close_result e c :
  released c ->
  snd (do_close progs_now e c) =
  match e_on_close e with
  | None | Some [] => Normal
  | Some (SFail x :: _) => Raised x
  | Some (_ :: _) => Raised ENotOpened
  end.
Proof.
  intros [T Lg]. unfold do_close, progs_now. cbn [p_close p_resets close_prog exec msem].
  unfold run_hook. destruct (e_on_close e) as [ss|]; [|reflexivity].
  rewrite run_steps_closed by exact T. cbn.
  destruct ss as [|[| | | |] ss]; reflexivity.
Qed.

Theorem second_close_platform_hook h ss e c :
  hook_shape_ok h = true -> hook_models h ss = true -> e_on_close e = Some ss -> released c ->
  do_close progs_now e c = (c, Raised ENotOpened).
Proof.
  intros Hs Hm He R.
  pose proof (second_close_result e c R) as S. rewrite He in S.
  pose proof (exec_closed_id resets_all close_prog eq_refl e c R) as F.
  change (exec (msem resets_all) close_prog e c) with (do_close progs_now e c) in F.
  destruct (do_close progs_now e c) as [c' r]. cbn [fst snd] in *. subst c'. f_equal.
  rewrite S. unfold hook_models in Hm. apply andb_prop in Hm as [Hl Hd].
  destruct h as [|h0 h]; [discriminate|]. destruct ss as [|s ss]; [discriminate|].
  cbn in Hd. apply andb_prop in Hd as [Hd _]. destruct s; try reflexivity; discriminate.
Qed.

(* ---------- a closed connection can be opened again ---------- *)
Lemma run_steps_all_ok ss : forall c,
  all_ok ss = true -> t_open c = true ->
  run_steps ss c = (mkC true (log_open c) (steps_tn ss (tn c)), Normal).
Proof.
  induction ss as [|s ss IH]; intros c A T.
  - cbn. rewrite <- T. rewrite conn_eta. reflexivity.
  - cbn in A. apply andb_prop in A as [A1 A2]. destruct s; try discriminate.
    cbn [run_steps]. unfold run_step. rewrite T. cbn [negb].
    rewrite IH by (auto). reflexivity.
Qed.

Lemma resets_allb_eq r : resets_allb r = true -> r = resets_all.
Proof.
  destruct r as [a b c d e]. unfold resets_allb. cbn.
  destruct a, b, c, d, e; cbn; intros H; try discriminate; reflexivity.
Qed.

Lemma tn_open_all t : tn_open resets_all t = t_init.
Proof. reflexivity. Qed.

Theorem reopen_ok P e c :
  p_open P = open_prog -> resets_allb (p_resets P) = true ->
  released c -> env_opens e = true ->
  do_open P e c = (mkC true (e_logcfg e) (steps_tn (e_auth e ++ hook_steps (e_on_open e)) t_init), Normal).
Proof.
  intros Ho Hr [T Lg] Ev. apply resets_allb_eq in Hr.
  unfold do_open. rewrite Ho, Hr. unfold env_opens in Ev.
  destruct (e_topen e) eqn:Et; [|discriminate]. destruct (e_copen e) eqn:Ec; [|discriminate].
  apply andb_prop in Ev as [Ea Eh].
  destruct c as [to lo t]. cbn in T, Lg. subst to lo.
  unfold open_prog. cbn [exec msem]. rewrite Et. rewrite tn_open_all. cbn [e_logcfg log_open t_open tn].
  assert (E2 : (if e_logcfg e
                then match e_copen e with
                     | Normal => (mkC true true t_init, Normal)
                     | Raised x => (mkC true false t_init, Raised x)
                     end
                else (mkC true false t_init, Normal)) = (mkC true (e_logcfg e) t_init, Normal)).
  { rewrite Ec. destruct (e_logcfg e); reflexivity. }
  rewrite E2.
  rewrite (run_steps_all_ok (e_auth e) (mkC true (e_logcfg e) t_init) Ea eq_refl). cbn [log_open tn].
  unfold run_hook, hook_steps, hook_all_ok in *.
  destruct (e_on_open e) as [ss|].
  - rewrite run_steps_all_ok by (auto). cbn [log_open tn].
    unfold steps_tn. rewrite fold_left_app. reflexivity.
  - rewrite app_nil_r. reflexivity.
Qed.

(* ... after any history that ends in a close() or a with-block *)
Theorem reopen_after_any_history P :
  lifecycle_ok P = true -> p_open P = open_prog -> resets_allb (p_resets P) = true ->
  forall h o c0 e, closing o = true -> env_opens e = true ->
  do_open P e (run_hist P (h ++ [o]) c0) =
  (mkC true (e_logcfg e) (steps_tn (e_auth e ++ hook_steps (e_on_open e)) t_init), Normal).
Proof.
  intros OK Ho Hr h o c0 e Hc Ev. apply reopen_ok; auto. apply history_releases; assumption.
Qed.

(* the first interaction of a re-opened Telnet session meets the initial protocol state, so the
   negotiation theorem of C15 holds for it, whatever the previous sessions left behind *)
Lemma run_from_init counting limit chunks :
  run_from counting limit t_init chunks = run true counting limit chunks.
Proof. reflexivity. Qed.

Theorem reopen_negotiation_invisible P :
  lifecycle_ok P = true -> p_open P = open_prog -> resets_allb (p_resets P) = true ->
  forall h o c0 e counting limit ts chunks,
  closing o = true -> env_opens e = true -> e_auth e = [] -> e_on_open e = None ->
  toks_ok ts = true -> (0 < limit)%nat -> (counting = true -> (ncmds ts <= limit)%nat) ->
  Forall nonempty chunks -> concat chunks = stream ts ->
  run_from counting limit (tn (fst (do_open P e (run_hist P (h ++ [o]) c0)))) chunks
  = (spec_data ts, spec_replies ts).
Proof.
  intros OK Ho Hr h o c0 e counting limit ts chunks Hc Ev Ha Hh Tk Lim Cnt Ne Cat.
  rewrite (reopen_after_any_history P OK Ho Hr h o c0 e Hc Ev). rewrite Ha, Hh. cbn [fst tn app hook_steps steps_tn fold_left].
  rewrite run_from_init. apply negotiation_invisible; assumption.
Qed.

(* ---------- the code as it is satisfies the premises ---------- *)
Example progs_now_ok : lifecycle_ok progs_now = true.
Proof. vm_compute. reflexivity. Qed.

Example progs_now_open : p_open progs_now = open_prog /\ resets_allb (p_resets progs_now) = true.
Proof. split; reflexivity. Qed.

Example env_opens_sat :
  env_opens (mkE true Normal Normal [SOk t_init] (Some [SOk t_init; SOk t_init]) None) = true.
Proof. reflexivity. Qed.

(* a history with a failing hook and a dying device, ending released — the premises of
   history_releases are met by a non-trivial history, and the run really goes through open states *)
Example history_sat :
  let e1 := mkE true Normal Normal [] (Some [SOk t_init]) (Some [SDrop t_init]) in
  let h := [OOpen e1; OOperate [SOk t_init]; OClose e1; OOpen e1] in
  let o := OWith e1 [SStall t_init] in
  trace progs_now (h ++ [o]) (mkC false false t_init)
  = [(true, true, Normal); (true, true, Normal); (false, false, Raised EConnError); (true, true, Normal);
     (false, false, Raised ENotOpened)].
Proof. vm_compute. reflexivity. Qed.

(* Settings.NO_TERMINATE_ON_TIMEOUT: the timeout leaves the transport open — the state __exit__ / close() meet really is
   an open one — and the with-block / the close() still end released, the with-block with the body's ScrapliTimeout *)
Example no_terminate_sat :
  let e1 := mkE true Normal Normal [] None None in
  run_steps [SStallOpen t_init] (mkC true true t_init) = (mkC true true t_init, Raised ETimeout) /\
  trace progs_now [OWith e1 [SStallOpen t_init]; OOpen e1; OOperate [SStallOpen t_init]; OClose e1] (mkC false false t_init)
  = [(false, false, Raised ETimeout); (true, true, Normal); (true, true, Raised ETimeout); (false, false, Normal)].
Proof. split; vm_compute; reflexivity. Qed.

Example platform_hook_sat :
  hook_shape_ok [HAcquirePriv; HWrite [101;120;105;116]; HSendReturn] = true /\
  hook_models [HAcquirePriv; HWrite [101;120;105;116]; HSendReturn] [SOk t_init; SOk t_init; SOk t_init] = true.
Proof. split; reflexivity. Qed.

(* ---------- the pinned commit is refuted ---------- *)
Definition close_releases_full (P : progs) : Prop := forall e c, released (fst (do_close P e c)).
Definition with_releases_full (P : progs) : Prop := forall e body c, released (fst (with_block P e body c)).
Definition reopen_fresh_full (P : progs) : Prop :=
  forall e c, released c -> env_opens e = true -> e_auth e = [] -> e_on_open e = None ->
              tn (fst (do_open P e c)) = t_init.

Example baseline_not_accepted : lifecycle_ok progs_baseline = false.
Proof. vm_compute. reflexivity. Qed.

(* on_close raises because the device is gone: transport and channel log stay open *)
Theorem close_releases_refuted_baseline : ~ close_releases_full progs_baseline.
Proof.
  intros H.
  specialize (H (mkE true Normal Normal [] None (Some [SDrop t_init])) (mkC true true t_init)).
  destruct H as [H _]. vm_compute in H. discriminate.
Qed.

(* a timeout inside the with-block closes the transport; __exit__ -> close() -> the platform hook
   raises ScrapliConnectionNotOpened and the channel log stays open *)
Theorem with_releases_refuted_baseline : ~ with_releases_full progs_baseline.
Proof.
  intros H.
  specialize (H (mkE true Normal Normal [] None (Some [SOk t_init])) [SStall t_init] (mkC false false t_init)).
  destruct H as [_ H]. vm_compute in H. discriminate.
Qed.

(* the Telnet transport re-opened after a session that answered 10 commands and ended in EOF *)
Theorem reopen_fresh_refuted_baseline : ~ reopen_fresh_full progs_baseline.
Proof.
  intros H.
  specialize (H (mkE false Normal Normal [] None None) (mkC false false (mkT [] [] [] 10 true []))
                (conj eq_refl eq_refl) eq_refl eq_refl eq_refl).
  vm_compute in H. discriminate.
Qed.

(* ... and what that does to the re-opened session: `IAC DO 1 "l"` is delivered raw, unanswered *)
Theorem reopen_negotiation_refuted_baseline :
  exists c ts chunks,
    released c /\ toks_ok ts = true /\ (ncmds ts <= 10)%nat /\ Forall nonempty chunks /\ concat chunks = stream ts /\
    run_from true 10 (tn (fst (do_open progs_baseline (mkE false Normal Normal [] None None) c))) chunks
    <> (spec_data ts, spec_replies ts).
Proof.
  exists (mkC false false (mkT [] [] [] 10 false [])), [Cmd DO 1; Data [108]], [[255; 253; 1; 108]].
  repeat split; try reflexivity.
  - cbn. lia.
  - repeat constructor; discriminate.
  - vm_compute. discriminate.
Qed.

Theorem reopen_fresh_now : reopen_fresh_full progs_now.
Proof.
  intros e c R Ev Ha Hh.
  rewrite (reopen_ok progs_now e c eq_refl eq_refl R Ev). rewrite Ha, Hh. reflexivity.
Qed.

(* ---------- the pty child of the system transport ---------- *)
Lemma all_pty_complete s : In s all_pty.
Proof. destruct s as [[| |] [|] [|] [|]]; vm_compute; tauto. Qed.

Lemma all_penv_complete E : In E all_penv.
Proof. destruct E as [[|] [|] [|]]; vm_compute; tauto. Qed.

Lemma pty_close_case p : pty_close_ok p = true -> forall E s, close_case_ok p E s = true.
Proof.
  intros H E s. unfold pty_close_ok in H. rewrite forallb_forall in H.
  specialize (H E (all_penv_complete E)). rewrite forallb_forall in H. exact (H s (all_pty_complete s)).
Qed.

(* close() of an un-closed PtyProcess, in every state — EOF read or not, child running, exited or already
   reaped, master fd open or not — and whatever the signals achieve: when it returns the child has been
   waited for, the fd is closed, the object is closed; it raises only if the child could not be killed;
   it always returns or raises unless an EOF was read AND the child still runs AND survives the SIGHUP of the
   closed master *)
Theorem pty_close_reaps : forall p, pty_close_ok p = true -> forall E s,
  y_closed s = false -> (y_eof s = true -> y_child s = CRunning -> hup_exits E = true) ->
  match prun E p s with
  | (s', PDone) => y_child s' = CReaped /\ y_fd s' = false /\ y_closed s' = true
  | (_, PRaised) => kill_works E = false
  | (_, PBlocks) => False
  end.
Proof.
  intros p H E s Hc He. pose proof (pty_close_case p H E s) as K. unfold close_case_ok in K. rewrite Hc in K.
  assert (R : in_region E s = true).
  { unfold in_region. destruct (y_eof s); [|reflexivity]. destruct (y_child s); try reflexivity.
    rewrite (He eq_refl eq_refl). reflexivity. }
  rewrite R in K. destruct (prun E p s) as [s' [| |]].
  - unfold pty_released in K. apply andb_prop in K as [K K3]. apply andb_prop in K as [K1 K2].
    repeat split; [destruct (y_child s'); try discriminate; reflexivity | destruct (y_fd s'); try discriminate; reflexivity | exact K3].
  - destruct (kill_works E); [discriminate | reflexivity].
  - discriminate.
Qed.

(* close() can be called repeatedly: on a closed object it changes nothing and returns *)
Theorem pty_close_idempotent : forall p, pty_close_ok p = true -> forall E s,
  y_closed s = true -> exists s', prun E p s = (s', PDone) /\ y_child s' = y_child s /\ y_fd s' = y_fd s /\ y_closed s' = true.
Proof.
  intros p H E s Hc. pose proof (pty_close_case p H E s) as K. unfold close_case_ok in K. rewrite Hc in K.
  destruct (prun E p s) as [s' [| |]]; try discriminate. exists s'. split; [reflexivity|].
  apply andb_prop in K as [K K3]. apply andb_prop in K as [K1 K2]. repeat split.
  - destruct (y_child s'), (y_child s); try discriminate; reflexivity.
  - apply Bool.eqb_prop; exact K2.
  - exact K3.
Qed.

Example pty_close_now_ok : pty_close_ok pty_close_now = true.
Proof. vm_compute. reflexivity. Qed.

(* the premises are satisfiable by states that matter: EOF read, child defunct, fd open; and EOF read, child
   still running but exiting on SIGHUP *)
Example pty_close_reaps_after_eof :
  prun (mkPE false false false) pty_close_now (mkPty CExited true false true) = (mkPty CReaped false true true, PDone) /\
  prun (mkPE true false false) pty_close_now (mkPty CRunning true false true) = (mkPty CReaped false true true, PDone).
Proof. split; vm_compute; reflexivity. Qed.

(* the full statement is false of the code as it is: a child that closed its tty (EOF was read) but keeps
   running makes close() wait for it; and a child that survives SIGKILL makes it raise *)
Theorem pty_close_full_refuted : ~ pty_close_full pty_close_now.
Proof.
  intros H. destruct (H (mkPE false false true) (mkPty CRunning true false true) eq_refl) as [s' [K _]].
  vm_compute in K. discriminate.
Qed.

(* a close() that skips the wait once EOF has been read leaves the defunct child *)
Example pty_close_skip_after_eof_rejected :
  pty_close_ok (PIf PNotClosed (PSeq PDelFileobj (PSeq (PIf PNotEofSeen (PIf PIsAlive (PTerminateOrRaise true))) PMarkClosed))) = false.
Proof. vm_compute. reflexivity. Qed.

(* a child that is still running at close() and ignores the hang-up, SIGHUP and SIGINT (no EOF read: it keeps its tty):
   close() as it is gets rid of it with SIGKILL and reaps it ... *)
Example pty_close_stubborn_child :
  prun (mkPE false false true) pty_close_now (mkPty CRunning true false false) = (mkPty CReaped false true false, PDone).
Proof. vm_compute. reflexivity. Qed.

(* ... a close() that does not escalate (terminate() without force=True) raises "could not terminate" although SIGKILL
   would have worked, and leaves that child running, never waited for *)
Example pty_close_no_force_rejected :
  pty_close_ok (PIf PNotClosed (PSeq PDelFileobj (PSeq PNop (PSeq (PIf PIsAlive (PTerminateOrRaise false))
                                                                   (PSeq PNop (PSeq PMarkClosed PNop)))))) = false /\
  prun (mkPE false false true) (PIf PNotClosed (PSeq PDelFileobj (PSeq PNop (PSeq (PIf PIsAlive (PTerminateOrRaise false))
                                                                   (PSeq PNop (PSeq PMarkClosed PNop))))))
       (mkPty CRunning true false false) = (mkPty CRunning false false false, PRaised).
Proof. split; vm_compute; reflexivity. Qed.

(* spawn(): on every exit after the fork — the return and every raise — the child and the master fd are
   owned by a PtyProcess object (which transport.close(), or __del__ when the exception is dropped, closes) *)
Lemma spawn_owns_from : forall prog owned, spawn_ok_from owned prog = true -> forall fails, fst (srun prog fails owned) = true.
Proof.
  induction prog as [|a r IH]; intros owned H fails; cbn in *.
  - exact H.
  - destruct a; cbn in *.
    + apply IH; exact H.
    + apply IH; exact H.
    + apply andb_prop in H as [H1 H2]. destruct (hd false fails); cbn; [exact H1 | apply IH; exact H2].
    + apply andb_prop in H as [H1 H2]. destruct (hd false fails); cbn; [exact H1 | apply IH; exact H2].
    + exact H.
Qed.

Theorem spawn_owns : forall prog, spawn_ok prog = true -> forall fails, fst (srun prog fails false) = true.
Proof. intros prog H fails. exact (spawn_owns_from prog false H fails). Qed.

(* a failed (or successful) spawn followed by the close() of the object that owns the child: reaped, fd closed *)
Theorem pty_spawn_then_close : forall prog p, spawn_ok prog = true -> pty_close_ok p = true ->
  forall fails E c,
  fst (srun prog fails false) = true /\
  match prun E p (mkPty c true false false) with
  | (s', PDone) => y_child s' = CReaped /\ y_fd s' = false /\ y_closed s' = true
  | (_, PRaised) => kill_works E = false
  | (_, PBlocks) => False
  end.
Proof.
  intros prog p Hs Hp fails E c. split; [exact (spawn_owns prog Hs fails)|].
  apply (pty_close_reaps p Hp E (mkPty c true false false) eq_refl). cbn. discriminate.
Qed.

Example pty_spawn_now_ok : spawn_ok pty_spawn_now = true.
Proof. vm_compute. reflexivity. Qed.

(* wrapping only after the exec-error check loses the child and the fd when the exec fails *)
Example pty_spawn_wrap_late_rejected :
  spawn_ok [SPipe; SPipe; SPipe; SExecCheck; SWrap; SMayRaise; SMayRaise; SReturn] = false /\
  srun [SPipe; SPipe; SPipe; SExecCheck; SWrap; SMayRaise; SMayRaise; SReturn] [false; false; false; true] false = (false, true).
Proof. split; vm_compute; reflexivity. Qed.
