(* PromptCache_Proofs.v — the cached classifier equals the uncached one on EVERY history of queries
   and table updates, provided update_privilege_levels clears the cache; refuted otherwise. *)
From Verif Require Import Bytes PromptCache.

Section Proofs.
  Variables (T R : Type).
  Variable classify : T -> bytes -> option R.
  Variable cap : nat.

  Definition cinv (s : cst T R) : Prop :=
    forall p v, In (p, v) (c_cache s) -> classify (c_tbl s) p = Some v.

  Lemma beq_true a : forall b, beq a b = true -> a = b.
  Proof.
    induction a as [|x a IH]; intros [|y b] H; cbn in H; try discriminate; [reflexivity|].
    apply andb_prop in H as [H1 H2]. apply N.eqb_eq in H1. subst. f_equal. auto.
  Qed.

  Lemma lookup_In p (l : list (bytes * R)) v : lookup p l = Some v -> In (p, v) l.
  Proof.
    induction l as [|[k w] l IH]; cbn; [discriminate|].
    destruct (beq k p) eqn:E.
    - intros H. inversion H. subst. apply beq_true in E. subst. left. reflexivity.
    - intros H. right. apply IH. exact H.
  Qed.

  Lemma remove_incl p (l : list (bytes * R)) x : In x (remove p l) -> In x l.
  Proof.
    induction l as [|[k w] l IH]; cbn; [tauto|].
    destruct (beq k p); [intros H; right; exact H|].
    intros [H|H]; [left; exact H|right; apply IH; exact H].
  Qed.

  Lemma firstn_incl {A} n (l : list A) x : In x (firstn n l) -> In x l.
  Proof.
    revert l. induction n as [|n IH]; intros [|y l]; cbn; try tauto.
    intros [H|H]; [left; exact H|right; apply IH; exact H].
  Qed.

  Lemma cstep_ok s o :
    cinv s ->
    cinv (fst (cstep classify cap true s o)) /\
    snd (cstep classify cap true s o) =
      match o with Query p => Some (classify (c_tbl s) p) | Update _ => None end /\
    c_tbl (fst (cstep classify cap true s o)) =
      match o with Query _ => c_tbl s | Update t => t end.
  Proof.
    intros Hinv. destruct o as [p|t]; cbn [cstep].
    - destruct (lookup p (c_cache s)) as [v|] eqn:El.
      + pose proof (Hinv _ _ (lookup_In _ _ _ El)) as Hc. cbn [fst snd c_tbl c_cache]. repeat split.
        * intros q w [E|Hin]; [inversion E; subst; exact Hc|].
          apply Hinv. eapply remove_incl. exact Hin.
        * rewrite Hc. reflexivity.
      + destruct (classify (c_tbl s) p) as [v|] eqn:Ec; cbn [fst snd c_tbl c_cache]; repeat split; try exact Hinv.
        intros q w Hin. apply firstn_incl in Hin. destruct Hin as [E|Hin]; [inversion E; subst; exact Ec|].
        apply Hinv. exact Hin.
    - cbn [fst snd c_tbl c_cache]. repeat split. intros q w [].
  Qed.

  (* every history: the outputs are those of the uncached classifier on the table of the moment *)
  Theorem cache_transparent : forall ops s,
    cinv s -> snd (crun classify cap true s ops) = cspec classify (c_tbl s) ops.
  Proof.
    induction ops as [|o ops IH]; intros s Hinv; [reflexivity|].
    cbn [crun]. destruct (cstep classify cap true s o) as [s' out] eqn:Es.
    pose proof (cstep_ok s o Hinv) as (Hinv' & Hout & Htbl). rewrite Es in Hinv', Hout, Htbl. cbn [fst snd] in *.
    specialize (IH s' Hinv'). destruct (crun classify cap true s' ops) as [s'' outs]. cbn [snd] in *.
    destruct o as [p|t]; cbn [cspec]; rewrite Hout, IH, Htbl; reflexivity.
  Qed.

  Corollary cache_transparent_from_empty t ops :
    snd (crun classify cap true (mkC t []) ops) = cspec classify t ops.
  Proof. apply cache_transparent. intros p v []. Qed.
End Proofs.

(* without the cache_clear() a stale answer survives a table update *)
Definition toy_classify (t : nat) (p : bytes) : option nat := Some t.
Example stale_without_clear :
  snd (crun toy_classify 64 false (mkC 0%nat []) [Query [1]; Update 1%nat; Query [1]])
  <> cspec toy_classify 0%nat [Query [1]; Update 1%nat; Query [1]].
Proof. vm_compute. discriminate. Qed.
