(* Prompt_Proofs.v — from validated emptiness certificates to statements about classify:
   every string of a prompt grammar is classified as exactly the expected levels. *)
From Coq Require Import String.
From Verif Require Import Bytes Regex RegexDeriv RegexDecide Regex_Proofs RegexSearch RegexSearch_Proofs Prompt.

Lemma d_Emp_dead pnl s : trun pnl (TBase Emp) s = false.
Proof. revert pnl; induction s as [|c s IH]; intros pnl; cbn; [reflexivity|apply IH]. Qed.

Lemma is_dead_spec t : is_dead t = true -> t = TBase Emp.
Proof. destruct t as [r| | |]; try discriminate. destruct r; try discriminate. reflexivity. Qed.

Lemma trun_mkTAnd s : forall pnl a b, trun pnl (mkTAnd a b) s = trun pnl (TAnd a b) s.
Proof.
  intros pnl a b. unfold mkTAnd.
  destruct (is_dead a) eqn:Ea.
  - apply is_dead_spec in Ea. subst a. rewrite d_Emp_dead.
    revert pnl b. induction s as [|c s IH]; intros pnl b; cbn [trun tnul nul andb]; [reflexivity|].
    rewrite td_and. unfold mkTAnd. cbn. symmetry. apply d_Emp_dead.
  - destruct (is_dead b) eqn:Eb; [|reflexivity].
    apply is_dead_spec in Eb. subst b. rewrite d_Emp_dead.
    revert pnl a Ea. induction s as [|c s IH]; intros pnl a Ea; cbn [trun tnul nul]; [rewrite andb_false_r; reflexivity|].
    rewrite td_and. unfold mkTAnd. cbn. destruct (is_dead (td pnl c a)); symmetry; apply d_Emp_dead.
Qed.

Lemma trun_and s : forall pnl a b, trun pnl (TAnd a b) s = trun pnl a s && trun pnl b s.
Proof.
  induction s as [|c s IH]; intros pnl a b; cbn [trun tnul]; [reflexivity|].
  rewrite td_and, trun_mkTAnd. apply IH.
Qed.

Lemma trun_not s : forall pnl a, trun pnl (TNot a) s = negb (trun pnl a s).
Proof. induction s as [|c s IH]; intros pnl a; cbn; [reflexivity|apply IH]. Qed.

Lemma accepts_and a b s : accepts (TAnd a b) s = accepts a s && accepts b s.
Proof. apply trun_and. Qed.
Lemma accepts_not a s : accepts (TNot a) s = negb (accepts a s).
Proof. apply trun_not. Qed.

Lemma accepts_all l s : accepts (t_all l) s = forallb (fun t => accepts t s) l.
Proof.
  induction l as [|x l IH].
  - cbn [t_all forallb]. unfold t_true. rewrite accepts_not. unfold accepts. rewrite d_Emp_dead. reflexivity.
  - destruct l as [|y l'].
    + cbn [t_all forallb]. rewrite andb_true_r. reflexivity.
    + change (t_all (x :: y :: l')) with (TAnd x (t_all (y :: l'))).
      rewrite accepts_and, IH. reflexivity.
Qed.

Lemma accepts_weaken Gs s : accepts (gtop Gs) s = true -> accepts (weaken Gs) s = true.
Proof.
  unfold gtop, weaken. rewrite !accepts_all, !forallb_forall. intros H t Ht.
  apply filter_In in Ht as [Ht _]. apply H. exact Ht.
Qed.

Lemma accepts_relaxed CL atoms fuel Gs Rs s :
  decide1 CL atoms fuel (TAnd (weaken Gs) (TNot (t_all (map t_full Rs)))) = true ->
  all_bytes s = true -> accepts (gtop Gs) s = true -> accepts (relaxed Gs Rs) s = true.
Proof.
  intros H Hs HG. pose proof (decide1_sound _ _ _ _ H s Hs) as E.
  rewrite accepts_and, accepts_not, (accepts_weaken _ _ HG) in E. cbn in E. apply Bool.negb_false_iff in E.
  unfold relaxed. rewrite accepts_all, forallb_app. rewrite accepts_all in E. rewrite E. cbn [andb].
  unfold gtop in HG. rewrite accepts_all in HG. rewrite forallb_forall in HG. apply forallb_forall.
  intros t Ht. apply filter_In in Ht as [Ht _]. apply HG. exact Ht.
Qed.

Lemma empty_with_sound CL atoms fuel Gs Rs t s :
  empty_with CL atoms fuel Gs Rs t = true -> all_bytes s = true -> accepts (gtop Gs) s = true -> accepts t s = false.
Proof.
  unfold empty_with. intros H Hs HG.
  destruct (decide1 CL atoms fuel (TAnd (weaken Gs) t)) eqn:H1.
  - pose proof (decide1_sound _ _ _ _ H1 s Hs) as E. rewrite accepts_and in E.
    rewrite (accepts_weaken _ _ HG) in E. exact E.
  - destruct Rs as [|r0 Rs'].
    + pose proof (decide1_sound _ _ _ _ H s Hs) as E. rewrite accepts_and in E.
      rewrite HG in E. exact E.
    + destruct (decide1 CL atoms fuel (TAnd (weaken Gs) (TNot (t_all (map t_full (r0 :: Rs')))))) eqn:H2.
      * destruct (decide1 CL atoms fuel (TAnd (relaxed Gs (r0 :: Rs')) t)) eqn:H3.
        -- pose proof (accepts_relaxed _ _ _ _ _ s H2 Hs HG) as HR.
           pose proof (decide1_sound _ _ _ _ H3 s Hs) as E. rewrite accepts_and, HR in E. exact E.
        -- pose proof (decide1_sound _ _ _ _ H s Hs) as E. rewrite accepts_and in E.
           rewrite HG in E. exact E.
      * pose proof (decide1_sound _ _ _ _ H s Hs) as E. rewrite accepts_and in E.
        rewrite HG in E. exact E.
Qed.

Theorem fact_check_sound CL atoms fuel f : fact_check CL atoms fuel f = true -> fact_holds f.
Proof.
  destruct f as [Gs Rs l pos|Gs Rs r]; cbn [fact_check fact_holds].
  - destruct pos; intros H s Hs HG; unfold level_matches, level_top; rewrite accepts_all.
    + rewrite forallb_forall in H. apply forallb_forall. intros c Hc.
      pose proof (empty_with_sound _ _ _ _ _ _ s (H c Hc) Hs HG) as E.
      rewrite accepts_not in E. apply Bool.negb_false_iff in E. exact E.
    + destruct (empty_with CL atoms fuel Gs Rs (t_search (l_pat l))) eqn:H1.
      * pose proof (empty_with_sound _ _ _ _ _ _ s H1 Hs HG) as E.
        destruct (forallb (fun t => accepts t s) (level_conjs l)) eqn:F; [|reflexivity].
        rewrite forallb_forall in F.
        rewrite (F (t_search (l_pat l))) in E; [discriminate|].
        unfold level_conjs. apply in_or_app. right. left. reflexivity.
      * pose proof (empty_with_sound _ _ _ _ _ _ s H Hs HG) as E.
        unfold level_top in E. rewrite accepts_all in E. exact E.
  - intros H s Hs HG. unfold search_b.
    pose proof (empty_with_sound _ _ _ _ _ _ s H Hs HG) as E.
    rewrite accepts_not in E. apply Bool.negb_false_iff in E. exact E.
Qed.

Theorem fact_check_auto_sound fuel f : fact_check_auto fuel f = true -> fact_holds f.
Proof. unfold fact_check_auto. apply fact_check_sound. Qed.

(* equality tests reflect equality *)
Lemma beq_eq a : forall b, beq a b = true -> a = b.
Proof.
  induction a as [|x a IH]; intros [|y b] H; cbn in H; try discriminate; [reflexivity|].
  apply andb_prop in H as [H1 H2]. apply N.eqb_eq in H1. subst. f_equal. auto.
Qed.
Lemma lbeq_eq a : forall b, lbeq a b = true -> a = b.
Proof.
  induction a as [|x a IH]; intros [|y b] H; cbn in H; try discriminate; [reflexivity|].
  apply andb_prop in H as [H1 H2]. apply beq_eq in H1. subst. f_equal. auto.
Qed.
Lemma level_eqb_eq a b : level_eqb a b = true -> a = b.
Proof.
  destruct a as [n1 p1 c1], b as [n2 p2 c2]. unfold level_eqb; cbn. intros H.
  apply andb_prop in H as [H H3]. apply andb_prop in H as [H1 H2].
  apply String.eqb_eq in H1. apply re_eqb_eq in H2. apply lbeq_eq in H3. subst. reflexivity.
Qed.
Lemma ltop_eqb_eq a : forall b, ltop_eqb a b = true -> a = b.
Proof.
  induction a as [|x a IH]; intros [|y b] H; cbn in H; try discriminate; [reflexivity|].
  apply andb_prop in H as [H1 H2]. apply top_eqb_eq in H1. subst. f_equal. auto.
Qed.
Lemma lre_eqb_eq a : forall b, lre_eqb a b = true -> a = b.
Proof.
  induction a as [|x a IH]; intros [|y b] H; cbn in H; try discriminate; [reflexivity|].
  apply andb_prop in H as [H1 H2]. apply re_eqb_eq in H1. subst. f_equal. auto.
Qed.
Lemma fact_eqb_eq a b : fact_eqb a b = true -> a = b.
Proof.
  destruct a as [g1 h1 l1 p1|g1 h1 r1], b as [g2 h2 l2 p2|g2 h2 r2]; cbn; intros H; try discriminate.
  - apply andb_prop in H as [H H3]. apply andb_prop in H as [H H2]. apply andb_prop in H as [H1 H0].
    apply ltop_eqb_eq in H1. apply lre_eqb_eq in H0. apply level_eqb_eq in H2. apply Bool.eqb_prop in H3. subst. reflexivity.
  - apply andb_prop in H as [H H2]. apply andb_prop in H as [H1 H0].
    apply ltop_eqb_eq in H1. apply lre_eqb_eq in H0. apply re_eqb_eq in H2. subst. reflexivity.
Qed.

Lemma classify_from_facts tbl Gm Rs cls :
  (forall l, In l tbl -> fact_holds (FLevel Gm Rs l (in_class cls l))) ->
  forall s, all_bytes s = true -> accepts (gtop Gm) s = true -> classify tbl s = expected tbl cls.
Proof.
  unfold classify, expected. intros H s Hs HG. f_equal.
  induction tbl as [|l tbl IH]; [reflexivity|]. cbn [filter].
  rewrite IH by (intros l' Hl'; apply H; right; exact Hl').
  pose proof (H l (or_introl eq_refl) s Hs HG) as E. cbn in E. rewrite E. reflexivity.
Qed.

(* all decided facts hold; an obligation all of whose facts are decided holds *)
Theorem obligations_sound fuel decided obs :
  forallb (fact_check_auto fuel) decided = true ->
  forallb (ob_covered decided) obs = true ->
  forall o, In o obs -> ob_holds o.
Proof.
  intros Hdec Hcov o Ho. rewrite forallb_forall in Hdec, Hcov. specialize (Hcov o Ho).
  unfold ob_covered in Hcov. rewrite forallb_forall in Hcov.
  assert (Hf : forall f, In f (ob_facts o) -> fact_holds f).
  { intros f Hin. specialize (Hcov f Hin). apply existsb_exists in Hcov as [g [Hg He]].
    apply fact_eqb_eq in He. subst g. apply (fact_check_auto_sound fuel). apply Hdec. exact Hg. }
  unfold ob_holds. intros s Hs. split.
  - apply (classify_from_facts _ _ (o_GR o)); [|exact Hs]. intros l Hl. apply Hf. unfold ob_facts.
    apply in_or_app. left. apply in_map_iff. exists l. split; [reflexivity|exact Hl].
  - assert (Hd : fact_holds (FDetect (o_D o) (o_DR o) (o_combined o))).
    { apply Hf. unfold ob_facts. apply in_or_app. right. left. reflexivity. }
    exact (Hd s Hs).
Qed.

(* assembling separately compiled per-fact lemmas *)
Lemma forallb_nth (f : fact -> bool) (d : fact) : forall (l : list fact),
  (forall i, (i < length l)%nat -> f (nth i l d) = true) -> forallb f l = true.
Proof.
  induction l as [|x l IH]; intros H; [reflexivity|]. cbn [forallb].
  pose proof (H O (PeanoNat.Nat.lt_0_succ _)) as H0. cbn [nth] in H0. rewrite H0. cbn [andb].
  apply IH. intros i Hi. apply (H (S i)). cbn [length]. apply -> PeanoNat.Nat.succ_lt_mono. exact Hi.
Qed.
