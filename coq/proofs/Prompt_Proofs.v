(* Prompt_Proofs.v — from validated emptiness certificates to statements about classify:
   every string of a prompt grammar is classified as exactly the expected levels. *)
From Coq Require Import String.
From Verif Require Import Bytes Regex RegexDeriv RegexDecide Regex_Proofs Prompt.

Lemma d_Emp_dead pnl s : trun pnl (TBase Emp) s = false.
Proof. revert pnl; induction s as [|c s IH]; intros pnl; cbn; [reflexivity|apply IH]. Qed.

Lemma is_dead_spec t : is_dead t = true -> t = TBase Emp.
Proof. destruct t as [r| | |]; try discriminate. destruct r; try discriminate. reflexivity. Qed.

Lemma trun_mkTAnd s : forall pnl a b, trun pnl (mkTAnd a b) s = trun pnl (TAnd a b) s.
Proof.
  intros pnl a b. unfold mkTAnd.
  destruct (is_dead a) eqn:Ea.
  - apply is_dead_spec in Ea. subst a. rewrite d_Emp_dead.
    revert pnl b. induction s as [|c s IH]; intros pnl b; cbn; [reflexivity|].
    unfold mkTAnd. cbn. symmetry. apply d_Emp_dead.
  - destruct (is_dead b) eqn:Eb; [|reflexivity].
    apply is_dead_spec in Eb. subst b. rewrite d_Emp_dead.
    revert pnl a Ea. induction s as [|c s IH]; intros pnl a Ea; cbn; [rewrite andb_false_r; reflexivity|].
    unfold mkTAnd. cbn. destruct (is_dead (td pnl c a)); symmetry; apply d_Emp_dead.
Qed.

Lemma trun_and s : forall pnl a b, trun pnl (TAnd a b) s = trun pnl a s && trun pnl b s.
Proof.
  induction s as [|c s IH]; intros pnl a b; cbn; [reflexivity|].
  rewrite trun_mkTAnd. apply IH.
Qed.

Lemma trun_not s : forall pnl a, trun pnl (TNot a) s = negb (trun pnl a s).
Proof. induction s as [|c s IH]; intros pnl a; cbn; [reflexivity|apply IH]. Qed.

Lemma accepts_and a b s : accepts (TAnd a b) s = accepts a s && accepts b s.
Proof. apply trun_and. Qed.
Lemma accepts_not a s : accepts (TNot a) s = negb (accepts a s).
Proof. apply trun_not. Qed.

Theorem check_level_sound CL atoms fuel tbl Gt cls :
  check_level CL atoms fuel tbl Gt cls = true ->
  forall s, all_bytes s = true -> accepts Gt s = true -> classify tbl s = expected tbl cls.
Proof.
  unfold check_level, classify, expected. intros H s Hs HG. f_equal.
  induction tbl as [|l tbl IH]; [reflexivity|].
  cbn in H. apply andb_prop in H as [Hl H]. cbn [filter].
  rewrite (IH H). clear IH H.
  destruct (in_class cls l).
  - pose proof (decide_empty_sound _ _ _ _ Hl s Hs) as E.
    rewrite accepts_and, accepts_not, HG in E. cbn in E.
    apply Bool.negb_false_iff in E. unfold level_matches. rewrite E. reflexivity.
  - pose proof (decide_empty_sound _ _ _ _ Hl s Hs) as E.
    rewrite accepts_and, HG in E. cbn in E. unfold level_matches. rewrite E. reflexivity.
Qed.

Theorem check_detect_sound CL atoms fuel combined Gt :
  check_detect CL atoms fuel combined Gt = true ->
  forall s, all_bytes s = true -> accepts Gt s = true -> search_b combined s = true.
Proof.
  unfold check_detect, search_b. intros H s Hs HG.
  pose proof (decide_empty_sound _ _ _ _ H s Hs) as E.
  rewrite accepts_and, accepts_not, HG in E. cbn in E. apply Bool.negb_false_iff in E. exact E.
Qed.

Theorem check_ob_sound CL atoms fuel o : check_ob CL atoms fuel o = true -> ob_holds o.
Proof.
  unfold check_ob, ob_holds. intros H s Hs. apply andb_prop in H as [H1 H2]. split.
  - apply (check_level_sound _ _ _ _ _ _ H1 s Hs).
  - apply (check_detect_sound _ _ _ _ _ H2 s Hs).
Qed.

Theorem check_obs_sound CL atoms fuel obs :
  forallb (check_ob CL atoms fuel) obs = true -> forall o, In o obs -> ob_holds o.
Proof.
  intros H o Ho. rewrite forallb_forall in H. apply (check_ob_sound CL atoms fuel). apply H. exact Ho.
Qed.
