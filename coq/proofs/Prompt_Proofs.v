(* Prompt_Proofs.v — from validated emptiness certificates to statements about classify:
   every string of a prompt grammar is classified as exactly the expected levels. *)
From Coq Require Import String.
From Verif Require Import Bytes Regex RegexDeriv RegexDecide Regex_Proofs Prompt.

Lemma d_Emp_dead pnl s : trun pnl (TBase Emp) s = false.
Proof. revert pnl; induction s as [|c s IH]; intros pnl; cbn; [reflexivity|apply IH]. Qed.

Lemma is_dead_spec t : is_dead t = true -> t = TBase Emp.
Proof. destruct t as [r| | |]; try discriminate. destruct r; try discriminate. reflexivity. Qed.

Lemma trun_mkTAnd s : forall pnl a b, trun pnl (mkTAnd a b) s = trun pnl (TAnd a b) s.
Proof.
  intros pnl a b. unfold mkTAnd.
  destruct (is_dead a) eqn:Ea.
  - apply is_dead_spec in Ea. subst a. rewrite d_Emp_dead.
    revert pnl b. induction s as [|c s IH]; intros pnl b; cbn; [reflexivity|].
    unfold mkTAnd. cbn. symmetry. apply d_Emp_dead.
  - destruct (is_dead b) eqn:Eb; [|reflexivity].
    apply is_dead_spec in Eb. subst b. rewrite d_Emp_dead.
    revert pnl a Ea. induction s as [|c s IH]; intros pnl a Ea; cbn; [rewrite andb_false_r; reflexivity|].
    unfold mkTAnd. cbn. destruct (is_dead (td pnl c a)); symmetry; apply d_Emp_dead.
Qed.

Lemma trun_and s : forall pnl a b, trun pnl (TAnd a b) s = trun pnl a s && trun pnl b s.
Proof.
  induction s as [|c s IH]; intros pnl a b; cbn; [reflexivity|].
  rewrite trun_mkTAnd. apply IH.
Qed.

Lemma trun_not s : forall pnl a, trun pnl (TNot a) s = negb (trun pnl a s).
Proof. induction s as [|c s IH]; intros pnl a; cbn; [reflexivity|apply IH]. Qed.

Lemma accepts_and a b s : accepts (TAnd a b) s = accepts a s && accepts b s.
Proof. apply trun_and. Qed.
Lemma accepts_not a s : accepts (TNot a) s = negb (accepts a s).
Proof. apply trun_not. Qed.

Lemma accepts_all l s : accepts (t_all l) s = forallb (fun t => accepts t s) l.
Proof.
  induction l as [|x l IH].
  - cbn [t_all forallb]. unfold t_true. rewrite accepts_not. unfold accepts. rewrite d_Emp_dead. reflexivity.
  - destruct l as [|y l'].
    + cbn [t_all forallb]. rewrite andb_true_r. reflexivity.
    + change (t_all (x :: y :: l')) with (TAnd x (t_all (y :: l'))).
      rewrite accepts_and, IH. reflexivity.
Qed.

Theorem fact_check_sound CL atoms fuel f : fact_check CL atoms fuel f = true -> fact_holds f.
Proof.
  destruct f as [Gm l pos|Gm r]; cbn [fact_check fact_holds].
  - destruct pos; intros H s Hs HG; unfold level_matches, level_top; rewrite accepts_all.
    + rewrite forallb_forall in H. apply forallb_forall. intros c Hc.
      pose proof (decide_empty_sound _ _ _ _ (H c Hc) s Hs) as E.
      rewrite accepts_and, accepts_not, HG in E. cbn in E. apply Bool.negb_false_iff in E. exact E.
    + apply Bool.orb_true_iff in H as [H|H].
      * apply existsb_exists in H as [c [Hc Hd]].
        pose proof (decide_empty_sound _ _ _ _ Hd s Hs) as E.
        rewrite accepts_and, HG in E. cbn in E.
        destruct (forallb (fun t => accepts t s) (level_conjs l)) eqn:F; [|reflexivity].
        rewrite forallb_forall in F. rewrite (F c Hc) in E. discriminate.
      * pose proof (decide_empty_sound _ _ _ _ H s Hs) as E.
        rewrite accepts_and, HG in E. cbn in E. unfold level_top in E. rewrite accepts_all in E. exact E.
  - intros H s Hs HG. unfold search_b.
    pose proof (decide_empty_sound _ _ _ _ H s Hs) as E.
    rewrite accepts_and, accepts_not, HG in E. cbn in E. apply Bool.negb_false_iff in E. exact E.
Qed.

(* equality tests reflect equality *)
Lemma beq_eq a : forall b, beq a b = true -> a = b.
Proof.
  induction a as [|x a IH]; intros [|y b] H; cbn in H; try discriminate; [reflexivity|].
  apply andb_prop in H as [H1 H2]. apply N.eqb_eq in H1. subst. f_equal. auto.
Qed.
Lemma lbeq_eq a : forall b, lbeq a b = true -> a = b.
Proof.
  induction a as [|x a IH]; intros [|y b] H; cbn in H; try discriminate; [reflexivity|].
  apply andb_prop in H as [H1 H2]. apply beq_eq in H1. subst. f_equal. auto.
Qed.
Lemma level_eqb_eq a b : level_eqb a b = true -> a = b.
Proof.
  destruct a as [n1 p1 c1], b as [n2 p2 c2]. unfold level_eqb; cbn. intros H.
  apply andb_prop in H as [H H3]. apply andb_prop in H as [H1 H2].
  apply String.eqb_eq in H1. apply re_eqb_eq in H2. apply lbeq_eq in H3. subst. reflexivity.
Qed.
Lemma fact_eqb_eq a b : fact_eqb a b = true -> a = b.
Proof.
  destruct a as [g1 l1 p1|g1 r1], b as [g2 l2 p2|g2 r2]; cbn; intros H; try discriminate.
  - apply andb_prop in H as [H H3]. apply andb_prop in H as [H1 H2].
    apply top_eqb_eq in H1. apply level_eqb_eq in H2. apply Bool.eqb_prop in H3. subst. reflexivity.
  - apply andb_prop in H as [H1 H2]. apply top_eqb_eq in H1. apply re_eqb_eq in H2. subst. reflexivity.
Qed.

Lemma classify_from_facts tbl Gm cls :
  (forall l, In l tbl -> fact_holds (FLevel Gm l (in_class cls l))) ->
  forall s, all_bytes s = true -> accepts Gm s = true -> classify tbl s = expected tbl cls.
Proof.
  unfold classify, expected. intros H s Hs HG. f_equal.
  induction tbl as [|l tbl IH]; [reflexivity|]. cbn [filter].
  rewrite IH by (intros l' Hl'; apply H; right; exact Hl').
  pose proof (H l (or_introl eq_refl) s Hs HG) as E. cbn in E. rewrite E. reflexivity.
Qed.

(* all decided facts hold; an obligation all of whose facts are decided holds *)
Theorem obligations_sound CL atoms fuel decided obs :
  forallb (fact_check CL atoms fuel) decided = true ->
  forallb (ob_covered decided) obs = true ->
  forall o, In o obs -> ob_holds o.
Proof.
  intros Hdec Hcov o Ho. rewrite forallb_forall in Hdec, Hcov. specialize (Hcov o Ho).
  unfold ob_covered in Hcov. rewrite forallb_forall in Hcov.
  assert (Hf : forall f, In f (ob_facts o) -> fact_holds f).
  { intros f Hin. specialize (Hcov f Hin). apply existsb_exists in Hcov as [g [Hg He]].
    apply fact_eqb_eq in He. subst g. apply (fact_check_sound CL atoms fuel). apply Hdec. exact Hg. }
  unfold ob_holds. intros s Hs. split.
  - apply classify_from_facts; [|exact Hs]. intros l Hl. apply Hf. unfold ob_facts.
    apply in_or_app. left. apply in_map_iff. exists l. split; [reflexivity|exact Hl].
  - assert (Hd : fact_holds (FDetect (o_D o) (o_combined o))).
    { apply Hf. unfold ob_facts. apply in_or_app. right. left. reflexivity. }
    exact (Hd s Hs).
Qed.
